#!/bin/bash
# Runs every registered check's quick (or $1) tier, N at a time; summary to stdout.
tier=${1:-quick}; par=${2:-4}
ids=$(python3 -c "import json;print(' '.join(c['property_id'] for c in json.load(open('MANIFEST.json'))['checks']))")
mkdir -p .work/logs
printf "%s\n" $ids | xargs -P $par -I{} sh -c "./check {} $tier > .work/logs/{}.$tier.log 2>&1; echo {} rc=\$? \$(grep -v KNOWN .work/logs/{}.$tier.log | tail -1 | cut -c1-160)"
