"""Registry of checks: property id -> how ./check runs it and what MANIFEST.json says about it.
Fragments live in reg/<group>.py, each defining CHECKS = {...} built with reg.c(...).
quick/thorough: checks = rapid cases per shard, shards = parallel processes, timeout = seconds (go test deadline)."""
import glob, importlib.util, os

_here = os.path.dirname(os.path.abspath(__file__))
CHECKS = {}
for _f in sorted(glob.glob(os.path.join(_here, "reg", "*.py"))):
    if os.path.basename(_f).startswith("_"):
        continue
    _spec = importlib.util.spec_from_file_location("reg_" + os.path.basename(_f)[:-3], _f)
    _m = importlib.util.module_from_spec(_spec)
    _spec.loader.exec_module(_m)
    CHECKS.update(_m.CHECKS)

# properties deliberately not claimed, with reason (others missing from CHECKS are "not built yet")
NOT_APPLICABLE = {}

# commits in /repo that add build-tag-guarded hooks
HOOK_COMMITS = ["f9c6782 app/verif_export.go keeper accessors", "b3d4e6b x/pocketcore verif_yield.go + 2 call lines (relay schedule yield points)"]
