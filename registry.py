"""Registry of checks: property id -> how ./check runs it and what MANIFEST.json says about it.
quick/thorough: checks = rapid cases per shard, shards = parallel processes, timeout = seconds (go test deadline)."""

def _c(group, test, quick, thorough, level="exploration", **kw):
    d = dict(group=group, test=test, quick=quick, thorough=thorough, level=level)
    d.update(kw)
    return d

CHECKS = {
    "C01": _c("store", "TestC01", dict(checks=3000, timeout=300), dict(checks=30000, shards=14, timeout=1500),
              technique="stateful property-based testing (rapid state machine) against a map-overlay reference model",
              design_ref="§7 C01",
              level_text="Generated operation histories over nested cachekv stores compared step by step with a map overlay model; "
                         "exploration only: bounded history length and a small key alphabet, no absence claim.",
              level_note="Trusts tm-db MemDB as the base store, rapid, and the ~40-line overlay model. Concurrency on the store mutex is not explored."),
}

# properties deliberately not claimed, with reason (others missing from CHECKS are "not built yet")
NOT_APPLICABLE = {}

# commits in /repo that add build-tag-guarded hooks
HOOK_COMMITS = []
