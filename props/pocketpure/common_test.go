// Package pocketpure holds the checks for the pure / keeper-level pocketcore properties:
// C29 (MSI proof completeness), C30 (MSI proof soundness), C31 (leaf unpredictability), C33 (sessions).
package pocketpure

import (
	"fmt"
	"crypto/sha256"
	"encoding/binary"
	"encoding/hex"
	"math"

	"github.com/pokt-network/pocket-core/codec"
	sdk "github.com/pokt-network/pocket-core/types"
	pc "github.com/pokt-network/pocket-core/x/pocketcore/types"
)

// resetGlobals puts every process-global the code under test reads back to the state of a fresh process
// (mainnet defaults: codec upgrade at 30024, no named feature active, no test short-circuit).
func resetGlobals() {
	codec.UpgradeHeight = math.MaxInt64
	codec.OldUpgradeHeight = 0
	codec.TestMode = 0
	for k := range codec.UpgradeFeatureMap {
		delete(codec.UpgradeFeatureMap, k)
	}
	pc.ModuleCdc.DisableUpgradeOverride()
	sdk.GlobalCtxCache = nil
	pc.GlobalSessionCache = nil
}

// hashFormat selects which parent-hash format a height maps to, through the real globals.
type hashFormat struct {
	name   string
	height int64 // session height passed to the merkle functions
	post   bool  // expected: index-binding (post codec upgrade) parent hash
	alt    int64 // a height that maps to the OTHER format under the same globals (-1: none)
}

// applyFormat sets the globals for one of the ways production reaches each format and returns the height to use.
//
//	0: mainnet defaults, height below the codec upgrade height (legacy parent hash)
//	1: mainnet defaults, height at/above the codec upgrade height
//	2: custom (testnet style) upgrade height u, height u-1 (legacy)
//	3: custom upgrade height u, height >= u
//	4: TestMode -1 (always upgraded), small height
func applyFormat(kind int, off int64) hashFormat {
	resetGlobals()
	switch kind {
	case 0:
		return hashFormat{"mainnet-legacy", codec.UpgradeCodecHeight - 1 - off, false, codec.UpgradeCodecHeight + off}
	case 1:
		return hashFormat{"mainnet-upgraded", codec.UpgradeCodecHeight + off, true, codec.UpgradeCodecHeight - 1 - off}
	case 2:
		codec.UpgradeHeight = 1000 + off
		return hashFormat{"custom-legacy", 999 + off, false, 1000 + off}
	case 3:
		codec.UpgradeHeight = 1000
		return hashFormat{"custom-upgraded", 1000 + off, true, 999}
	default:
		codec.TestMode = -1
		return hashFormat{"testmode-upgraded", 1 + off, true, -1}
	}
}

// detBytes derives n deterministic bytes from a label and counters (no OS randomness anywhere).
func detBytes(n int, label string, ctr ...uint64) []byte {
	var out []byte
	for blk := uint64(0); len(out) < n; blk++ {
		h := sha256.New()
		h.Write([]byte(label))
		var b [8]byte
		for _, c := range ctr {
			binary.BigEndian.PutUint64(b[:], c)
			h.Write(b[:])
		}
		binary.BigEndian.PutUint64(b[:], blk)
		h.Write(b[:])
		out = append(out, h.Sum(nil)...)
	}
	return out[:n]
}

func detHex(n int, label string, ctr ...uint64) string {
	return hex.EncodeToString(detBytes(n, label, ctr...))
}

// relaySet describes the fields every relay proof of one evidence shares (one servicer, one app, one session).
type relaySet struct {
	seed      uint64
	height    int64
	chain     string
	servicer  string
	appPub    string
	clientPub string
}

func newRelaySet(seed uint64, height int64) relaySet {
	return relaySet{seed: seed, height: height, chain: "0001",
		servicer:  detHex(32, "servicer", seed),
		appPub:    detHex(32, "app", seed),
		clientPub: detHex(32, "client", seed)}
}

func (rs relaySet) header() pc.SessionHeader {
	return pc.SessionHeader{ApplicationPubKey: rs.appPub, Chain: rs.chain, SessionBlockHeight: rs.height}
}

// relay builds the i-th relay proof of the set: distinct entropy and request hash, everything else shared,
// exactly what distinguishes the relays of one evidence in production.
func (rs relaySet) relay(i uint64) pc.RelayProof {
	return pc.RelayProof{
		RequestHash:        detHex(32, "req", rs.seed, i),
		Entropy:            int64(binary.BigEndian.Uint64(detBytes(8, "entropy", rs.seed, i)) >> 1),
		SessionBlockHeight: rs.height,
		ServicerPubKey:     rs.servicer,
		Blockchain:         rs.chain,
		Token: pc.AAT{Version: "0.0.1", ApplicationPublicKey: rs.appPub, ClientPublicKey: rs.clientPub,
			ApplicationSignature: detHex(64, "appsig", rs.seed)},
		Signature: detHex(64, "sig", rs.seed, i),
	}
}

func (rs relaySet) proofs(n int) []pc.Proof {
	out := make([]pc.Proof, n)
	for i := range out {
		out[i] = rs.relay(uint64(i))
	}
	return out
}

// challenge builds the i-th challenge-evidence leaf of the set: two agreeing (majority) responses and one deviating
// (minority) response of three different servicers to the same relay.
func (rs relaySet) challenge(i uint64) pc.ChallengeProofInvalidData {
	resp := func(who uint64, payload string) pc.RelayResponse {
		p := rs.relay(i)
		p.ServicerPubKey = detHex(32, "challenge-servicer", rs.seed, who)
		p.Signature = detHex(64, "challenge-proof-sig", rs.seed, i, who)
		return pc.RelayResponse{Signature: detHex(64, "challenge-resp-sig", rs.seed, i, who), Response: payload, Proof: p}
	}
	return pc.ChallengeProofInvalidData{
		MajorityResponses: []pc.RelayResponse{resp(1, fmt.Sprintf("majority-%d", i)), resp(2, fmt.Sprintf("majority-%d", i))},
		MinorityResponse:  resp(3, fmt.Sprintf("minority-%d", i)),
		ReporterAddress:   detBytes(20, "reporter", rs.seed),
	}
}

func (rs relaySet) challengeProofs(n int) []pc.Proof {
	out := make([]pc.Proof, n)
	for i := range out {
		out[i] = rs.challenge(uint64(i))
	}
	return out
}

func cloneProofs(p []pc.Proof) []pc.Proof { return append([]pc.Proof(nil), p...) }

// keeperLevels restates the level count exactly as the keeper derives it from the claimed relay count.
func keeperLevels(total int) int { return int(math.Ceil(math.Log2(float64(total)))) }

func cloneHashRange(h pc.HashRange) pc.HashRange {
	return pc.HashRange{Hash: append([]byte(nil), h.Hash...), Range: h.Range}
}

func cloneMerkleProof(mp pc.MerkleProof) pc.MerkleProof {
	out := pc.MerkleProof{TargetIndex: mp.TargetIndex, Target: cloneHashRange(mp.Target)}
	for _, h := range mp.HashRanges {
		out.HashRanges = append(out.HashRanges, cloneHashRange(h))
	}
	return out
}
