package pocketpure

import (
	"bytes"
	"fmt"
	"sort"
	"sync"
	"testing"

	dbm "github.com/tendermint/tm-db"
	"pgregory.net/rapid"

	sdk "github.com/pokt-network/pocket-core/types"
	pc "github.com/pokt-network/pocket-core/x/pocketcore/types"

	"verif/harness"
)

// C29: for any set of >= 5 distinct relay proofs and any leaf index, the generated proof verifies against the
// generated root with the level count derived from the relay count.

type splitmix struct{ s uint64 }

func (r *splitmix) next() uint64 {
	r.s += 0x9e3779b97f4a7c15
	z := r.s
	z = (z ^ (z >> 30)) * 0xbf58476d1ce4e5b9
	z = (z ^ (z >> 27)) * 0x94d049bb133111eb
	return z ^ (z >> 31)
}

func shuffled(p []pc.Proof, seed uint64) []pc.Proof {
	out := cloneProofs(p)
	r := &splitmix{seed}
	for i := len(out) - 1; i > 0; i-- {
		j := int(r.next() % uint64(i+1))
		out[i], out[j] = out[j], out[i]
	}
	return out
}

func isPow2(n int) bool { return n&(n-1) == 0 }

// drawTreeSize concentrates on 2^k-1, 2^k, 2^k+1 (padding boundaries) and fills in with uniform sizes.
func drawTreeSize(rt *rapid.T, maxPow int, maxN int) int {
	if rapid.IntRange(0, 2).Draw(rt, "sizeKind") < 2 {
		k := rapid.IntRange(3, maxPow).Draw(rt, "pow")
		n := (1 << uint(k)) + rapid.IntRange(-1, 1).Draw(rt, "delta")
		if n < 5 {
			n = 5
		}
		return n
	}
	return rapid.IntRange(5, maxN).Draw(rt, "n")
}

func drawFormat(rt *rapid.T) hashFormat {
	kind := rapid.IntRange(0, 4).Draw(rt, "formatKind")
	off := int64(rapid.IntRange(0, 40).Draw(rt, "heightOffset"))
	return applyFormat(kind, off)
}

func sampleIndices(rt *rapid.T, n int, exhaustiveUpTo int, samples int) []int {
	if n <= exhaustiveUpTo {
		out := make([]int, n)
		for i := range out {
			out[i] = i
		}
		return out
	}
	set := map[int]struct{}{0: {}, 1: {}, n - 1: {}, n - 2: {}, (n - 1) &^ 1: {}, n / 2: {}}
	for i := 0; i < samples; i++ {
		set[rapid.IntRange(0, n-1).Draw(rt, "idx")] = struct{}{}
	}
	var out []int
	for i := range set {
		out = append(out, i)
	}
	sort.Ints(out)
	return out
}

func newEvidenceStore() *pc.CacheStorage {
	return &pc.CacheStorage{Cache: sdk.NewCache(16), DB: dbm.NewMemDB(), SealMap: &sync.Map{}}
}

func TestC29(t *testing.T) {
	harness.Check(t, "C29",
		"n relay proofs of one evidence (distinct entropy/request hash; n 2/3 of the time 2^k-1|2^k|2^k+1 for k=3..8, else uniform 5..300), handed over in a generated order, "+
			"session height chosen so that the real codec globals select the legacy or the index-binding parent hash (5 ways: mainnet below/above 30024, custom upgrade height below/above, TestMode -1). "+
			"Every leaf index for n<=64, else boundary indices + 20 sampled. Oracle: GenerateProofs(i) validates against GenerateRoot with levels=ceil(log2 n) as ValidateProof derives it, "+
			"(true,false); len(HashRanges)==levels; root.lower==0; root independent of input order; every input relay is the leaf of exactly one index (n<=64). "+
			"1/3 of cases additionally go through Evidence.GenerateMerkleRoot/GenerateMerkleProof with a max-relays cut around n. A further share of the cases takes the honest proof through the real keeper "+
			"and proof handler (claim of n relays stored, demanded index found by probing, proof for that index must be accepted and paid once: the keeper's own level count). non-trivial = n not a power of two (padding present)",
		map[string]float64{"padding": 0.5, "power-of-two": 0.1, "one-pad": 0.1, "max-pad": 0.1, "legacy-hash": 0.25, "index-binding-hash": 0.4, "evidence-path": 0.2, "evidence-cut-applies": 0.08, "keeper-path": 0.08, "keeper-path-power-of-two": 0.015},
		func(rt *rapid.T, c *harness.Case) {
			// one case in six goes through the real keeper and proof handler instead (claim stored, demanded index probed)
			if rapid.IntRange(0, 5).Draw(rt, "keeperPath") == 3 {
				c29Keeper(rt, c)
				return
			}
			f := drawFormat(rt)
			n := drawTreeSize(rt, 8, 300)
			seed := rapid.Uint64().Draw(rt, "seed")
			order := rapid.Uint64().Draw(rt, "order")
			c.Opf("format=%s height=%d n=%d relays-seed=%x order-seed=%x", f.name, f.height, n, seed, order)
			if f.post {
				c.Label("index-binding-hash")
			} else {
				c.Label("legacy-hash")
			}
			if isPow2(n) {
				c.Label("power-of-two")
			} else {
				c.Label("padding")
				c.NonTrivial()
			}
			if isPow2(n + 1) {
				c.Label("one-pad")
			}
			if isPow2(n - 1) {
				c.Label("max-pad")
			}
			rs := newRelaySet(seed, f.height)
			canonical := rs.proofs(n)
			input := shuffled(canonical, order)
			levels := keeperLevels(n)

			root, sortedLeaves := pc.GenerateRoot(f.height, cloneProofs(input))
			if root.Range.Lower != 0 {
				c.Violation("C29/root/lower-not-zero", "n=%d root range %v", n, root.Range)
			}
			if len(root.Hash) != pc.MerkleHashLength || root.Range.Upper <= root.Range.Lower {
				c.Violation("C29/root/malformed", "n=%d root %x %v", n, root.Hash, root.Range)
			}
			root2, _ := pc.GenerateRoot(f.height, cloneProofs(canonical))
			if !root2.Equal(root) {
				c.Violation("C29/root/depends-on-input-order", "n=%d: root from shuffled input %x %v, from generation order %x %v", n, root.Hash, root.Range, root2.Hash, root2.Range)
			}
			if len(sortedLeaves) != n {
				c.Violation("C29/root/sorted-leaves-length", "n=%d got %d sorted leaves", n, len(sortedLeaves))
			}

			idxs := sampleIndices(rt, n, 64, 20)
			if n <= 64 {
				c.Label("all-indices")
			} else {
				c.Label("sampled-indices")
			}
			seen := map[string]int{}
			for _, idx := range idxs {
				mp, leaf := pc.GenerateProofs(f.height, cloneProofs(input), idx)
				if len(mp.HashRanges) != levels {
					c.Violation("C29/proof/level-count", "n=%d idx=%d: %d sibling levels, keeper expects ceil(log2 n)=%d", n, idx, len(mp.HashRanges), levels)
				}
				if mp.TargetIndex != int64(idx) {
					c.Violation("C29/proof/target-index", "n=%d idx=%d: proof carries index %d", n, idx, mp.TargetIndex)
				}
				valid, replay := cloneMerkleProof(mp).Validate(f.height, root, leaf, levels)
				if !valid || replay {
					c.Violation("C29/proof/does-not-verify", "format=%s n=%d idx=%d (levels %d): Validate = (%v,%v), want (true,false)", f.name, n, idx, levels, valid, replay)
				}
				if !bytes.Equal(leaf.Hash(), sortedLeaves[idx].Hash()) {
					c.Violation("C29/proof/leaf-order-differs-from-root-order", "n=%d idx=%d: GenerateProofs leaf %x, GenerateRoot sorted leaf %x", n, idx, leaf.Hash(), sortedLeaves[idx].Hash())
				}
				seen[string(leaf.Hash())]++
				if idx >= (n-1)&^1 && !isPow2(n) {
					c.Label("index-next-to-padding")
				}
			}
			c.AddExtra("proofs_verified", len(idxs))
			if n <= 64 {
				for _, p := range canonical {
					if seen[string(p.Hash())] != 1 {
						c.Violation("C29/proof/relay-not-provable-exactly-once", "n=%d: relay %x is the leaf of %d indices", n, p.Hash(), seen[string(p.Hash())])
					}
				}
			}

			// the path the node software takes: evidence -> sealed root (claim) -> later proof, with the max-relays cut
			if rapid.IntRange(0, 2).Draw(rt, "evidencePath") == 0 {
				c.Label("evidence-path")
				max := int64(rapid.IntRange(5, n+3).Draw(rt, "maxRelays"))
				m := n
				if int64(n) > max {
					m = int(max)
					c.Label("evidence-cut-applies")
				}
				c.Opf("evidence maxRelays=%d -> %d leaves", max, m)
				storage := newEvidenceStore()
				ev := pc.Evidence{SessionHeader: rs.header(), NumOfProofs: int64(n), Proofs: cloneProofs(input), EvidenceType: pc.RelayEvidence}
				eroot := ev.GenerateMerkleRoot(f.height, max, storage)
				wantRoot, _ := pc.GenerateRoot(f.height, cloneProofs(input[:m]))
				if !eroot.Equal(wantRoot) {
					c.Violation("C29/evidence/root-differs-from-root-of-first-max-relays", "n=%d max=%d: evidence root %x %v, root of first %d relays %x %v", n, max, eroot.Hash, eroot.Range, m, wantRoot.Hash, wantRoot.Range)
				}
				stored, err := pc.GetEvidence(rs.header(), pc.RelayEvidence, sdk.ZeroInt(), storage)
				if err != nil {
					rt.Fatalf("harness: sealed evidence not found: %v", err)
				}
				elevels := keeperLevels(m)
				for _, idx := range sampleIndices(rt, m, 16, 6) {
					mp, leaf := stored.GenerateMerkleProof(f.height, idx, max)
					if len(mp.HashRanges) != elevels {
						c.Violation("C29/evidence/level-count", "n=%d max=%d idx=%d: %d levels, want %d", n, max, idx, len(mp.HashRanges), elevels)
					}
					valid, replay := cloneMerkleProof(mp).Validate(f.height, eroot, leaf, elevels)
					if !valid || replay {
						c.Violation("C29/evidence/proof-does-not-verify", "format=%s n=%d max=%d idx=%d: Validate = (%v,%v)", f.name, n, max, idx, valid, replay)
					}
					c.AddExtra("proofs_verified", 1)
				}
			}
		})
}

var _ = fmt.Sprintf

// c29Keeper takes the honest proof through the real keeper and message handler: a claim of n distinct relays is stored,
// the index the chain demands is found by black-box probing, and the proof generated for that index from the same set must
// be accepted and paid exactly once - the level count the keeper derives from the claimed relay count included.
func c29Keeper(rt *rapid.T, c *harness.Case) {
	mode := c31Mode{"pre-upgrade", false}
	if rapid.Bool().Draw(rt, "repbrActive") {
		mode = c31Mode{"post-upgrade", true}
	}
	mode.apply()
	defer resetGlobals()
	salt := uint64(rapid.IntRange(1, 1<<30).Draw(rt, "chainSalt"))
	const s = int64(2)
	fx := newChainFx(1, 2, 6, salt)
	for h := int64(1); h <= 5; h++ {
		fx.begin(h)
		fx.end(h)
	}
	ctx := fx.begin(6)
	n := drawTreeSize(rt, 6, 70)
	L := keeperLevels(n)
	c.Label("keeper-path")
	if isPow2(n) {
		c.Label("keeper-path-power-of-two")
	} else {
		c.NonTrivial()
	}
	rs := fx.witness
	rs.height = s
	hdr := rs.header()
	junk := pc.MsgClaim{SessionHeader: hdr, MerkleRoot: pc.HashRange{Hash: detBytes(32, "junkroot"), Range: pc.Range{Upper: 1 << 40}}, TotalProofs: int64(n),
		FromAddress: fx.node, EvidenceType: pc.RelayEvidence, ExpirationHeight: 1 << 40}
	if err := fx.k.SetClaim(ctx, junk); err != nil {
		rt.Fatalf("harness: %v", err)
	}
	// the index the chain demands for this claim: probed with junk branches of every plausible length (the level count is
	// the keeper's business, so the probe does not presuppose it)
	req := -1
	for idx := 0; idx < n && req < 0; idx++ {
		for _, levels := range []int{L, L + 1, L - 1} {
			if levels < 1 {
				continue
			}
			mp := pc.MerkleProof{TargetIndex: int64(idx), Target: pc.HashRange{Hash: detBytes(32, "junktarget"), Range: pc.Range{Lower: 5, Upper: 9}}}
			for i := 0; i < levels; i++ {
				mp.HashRanges = append(mp.HashRanges, pc.HashRange{Hash: detBytes(32, "junksib", uint64(i)), Range: pc.Range{Lower: 9, Upper: 1 << 40}})
			}
			if r := fx.classifyProof(ctx, pc.MsgProof{MerkleProof: mp, Leaf: rs.relay(0), EvidenceType: pc.RelayEvidence}); r == "match" {
				req = idx
				break
			}
		}
	}
	if req < 0 {
		rt.Fatalf("harness: no index passes the index check for n=%d", n)
	}
	input := shuffled(rs.proofs(n), salt)
	root, _ := pc.GenerateRoot(s, cloneProofs(input))
	mp, leaf := pc.GenerateProofs(s, cloneProofs(input), req)
	c.Opf("keeper mode=%s chain-salt=%d n=%d levels=%d required-index=%d", mode.name, salt, n, len(mp.HashRanges), req)
	claim := junk
	claim.MerkleRoot = root
	if err := fx.k.SetClaim(ctx, claim); err != nil {
		rt.Fatalf("harness: %v", err)
	}
	burns, rewards := len(fx.pos.burns), len(fx.pos.rewards)
	res := fx.handler(ctx, pc.MsgProof{MerkleProof: mp, Leaf: leaf, EvidenceType: pc.RelayEvidence}, nil)
	_, claimStillThere := fx.k.GetClaim(ctx, fx.node, hdr, pc.RelayEvidence)
	newBurns, newRewards := fx.pos.burns[burns:], fx.pos.rewards[rewards:]
	wantReward := fmt.Sprintf("%s:%d", fx.node.String(), n)
	if !res.IsOK() || len(newRewards) != 1 || newRewards[0] != wantReward || len(newBurns) != 0 || claimStillThere {
		c.Violation("C29/handler/honest-proof-not-honoured", "mode=%s n=%d idx=%d levels=%d: the proof generated for the demanded index from the claimed set was not accepted and paid once: code %d log %s rewards %v burns %v claimStillThere=%v",
			mode.name, n, req, len(mp.HashRanges), res.Code, res.Log, newRewards, newBurns, claimStillThere)
	}
}
