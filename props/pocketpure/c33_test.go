package pocketpure

import (
	"fmt"
	"testing"
	"time"

	abci "github.com/tendermint/tendermint/abci/types"
	"github.com/tendermint/tendermint/libs/log"
	"pgregory.net/rapid"

	"github.com/pokt-network/pocket-core/codec"
	sdk "github.com/pokt-network/pocket-core/types"
	nodesTypes "github.com/pokt-network/pocket-core/x/nodes/types"
	pc "github.com/pokt-network/pocket-core/x/pocketcore/types"

	"verif/harness"
)

// C33: session generation is deterministic, returns exactly the configured number of distinct eligible nodes,
// and fails only when fewer eligible nodes exist.

// c33Deadline bounds one session generation. A generation over <= 45 candidates takes well under a millisecond;
// the bound is > 10^4 times that and only serves to turn a non-terminating selection loop into a report.
const c33Deadline = 30 * time.Second

type c33Node struct {
	addr     sdk.Address
	exists   bool
	jailed   bool
	hasChain bool
	nChains  int
}

type c33Pop struct {
	chain     string
	nodes     []c33Node
	maxChains int64
	// when split, the stub answers a ctx at startHeight with the session-start world (every listed node present,
	// unjailed, staked for the chain) and any other ctx with the reference world, whose by-chain list additionally
	// holds newcomers that are perfectly eligible at the reference height but were not staked at session start
	split       bool
	startHeight int64
	newcomers   []sdk.Address
}

func (p c33Pop) stub() *stubPos {
	s := &stubPos{bps: 4, maxChains: p.maxChains, byChain: map[string][]sdk.Address{}, vals: map[string]nodesTypes.Validator{}}
	for _, n := range p.nodes {
		s.byChain[p.chain] = append(s.byChain[p.chain], n.addr)
		if !n.exists {
			continue
		}
		var chains []string
		if n.hasChain {
			chains = append(chains, p.chain)
		}
		for i := 0; len(chains) < n.nChains; i++ {
			ch := fmt.Sprintf("%04X", 0x1000+i)
			if ch != p.chain {
				chains = append(chains, ch)
			}
		}
		// the relay chain is not always first in the list
		if n.hasChain && len(chains) > 1 && n.addr[0]%2 == 0 {
			chains[0], chains[len(chains)-1] = chains[len(chains)-1], chains[0]
		}
		s.vals[n.addr.String()] = nodesTypes.Validator{Address: n.addr, Jailed: n.jailed, Status: sdk.Staked, Chains: chains,
			StakedTokens: sdk.NewInt(15000000000), OutputAddress: n.addr}
	}
	if p.split {
		s.startHeight = p.startHeight
		s.startVals = map[string]nodesTypes.Validator{}
		s.byChainLater = map[string][]sdk.Address{}
		for _, n := range p.nodes {
			s.startVals[n.addr.String()] = nodesTypes.Validator{Address: n.addr, Status: sdk.Staked, Chains: []string{p.chain},
				StakedTokens: sdk.NewInt(15000000000), OutputAddress: n.addr}
		}
		later := append([]sdk.Address{}, p.newcomers...)
		for i := len(p.nodes) - 1; i >= 0; i-- {
			later = append(later, p.nodes[i].addr)
		}
		s.byChainLater[p.chain] = later
		for _, a := range p.newcomers {
			s.vals[a.String()] = nodesTypes.Validator{Address: a, Status: sdk.Staked, Chains: []string{p.chain}, StakedTokens: sdk.NewInt(15000000000), OutputAddress: a}
		}
	}
	return s
}

type c33Result struct {
	nodes pc.SessionNodes
	err   sdk.Error
	pan   interface{}
	done  bool
}

func c33Run(sessionCtx, ctx sdk.Ctx, stub *stubPos, hdr pc.SessionHeader, blockHash string, count int) c33Result {
	ch := make(chan c33Result, 1)
	go func() {
		var r c33Result
		defer func() {
			if p := recover(); p != nil {
				r.pan = p
			}
			r.done = true
			ch <- r
		}()
		s, err := pc.NewSession(sessionCtx, ctx, stub, hdr, blockHash, count)
		r.nodes, r.err = s.SessionNodes, err
	}()
	select {
	case r := <-ch:
		return r
	case <-time.After(c33Deadline):
		return c33Result{}
	}
}

func TestC33(t *testing.T) {
	harness.Check(t, "C33",
		"NewSession/NewSessionNodes against a data-only PosKeeper stub: session node count 1..25 (the range params validation admits); the population is constructed as "+
			"(count + slack) eligible nodes, slack in {0,+-1,+-2,+-4,9,20}, plus 0..13 ineligible nodes {jailed, missing, relay chain dropped, over the chain limit when enforced} at generated "+
			"positions of the session-start list; 1..22 chains per node incl. exactly at the limit; max-chains 1..20, "+
			"enforce-max-chains feature {never, scheduled later, active by height, TestMode -3}, generated app key / chain / block hash; the stub answers a ctx at the session height with the session-start world (all listed nodes fine) and any other ctx with the "+
			"reference world (generated attributes, by-chain list reordered and extended by 3 eligible newcomers). Oracle: E = nodes of the session-start list that at the "+
			"reference height exist, are not jailed, still list the chain and (when enforced) have <= max-chains chains; |E| >= count <=> no error, and then exactly count nodes, distinct, all in E; "+
			"two runs on independently built equal stubs return the same ordered list; each run ends within 30 s (> 10^4 x the normal duration; only bound). "+
			"non-trivial = |E| within 2 of count, or at least one ineligible node in the population",
		map[string]float64{"exact-fit": 0.05, "one-short": 0.05, "error-expected": 0.15, "success-expected": 0.4, "has-jailed": 0.3, "has-overchained-enforced": 0.1, "has-missing": 0.2,
			"has-chain-dropped": 0.2, "enforce-on": 0.25, "enforce-off": 0.25, "list-shorter-than-count": 0.05, "worlds-differ": 0.5},
		func(rt *rapid.T, c *harness.Case) {
			resetGlobals()
			count := rapid.IntRange(1, 25).Draw(rt, "count")
			// construction, not rejection: the number of eligible nodes is placed relative to the session node count
			slack := rapid.SampledFrom([]int{0, -1, 1, 2, -2, 4, 9, -4, 20}).Draw(rt, "eligibleMinusCount")
			wantEligible := count + slack
			if wantEligible < 0 {
				wantEligible = 0
			}
			nIneligible := rapid.SampledFrom([]int{0, 1, 2, 3, 5, 8, 13}).Draw(rt, "ineligible")
			size := wantEligible + nIneligible
			maxChains := int64(rapid.IntRange(1, 20).Draw(rt, "maxChains"))
			if rapid.Bool().Draw(rt, "defaultMaxChains") {
				maxChains = 15
			}
			sessionHeight := int64(rapid.IntRange(1, 5000).Draw(rt, "sessionHeight"))
			refHeight := sessionHeight + int64(rapid.IntRange(0, 30).Draw(rt, "refOffset"))
			split := refHeight != sessionHeight
			enforce := false
			enforceKind := rapid.SampledFrom([]string{"never", "later", "by-height", "by-height-exact", "testmode"}).Draw(rt, "enforceKind")
			switch enforceKind {
			case "later":
				codec.UpgradeFeatureMap[codec.EnforceMaxChainsUpdateKey] = refHeight + 1
			case "by-height":
				codec.UpgradeFeatureMap[codec.EnforceMaxChainsUpdateKey] = int64(rapid.IntRange(1, int(refHeight)).Draw(rt, "enforceFrom"))
				enforce = true
			case "by-height-exact":
				codec.UpgradeFeatureMap[codec.EnforceMaxChainsUpdateKey] = refHeight
				enforce = true
			case "testmode":
				codec.TestMode = -3
				enforce = true
			}
			seed := rapid.Uint64().Draw(rt, "seed")
			chain := fmt.Sprintf("%04X", rapid.IntRange(1, 0x0fff).Draw(rt, "chain"))
			pop := c33Pop{chain: chain, maxChains: maxChains, split: split, startHeight: sessionHeight}
			if split {
				c.Label("worlds-differ")
				for i := 0; i < 3; i++ {
					pop.newcomers = append(pop.newcomers, sdk.Address(detBytes(20, "c33-newcomer", seed, uint64(i))))
				}
			} else {
				c.Label("reference-height-is-session-height")
			}
			eligible := map[string]bool{}
			listed := map[string]bool{}
			ineligible := 0
			// positions of the ineligible nodes inside the session-start list
			bad := map[int]bool{}
			{
				r := &splitmix{seed ^ 0x1234}
				for len(bad) < nIneligible {
					bad[int(r.next()%uint64(size))] = true
				}
			}
			for i := 0; i < size; i++ {
				n := c33Node{addr: sdk.Address(detBytes(20, "c33-node", seed, uint64(i))), exists: true, hasChain: true}
				n.nChains = rapid.SampledFrom([]int{1, 2, 3, 15, int(maxChains), 7, 20}).Draw(rt, "nChains")
				if enforce && int64(n.nChains) > maxChains && !bad[i] {
					n.nChains = int(maxChains) // eligible node exactly at the limit
					c.Label("has-node-at-chain-limit")
				}
				if bad[i] {
					kinds := []string{"jailed", "missing", "chain-dropped"}
					if enforce && maxChains < 20 {
						kinds = append(kinds, "overchained")
					}
					switch rapid.SampledFrom(kinds).Draw(rt, "badKind") {
					case "jailed":
						n.jailed = true
						c.Label("has-jailed")
					case "missing":
						n.exists = false
						c.Label("has-missing")
					case "chain-dropped":
						n.hasChain = false
						c.Label("has-chain-dropped")
					case "overchained":
						n.nChains = int(maxChains) + rapid.SampledFrom([]int{1, 2, 5}).Draw(rt, "over")
					}
				}
				ok := n.exists && !n.jailed && n.hasChain
				if ok && enforce && int64(n.nChains) > maxChains {
					ok = false
					c.Label("has-overchained-enforced")
				}
				if n.exists && !enforce && int64(n.nChains) > maxChains {
					c.Label("has-overchained-not-enforced")
				}
				if ok {
					eligible[n.addr.String()] = true
				} else {
					ineligible++
				}
				listed[n.addr.String()] = true
				pop.nodes = append(pop.nodes, n)
				c.Opf("node %s exists=%v jailed=%v hasChain=%v chains=%d", n.addr.String()[:8], n.exists, n.jailed, n.hasChain, n.nChains)
			}
			appPub := detHex(32, "c33-app", seed)
			blockHash := detHex(32, "c33-blockhash", seed, uint64(sessionHeight))
			hdr := pc.SessionHeader{ApplicationPubKey: appPub, Chain: chain, SessionBlockHeight: sessionHeight}
			c.Opf("count=%d listed=%d eligible=%d maxChains=%d enforce=%s(%v) session=%d ref=%d chain=%s app=%s hash=%s", count, size, len(eligible), maxChains, enforceKind, enforce,
				sessionHeight, refHeight, chain, appPub[:8], blockHash[:8])
			E := len(eligible)
			if enforce {
				c.Label("enforce-on")
			} else {
				c.Label("enforce-off")
			}
			switch {
			case E == count:
				c.Label("exact-fit")
			case E == count-1:
				c.Label("one-short")
			case E == count+1:
				c.Label("one-spare")
			}
			if size < count {
				c.Label("list-shorter-than-count")
			}
			if E == 0 && size > 0 {
				c.Label("all-ineligible")
			}
			if E-count <= 2 && count-E <= 2 || ineligible > 0 {
				c.NonTrivial()
			}

			sessionCtx := sdk.NewContext(nil, abci.Header{Height: sessionHeight}, false, log.NewNopLogger())
			refCtx := sdk.NewContext(nil, abci.Header{Height: refHeight}, false, log.NewNopLogger())
			stub := pop.stub()
			r := c33Run(sessionCtx, refCtx, stub, hdr, blockHash, count)
			if !r.done {
				c.Violation("C33/session/does-not-terminate", "count=%d listed=%d eligible=%d: no result after %s", count, size, E, c33Deadline)
			}
			if r.pan != nil {
				c.Violation("C33/session/panics", "count=%d listed=%d eligible=%d: panic %v", count, size, E, r.pan)
			}
			c.AddExtra("validator_lookups", stub.calls)
			if E >= count {
				c.Label("success-expected")
				if r.err != nil {
					c.Violation("C33/session/fails-although-enough-eligible-nodes", "count=%d listed=%d eligible=%d: error %v", count, size, E, r.err)
				}
			} else {
				c.Label("error-expected")
				if r.err == nil {
					c.Violation("C33/session/succeeds-with-too-few-eligible-nodes", "count=%d listed=%d eligible=%d: returned %v", count, size, E, r.nodes)
				}
			}
			if r.err == nil {
				if len(r.nodes) != count {
					c.Violation("C33/session/wrong-node-count", "count=%d: returned %d nodes", count, len(r.nodes))
				}
				seen := map[string]bool{}
				for i, a := range r.nodes {
					if a == nil {
						c.Violation("C33/session/nil-node", "count=%d: slot %d is nil", count, i)
					}
					if seen[a.String()] {
						c.Violation("C33/session/duplicate-node", "count=%d: %s selected twice in %v", count, a, r.nodes)
					}
					seen[a.String()] = true
					if !listed[a.String()] {
						c.Violation("C33/session/node-not-staked-for-chain-at-session-start", "count=%d: %s is not in the session-start list", count, a)
					}
					if !eligible[a.String()] {
						var why string
						for _, n := range pop.nodes {
							if n.addr.String() == a.String() {
								why = fmt.Sprintf("exists=%v jailed=%v hasChain=%v chains=%d maxChains=%d enforce=%v", n.exists, n.jailed, n.hasChain, n.nChains, maxChains, enforce)
							}
						}
						c.Violation("C33/session/ineligible-node-selected", "count=%d: %s selected but %s", count, a, why)
					}
				}
			}
			// determinism: an independently built, equal world gives the same ordered answer
			r2 := c33Run(sessionCtx, refCtx, pop.stub(), hdr, blockHash, count)
			if !r2.done || r2.pan != nil {
				c.Violation("C33/session/second-run-does-not-complete", "count=%d listed=%d eligible=%d: done=%v panic=%v", count, size, E, r2.done, r2.pan)
			}
			if (r.err == nil) != (r2.err == nil) || fmt.Sprint(r.nodes) != fmt.Sprint(r2.nodes) {
				c.Violation("C33/session/not-deterministic", "count=%d listed=%d: first %v (%v), second %v (%v)", count, size, r.nodes, r.err, r2.nodes, r2.err)
			}
		})
}
