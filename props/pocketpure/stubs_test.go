package pocketpure

import (
	"fmt"

	"github.com/pokt-network/pocket-core/crypto"
	sdk "github.com/pokt-network/pocket-core/types"
	appexported "github.com/pokt-network/pocket-core/x/apps/exported"
	appsTypes "github.com/pokt-network/pocket-core/x/apps/types"
	nodesexported "github.com/pokt-network/pocket-core/x/nodes/exported"
	nodesTypes "github.com/pokt-network/pocket-core/x/nodes/types"
	pc "github.com/pokt-network/pocket-core/x/pocketcore/types"
)

// stubPos is a PosKeeper whose answers are plain data chosen by the harness. Two worlds are distinguished
// the way production distinguishes them: by the height of the ctx passed in (session start vs reference).
type stubPos struct {
	bps       int64
	maxChains int64
	// session-start world
	byChain map[string][]sdk.Address
	// reference world: address(string) -> validator; absent = not found
	vals map[string]nodesTypes.Validator
	// optional split of the two worlds by ctx height (C33): a ctx at startHeight sees startVals / byChain, any
	// other ctx sees vals / byChainLater. startHeight == 0: one world.
	startHeight  int64
	startVals    map[string]nodesTypes.Validator
	byChainLater map[string][]sdk.Address
	// recorded effects
	rewards []string
	burns   []string
	calls   int // Validator() lookups, for bookkeeping only
}

var _ pc.PosKeeper = (*stubPos)(nil)

func (s *stubPos) CalculateRelayReward(ctx sdk.Ctx, chain string, relays sdk.BigInt, stake sdk.BigInt) (sdk.BigInt, sdk.BigInt) {
	return relays, sdk.ZeroInt()
}
func (s *stubPos) RewardForRelays(ctx sdk.Ctx, relays sdk.BigInt, address sdk.Address) sdk.BigInt {
	s.rewards = append(s.rewards, fmt.Sprintf("%s:%s", address.String(), relays.String()))
	return relays
}
func (s *stubPos) RewardForRelaysPerChain(ctx sdk.Ctx, chain string, relays sdk.BigInt, address sdk.Address) sdk.BigInt {
	s.rewards = append(s.rewards, fmt.Sprintf("%s:%s", address.String(), relays.String()))
	return relays
}
func (s *stubPos) GetStakedTokens(ctx sdk.Ctx) sdk.BigInt { return sdk.ZeroInt() }
func (s *stubPos) Validator(ctx sdk.Ctx, addr sdk.Address) nodesexported.ValidatorI {
	s.calls++
	world := s.vals
	if s.startHeight != 0 && ctx.BlockHeight() == s.startHeight {
		world = s.startVals
	}
	v, ok := world[addr.String()]
	if !ok {
		return nil // untyped nil interface, exactly as the nodes keeper returns for a missing validator
	}
	return v
}
func (s *stubPos) TotalTokens(ctx sdk.Ctx) sdk.BigInt { return sdk.ZeroInt() }
func (s *stubPos) BurnForChallenge(ctx sdk.Ctx, challenges sdk.BigInt, address sdk.Address) {
	s.burns = append(s.burns, fmt.Sprintf("%s:%s", address.String(), challenges.String()))
}
func (s *stubPos) JailValidator(ctx sdk.Ctx, addr sdk.Address)                {}
func (s *stubPos) AllValidators(ctx sdk.Ctx) []nodesexported.ValidatorI       { return nil }
func (s *stubPos) GetStakedValidators(ctx sdk.Ctx) []nodesexported.ValidatorI { return nil }
func (s *stubPos) BlocksPerSession(ctx sdk.Ctx) int64                         { return s.bps }
func (s *stubPos) StakeDenom(ctx sdk.Ctx) string                              { return "upokt" }
func (s *stubPos) MaxChains(ctx sdk.Ctx) int64                                { return s.maxChains }
func (s *stubPos) GetRewardCost(ctx sdk.Ctx) sdk.BigInt                       { return sdk.ZeroInt() }
func (s *stubPos) GetValidatorsByChain(ctx sdk.Ctx, networkID string) ([]sdk.Address, int) {
	l := s.byChain[networkID]
	if s.startHeight != 0 && ctx.BlockHeight() != s.startHeight {
		l = s.byChainLater[networkID]
	}
	return append([]sdk.Address(nil), l...), len(l)
}

type stubApps struct {
	apps      map[string]appsTypes.Application
	maxChains int64
}

var _ pc.AppsKeeper = (*stubApps)(nil)

func (s *stubApps) GetStakedTokens(ctx sdk.Ctx) sdk.BigInt { return sdk.ZeroInt() }
func (s *stubApps) Application(ctx sdk.Ctx, addr sdk.Address) appexported.ApplicationI {
	a, ok := s.apps[addr.String()]
	if !ok {
		return nil
	}
	return a
}
func (s *stubApps) AllApplications(ctx sdk.Ctx) []appexported.ApplicationI { return nil }
func (s *stubApps) TotalTokens(ctx sdk.Ctx) sdk.BigInt                     { return sdk.ZeroInt() }
func (s *stubApps) JailApplication(ctx sdk.Ctx, addr sdk.Address)          {}
func (s *stubApps) MaxChains(ctx sdk.Ctx) int64                            { return s.maxChains }

func mustPub(hexKey string) crypto.PublicKey {
	pk, err := crypto.NewPublicKey(hexKey)
	if err != nil {
		panic(err)
	}
	return pk
}

func addrOfPub(hexKey string) sdk.Address { return sdk.Address(mustPub(hexKey).Address()) }
