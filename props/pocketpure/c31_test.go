package pocketpure

import (
	"bytes"
	"crypto/ed25519"
	"encoding/binary"
	"encoding/hex"
	"encoding/json"
	"fmt"
	"math/big"
	"sort"
	"testing"
	"time"

	abci "github.com/tendermint/tendermint/abci/types"
	"github.com/tendermint/tendermint/libs/log"
	tmstore "github.com/tendermint/tendermint/store"
	tmtypes "github.com/tendermint/tendermint/types"
	dbm "github.com/tendermint/tm-db"
	"pgregory.net/rapid"

	"github.com/pokt-network/pocket-core/codec"
	"github.com/pokt-network/pocket-core/crypto"
	"github.com/pokt-network/pocket-core/store"
	sdk "github.com/pokt-network/pocket-core/types"
	appsTypes "github.com/pokt-network/pocket-core/x/apps/types"
	nodesTypes "github.com/pokt-network/pocket-core/x/nodes/types"
	"github.com/pokt-network/pocket-core/x/pocketcore"
	"github.com/pokt-network/pocket-core/x/pocketcore/keeper"
	pc "github.com/pokt-network/pocket-core/x/pocketcore/types"

	"verif/harness"
)

// C31: the block hash that selects the leaf to prove is not yet known at any height at which the network
// still accepts the claim; selection is a deterministic, in-range function of that hash.
//
// Everything about the window and the entropy block is OBSERVED from the real keeper on a real multistore
// and a real tendermint block store; the harness never uses "session + window*blocks" in the oracle.

const c31Chain = "0001"
const c31ProbeTotal = int64(1000000000) // 30 levels; index coincidences between candidate hashes are negligible
const c31WitnessLeaves = 32

// documentedSelection restates doc/specs/reward_protocol.md "Pseudorandom Selection of Proof Index":
// seed = SHA3-256(json{BlockHash: hex(blockHash), Header: sessionHeaderHashHex}); index = first 8 bytes of the
// seed as a big-endian integer, modulo the claimed relay count.
func documentedSelection(total int64, blockHash []byte, header pc.SessionHeader) int64 {
	seedJSON, _ := json.Marshal(struct {
		BlockHash string
		Header    string
	}{hex.EncodeToString(blockHash), header.HashString()})
	seed := pc.Hash(seedJSON)
	return documentedIndex(big.NewInt(total), seed).Int64()
}

func documentedIndex(max *big.Int, seed []byte) *big.Int {
	v := new(big.Int).SetUint64(binary.BigEndian.Uint64(seed[:8]))
	return v.Mod(v, max)
}

type c31Mode struct {
	name     string
	upgraded bool
}

func (m c31Mode) apply() {
	resetGlobals()
	if m.upgraded {
		// every height is after the codec upgrade; the named features consulted on the claim/proof path are active
		codec.UpgradeHeight = 1
		for _, k := range []string{codec.MaxRelayProtKey, codec.ReplayBurnKey, codec.EnforceMaxChainsUpdateKey} {
			codec.UpgradeFeatureMap[k] = 1
		}
	}
	sdk.GlobalCtxCache = sdk.NewCache(256)
	pc.GlobalSessionCache = &pc.CacheStorage{Cache: sdk.NewCache(64), DB: dbm.NewMemDB()}
}

// chainFx is a miniature chain: real rootmulti store with one committed version per height, real tendermint
// block store filled block by block, real pocketcore keeper; only the pos/apps keepers are stubs.
type chainFx struct {
	b, w   int64
	hmax   int64
	ms     sdk.CommitMultiStore
	bs     *tmstore.BlockStore
	blocks map[int64]*tmtypes.Block
	parts  map[int64]*tmtypes.PartSet
	hash   map[int64][]byte // height -> hash of that block
	k      keeper.Keeper
	pos    *stubPos
	apps   *stubApps
	saved  int64

	probe            relaySet // probe claims (huge total, junk branch)
	witness          relaySet // witness claims (real tree through the handler)
	appPriv, cliPriv ed25519.PrivateKey
	node             sdk.Address
	handler          sdk.Handler
}

func newChainFx(b, w, hmax int64, salt uint64) *chainFx {
	f := &chainFx{b: b, w: w, hmax: hmax, blocks: map[int64]*tmtypes.Block{}, parts: map[int64]*tmtypes.PartSet{}, hash: map[int64][]byte{}}
	// keys: one servicer, two apps (probe / witness); the witness app and client have real key pairs
	f.appPriv = ed25519.NewKeyFromSeed(detBytes(32, "c31-app-seed", salt))
	f.cliPriv = ed25519.NewKeyFromSeed(detBytes(32, "c31-client-seed", salt))
	f.probe = relaySet{seed: salt, chain: c31Chain, servicer: detHex(32, "c31-servicer", salt), appPub: detHex(32, "c31-probe-app", salt), clientPub: detHex(32, "c31-probe-client", salt)}
	f.witness = relaySet{seed: salt + 1, chain: c31Chain, servicer: f.probe.servicer,
		appPub: hex.EncodeToString(f.appPriv.Public().(ed25519.PublicKey)), clientPub: hex.EncodeToString(f.cliPriv.Public().(ed25519.PublicKey))}
	f.node = addrOfPub(f.probe.servicer)

	f.pos = &stubPos{bps: b, maxChains: 15, byChain: map[string][]sdk.Address{c31Chain: {f.node}}, vals: map[string]nodesTypes.Validator{}}
	f.pos.vals[f.node.String()] = nodesTypes.Validator{Address: f.node, PublicKey: mustPub(f.probe.servicer), Status: sdk.Staked,
		Chains: []string{c31Chain}, StakedTokens: sdk.NewInt(15000000000), OutputAddress: f.node}
	f.apps = &stubApps{apps: map[string]appsTypes.Application{}, maxChains: 15}
	for _, ap := range []string{f.probe.appPub, f.witness.appPub} {
		a := addrOfPub(ap)
		f.apps.apps[a.String()] = appsTypes.Application{Address: a, PublicKey: mustPub(ap), Status: sdk.Staked, Chains: []string{c31Chain},
			StakedTokens: sdk.NewInt(1000000000000), MaxRelays: sdk.NewInt(10000000000000)}
	}

	db := dbm.NewMemDB()
	ms := store.NewCommitMultiStore(db, false, 5000000)
	pocketKey := sdk.NewKVStoreKey(pc.StoreKey)
	ms.MountStoreWithDB(sdk.ParamsKey, sdk.StoreTypeIAVL, nil)
	ms.MountStoreWithDB(pocketKey, sdk.StoreTypeIAVL, nil)
	ms.MountStoreWithDB(sdk.ParamsTKey, sdk.StoreTypeTransient, nil)
	ms.SetPruning(store.PruneNothing)
	if err := ms.LoadLatestVersion(); err != nil {
		panic(err)
	}
	f.ms = ms
	f.bs = tmstore.NewBlockStore(dbm.NewMemDB())
	f.k = keeper.NewKeeper(pocketKey, pc.ModuleCdc, nil, f.pos, f.apps, &pc.HostedBlockchains{M: map[string]pc.HostedBlockchain{}}, sdk.NewSubspace(pc.DefaultParamspace))
	f.handler = pocketcore.NewHandler(f.k)

	// the whole block chain is determined up front (contents do not depend on app state); blocks are SAVED one
	// by one as the heights are played, so that at height h the block store holds exactly blocks <= h
	base := time.Unix(1600000000, 0).UTC()
	var lastID tmtypes.BlockID
	for h := int64(1); h <= hmax; h++ {
		blk := &tmtypes.Block{
			Header: tmtypes.Header{ChainID: "c31", Height: h, Time: base.Add(time.Duration(h) * time.Minute), LastBlockID: lastID,
				ValidatorsHash: detBytes(32, "vals", salt), NextValidatorsHash: detBytes(32, "vals", salt), ConsensusHash: detBytes(32, "cons", salt),
				AppHash: detBytes(32, "apphash", salt, uint64(h)), ProposerAddress: detBytes(20, "proposer", salt, uint64(h))},
			LastCommit: tmtypes.NewCommit(lastID, nil),
		}
		ps := blk.MakePartSet(65536)
		f.blocks[h], f.parts[h] = blk, ps
		f.hash[h] = append([]byte(nil), blk.Hash()...)
		if len(f.hash[h]) != 32 {
			panic("block hash not computed")
		}
		lastID = tmtypes.BlockID{Hash: blk.Hash(), PartsHeader: ps.Header()}
	}

	// genesis state (version 0 working set): module params
	ctx0 := sdk.NewContext(ms, abci.Header{ChainID: "c31"}, false, log.NewNopLogger()).WithBlockStore(f.bs)
	f.k.SetParams(ctx0, pc.Params{SessionNodeCount: 1, ClaimSubmissionWindow: w, SupportedBlockchains: []string{c31Chain},
		ClaimExpiration: 100, ReplayAttackBurnMultiplier: 3, MinimumNumberOfProofs: 5, BlockByteSize: 4000000})
	return f
}

// begin makes block h the block being executed: it is in the block store (tendermint saves a decided block
// before applying it) and the returned ctx is what BeginBlock/DeliverTx of block h see.
func (f *chainFx) begin(h int64) sdk.Context {
	if f.saved != h-1 {
		panic("heights must be played in order")
	}
	blk, ps := f.blocks[h], f.parts[h]
	f.bs.SaveBlock(blk, ps, tmtypes.NewCommit(tmtypes.BlockID{Hash: blk.Hash(), PartsHeader: ps.Header()}, nil))
	f.saved = h
	hdr := abci.Header{ChainID: "c31", Height: h, Time: blk.Time, LastBlockId: abci.BlockID{Hash: blk.LastBlockID.Hash},
		ValidatorsHash: blk.ValidatorsHash, NextValidatorsHash: blk.NextValidatorsHash, ConsensusHash: blk.ConsensusHash,
		AppHash: blk.AppHash, ProposerAddress: blk.ProposerAddress}
	return sdk.NewContext(f.ms, hdr, false, log.NewNopLogger()).WithBlockStore(f.bs)
}

func (f *chainFx) end(h int64) {
	id := f.ms.Commit()
	if id.Version != h {
		panic(fmt.Sprintf("store version %d != height %d", id.Version, h))
	}
}

type c31SessionObs struct {
	s        int64
	scanTo   int64
	accepted map[int64]bool   // claim height -> ValidateClaim == nil
	reject   map[int64]uint32 // claim height -> error code
	// proof probing: proof height -> candidate block heights whose hash makes the keeper's index check pass;
	// absent key = entropy not available at that height
	match      map[int64][]int64
	candidates map[int64]int
	unstable   []string
	witness    map[int64]string // claim height -> outcome of the constructive attack through the handler
}

func (f *chainFx) probeHeader(s int64) pc.SessionHeader {
	return pc.SessionHeader{ApplicationPubKey: f.probe.appPub, Chain: c31Chain, SessionBlockHeight: s}
}

func (f *chainFx) probeClaim(s int64) pc.MsgClaim {
	return pc.MsgClaim{SessionHeader: f.probeHeader(s), MerkleRoot: pc.HashRange{Hash: detBytes(32, "junkroot"), Range: pc.Range{Lower: 0, Upper: 1 << 40}},
		TotalProofs: c31ProbeTotal, FromAddress: f.node, EvidenceType: pc.RelayEvidence}
}

// probeProof is a syntactically complete proof for the probe claim whose merkle branch is junk: it can get
// past the level-count, range-match and INDEX checks of ValidateProof but never past merkle verification.
func (f *chainFx) probeProof(s int64, index int64) pc.MsgProof {
	rs := f.probe
	rs.height = s
	levels := keeperLevels(int(c31ProbeTotal))
	mp := pc.MerkleProof{TargetIndex: index, Target: pc.HashRange{Hash: detBytes(32, "junktarget"), Range: pc.Range{Lower: 5, Upper: 9}}}
	for i := 0; i < levels; i++ {
		mp.HashRanges = append(mp.HashRanges, pc.HashRange{Hash: detBytes(32, "junksib", uint64(i)), Range: pc.Range{Lower: 9, Upper: 1 << 40}})
	}
	return pc.MsgProof{MerkleProof: mp, Leaf: rs.relay(0), EvidenceType: pc.RelayEvidence}
}

// classifyProof: "unavailable" (entropy block hash cannot be read yet), "mismatch" (index check failed),
// "match" (got past the index check and failed in merkle verification, as the junk branch must).
func (f *chainFx) classifyProof(ctx sdk.Ctx, p pc.MsgProof) string {
	_, _, err := f.k.ValidateProof(ctx, p)
	if err == nil {
		return "accepted-junk"
	}
	switch err.Code() {
	case pc.CodeInvalidProofsError:
		return "mismatch"
	case pc.CodeInvalidMerkleVerifyError, pc.CodeReplayAttackError:
		return "match"
	case sdk.CodeInternal:
		return "unavailable"
	}
	return fmt.Sprintf("unexpected-code-%d:%s", err.Code(), err.Error())
}

// signedRelay is a fully valid relay proof (AAT signed by the app, relay signed by the client).
func (f *chainFx) signedRelay(s int64, i uint64) pc.RelayProof {
	rs := f.witness
	rs.height = s
	rp := rs.relay(i)
	rp.Token.ApplicationSignature = ""
	rp.Token.ApplicationSignature = hex.EncodeToString(ed25519.Sign(f.appPriv, rp.Token.Hash()))
	rp.Signature = hex.EncodeToString(ed25519.Sign(f.cliPriv, rp.Hash()))
	return rp
}

// attack is the constructive argument, run as a servicer would run it while block h is being assembled:
// it knows the hash of block h-1 (block h's header carries it), assumes that hash is the entropy, computes the
// index for a claim of N relays, builds a tree in which only the leaf at that index is a relay it really
// served (the other N-1 leaves are never looked at by anyone), and submits claim and proof through the real
// message handler in the same block.
func (f *chainFx) attack(ctx sdk.Context, s, h int64) string {
	hdr := pc.SessionHeader{ApplicationPubKey: f.witness.appPub, Chain: c31Chain, SessionBlockHeight: s}
	known := ctx.BlockHeader().LastBlockId.Hash // public knowledge when txs for block h are authored
	if len(known) == 0 {
		return "no-previous-hash"
	}
	n := c31WitnessLeaves
	idx := int(documentedSelection(int64(n), known, hdr))
	rs := f.witness
	rs.height = s
	var junk []pc.Proof
	for j := 100; j < 100+5*n; j++ {
		junk = append(junk, rs.relay(uint64(j)))
	}
	var real pc.RelayProof
	var leaves []pc.Proof
	for try := uint64(0); try < 8 && leaves == nil; try++ {
		real = f.signedRelay(s, try)
		if err := real.ValidateBasic(); err != nil {
			return "harness: real relay invalid: " + err.Error()
		}
		_, sorted := pc.GenerateRoot(s, append(cloneProofs(junk), real))
		r := -1
		for i, p := range sorted {
			if bytes.Equal(p.Hash(), real.Hash()) {
				r = i
			}
		}
		if r >= idx && len(sorted)-1-r >= n-1-idx {
			leaves = append([]pc.Proof{}, sorted[r-idx:r+1]...)
			leaves = append(leaves, sorted[r+1:r+1+(n-1-idx)]...)
		}
	}
	if leaves == nil {
		return "harness: could not place the real leaf"
	}
	root, _ := pc.GenerateRoot(s, cloneProofs(leaves))
	mp, leaf := pc.GenerateProofs(s, cloneProofs(leaves), idx)
	if !bytes.Equal(leaf.Hash(), real.Hash()) {
		return "harness: leaf at index is not the real relay"
	}
	claim := pc.MsgClaim{SessionHeader: hdr, MerkleRoot: root, TotalProofs: int64(n), FromAddress: f.node, EvidenceType: pc.RelayEvidence}
	proof := pc.MsgProof{MerkleProof: mp, Leaf: leaf, EvidenceType: pc.RelayEvidence}
	if err := claim.ValidateBasic(); err != nil {
		return "harness: claim ValidateBasic: " + err.Error()
	}
	if err := proof.ValidateBasic(); err != nil {
		return "harness: proof ValidateBasic: " + err.Error()
	}
	defer func() { _ = f.k.DeleteClaim(ctx, f.node, hdr, pc.RelayEvidence) }()
	before := len(f.pos.rewards)
	if res := f.handler(ctx, claim, nil); !res.IsOK() {
		return fmt.Sprintf("claim-rejected code=%d", res.Code)
	}
	if res := f.handler(ctx, proof, nil); !res.IsOK() {
		return fmt.Sprintf("claim-accepted proof-rejected code=%d", res.Code)
	}
	if len(f.pos.rewards) != before+1 {
		return "claim-accepted proof-accepted no-reward-call"
	}
	return fmt.Sprintf("SUCCESS: claim for %d relays and its proof (index %d, 1 real relay) both accepted in block %d; reward call %s", n, idx, h, f.pos.rewards[before])
}

func (f *chainFx) play(sessions []int64, scan int64) map[int64]*c31SessionObs {
	obs := map[int64]*c31SessionObs{}
	for _, s := range sessions {
		obs[s] = &c31SessionObs{s: s, scanTo: s + scan, accepted: map[int64]bool{}, reject: map[int64]uint32{}, match: map[int64][]int64{},
			candidates: map[int64]int{}, witness: map[int64]string{}}
	}
	for h := int64(1); h <= f.hmax; h++ {
		ctx := f.begin(h)
		for _, s := range sessions {
			o := obs[s]
			if h < s || h > o.scanTo {
				continue
			}
			// (1) is a claim for session s still accepted in block h?
			claim := f.probeClaim(s)
			err := f.k.ValidateClaim(ctx, claim)
			if err2 := f.k.ValidateClaim(ctx, claim); (err == nil) != (err2 == nil) {
				o.unstable = append(o.unstable, fmt.Sprintf("ValidateClaim at %d not repeatable", h))
			}
			if err == nil {
				o.accepted[h] = true
			} else {
				o.reject[h] = uint32(err.Code())
			}
			// (2) which block hash does the keeper use for the required index? (claim stored directly, probing
			// does not depend on acceptance)
			cl := claim
			cl.ExpirationHeight = 1 << 40
			if e := f.k.SetClaim(ctx, cl); e != nil {
				panic(e)
			}
			unavailable, matched := false, []int64{}
			n := 0
			for x := int64(1); x <= h; x++ {
				n++
				p := f.probeProof(s, documentedSelection(c31ProbeTotal, f.hash[x], cl.SessionHeader))
				r := f.classifyProof(ctx, p)
				if r == "match" || x > h-3 { // repeatability of the keeper's answer (all matches, and the most recent blocks)
					if r2 := f.classifyProof(ctx, p); r2 != r {
						o.unstable = append(o.unstable, fmt.Sprintf("ValidateProof at %d cand %d: %s then %s", h, x, r, r2))
					}
				}
				switch r {
				case "match":
					matched = append(matched, x)
				case "mismatch":
				case "unavailable":
					unavailable = true
				default:
					panic(fmt.Sprintf("probe at height %d candidate %d: %s", h, x, r))
				}
				if unavailable {
					break
				}
			}
			if !unavailable {
				o.match[h] = matched
				o.candidates[h] = n
			}
			_ = f.k.DeleteClaim(ctx, f.node, cl.SessionHeader, pc.RelayEvidence)
			// (3) constructive confirmation, attempted wherever a claim is accepted in a block in which proofs can
			// already be verified
			if o.accepted[h] {
				if unavailable {
					o.witness[h] = "not attempted (no proof can be verified at this height yet)"
				} else {
					o.witness[h] = f.attack(ctx, s, h)
				}
			}
		}
		f.end(h)
	}
	return obs
}

func sortedKeys(m map[int64][]int64) []int64 {
	var ks []int64
	for k := range m {
		ks = append(ks, k)
	}
	sort.Slice(ks, func(i, j int) bool { return ks[i] < ks[j] })
	return ks
}

func TestC31(t *testing.T) {
	rule := "part 1 (exhaustive grid): mode in {pre-upgrade, post-upgrade+features} x blocks-per-session 1..12 x claim-submission-window 2..6 (values the params validation admits; thorough tier: 1..16 x 2..8) " +
		"x session height k*b+1 for k in {1,2,4} (thorough: {1,2,3,4,6}) plus two heights that are not the first block of their session (2b+2, 3b) x every claim height from session start to start+(w+2)*b. Per configuration a real pocketcore keeper on a real rootmulti store " +
		"(one version per height) and a real tendermint block store filled block by block; observed black-box: ValidateClaim acceptance per height; the entropy block = the unique " +
		"block whose hash, fed to the documented selection, gets a probe proof past ValidateProof's index check (candidates: every block <= current). Oracle: claim accepted in " +
		"block h => h <= entropy block height (hash of block e is public from height e+1 on: block e+1's header carries it). non-trivial = claim height within 1 of the last " +
		"accepted height or of the first height at which the entropy hash is public. part 2 (rapid): PseudorandomSelection(max, seed) for max in [1,2^62] (biased to small / " +
		"powers of two) and random seeds: 0 <= index < max, equals the documented big-endian-8-byte mod formula, repeatable (non-trivial there = seed whose first byte has the top bit set, where a signed reading would differ)"
	// part 2 first: it is cheap, and a broken selection function would otherwise crash session generation inside part 1
	resetGlobals()
	harness.Check(t, "C31", rule, nil, func(rt *rapid.T, c *harness.Case) {
		resetGlobals()
		var max int64
		switch rapid.IntRange(0, 3).Draw(rt, "maxKind") {
		case 0:
			max = rapid.Int64Range(1, 64).Draw(rt, "max")
		case 1:
			max = int64(1) << uint(rapid.IntRange(0, 62).Draw(rt, "pow"))
			max += int64(rapid.IntRange(-1, 1).Draw(rt, "pm"))
			if max < 1 {
				max = 1
			}
		default:
			max = rapid.Int64Range(1, 1<<62).Draw(rt, "max")
		}
		seed := rapid.SliceOfN(rapid.Byte(), 32, 32).Draw(rt, "seed")
		if rapid.IntRange(0, 4).Draw(rt, "extreme") == 0 {
			for i := 0; i < 8; i++ {
				seed[i] = 0xff // top bit set: a signed 8-byte reading would go negative
			}
		}
		c.Opf("selection max=%d seed=%x", max, seed[:8])
		got := pc.PseudorandomSelection(sdk.NewInt(max), append([]byte(nil), seed...))
		again := pc.PseudorandomSelection(sdk.NewInt(max), append([]byte(nil), seed...))
		if !got.Equal(again) {
			c.Violation("C31/selection/not-repeatable", "max=%d seed=%x: %s then %s", max, seed, got, again)
		}
		if got.IsNegative() || got.GTE(sdk.NewInt(max)) {
			c.Violation("C31/selection/out-of-range", "max=%d seed=%x: index %s not in [0,max)", max, seed, got)
		}
		want := documentedIndex(big.NewInt(max), seed)
		if got.BigInt().Cmp(want) != 0 {
			c.Violation("C31/selection/differs-from-documented-formula", "max=%d seed=%x: got %s want %s", max, seed, got, want)
		}
		c.Label("selection")
		if seed[0] >= 0x80 {
			c.Label("selection-top-bit-set")
			c.NonTrivial()
		}
	})
	harness.Enumerate(t, "C31", rule, func(each func(name string, f func(c *harness.Case))) {
		modes := []c31Mode{{"pre-upgrade", false}, {"post-upgrade", true}}
		maxB, maxW, ks := int64(12), int64(6), []int64{1, 2, 4}
		if harness.Thorough() { // the thorough tier enumerates a superset of the quick grid
			maxB, maxW, ks = 16, 8, []int64{1, 2, 3, 4, 6}
		}
		for _, mode := range modes {
			for b := int64(1); b <= maxB; b++ {
				for w := int64(2); w <= maxW; w++ {
					mode.apply()
					var sessions []int64
					for _, k := range ks {
						sessions = append(sessions, k*b+1)
					}
					// claims may name a session height that is NOT the first block of a session (the chain accepts them):
					// the second and the last block of the session that starts at 2b+1
					if b > 1 {
						sessions = append(sessions, 2*b+2)
						if b > 2 {
							sessions = append(sessions, 3*b)
						}
					}
					sort.Slice(sessions, func(i, j int) bool { return sessions[i] < sessions[j] })
					scan := (w + 2) * b
					fx := newChainFx(b, w, sessions[len(sessions)-1]+scan, uint64(b*100+w))
					obs := fx.play(sessions, scan)
					for _, s := range sessions {
						c31Judge(t, each, mode, fx, obs[s])
					}
				}
			}
		}
	})
	resetGlobals()
}

func c31Judge(t *testing.T, each func(string, func(*harness.Case)), mode c31Mode, fx *chainFx, o *c31SessionObs) {
	cfg := fmt.Sprintf("mode=%s b=%d w=%d session=%d", mode.name, fx.b, fx.w, o.s)
	// session-level: identify the entropy block
	entropy := int64(-1)
	firstProofHeight := int64(-1)
	each(cfg+" entropy-identification", func(c *harness.Case) {
		c.Label("session")
		c.Label("mode-" + mode.name)
		if len(o.unstable) > 0 {
			c.Violation("C31/selection/not-repeatable-in-keeper", "%s: %v", cfg, o.unstable)
		}
		hs := sortedKeys(o.match)
		if len(hs) == 0 {
			t.Fatalf("%s: harness: the entropy hash never became available within the scanned heights", cfg)
		}
		firstProofHeight = hs[0]
		for _, hp := range hs {
			m := o.match[hp]
			if len(m) != 1 {
				c.Violation("C31/selection/not-the-documented-function-of-exactly-one-block-hash",
					"%s: at proof height %d the hashes of blocks %v (of %d candidate blocks 1..%d) pass the keeper's index check; expected exactly one", cfg, hp, m, o.candidates[hp], hp)
				return
			}
			if entropy == -1 {
				entropy = m[0]
			} else if m[0] != entropy {
				c.Violation("C31/selection/entropy-block-depends-on-proof-height", "%s: entropy block %d when proving at %d but %d when proving at %d", cfg, entropy, hs[0], m[0], hp)
				return
			}
		}
		c.Opf("entropy block=%d (offset from session start %d); proofs verifiable from height %d; probed at %d proof heights", entropy, entropy-o.s, firstProofHeight, len(hs))
		c.AddExtra("proof_probes", func() int {
			n := 0
			for _, v := range o.candidates {
				n += v
			}
			return n
		}())
	})
	if entropy < 0 {
		return // violation was a known finding; nothing to relate claim heights to
	}
	known := entropy + 1 // first height whose txs are authored with hash(entropy) public
	var lastAccepted int64 = -1
	for h := o.s; h <= o.scanTo; h++ {
		if o.accepted[h] {
			lastAccepted = h
		}
	}
	if lastAccepted < 0 {
		t.Fatalf("%s: harness: no claim height was accepted at all (check is vacuous)", cfg)
	}
	for h := o.s; h <= o.scanTo; h++ {
		h := h
		each(fmt.Sprintf("%s claim-height=%d", cfg, h), func(c *harness.Case) {
			c.Label("point")
			c.Label("mode-" + mode.name)
			near := func(a, b int64) bool { return a-b <= 1 && b-a <= 1 }
			if near(h, lastAccepted) || near(h, known) {
				c.NonTrivial()
				c.Label("near-gate")
			}
			if !o.accepted[h] {
				switch o.reject[h] {
				case pc.CodeInvalidBlockHeightError:
					c.Label("rejected-session-not-over")
				case pc.CodeExpiredProofsSubmissionError:
					c.Label("rejected-window-closed")
				default:
					t.Fatalf("%s: harness: claim at height %d rejected with unexpected code %d", cfg, h, o.reject[h])
				}
				c.Opf("rejected code=%d; entropy block %d public from %d", o.reject[h], entropy, known)
				return
			}
			c.Label("accepted")
			c.Opf("accepted; entropy block %d public from %d; attack: %s", entropy, known, o.witness[h])
			if h >= known {
				c.Label("accepted-with-entropy-public")
				c.Violation(fmt.Sprintf("C31/claim-accepted-at-entropy-known-height/offset=%d", h-known),
					"%s: a claim for session %d is still accepted in block %d, but the leaf is selected by the hash of block %d, which is public from height %d on "+
						"(block %d's header carries it as LastBlockID). accepted claim heights %d..%d; proofs verifiable from height %d. constructive attack at this height: %s",
					cfg, o.s, h, entropy, known, known, firstAccepted(o), lastAccepted, firstProofHeight, o.witness[h])
			}
		})
	}
}

func firstAccepted(o *c31SessionObs) int64 {
	for h := o.s; h <= o.scanTo; h++ {
		if o.accepted[h] {
			return h
		}
	}
	return -1
}

var _ = crypto.Ed25519PubKeySize
