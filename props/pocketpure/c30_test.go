package pocketpure

import (
	"bytes"
	"fmt"
	"github.com/pokt-network/pocket-core/codec"
	"testing"

	"pgregory.net/rapid"

	sdk "github.com/pokt-network/pocket-core/types"
	pc "github.com/pokt-network/pocket-core/x/pocketcore/types"

	"verif/harness"
)

// C30: a proof verifies only for the leaf committed at the selected index under the claimed root; any single
// change makes verification fail; paths through zero-width ranges (duplicated relays) are flagged as replay.

type c30Mut struct {
	name   string
	mp     pc.MerkleProof
	root   pc.HashRange
	leaf   pc.Proof
	height int64
	labels []string
}

func flipBit(b []byte, bit int) []byte {
	out := append([]byte(nil), b...)
	out[(bit/8)%len(out)] ^= 1 << uint(bit%8)
	return out
}

// zeroWidthModel: which tree nodes have an empty range, derived ONLY from which sorted leaves are duplicates of
// their left neighbour (a node is empty iff all leaves below it are such duplicates; padding is never empty).
// Returns whether the verification path of idx meets an empty node (the current node or its sibling at any level).
func pathMeetsZeroWidth(dupOfLeft []bool, idx int, levels int) bool {
	size := 1 << uint(levels)
	cur := make([]bool, size)
	copy(cur, dupOfLeft)
	for l := 0; l < levels; l++ {
		if cur[idx] || cur[idx^1] {
			return true
		}
		next := make([]bool, len(cur)/2)
		for i := range next {
			next[i] = cur[2*i] && cur[2*i+1]
		}
		cur = next
		idx /= 2
	}
	return false
}

func TestC30(t *testing.T) {
	harness.Check(t, "C30",
		"a valid (root, proof, leaf) triple from a generated tree (n like C29 up to 150, both parent-hash formats via the real globals), 3 leaf indices per tree, and for each EVERY single-field "+
			"mutation of a fixed catalogue: 8 leaf fields (relay evidence) or 15 (challenge evidence, a quarter of the trees: signature, payload and answered proof of each of the three responses), leaf of another index, target index -> sibling / each single path bit flipped / random in-tree index, index + k*2^levels (index-binding "+
			"format only: the legacy hash does not bind the index and the keeper only admits index < total), target hash bit / lower / upper, per level sibling hash bit, lower+-1, upper+-1, the boundary shared by two same-side siblings shifted in both (continuity preserved), "+
			"dropped first/last level, duplicated level, swapped levels (level count = len as the keeper passes it), root hash bit / upper+-1 / lower=1, root of another relay set, other hash format. "+
			"Oracle: the unmutated triple verifies, every mutation gives isValid=false. 1/3 of cases: multiset with 1-3 duplicated relays; oracle from a hash-free model of empty ranges: path meets an "+
			"empty node <=> (false, replay=true), else (true,false); plus the same through a real keeper + message handler (required index found by probing): replay => code 86, burn of total*multiplier "+
			"and claim deleted when REPBR is active. non-trivial = mutation case in which a mutated branch contains a padding sibling (every mutation case already contains sibling range-bound mutations and "+
			"level-0-parity-preserving index changes, see class labels), or a duplicate tree with a replay path",
		map[string]float64{"mutations": 0.5, "duplicates": 0.2, "replay-path": 0.15, "clean-path-in-duplicate-tree": 0.12, "legacy-hash": 0.2, "index-binding-hash": 0.35,
			"index-out-of-tree": 0.25, "sibling-range-bound": 0.5, "index-change-keeps-level0-parity": 0.5, "padding-sibling-on-path": 0.2, "coordinated-boundary-shift": 0.4, "keeper-replay-burn": 0.02, "keeper-clean-reward": 0.015, "challenge-evidence-leaves": 0.08},
		func(rt *rapid.T, c *harness.Case) {
			if rapid.IntRange(0, 2).Draw(rt, "caseKind") == 0 {
				c30Duplicates(rt, c)
				return
			}
			c.Label("mutations")
			f := drawFormat(rt)
			n := drawTreeSize(rt, 7, 150)
			seed := rapid.Uint64().Draw(rt, "seed")
			c.Opf("format=%s height=%d n=%d relays-seed=%x", f.name, f.height, n, seed)
			if f.post {
				c.Label("index-binding-hash")
			} else {
				c.Label("legacy-hash")
			}
			rs := newRelaySet(seed, f.height)
			// a quarter of the trees commit challenge evidence (leaves are ChallengeProofInvalidData) instead of relay evidence
			challengeTree := rapid.Bool().Draw(rt, "challengeTreeA") && rapid.Bool().Draw(rt, "challengeTreeB")
			input := shuffled(rs.proofs(n), seed^0x5555)
			otherInput := newRelaySet(seed+1, f.height).proofs(n)
			if challengeTree {
				c.Label("challenge-evidence-leaves")
				input = shuffled(rs.challengeProofs(n), seed^0x5555)
				otherInput = newRelaySet(seed+1, f.height).challengeProofs(n)
			}
			L := keeperLevels(n)
			root, sortedLeaves := pc.GenerateRoot(f.height, cloneProofs(input))
			otherRoot, _ := pc.GenerateRoot(f.height, otherInput)
			var altRoot pc.HashRange
			if f.alt >= 0 {
				altRoot, _ = pc.GenerateRoot(f.alt, cloneProofs(input))
			}
			total := 0
			for k := 0; k < 3; k++ {
				idx := rapid.IntRange(0, n-1).Draw(rt, "idx")
				if k == 0 && rapid.Bool().Draw(rt, "lastLeaf") {
					idx = n - 1
				}
				mp, leaf := pc.GenerateProofs(f.height, cloneProofs(input), idx)
				if v, r := cloneMerkleProof(mp).Validate(f.height, root, leaf, L); !v || r {
					rt.Fatalf("harness precondition: the genuine proof for n=%d idx=%d does not verify (C29 territory): (%v,%v)", n, idx, v, r)
				}
				c.Opf("idx=%d", idx)
				for l := 0; l < L; l++ {
					// the sibling subtree at level l covers leaves [lo, lo+2^l); it contains padding iff it reaches past n-1
					lo := ((idx >> uint(l)) ^ 1) << uint(l)
					if lo+(1<<uint(l)) > n {
						c.Label("padding-sibling-on-path")
						c.NonTrivial()
					}
				}
				var muts []c30Mut
				add := func(name string, m pc.MerkleProof, r pc.HashRange, lf pc.Proof, labels ...string) {
					muts = append(muts, c30Mut{name: name, mp: m, root: r, leaf: lf, height: f.height, labels: labels})
				}
				// --- the leaf
				if cl, isChallenge := leaf.(pc.ChallengeProofInvalidData); isChallenge {
					// every component of each of the three responses the leaf commits to (signature, payload, and the relay
					// proof it answers, identified by its signed hash)
					mutResp := func(which string, get func(*pc.ChallengeProofInvalidData) *pc.RelayResponse) {
						cp := func() pc.ChallengeProofInvalidData {
							d := cl
							d.MajorityResponses = append([]pc.RelayResponse(nil), cl.MajorityResponses...)
							return d
						}
						d := cp()
						get(&d).Signature = detHex(64, "other-resp-sig", seed)
						add("leaf."+which+".signature", cloneMerkleProof(mp), root, d)
						d = cp()
						get(&d).Response += "x"
						add("leaf."+which+".payload", cloneMerkleProof(mp), root, d)
						d = cp()
						get(&d).Proof.Entropy++
						add("leaf."+which+".proof.entropy+1", cloneMerkleProof(mp), root, d)
						d = cp()
						get(&d).Proof.Signature = detHex(64, "other-proof-sig", seed)
						add("leaf."+which+".proof.signature", cloneMerkleProof(mp), root, d)
						d = cp()
						get(&d).Proof.ServicerPubKey = detHex(32, "other-challenge-servicer", seed)
						add("leaf."+which+".proof.servicerPubKey", cloneMerkleProof(mp), root, d)
					}
					mutResp("majority[0]", func(d *pc.ChallengeProofInvalidData) *pc.RelayResponse { return &d.MajorityResponses[0] })
					mutResp("majority[1]", func(d *pc.ChallengeProofInvalidData) *pc.RelayResponse { return &d.MajorityResponses[1] })
					mutResp("minority", func(d *pc.ChallengeProofInvalidData) *pc.RelayResponse { return &d.MinorityResponse })
				} else {
					rl := leaf.(pc.RelayProof)
					l := rl
					l.Entropy++
					add("leaf.entropy+1", cloneMerkleProof(mp), root, l)
					l = rl
					l.RequestHash = detHex(32, "otherreq", seed)
					add("leaf.requestHash", cloneMerkleProof(mp), root, l)
					l = rl
					l.ServicerPubKey = detHex(32, "otherservicer", seed)
					add("leaf.servicerPubKey", cloneMerkleProof(mp), root, l)
					l = rl
					l.Blockchain = "0002"
					add("leaf.blockchain", cloneMerkleProof(mp), root, l)
					l = rl
					l.SessionBlockHeight++
					add("leaf.sessionHeight+1", cloneMerkleProof(mp), root, l)
					l = rl
					l.Token.Version = "0.0.2"
					add("leaf.aat.version", cloneMerkleProof(mp), root, l)
					l = rl
					l.Token.ApplicationPublicKey = detHex(32, "otherapp", seed)
					add("leaf.aat.appPubKey", cloneMerkleProof(mp), root, l)
					l = rl
					l.Token.ClientPublicKey = detHex(32, "otherclient", seed)
					add("leaf.aat.clientPubKey", cloneMerkleProof(mp), root, l)
				}
				j := rapid.IntRange(0, n-2).Draw(rt, "otherLeaf")
				if j >= idx {
					j++
				}
				add(fmt.Sprintf("leaf-of-index-%d", j), cloneMerkleProof(mp), root, sortedLeaves[j])
				// --- the index
				size := 1 << uint(L)
				for l := 0; l < L; l++ {
					m := cloneMerkleProof(mp)
					m.TargetIndex = int64(idx ^ (1 << uint(l)))
					labels := []string{"index-in-tree"}
					if l > 0 {
						labels = append(labels, "index-change-keeps-level0-parity")
					}
					add(fmt.Sprintf("index^bit%d=%d", l, m.TargetIndex), m, root, leaf, labels...)
				}
				{
					r := rapid.IntRange(0, size-2).Draw(rt, "otherIndex")
					if r >= idx {
						r++
					}
					m := cloneMerkleProof(mp)
					m.TargetIndex = int64(r)
					labels := []string{"index-in-tree"}
					if r%2 == idx%2 {
						labels = append(labels, "index-change-keeps-level0-parity")
					}
					add(fmt.Sprintf("index->%d", r), m, root, leaf, labels...)
				}
				if f.post {
					for _, k := range []int64{1, 2, int64(rapid.IntRange(3, 1<<20).Draw(rt, "wrapK"))} {
						m := cloneMerkleProof(mp)
						m.TargetIndex = int64(idx) + k*int64(size)
						add(fmt.Sprintf("index+%d*2^levels=%d", k, m.TargetIndex), m, root, leaf, "index-out-of-tree", "index-change-keeps-level0-parity")
					}
				}
				// --- the target
				{
					m := cloneMerkleProof(mp)
					m.Target.Hash = flipBit(m.Target.Hash, rapid.IntRange(0, 255).Draw(rt, "targetBit"))
					add("target.hash-bit", m, root, leaf)
					m = cloneMerkleProof(mp)
					m.Target.Range.Upper++
					add("target.upper+1", m, root, leaf)
					m = cloneMerkleProof(mp)
					m.Target.Range.Upper--
					add("target.upper-1", m, root, leaf)
					m = cloneMerkleProof(mp)
					m.Target.Range.Lower++
					add("target.lower+1", m, root, leaf)
					if mp.Target.Range.Lower > 0 {
						m = cloneMerkleProof(mp)
						m.Target.Range.Lower--
						add("target.lower-1", m, root, leaf)
					}
				}
				// --- the siblings
				for l := 0; l < L; l++ {
					m := cloneMerkleProof(mp)
					m.HashRanges[l].Hash = flipBit(m.HashRanges[l].Hash, rapid.IntRange(0, 255).Draw(rt, "sibBit"))
					add(fmt.Sprintf("sib[%d].hash-bit", l), m, root, leaf)
					for _, d := range []int{+1, -1} {
						if !(d < 0 && mp.HashRanges[l].Range.Lower == 0) {
							m = cloneMerkleProof(mp)
							m.HashRanges[l].Range.Lower += uint64(d)
							add(fmt.Sprintf("sib[%d].lower%+d", l, d), m, root, leaf, "sibling-range-bound")
						}
						if !(d > 0 && mp.HashRanges[l].Range.Upper == ^uint64(0)) {
							m = cloneMerkleProof(mp)
							m.HashRanges[l].Range.Upper += uint64(d)
							add(fmt.Sprintf("sib[%d].upper%+d", l, d), m, root, leaf, "sibling-range-bound")
						}
					}
				}
				// --- two siblings changed consistently: the boundary shared by the siblings of two levels on the same side
				// moves by one, so every local continuity check still holds and only the hashed ranges can tell
				for l := 0; l < L; l++ {
					for l2 := l + 1; l2 < L; l2++ {
						if (idx>>uint(l))&1 != (idx>>uint(l2))&1 {
							continue
						}
						m := cloneMerkleProof(mp)
						lo, hi := &m.HashRanges[l], &m.HashRanges[l2]
						var ok bool
						if (idx>>uint(l))&1 == 1 { // both on the left: hi=[a2,a) lo=[a,b)
							if lo.Range.Upper-lo.Range.Lower > 1 {
								lo.Range.Lower++
								hi.Range.Upper++
								ok = true
							}
						} else { // both on the right: lo=[b,c) hi=[c,d)
							if hi.Range.Upper-hi.Range.Lower > 1 {
								lo.Range.Upper++
								hi.Range.Lower++
								ok = true
							}
						}
						if ok {
							add(fmt.Sprintf("shift-shared-boundary-of-sib[%d]-and-sib[%d]", l, l2), m, root, leaf, "coordinated-boundary-shift")
						}
						break // nearest level on the same side only
					}
				}
				// --- the shape of the branch
				{
					m := cloneMerkleProof(mp)
					m.HashRanges = m.HashRanges[:L-1]
					add("drop-last-level", m, root, leaf, "shape")
					m = cloneMerkleProof(mp)
					m.HashRanges = m.HashRanges[1:]
					add("drop-first-level", m, root, leaf, "shape")
					d := rapid.IntRange(0, L-1).Draw(rt, "dupLevel")
					m = cloneMerkleProof(mp)
					m.HashRanges = append(m.HashRanges[:d+1], append([]pc.HashRange{cloneHashRange(m.HashRanges[d])}, m.HashRanges[d+1:]...)...)
					add(fmt.Sprintf("duplicate-level-%d", d), m, root, leaf, "shape")
					a := rapid.IntRange(0, L-2).Draw(rt, "swapA")
					b := rapid.IntRange(a+1, L-1).Draw(rt, "swapB")
					m = cloneMerkleProof(mp)
					m.HashRanges[a], m.HashRanges[b] = m.HashRanges[b], m.HashRanges[a]
					add(fmt.Sprintf("swap-levels-%d-%d", a, b), m, root, leaf, "shape")
				}
				// --- the root
				{
					r := cloneHashRange(root)
					r.Hash = flipBit(r.Hash, rapid.IntRange(0, 255).Draw(rt, "rootBit"))
					add("root.hash-bit", cloneMerkleProof(mp), r, leaf)
					r = cloneHashRange(root)
					r.Range.Upper++
					add("root.upper+1", cloneMerkleProof(mp), r, leaf)
					r = cloneHashRange(root)
					r.Range.Upper--
					add("root.upper-1", cloneMerkleProof(mp), r, leaf)
					r = cloneHashRange(root)
					r.Range.Lower = 1
					add("root.lower=1", cloneMerkleProof(mp), r, leaf)
					add("root-of-another-relay-set", cloneMerkleProof(mp), otherRoot, leaf, "replayed-under-other-root")
				}
				if f.alt >= 0 {
					muts = append(muts, c30Mut{name: "verified-under-other-hash-format", mp: cloneMerkleProof(mp), root: root, leaf: leaf, height: f.alt, labels: []string{"cross-format"}})
					muts = append(muts, c30Mut{name: "other-format-root-and-height", mp: cloneMerkleProof(mp), root: altRoot, leaf: leaf, height: f.alt, labels: []string{"cross-format"}})
				}
				for _, m := range muts {
					c.Opf("%s", m.name)
					for _, l := range m.labels {
						c.Label(l)
					}
					valid, replay := m.mp.Validate(m.height, m.root, m.leaf, len(m.mp.HashRanges))
					if valid {
						c.Violation("C30/validate/mutated-proof-accepted/"+mutClass(m.name), "format=%s n=%d idx=%d levels=%d mutation %q: Validate = (%v,%v), want isValid=false",
							f.name, n, idx, L, m.name, valid, replay)
					}
					total++
				}
			}
			c.AddExtra("mutations_checked", total)
		})
}

// mutClass strips the parameters from a mutation name so that the violation signature is stable.
func mutClass(name string) string {
	out := []byte{}
	for i := 0; i < len(name); i++ {
		ch := name[i]
		if ch >= '0' && ch <= '9' {
			continue
		}
		out = append(out, ch)
	}
	return string(bytes.TrimRight(out, "-=>^*+"))
}

func c30Duplicates(rt *rapid.T, c *harness.Case) {
	c.Label("duplicates")
	viaKeeper := rapid.IntRange(0, 2).Draw(rt, "viaKeeper") == 0
	if viaKeeper {
		c30KeeperReplay(rt, c)
		return
	}
	f := drawFormat(rt)
	n := drawTreeSize(rt, 6, 70)
	d := rapid.IntRange(1, 3).Draw(rt, "dups")
	seed := rapid.Uint64().Draw(rt, "seed")
	if f.post {
		c.Label("index-binding-hash")
	} else {
		c.Label("legacy-hash")
	}
	rs := newRelaySet(seed, f.height)
	distinct := rs.proofs(n - d)
	multiset := cloneProofs(distinct)
	var origs []int
	first := rapid.IntRange(0, n-d-1).Draw(rt, "dupOf")
	for i := 0; i < d; i++ {
		o := first
		if i > 0 && rapid.Bool().Draw(rt, "otherOriginal") {
			o = rapid.IntRange(0, n-d-1).Draw(rt, "dupOf")
		}
		origs = append(origs, o)
		multiset = append(multiset, distinct[o])
	}
	c.Opf("format=%s height=%d n=%d (%d distinct + duplicates of %v) relays-seed=%x", f.name, f.height, n, n-d, origs, seed)
	multiset = shuffled(multiset, seed^0xabcdef)
	L := keeperLevels(n)
	root, sortedAll := pc.GenerateRoot(f.height, cloneProofs(multiset))
	dupOfLeft := make([]bool, 1<<uint(L))
	for i := 1; i < n; i++ {
		dupOfLeft[i] = bytes.Equal(sortedAll[i].Hash(), sortedAll[i-1].Hash())
	}
	replayPaths, cleanPaths := 0, 0
	for idx := 0; idx < n; idx++ {
		mp, leaf := pc.GenerateProofs(f.height, cloneProofs(multiset), idx)
		valid, replay := cloneMerkleProof(mp).Validate(f.height, root, leaf, L)
		want := pathMeetsZeroWidth(dupOfLeft, idx, L)
		if want {
			replayPaths++
			if valid || !replay {
				c.Violation("C30/validate/zero-width-path-not-reported-as-replay", "format=%s n=%d duplicates of %v: index %d passes through an empty range but Validate = (%v,%v), want (false,true)",
					f.name, n, origs, idx, valid, replay)
			}
		} else {
			cleanPaths++
			if !valid || replay {
				c.Violation("C30/validate/clean-path-in-duplicate-tree-rejected", "format=%s n=%d duplicates of %v: index %d meets no empty range but Validate = (%v,%v), want (true,false)",
					f.name, n, origs, idx, valid, replay)
			}
		}
	}
	c.Opf("paths: %d replay, %d clean", replayPaths, cleanPaths)
	if replayPaths > 0 {
		c.Label("replay-path")
		c.NonTrivial()
	}
	if cleanPaths > 0 {
		c.Label("clean-path-in-duplicate-tree")
	}
	c.AddExtra("duplicate_tree_paths_checked", n)
}

// c30KeeperReplay drives a duplicate tree through the real keeper and message handler.
func c30KeeperReplay(rt *rapid.T, c *harness.Case) {
	mode := c31Mode{"pre-upgrade", false}
	if rapid.IntRange(0, 3).Draw(rt, "repbrActive") > 0 {
		mode = c31Mode{"post-upgrade", true}
	}
	mode.apply()
	// in a third of the post-upgrade cases the replay burn was activated AFTER the claimed session started (session height 2)
	// but before the proof is processed (height 6): what counts is the height at which the proof is processed
	if mode.upgraded && rapid.SampledFrom([]int{0, 0, 1}).Draw(rt, "repbrActivatedAfterSessionStart") == 1 {
		codec.UpgradeFeatureMap[codec.ReplayBurnKey] = int64(rapid.IntRange(3, 6).Draw(rt, "repbrAt"))
		c.Label("replay-burn-activated-between-session-start-and-proof")
	}
	salt := uint64(rapid.IntRange(1, 1<<30).Draw(rt, "chainSalt"))
	const s = int64(2)
	fx := newChainFx(1, 2, 6, salt)
	for h := int64(1); h <= 5; h++ {
		fx.begin(h)
		fx.end(h)
	}
	ctx := fx.begin(6)
	n := rapid.IntRange(6, 40).Draw(rt, "n")
	d := rapid.IntRange(1, 3).Draw(rt, "dups")
	L := keeperLevels(n)
	rs := fx.witness
	rs.height = s
	hdr := rs.header()
	// which index does the chain demand for a claim of n relays? (black-box: try them all with a junk branch)
	junk := pc.MsgClaim{SessionHeader: hdr, MerkleRoot: pc.HashRange{Hash: detBytes(32, "junkroot"), Range: pc.Range{Upper: 1 << 40}}, TotalProofs: int64(n),
		FromAddress: fx.node, EvidenceType: pc.RelayEvidence, ExpirationHeight: 1 << 40}
	if err := fx.k.SetClaim(ctx, junk); err != nil {
		rt.Fatalf("harness: %v", err)
	}
	req := -1
	for idx := 0; idx < n; idx++ {
		mp := pc.MerkleProof{TargetIndex: int64(idx), Target: pc.HashRange{Hash: detBytes(32, "junktarget"), Range: pc.Range{Lower: 5, Upper: 9}}}
		for i := 0; i < L; i++ {
			mp.HashRanges = append(mp.HashRanges, pc.HashRange{Hash: detBytes(32, "junksib", uint64(i)), Range: pc.Range{Lower: 9, Upper: 1 << 40}})
		}
		if r := fx.classifyProof(ctx, pc.MsgProof{MerkleProof: mp, Leaf: rs.relay(0), EvidenceType: pc.RelayEvidence}); r == "match" {
			if req >= 0 {
				rt.Fatalf("harness: two indices pass the index check")
			}
			req = idx
		} else if r != "mismatch" {
			rt.Fatalf("harness: probing the required index: %s", r)
		}
	}
	if req < 0 {
		rt.Fatalf("harness: no index passes the index check")
	}
	// duplicates placed around the required index so that both outcomes occur often
	distinct := rs.proofs(n - d)
	_, sortedDistinct := pc.GenerateRoot(s, cloneProofs(distinct))
	multiset := cloneProofs(distinct)
	var origs []int
	for i := 0; i < d; i++ {
		o := req + rapid.IntRange(-3, 1).Draw(rt, "dupNear")
		if o < 0 {
			o = 0
		}
		if o > n-d-1 {
			o = n - d - 1
		}
		origs = append(origs, o)
		multiset = append(multiset, sortedDistinct[o])
	}
	root, sortedAll := pc.GenerateRoot(s, cloneProofs(multiset))
	dupOfLeft := make([]bool, 1<<uint(L))
	for i := 1; i < n; i++ {
		dupOfLeft[i] = bytes.Equal(sortedAll[i].Hash(), sortedAll[i-1].Hash())
	}
	wantReplay := pathMeetsZeroWidth(dupOfLeft, req, L)
	c.Opf("keeper mode=%s chain-salt=%d n=%d required-index=%d duplicates of sorted leaves %v -> replay expected=%v", mode.name, salt, n, req, origs, wantReplay)
	mp, leaf := pc.GenerateProofs(s, cloneProofs(multiset), req)
	claim := junk
	claim.MerkleRoot = root
	if err := fx.k.SetClaim(ctx, claim); err != nil {
		rt.Fatalf("harness: %v", err)
	}
	burns, rewards := len(fx.pos.burns), len(fx.pos.rewards)
	res := fx.handler(ctx, pc.MsgProof{MerkleProof: mp, Leaf: leaf, EvidenceType: pc.RelayEvidence}, nil)
	_, claimStillThere := fx.k.GetClaim(ctx, fx.node, hdr, pc.RelayEvidence)
	newBurns, newRewards := fx.pos.burns[burns:], fx.pos.rewards[rewards:]
	if wantReplay {
		c.Label("replay-path")
		c.NonTrivial()
		if res.IsOK() || len(newRewards) != 0 {
			c.Violation("C30/handler/replay-proof-rewarded", "mode=%s n=%d idx=%d dups=%v: proof through an empty range: result code %d, reward calls %v", mode.name, n, req, origs, res.Code, newRewards)
		}
		if mode.upgraded {
			c.Label("keeper-replay-burn")
			wantBurn := fmt.Sprintf("%s:%d", fx.node.String(), n*3)
			if res.Code != pc.CodeReplayAttackError {
				c.Violation("C30/handler/replay-not-reported", "mode=%s n=%d idx=%d dups=%v: result code %d, want %d (replay attack)", mode.name, n, req, origs, res.Code, pc.CodeReplayAttackError)
			}
			if len(newBurns) != 1 || newBurns[0] != wantBurn {
				c.Violation("C30/handler/replay-burn-missing-or-wrong", "mode=%s n=%d: burn calls %v, want [%s]", mode.name, n, newBurns, wantBurn)
			}
			if claimStillThere {
				c.Violation("C30/handler/replay-claim-not-deleted", "mode=%s n=%d: the claim is still stored after the replay was detected", mode.name, n)
			}
		} else {
			c.Label("keeper-replay-before-REPBR")
			if len(newBurns) != 0 {
				c.Violation("C30/handler/burn-before-feature-activation", "mode=%s: burn calls %v", mode.name, newBurns)
			}
		}
	} else {
		c.Label("clean-path-in-duplicate-tree")
		c.Label("keeper-clean-reward")
		wantReward := fmt.Sprintf("%s:%d", fx.node.String(), n)
		if !res.IsOK() || len(newRewards) != 1 || newRewards[0] != wantReward || len(newBurns) != 0 || claimStillThere {
			c.Violation("C30/handler/clean-proof-in-duplicate-tree-not-honoured", "mode=%s n=%d idx=%d dups=%v: code %d log %s rewards %v burns %v claimStillThere=%v",
				mode.name, n, req, origs, res.Code, res.Log, newRewards, newBurns, claimStillThere)
		}
	}
	resetGlobals()
}

var _ = sdk.ZeroInt
