package relays

import (
	"bytes"
	"encoding/hex"
	"fmt"
	"os"
	"sort"
	"strings"
	"testing"
	"time"

	"pgregory.net/rapid"

	"github.com/pokt-network/pocket-core/crypto"
	sdk "github.com/pokt-network/pocket-core/types"
	appsTypes "github.com/pokt-network/pocket-core/x/apps/types"
	authTypes "github.com/pokt-network/pocket-core/x/auth/types"
	pocketTypes "github.com/pokt-network/pocket-core/x/pocketcore/types"

	"verif/harness"
	"verif/harness/chain"
	rf "verif/harness/relayfactory"
)

// C32: each claim is rewarded at most once and only with a valid proof.
//
// Generated histories of real MsgClaim / MsgProof transactions (built by the relay factory from keys the
// harness owns) run through the chain simulator. The oracle is a trace monitor with its own model of
// which claims are legitimate (window, membership, application, chain, allowance - decided from raw
// state snapshots taken after every block and from the genesis parameters) and which proofs are the
// required ones (the harness built the trees and re-derives the index from the block hash the simulator
// produced).

// ---------------------------------------------------------------------------------------------
// world

type c32World struct {
	spec                                chain.Spec
	nodes                               []crypto.PrivateKey // staked servicers; all on 0001 (and 0040), some on 0021
	stranger                            crypto.PrivateKey   // funded account that is not a node
	apps                                []crypto.PrivateKey // app0 (0001,0021[,0040]), app1 (0001), appU (0001, may unstake), ghost (never staked)
	client                              crypto.PrivateKey
	victim                              int   // node index made absent (-1: none)
	absentAt                            int64 // first absent block
	unstakeAt                           int64 // appU begin-unstake height (0: never)
	bps, win, exp, minProofs, snc, rttm int64
	firstSBH                            int64
	start                               int64 // first height of the generated history (4, or 7 when some servicer stakes by transaction)
	desc                                string
}

const (
	c32AppGhost = 3
	c32AppU     = 2
)

func c32Round(m, d int64) int64 { // banker's rounding of m/d (what Dec.RoundInt does)
	q, r := m/d, m%d
	switch {
	case 2*r < d:
		return q
	case 2*r > d:
		return q + 1
	default:
		if q%2 == 0 {
			return q
		}
		return q + 1
	}
}

func genC32World(rt *rapid.T) *c32World {
	w := &c32World{spec: chain.DefaultSpec(), victim: -1}
	s := &w.spec
	w.bps = int64(rapid.IntRange(2, 4).Draw(rt, "bps"))
	w.win = int64(rapid.IntRange(2, 3).Draw(rt, "window"))
	w.exp = w.win + int64(rapid.IntRange(0, 1).Draw(rt, "expExtra"))
	w.minProofs = int64(rapid.SampledFrom([]int{5, 5, 6, 9}).Draw(rt, "minProofs"))
	w.rttm = int64(rapid.SampledFrom([]int{1000, 37}).Draw(rt, "rttm"))
	nNodes := rapid.IntRange(2, 4).Draw(rt, "nNodes")
	mode := rapid.SampledFrom([]string{"all", "all", "all+victim", "n-1+victim"}).Draw(rt, "mode")
	w.snc = int64(nNodes)
	if mode == "n-1+victim" {
		w.snc = int64(nNodes - 1)
	}
	// servicers that stake by a real MsgStake in the simulator's setup block (height 4) carry reward delegators
	// (and sometimes a separate output address); then the generated history starts at height 7
	viaTx := rapid.Bool().Draw(rt, "someStakeByTx")
	w.start = 4
	if viaTx {
		w.start = 7
	}
	if mode != "all" {
		w.victim = rapid.IntRange(0, nNodes-1).Draw(rt, "victim")
		if mode == "n-1+victim" {
			w.absentAt = w.start + int64(rapid.IntRange(0, 1).Draw(rt, "absentAt"))
		} else {
			w.absentAt = w.start + int64(rapid.IntRange(0, 10).Draw(rt, "absentAt"))
		}
	}
	w.firstSBH = w.start + 1
	for w.firstSBH%w.bps != 1%w.bps {
		w.firstSBH++
	}
	fund := func(k crypto.PrivateKey, bal int64) {
		s.Accounts = append(s.Accounts, chain.AccountSpec{Key: k, Balance: bal})
	}
	app0Unsupported := rapid.Bool().Draw(rt, "app0On0040")
	for i := 0; i < nNodes; i++ {
		k := chain.Key(fmt.Sprintf("node%d", i))
		w.nodes = append(w.nodes, k)
		fund(k, 1_000_000_000)
		ns := chain.NodeSpec{Key: k, Stake: chain.StakeUnit*int64(rapid.IntRange(1, 3).Draw(rt, "stakeBins")) + int64(rapid.IntRange(0, 1).Draw(rt, "stakeExtra"))*1_000_000,
			Chains: []string{"0001", "0040"}}
		if i == w.victim && ns.Stake < 2*chain.StakeUnit {
			ns.Stake += chain.StakeUnit // stays above the minimum stake after the downtime slash
		}
		if rapid.IntRange(0, 3).Draw(rt, "on0021") > 0 {
			ns.Chains = append(ns.Chains, "0021")
		}
		if viaTx && i != w.victim && rapid.IntRange(0, 1).Draw(rt, "stakesByTx") == 0 {
			ns.ViaTx = true
			ns.Delegators = map[string]uint32{chain.Addr(chain.Key(fmt.Sprintf("deleg%d", i))).String(): uint32(rapid.IntRange(1, 40).Draw(rt, "share"))}
			if rapid.IntRange(0, 3).Draw(rt, "separateOutput") == 0 {
				// NOTE below height 69583 (codec.NonCustodial1RollbackHeight) the reward code replays a main-net incident:
				// a servicer whose output address is not itself a validator earns nothing (the model expects a zero mint)
				ns.Output = chain.Key(fmt.Sprintf("out%d", i))
				fund(ns.Output, 1_000_000)
			}
		}
		s.Nodes = append(s.Nodes, ns)
	}
	w.stranger = chain.Key("stranger")
	fund(w.stranger, 1_000_000_000)
	w.client = chain.Key("client")
	appChains := [][]string{{"0001", "0021"}, {"0001"}, {"0001"}}
	if app0Unsupported {
		appChains[0] = append(appChains[0], "0040")
	}
	for i := 0; i < 4; i++ {
		k := chain.Key(fmt.Sprintf("app%d", i))
		w.apps = append(w.apps, k)
		fund(k, 1_000_000_000)
		if i == c32AppGhost {
			continue
		}
		d := int64(len(appChains[i])) * w.snc
		target := w.minProofs + int64(rapid.IntRange(0, 4).Draw(rt, "allowanceOverMin"))
		stake := (target*d + int64(rapid.IntRange(0, int(d)-1).Draw(rt, "stakeJitter"))) * 1_000_000
		s.Apps = append(s.Apps, chain.AppSpec{Key: k, Stake: stake, Chains: appChains[i]})
	}
	if rapid.Bool().Draw(rt, "appUUnstakes") {
		w.unstakeAt = int64(rapid.IntRange(int(w.start), int(w.firstSBH+2*w.bps)).Draw(rt, "unstakeAt"))
	}
	s.NodeParams.SessionBlockFrequency = w.bps
	s.NodeParams.MaxValidators = int64(nNodes + 1)
	s.NodeParams.MaxJailedBlocks = 100000
	s.NodeParams.MinSignedPerWindow = sdk.NewDecWithPrec(9, 1) // 2 missed blocks of 10 => jailed
	s.NodeParams.RelaysToTokensMultiplier = w.rttm
	s.AppParams.UnstakingTime = 0
	s.AppParams.MaxApplications = 10
	s.PocketParams.SessionNodeCount = w.snc
	s.PocketParams.ClaimSubmissionWindow = w.win
	s.PocketParams.ClaimExpiration = w.exp
	s.PocketParams.MinimumNumberOfProofs = w.minProofs
	s.PocketParams.SupportedBlockchains = []string{"0001", "0021"}
	w.desc = fmt.Sprintf("world{start=%d nodes=%d snc=%d mode=%s victim=%d absentAt=%d bps=%d window=%d expiration=%d minProofs=%d rttm=%d appUunstakeAt=%d app0on0040=%v}",
		w.start, nNodes, w.snc, mode, w.victim, w.absentAt, w.bps, w.win, w.exp, w.minProofs, w.rttm, w.unstakeAt, app0Unsupported)
	return w
}

// genAllowance is the generator's estimate of the application's per-node allowance (for picking sizes only;
// the oracle recomputes it from the state snapshot).
func (w *c32World) genAllowance(app int) int64 {
	if app == c32AppGhost {
		return w.minProofs + 2
	}
	a := w.spec.Apps[app]
	return c32Round(a.Stake/1_000_000, int64(len(a.Chains))*w.snc)
}

// ---------------------------------------------------------------------------------------------
// plans

type c32Sub struct {
	plan    *c32Plan
	at      int64
	prio    int
	isClaim bool
	size    int    // claim: number of relays in the evidence set
	variant string // proof variant
	desc    string
}

type c32Plan struct {
	id       int
	claimant int // index into nodes; len(nodes) = stranger
	app      int
	chain    string
	sbh      int64
	subs     []*c32Sub
	salt     int64
	fixed    bool     // the order of the plan's transactions inside a block is part of the plan
	lastTree *rf.Tree // most recent tree the claimant built
	oldTree  *rf.Tree // the tree before that (overwritten claim)
}

var c32ProofVariants = []string{"valid", "valid", "valid", "valid", "valid", "valid", "wrong-index", "wrong-leaf", "foreign-leaf", "other-session-leaf", "wrong-signer", "tampered-sibling", "stale-root"}

func (w *c32World) ph(sbh int64) int64 { return rf.ProofHeight(sbh, w.win, w.bps) }

func (w *c32World) claimantKey(i int) crypto.PrivateKey {
	if i >= len(w.nodes) {
		return w.stranger
	}
	return w.nodes[i]
}

func genC32Plans(rt *rapid.T, w *c32World) []*c32Plan {
	var plans []*c32Plan
	nSessions := rapid.IntRange(1, 2).Draw(rt, "nSessions")
	prio := 0
	next := func() int { prio++; return prio }
	for k := 0; k < nSessions; k++ {
		sbh := w.firstSBH + int64(k)*w.bps
		np := rapid.IntRange(1, 3).Draw(rt, "plansInSession")
		for j := 0; j < np; j++ {
			p := &c32Plan{id: len(plans), sbh: sbh, salt: int64(len(plans)+1) * 100000}
			// a plan starts out legitimate (in-session node, staked app on a chain both serve, size within
			// [minimum, allowance], claim inside the window) and then gets 0-2 deviations
			p.claimant = rapid.IntRange(0, len(w.nodes)-1).Draw(rt, "claimant")
			if p.claimant == w.victim && rapid.IntRange(0, 2).Draw(rt, "keepVictim") > 0 {
				p.claimant = (p.claimant + 1) % len(w.nodes)
			}
			p.app = rapid.SampledFrom([]int{0, 0, 1}).Draw(rt, "app")
			p.chain = "0001"
			faults := map[string]bool{}
			nFaults := rapid.SampledFrom([]int{0, 0, 0, 1, 1, 1, 1, 2}).Draw(rt, "nFaults")
			for f := 0; f < nFaults; f++ {
				faults[rapid.SampledFrom([]string{"early", "late", "under-min", "over", "unsupported-chain", "app-not-on-chain", "ghost-app", "appU", "stranger", "victim", "0021", "phantom-session"}).Draw(rt, "fault")] = true
			}
			switch {
			case faults["ghost-app"]:
				p.app = c32AppGhost
			case faults["appU"]:
				p.app = c32AppU
			}
			switch {
			case faults["unsupported-chain"]:
				p.chain = "0040"
			case faults["app-not-on-chain"]:
				p.chain = "0021"
				if p.app == 0 {
					p.app = 1
				}
			case faults["0021"]:
				p.chain = "0021"
				if p.app == 1 {
					p.app = 0
				}
			}
			switch {
			case faults["stranger"]:
				p.claimant = len(w.nodes)
			case faults["victim"] && w.victim >= 0:
				p.claimant = w.victim
			}
			if faults["phantom-session"] {
				// a "session height" that is not the first block of a session
				p.sbh = sbh + int64(rapid.IntRange(1, int(w.bps)-1).Draw(rt, "phantomOffset"))
			}
			sbh := p.sbh
			ph, sessEnd := w.ph(sbh), sbh+w.bps-1
			a := w.genAllowance(p.app)
			size := func() int {
				class := rapid.SampledFrom([]string{"mid", "mid", "min", "allowance"}).Draw(rt, "sizeClass")
				if faults["over"] {
					class = "over"
				} else if faults["under-min"] {
					class = "under-min"
				}
				switch class {
				case "min":
					return int(w.minProofs)
				case "allowance":
					return int(a)
				case "over":
					return int(a) + rapid.IntRange(1, 2).Draw(rt, "over")
				case "under-min":
					return int(w.minProofs) - 1
				}
				if a <= w.minProofs {
					return int(w.minProofs)
				}
				return rapid.IntRange(int(w.minProofs), int(a)).Draw(rt, "size")
			}
			claimAt := func() int64 {
				timing := rapid.SampledFrom([]string{"window", "window", "first", "last"}).Draw(rt, "claimTiming")
				if faults["early"] {
					timing = "early"
				} else if faults["late"] {
					timing = "late"
				}
				switch timing {
				case "first":
					return sessEnd + 1
				case "last":
					return ph
				case "early":
					return int64(rapid.IntRange(int(sbh-1), int(sessEnd)).Draw(rt, "earlyAt"))
				case "late":
					return ph + int64(rapid.IntRange(1, 2).Draw(rt, "lateBy"))
				}
				return int64(rapid.IntRange(int(sessEnd+1), int(ph)).Draw(rt, "claimAt"))
			}
			kind := rapid.SampledFrom([]string{"normal", "normal", "normal", "normal", "normal", "normal", "cycle-at-maturity", "no-proof"}).Draw(rt, "planKind")
			switch kind {
			case "cycle-at-maturity":
				// everything in the block whose header reveals the entropy: claim, proof, claim again, proof again
				sz := size()
				p.fixed = true
				first := ph
				if rapid.Bool().Draw(rt, "firstClaimEarlier") {
					first = int64(rapid.IntRange(int(sessEnd+1), int(ph)).Draw(rt, "firstClaimAt"))
				}
				p.subs = append(p.subs, &c32Sub{plan: p, at: first, prio: next(), isClaim: true, size: sz})
				p.subs = append(p.subs, &c32Sub{plan: p, at: ph, prio: next(), variant: "valid"})
				p.subs = append(p.subs, &c32Sub{plan: p, at: ph, prio: next(), isClaim: true, size: sz})
				p.subs = append(p.subs, &c32Sub{plan: p, at: ph, prio: next(), variant: "valid"})
			default:
				at := claimAt()
				p.subs = append(p.subs, &c32Sub{plan: p, at: at, prio: next(), isClaim: true, size: size()})
				if rapid.IntRange(0, 3).Draw(rt, "duplicateClaim") == 0 {
					at2 := at + int64(rapid.IntRange(0, int(w.bps)).Draw(rt, "dupDelay"))
					p.subs = append(p.subs, &c32Sub{plan: p, at: at2, prio: next(), isClaim: true, size: size()})
				}
				if kind == "no-proof" {
					break
				}
				nProofs := rapid.IntRange(1, 3).Draw(rt, "nProofs")
				for q := 0; q < nProofs; q++ {
					var pat int64
					switch rapid.SampledFrom([]string{"mature", "mature", "mature", "mature", "mature", "at-maturity", "early", "around-expiry"}).Draw(rt, "proofTiming") {
					case "at-maturity":
						pat = ph
					case "early":
						pat = ph - int64(rapid.IntRange(1, 2).Draw(rt, "earlyBy"))
					case "around-expiry":
						pat = at + w.exp*w.bps + int64(rapid.IntRange(-1, 1).Draw(rt, "expiryDelta"))
					default:
						pat = ph + int64(rapid.IntRange(1, int(w.bps)).Draw(rt, "matureBy"))
					}
					p.subs = append(p.subs, &c32Sub{plan: p, at: pat, prio: next(), variant: rapid.SampledFrom(c32ProofVariants).Draw(rt, "variant")})
				}
			}
			plans = append(plans, p)
		}
	}
	// optionally shuffle the order of the transactions inside a block (except for cycle plans, whose order is the point)
	if rapid.Bool().Draw(rt, "shuffleWithinBlocks") {
		for _, p := range plans {
			if p.fixed {
				continue
			}
			for _, sb := range p.subs {
				sb.prio = rapid.IntRange(0, 1000).Draw(rt, "prio")*100 + sb.prio
			}
		}
	}
	return plans
}

// ---------------------------------------------------------------------------------------------
// state snapshots (raw facts read after every block) and the model

type c32Val struct {
	stake      int64
	status     sdk.StakeStatus
	jailed     bool
	chains     []string
	output     sdk.Address
	delegators map[string]uint32
}

type c32App struct {
	status    sdk.StakeStatus
	maxRelays int64
	chains    []string
}

type c32Snap struct {
	vals map[string]c32Val
	apps map[string]c32App
}

type c32Live struct {
	key      string
	node     sdk.Address
	header   pocketTypes.SessionHeader
	tree     *rf.Tree
	accepted int64
	expires  int64
	plan     *c32Plan
}

type c32Run struct {
	c          *harness.Case
	w          *c32World
	n          *chain.Node
	snaps      map[int64]c32Snap
	live       map[string]*c32Live
	paid       map[string]int // payments per (node, session header)
	expired    map[string]bool
	lastPaidAt map[string]int64
	entr       int64
	// bookkeeping for the non-trivial rule: per session header
	rewardedHdr map[string]bool
	rejectedHdr map[string]bool
}

func has(list []string, x string) bool {
	for _, y := range list {
		if y == x {
			return true
		}
	}
	return false
}

func (r *c32Run) snapshot() {
	s := c32Snap{vals: map[string]c32Val{}, apps: map[string]c32App{}}
	ctx := r.n.Ctx()
	for _, v := range r.n.App.VerifNodesKeeper().GetAllValidators(ctx) {
		s.vals[v.Address.String()] = c32Val{stake: v.StakedTokens.Int64(), status: v.Status, jailed: v.Jailed, chains: append([]string{}, v.Chains...), output: v.OutputAddress, delegators: v.RewardDelegators}
	}
	for _, a := range r.n.App.VerifAppsKeeper().GetAllApplications(ctx) {
		s.apps[a.Address.String()] = c32App{status: a.Status, maxRelays: a.MaxRelays.Int64(), chains: append([]string{}, a.Chains...)}
	}
	r.snaps[r.n.Height] = s
}

func claimKey(node sdk.Address, h pocketTypes.SessionHeader) string {
	return node.String() + "/" + h.HashString()
}

// judgeClaim decides from the model whether a claim delivered in block h is legitimate.
// reasons: why it is not; undecided: membership (or application status) cannot be decided without
// re-implementing the code under test.
func (r *c32Run) judgeClaim(h int64, msg *pocketTypes.MsgClaim) (reasons []string, undecided bool) {
	w := r.w
	sbh := msg.SessionHeader.SessionBlockHeight
	sessEnd, ph := sbh+w.bps-1, w.ph(sbh)
	if (sbh-1)%w.bps != 0 {
		reasons = append(reasons, "not-a-session-start")
	}
	if msg.TotalProofs < 5 {
		reasons = append(reasons, "under-5")
	}
	if msg.TotalProofs < w.minProofs {
		reasons = append(reasons, "under-min")
	}
	if h <= sessEnd {
		reasons = append(reasons, "early")
	}
	if h > ph {
		reasons = append(reasons, "late")
	}
	if !has(w.spec.PocketParams.SupportedBlockchains, msg.SessionHeader.Chain) {
		reasons = append(reasons, "unsupported-chain")
	}
	if h <= sessEnd {
		return // the state facts below are not defined yet
	}
	start, end := r.snaps[sbh], r.snaps[sessEnd]
	appPK, _ := crypto.NewPublicKey(msg.SessionHeader.ApplicationPubKey)
	app, ok := start.apps[sdk.Address(appPK.Address()).String()]
	if !ok {
		reasons = append(reasons, "unstaked-app")
	} else {
		if app.status != sdk.Staked {
			undecided = true
		}
		if !has(app.chains, msg.SessionHeader.Chain) {
			reasons = append(reasons, "app-not-on-chain")
		}
		if msg.TotalProofs > c32Round(app.maxRelays, int64(len(app.chains))*w.snc) {
			reasons = append(reasons, "over-allowance")
		}
	}
	if _, ok := start.vals[msg.FromAddress.String()]; !ok {
		reasons = append(reasons, "not-a-node")
	}
	// membership: every node staked for the chain at session start that is still there, unjailed and on the
	// chain at session end is eligible; with exactly SessionNodeCount eligible nodes they all are in.
	eligible := map[string]bool{}
	for a, v := range start.vals {
		if v.status != sdk.Staked || !has(v.chains, msg.SessionHeader.Chain) {
			continue
		}
		e, ok := end.vals[a]
		if ok && !e.jailed && has(e.chains, msg.SessionHeader.Chain) {
			eligible[a] = true
		}
	}
	me := msg.FromAddress.String()
	switch {
	case int64(len(eligible)) < w.snc:
		reasons = append(reasons, "no-session")
		if e, ok := end.vals[me]; ok && e.jailed {
			reasons = append(reasons, "jailed")
		}
	case !eligible[me]:
		reasons = append(reasons, "not-in-session")
		if e, ok := end.vals[me]; ok && e.jailed {
			reasons = append(reasons, "jailed")
		}
	case int64(len(eligible)) > w.snc:
		undecided = true
	}
	return
}

func (r *c32Run) storedClaim(node sdk.Address, h pocketTypes.SessionHeader) (pocketTypes.MsgClaim, bool) {
	return r.n.App.VerifPocketKeeper().GetClaim(r.n.Ctx(), node, h, pocketTypes.RelayEvidence)
}

func (r *c32Run) supply() sdk.BigInt { return r.n.Supply().AmountOf(sdk.DefaultStakeDenom) }

func (r *c32Run) nextEntropy() int64 { r.entr++; return r.entr }

// buildClaim mints a fresh evidence set and tree for the plan and returns the signed claim tx.
func (r *c32Run) buildClaim(sb *c32Sub) (*pocketTypes.MsgClaim, []byte) {
	w, p := r.w, sb.plan
	node, app := w.claimantKey(p.claimant), w.apps[p.app]
	p.salt += 1000
	ev := rf.EvidenceSet(rf.ProofParams{Token: rf.MintAAT(app, w.client.PublicKey()), Client: w.client, ServicerPub: node.PublicKey().RawString(),
		Chain: p.chain, SessionHeight: p.sbh}, sb.size, p.salt)
	tree := rf.BuildTree(p.sbh, ev)
	p.oldTree, p.lastTree = p.lastTree, tree
	msg := rf.NewMsgClaim(rf.Header(app.PublicKey(), p.chain, p.sbh), chain.Addr(node), tree)
	return msg, chain.SignTx(w.spec.ChainID, msg, chain.DefaultFee, "", r.nextEntropy(), node)
}

// buildProof builds the proof tx of the given variant against what the claimant knows at height h and says
// whether the model expects it to be THE valid proof of the live claim.
func (r *c32Run) buildProof(h int64, sb *c32Sub) (msg *pocketTypes.MsgProof, tx []byte, expectValid bool, why string) {
	w, p := r.w, sb.plan
	node, app := w.claimantKey(p.claimant), w.apps[p.app]
	hdr := rf.Header(app.PublicKey(), p.chain, p.sbh)
	lc := r.live[claimKey(chain.Addr(node), hdr)]
	tree := p.lastTree
	if lc != nil {
		tree = lc.tree
	}
	if sb.variant == "stale-root" && p.oldTree != nil {
		tree = p.oldTree
	}
	if tree == nil { // no claim was ever built: the claimant proves a tree nobody claimed
		ev := rf.EvidenceSet(rf.ProofParams{Token: rf.MintAAT(app, w.client.PublicKey()), Client: w.client, ServicerPub: node.PublicKey().RawString(),
			Chain: p.chain, SessionHeight: p.sbh}, int(w.minProofs), p.salt+500)
		tree = rf.BuildTree(p.sbh, ev)
	}
	// the entropy is the hash of block proofHeight-1: a tx of block h can only know the blocks below h
	eh, known := rf.EntropyHash(r.n.BlockStore, w.ph(p.sbh))
	known = known && h >= w.ph(p.sbh)
	req := int64(0)
	if known {
		req = rf.RequiredIndex(eh, hdr, tree.Total())
	}
	idx, leafOK, signer := req, true, node
	msg = rf.NewMsgProof(tree, idx)
	switch sb.variant {
	case "wrong-index":
		idx = (req + 1 + (p.salt/1000)%(tree.Total()-1)) % tree.Total()
		msg = rf.NewMsgProof(tree, idx)
	case "wrong-leaf": // another leaf of the same tree under the Merkle path of the required one
		msg.Leaf = tree.Leaves[(req+1)%tree.Total()]
		leafOK = false
	case "foreign-leaf": // a relay proof that is not in the tree at all
		msg.Leaf = rf.NewRelayProof(rf.ProofParams{Token: rf.MintAAT(app, w.client.PublicKey()), Client: w.client, ServicerPub: node.PublicKey().RawString(),
			Chain: p.chain, SessionHeight: p.sbh, Entropy: p.salt + 999, RequestHash: rf.FakeRequestHash("foreign")})
		leafOK = false
	case "other-session-leaf": // a relay proof of the next session under this session's Merkle path
		msg.Leaf = rf.NewRelayProof(rf.ProofParams{Token: rf.MintAAT(app, w.client.PublicKey()), Client: w.client, ServicerPub: node.PublicKey().RawString(),
			Chain: p.chain, SessionHeight: p.sbh + w.bps, Entropy: p.salt + 998, RequestHash: rf.FakeRequestHash("other")})
		leafOK = false
	case "wrong-signer":
		signer = w.stranger
		if p.claimant >= len(w.nodes) {
			signer = w.nodes[0]
		}
	case "tampered-sibling":
		hr := append([]pocketTypes.HashRange{}, msg.MerkleProof.HashRanges...)
		hh := append([]byte{}, hr[0].Hash...)
		hh[0] ^= 0x01
		hr[0].Hash = hh
		msg.MerkleProof.HashRanges = hr
		leafOK = false
	}
	tx = chain.SignTx(w.spec.ChainID, msg, chain.DefaultFee, "", r.nextEntropy(), signer)
	switch {
	case lc == nil:
		why = "no live claim"
	case tree != lc.tree:
		why = "proof of an overwritten/unclaimed tree"
	case !known:
		why = "before the entropy block exists"
	case h >= lc.expires:
		why = "claim expired"
	case idx != req:
		why = "wrong index"
	case !leafOK:
		why = "wrong leaf / tampered path"
	case !signer.PublicKey().Equals(node.PublicKey()):
		why = "wrong tx signer"
	default:
		expectValid = true
	}
	return
}

// ---------------------------------------------------------------------------------------------

func TestC32(t *testing.T) {
	harness.Check(t, "C32",
		"chain-simulator histories (2-4 servicers, SessionNodeCount = eligible nodes [or one less with a jailed victim], 3 staked apps + 1 unstaked key, "+
			"blocks/session 2-4, window 2-3, expiration window..+1, min proofs 5-9, per-node allowance min..min+4) of real MsgClaim/MsgProof txs from the relay factory: "+
			"claims early / at each window height / late, sizes under-min..over-allowance, unsupported chain, unstaked or unstaking app, stranger / jailed / off-chain claimant, duplicate claims with a new root; "+
			"proofs valid / before maturity / in the maturity block / wrong index / wrong leaf / foreign leaf / other-session leaf / wrong signer / tampered path / stale root / twice / around expiry / none. "+
			"Oracle = trace monitor (model of legitimate claims and required leaves; supply measured around every tx; claims store compared with the model after every block). "+
			"non-trivial = history with a rewarded proof and at least one rejected claim or proof for the same session header",
		map[string]float64{"rewarded": 0.25, "claim-rejected": 0.3, "proof-rejected": 0.25, "claim-duplicate": 0.1, "claim-early": 0.05, "claim-late": 0.05,
			"claim-over-allowance": 0.05, "claim-under-min": 0.05, "proof-twice": 0.03, "expired-unproved": 0.1, "proof-wrong-index": 0.03, "proof-wrong-leaf": 0.03,
			"claim-not-in-session": 0.03, "proof-before-entropy": 0.03},
		func(rt *rapid.T, c *harness.Case) {
			w := genC32World(rt)
			plans := genC32Plans(rt, w)
			c.Opf("%s", w.desc)
			runC32(rt, c, w, plans)
		})
}

func runC32(rt *rapid.T, c *harness.Case, w *c32World, plans []*c32Plan) {
	n := chain.NewNode(&w.spec)
	work, err := os.MkdirTemp(os.Getenv("VERIF_WORK"), "c32-")
	if err != nil {
		rt.Fatalf("mkdtemp: %v", err)
	}
	defer os.RemoveAll(work)
	defer pocketTypes.CleanPocketNodes()
	// a production node always runs with its own key registered (this is what creates GlobalSessionCache)
	self := chain.Key("observer")
	if rapid.Bool().Draw(rt, "selfIsClaimant") {
		self = w.nodes[0]
		c.Label("self-is-node0")
	}
	rf.RegisterServicer(self, work, 0)

	r := &c32Run{c: c, w: w, n: n, snaps: map[int64]c32Snap{}, live: map[string]*c32Live{}, paid: map[string]int{}, expired: map[string]bool{}, lastPaidAt: map[string]int64{}, rewardedHdr: map[string]bool{}, rejectedHdr: map[string]bool{}}
	r.snapshot()
	feeCollector := n.App.VerifAccountKeeper().GetModuleAddress(authTypes.FeeCollectorName).String()

	var subs []*c32Sub
	end := int64(0)
	for _, p := range plans {
		for _, sb := range p.subs {
			if sb.at <= n.Height {
				sb.at = n.Height + 1
			}
			subs = append(subs, sb)
			horizon := sb.at + 1
			if sb.isClaim {
				horizon = sb.at + w.exp*w.bps + 1
			}
			if horizon > end {
				end = horizon
			}
		}
	}
	sort.SliceStable(subs, func(i, j int) bool {
		if subs[i].at != subs[j].at {
			return subs[i].at < subs[j].at
		}
		return subs[i].prio < subs[j].prio
	})
	if end > 48 {
		end = 48
	}
	victimHex := ""
	if w.victim >= 0 {
		victimHex = hex.EncodeToString(chain.Addr(w.nodes[w.victim]))
	}
	validSeen := map[string]int{} // expected-valid proofs delivered per claim key (for the "twice" label)

	for n.Height < end {
		h := n.Height + 1
		blk := chain.Block{DT: time.Second, Absent: map[string]bool{}}
		if victimHex != "" && h >= w.absentAt && h < w.absentAt+3 {
			blk.Absent[victimHex] = true
		}
		supplyBefore := r.supply()
		n.BeginBlock(blk)
		// expiry happens in BeginBlock
		for k, lc := range r.live {
			if lc.expires <= h {
				delete(r.live, k)
				r.expired[k] = true
				if r.paid[k] == 0 {
					c.Label("expired-unproved")
				}
			}
		}
		if d := r.supply().Sub(supplyBefore); d.IsPositive() {
			c.Violation("C32/begin-block/supply-increase", "BeginBlock %d raised the supply by %s", h, d)
		}
		if w.unstakeAt == h {
			tx := chain.SignTx(w.spec.ChainID, &appsTypes.MsgBeginUnstake{Address: chain.Addr(w.apps[c32AppU])}, chain.DefaultFee, "", r.nextEntropy(), w.apps[c32AppU])
			before := r.supply()
			res := n.DeliverTx(tx)
			c.Opf("h%d appU begin-unstake code=%d", h, res.Code)
			if d := r.supply().Sub(before); d.IsPositive() {
				c.Violation("C32/other-tx/supply-increase", "app unstake tx raised the supply by %s", d)
			}
		}
		for _, sb := range subs {
			if sb.at != h {
				continue
			}
			if sb.isClaim {
				r.deliverClaim(h, sb)
			} else {
				r.deliverProof(h, sb, feeCollector, validSeen)
			}
		}
		supplyBefore = r.supply()
		eb := n.EndBlock()
		n.Commit(eb)
		if d := r.supply().Sub(supplyBefore); d.IsPositive() {
			c.Violation("C32/end-block/supply-increase", "EndBlock/Commit %d raised the supply by %s", h, d)
		}
		r.snapshot()
		r.compareClaimStore(h)
	}
	for hdr := range r.rewardedHdr {
		if r.rejectedHdr[hdr] {
			c.NonTrivial()
		}
	}
}

func (r *c32Run) deliverClaim(h int64, sb *c32Sub) {
	c, w, p := r.c, r.w, sb.plan
	msg, tx := r.buildClaim(sb)
	node := msg.FromAddress
	key := claimKey(node, msg.SessionHeader)
	reasons, undecided := r.judgeClaim(h, msg)
	prev, hadPrev := r.storedClaim(node, msg.SessionHeader)
	before := r.supply()
	res := r.n.DeliverTx(tx)
	delta := r.supply().Sub(before)
	sb.desc = fmt.Sprintf("h%d claim plan%d claimant=%d app=%d chain=%s sbh=%d total=%d (sessEnd=%d proofHeight=%d) -> code=%d model=%v undecided=%v",
		h, p.id, p.claimant, p.app, p.chain, p.sbh, msg.TotalProofs, p.sbh+w.bps-1, w.ph(p.sbh), res.Code, reasons, undecided)
	c.Opf("%s", sb.desc)
	for _, why := range reasons {
		c.Label("claim-" + why)
	}
	if undecided {
		c.Label("claim-membership-undecided")
	}
	switch {
	case h == p.sbh+w.bps:
		c.Label("claim-window-first")
	case h == w.ph(p.sbh):
		c.Label("claim-window-last")
	}
	if hadPrev {
		c.Label("claim-duplicate")
	}
	if !delta.IsZero() {
		c.Violation("C32/claim/supply-changed", "%s: a claim tx changed the supply by %s", sb.desc, delta)
	}
	got, found := r.storedClaim(node, msg.SessionHeader)
	if res.Code == 0 {
		c.Label("claim-accepted")
		if len(reasons) > 0 {
			// the signature names the first reason other than the (known) missing session-start check, so that
			// that finding never hides another one
			why := reasons[0]
			for _, x := range reasons {
				if x != "not-a-session-start" {
					why = x
					break
				}
			}
			c.Violation("C32/claim/accepted-"+why, "%s: accepted although the model says %v", sb.desc, reasons)
		}
		if !found || !got.MerkleRoot.Equal(msg.MerkleRoot) || got.TotalProofs != msg.TotalProofs {
			c.Violation("C32/claim/accepted-but-not-stored", "%s: claim tx code 0 but the store holds found=%v total=%d", sb.desc, found, got.TotalProofs)
		}
		r.live[key] = &c32Live{key: key, node: node, header: msg.SessionHeader, tree: p.lastTree, accepted: h, expires: h + w.exp*w.bps, plan: p}
		return
	}
	c.Label("claim-rejected")
	r.rejectedHdr[msg.SessionHeader.HashString()] = true
	if len(reasons) == 0 && !undecided {
		c.Violation("C32/claim/legit-claim-rejected", "%s: rejected (%s) although in-window, in-session, staked app, supported chain, within allowance", sb.desc, res.Log)
	}
	if found != hadPrev || (found && (!got.MerkleRoot.Equal(prev.MerkleRoot) || got.TotalProofs != prev.TotalProofs || got.ExpirationHeight != prev.ExpirationHeight)) {
		c.Violation("C32/claim/rejected-claim-changed-store", "%s: rejected claim tx changed the stored claim (before found=%v, after found=%v)", sb.desc, hadPrev, found)
	}
}

func (r *c32Run) deliverProof(h int64, sb *c32Sub, feeCollector string, validSeen map[string]int) {
	c, w, p := r.c, r.w, sb.plan
	msg, tx, expectValid, why := r.buildProof(h, sb)
	// the claim the chain acts upon is the one named by the leaf (its servicer key and session header)
	node := msg.GetSigners()[0]
	hdr := msg.Leaf.SessionHeader()
	key := claimKey(node, hdr)
	lc := r.live[key]
	// a reward is weighted by the servicer's stake bin: below one bin (or validator gone) nothing is minted
	// (read live: a replay-attack burn earlier in this very block may have pushed the stake under the bin)
	weightOne := false
	if v, ok := r.n.App.VerifNodesKeeper().GetValidator(r.n.Ctx(), node); ok && v.StakedTokens.GTE(sdk.NewInt(chain.StakeUnit)) {
		// ... and below height 69583 a servicer with a separate, non-validator output address earns nothing
		weightOne = v.OutputAddress == nil || v.OutputAddress.Equals(v.Address)
	}
	accBefore := r.n.Accounts()
	before := r.supply()
	res := r.n.DeliverTx(tx)
	delta := r.supply().Sub(before)
	paid := delta.IsPositive()
	sb.desc = fmt.Sprintf("h%d proof plan%d %s claimant=%d app=%d chain=%s sbh=%d index=%d (proofHeight=%d) -> code=%d minted=%s model: valid=%v %s",
		h, p.id, sb.variant, p.claimant, p.app, p.chain, p.sbh, msg.MerkleProof.TargetIndex, w.ph(p.sbh), res.Code, delta, expectValid, why)
	c.Opf("%s", sb.desc)
	c.Label("proof-" + sb.variant)
	switch why {
	case "before the entropy block exists":
		c.Label("proof-before-entropy")
	case "claim expired":
		c.Label("proof-after-expiry")
	case "no live claim":
		c.Label("proof-without-claim")
		if r.expired[key] {
			c.Label("proof-after-expiry")
		}
	}
	if lc != nil && h == lc.expires-1 {
		c.Label("proof-in-last-live-block")
	}
	if h == w.ph(p.sbh) {
		c.Label("proof-in-maturity-block")
	}
	if expectValid {
		validSeen[key]++
	} else if sb.variant == "valid" && validSeen[key] > 0 && lc == nil {
		c.Label("proof-twice")
	}
	if delta.IsNegative() && res.Code == 0 {
		c.Violation("C32/proof/successful-proof-burned", "%s: code 0 but the supply shrank", sb.desc)
	}
	_, stillStored := r.storedClaim(node, hdr)
	if !paid {
		if res.Code != 0 {
			c.Label("proof-rejected")
			r.rejectedHdr[hdr.HashString()] = true
			r.rejectedHdr[rf.Header(w.apps[p.app].PublicKey(), p.chain, p.sbh).HashString()] = true
		}
		if expectValid && weightOne {
			c.Violation("C32/proof/valid-proof-not-rewarded", "%s: the required leaf of a live, mature, unexpired claim was not rewarded (%s)", sb.desc, res.Log)
		}
		if expectValid && !weightOne {
			// legitimate proof by a servicer whose stake weight is zero: consumed without a mint
			c.Label("valid-proof-zero-weight")
			if res.Code != 0 || stillStored {
				c.Violation("C32/proof/valid-proof-zero-weight-not-consumed", "%s: code=%d stillStored=%v", sb.desc, res.Code, stillStored)
			}
			delete(r.live, key)
			return
		}
		if lc != nil && !stillStored {
			// a rejected proof may delete the claim only through the replay-attack path
			if res.Code == uint32(pocketTypes.CodeReplayAttackError) {
				c.Label("replay-burn")
				delete(r.live, key)
			} else if res.Code != 0 {
				c.Violation("C32/proof/rejected-proof-deleted-claim", "%s: claim vanished after a proof rejected with code %d", sb.desc, res.Code)
			} else {
				c.Violation("C32/proof/accepted-without-payment", "%s: proof tx code 0 consumed the claim but nothing was minted", sb.desc)
				delete(r.live, key)
			}
		}
		return
	}
	// a relay reward was minted by this tx
	c.Label("rewarded")
	r.rewardedHdr[hdr.HashString()] = true
	if res.Code != 0 {
		c.Violation("C32/reward/paid-by-failed-tx", "%s: minted %s in a tx with code %d", sb.desc, delta, res.Code)
	}
	if !expectValid {
		sig := "C32/reward/paid-" + strings.ReplaceAll(strings.ReplaceAll(why, " / ", "-or-"), " ", "-")
		c.Violation(sig, "%s: relay reward %s minted although: %s", sb.desc, delta, why)
	}
	if lc != nil {
		if want := sdk.NewInt(lc.tree.Total() * w.rttm); !delta.Equal(want) {
			c.Violation("C32/reward/amount-differs-from-claimed-relays", "%s: minted %s, claim of %d relays at %d per relay = %s", sb.desc, delta, lc.tree.Total(), w.rttm, want)
		}
	}
	r.paid[key]++
	if r.paid[key] > 1 {
		c.Label("paid-twice-same-session")
		// Known overlap (see known_findings.json): in the one block whose height is sessionHeight + window*blocksPerSession a claim
		// is still accepted while a proof is already accepted, so claim -> proof -> claim again -> proof again pays repeatedly.
		// Only exactly that shape carries the known signature; any other repeated payment reports under its own signature.
		overlap := w.ph(hdr.SessionBlockHeight)
		switch {
		case lc != nil && lc.accepted == overlap && h == overlap:
			c.Violation("C32/reward/second-payment-same-node-session", "%s: payment #%d for the same (node, app, chain, session), after a claim re-submitted and accepted in the overlap block %d", sb.desc, r.paid[key], h)
		case lc != nil && lc.accepted == overlap && r.lastPaidAt[key] == overlap:
			// same cause, the second proof merely arrives in a later block
			c.Violation("C32/reward/second-payment-later-block-after-overlap-reclaim", "%s: payment #%d for the same (node, app, chain, session); first payment and re-claim both in the overlap block %d", sb.desc, r.paid[key], overlap)
		case lc != nil && lc.accepted >= r.lastPaidAt[key]:
			c.Violation("C32/reward/second-payment-other-block", "%s: payment #%d for the same (node, app, chain, session) after a re-claim accepted at height %d (overlap block is %d)", sb.desc, r.paid[key], lc.accepted, overlap)
		default:
			c.Violation("C32/reward/second-payment-without-reclaim", "%s: payment #%d for the same (node, app, chain, session) without a newly accepted claim", sb.desc, r.paid[key])
		}
	}
	r.lastPaidAt[key] = h
	if stillStored {
		c.Violation("C32/reward/claim-not-deleted", "%s: claim still stored after its payment", sb.desc)
	}
	delete(r.live, key)
	// servicer credit: only the claimant's operator / output / delegators (and the fee collector) may gain
	allowed := map[string]bool{hex.EncodeToString(node): true, strings.ToLower(feeCollector): true}
	if v, ok := r.snaps[r.n.Height].vals[node.String()]; ok {
		if v.output != nil {
			allowed[hex.EncodeToString(v.output)] = true
		}
		for d := range v.delegators {
			allowed[strings.ToLower(d)] = true
		}
	}
	for a, coins := range r.n.Accounts() {
		was := accBefore[a].AmountOf(sdk.DefaultStakeDenom)
		if coins.AmountOf(sdk.DefaultStakeDenom).GT(was) && !allowed[strings.ToLower(a)] {
			c.Violation("C32/reward/credited-to-unrelated-account", "%s: account %s gained %s", sb.desc, a, coins.AmountOf(sdk.DefaultStakeDenom).Sub(was))
		}
	}
}

// compareClaimStore: after every block the claims in the store are exactly the model's live claims.
func (r *c32Run) compareClaimStore(h int64) {
	c := r.c
	stored := r.n.App.VerifPocketKeeper().GetAllClaims(r.n.Ctx())
	seen := map[string]bool{}
	for _, cl := range stored {
		k := claimKey(cl.FromAddress, cl.SessionHeader)
		seen[k] = true
		lc := r.live[k]
		if lc == nil {
			if cl.ExpirationHeight <= h {
				c.Violation("C32/expiry/expired-claim-still-stored", "after block %d: claim of %s sbh=%d with expiration height %d is still stored", h, cl.FromAddress, cl.SessionHeader.SessionBlockHeight, cl.ExpirationHeight)
			} else {
				c.Violation("C32/claims/stored-claim-unknown-to-model", "after block %d: stored claim of %s sbh=%d total=%d that the model paid, expired or never accepted", h, cl.FromAddress, cl.SessionHeader.SessionBlockHeight, cl.TotalProofs)
			}
			continue
		}
		if cl.ExpirationHeight != lc.expires || !bytes.Equal(cl.MerkleRoot.Hash, lc.tree.Root.Hash) || cl.TotalProofs != lc.tree.Total() {
			c.Violation("C32/claims/stored-claim-differs", "after block %d: stored claim (exp=%d total=%d) vs model (exp=%d total=%d)", h, cl.ExpirationHeight, cl.TotalProofs, lc.expires, lc.tree.Total())
		}
	}
	for k, lc := range r.live {
		if !seen[k] {
			c.Violation("C32/claims/live-claim-missing", "after block %d: claim accepted at %d (expires %d) is gone without payment or expiry", h, lc.accepted, lc.expires)
		}
	}
}
