package relays

import (
	"encoding/hex"
	"fmt"
	"testing"

	"pgregory.net/rapid"

	"github.com/pokt-network/pocket-core/crypto"
	pocketTypes "github.com/pokt-network/pocket-core/x/pocketcore/types"

	"verif/harness"
	rf "verif/harness/relayfactory"
)

// C35: a relay is served and recorded only with valid client and application authorization.
//
// Keeper level: the REAL pocketcore keeper of a chain-simulator node (n.App.VerifPocketKeeper()), ctx built as
// the RPC layer does (app.NewContext(lastHeight)), keeper.HandleRelay(ctx, relay). Each generated relay is a
// valid relay from the relay factory with at most one alteration; whatever an attacker can re-sign with keys
// he owns (his own client key, an unstaked application key) is re-signed so that exactly the altered
// authorization element is what is wrong.

type c35Alteration struct {
	name  string
	valid bool // the relay must still be served (boundary / non-vacuity variants)
	// apply edits the parameters before minting (pre) and/or the minted relay (post)
	pre  func(w *relayWorld, env *c35Env, p *rf.RelayParams)
	post func(w *relayWorld, env *c35Env, r *pocketTypes.Relay)
	// enabled reports whether the alteration is meaningful in this world/state
	enabled func(w *relayWorld, env *c35Env) bool
}

type c35Env struct {
	height    int64 // ctx height
	sbh       int64 // latest session start
	allowance int64 // ClientSessionSyncAllowance (sessions)
	rt        *rapid.T
}

func flipHexByte(s string) string {
	b, err := hex.DecodeString(s)
	if err != nil || len(b) == 0 {
		return "00" + s
	}
	b[len(b)/2] ^= 0x40
	return hex.EncodeToString(b)
}

func resign(w *relayWorld, r *pocketTypes.Relay, client crypto.PrivateKey) {
	rf.SignRelayProof(&r.Proof, client)
}

var c35Alterations = []c35Alteration{
	{name: "none", valid: true},
	{name: "none-meta-at-upper-allowance", valid: true, pre: func(w *relayWorld, e *c35Env, p *rf.RelayParams) { p.MetaHeight = e.height + 10 }},
	{name: "none-meta-at-lower-allowance", valid: true, pre: func(w *relayWorld, e *c35Env, p *rf.RelayParams) { p.MetaHeight = e.height - 10 }},
	{name: "none-get-with-path-and-headers", valid: true, pre: func(w *relayWorld, e *c35Env, p *rf.RelayParams) {
		p.Payload.Method, p.Payload.Path, p.Payload.Data = "GET", "/v1/status", ""
		p.Payload.Headers = map[string]string{"X-Verif": "1"}
	}},
	{name: "none-previous-session-within-session-allowance", valid: true,
		enabled: func(w *relayWorld, e *c35Env) bool { return e.allowance >= 1 && e.sbh-w.bps >= 3 },
		pre:     func(w *relayWorld, e *c35Env, p *rf.RelayParams) { p.SessionHeight = e.sbh - w.bps }},

	// ---- application token
	{name: "aat-signature-corrupted", post: func(w *relayWorld, e *c35Env, r *pocketTypes.Relay) {
		r.Proof.Token.ApplicationSignature = flipHexByte(r.Proof.Token.ApplicationSignature)
	}},
	{name: "aat-signed-by-other-key", post: func(w *relayWorld, e *c35Env, r *pocketTypes.Relay) {
		rf.SignAAT(&r.Proof.Token, w.ghost) // names app0, signed by a key that is not app0
	}},
	{name: "aat-unstaked-application", pre: func(w *relayWorld, e *c35Env, p *rf.RelayParams) {
		p.Token = rf.MintAAT(w.ghost, w.client.PublicKey()) // properly signed by an application that is not staked
	}},
	{name: "aat-app-key-swapped-to-other-staked-app", post: func(w *relayWorld, e *c35Env, r *pocketTypes.Relay) {
		r.Proof.Token.ApplicationPublicKey = w.app1.PublicKey().RawString() // signature still app0's
		resign(w, r, w.client)
	}},
	{name: "aat-client-key-replaced", post: func(w *relayWorld, e *c35Env, r *pocketTypes.Relay) {
		r.Proof.Token.ClientPublicKey = w.rogue.PublicKey().RawString() // token not re-signed (attacker has no app key)
		resign(w, r, w.rogue)
	}},
	{name: "aat-version-unsupported", pre: func(w *relayWorld, e *c35Env, p *rf.RelayParams) {
		p.Token.Version = "0.0.2"
		rf.SignAAT(&p.Token, w.app0)
	}},
	{name: "aat-version-missing", pre: func(w *relayWorld, e *c35Env, p *rf.RelayParams) {
		p.Token.Version = ""
		rf.SignAAT(&p.Token, w.app0)
	}},

	// ---- client signature
	{name: "client-signature-by-unnamed-key", post: func(w *relayWorld, e *c35Env, r *pocketTypes.Relay) { resign(w, r, w.rogue) }},
	{name: "client-signature-corrupted", post: func(w *relayWorld, e *c35Env, r *pocketTypes.Relay) {
		r.Proof.Signature = flipHexByte(r.Proof.Signature)
	}},
	{name: "client-signature-over-other-entropy", post: func(w *relayWorld, e *c35Env, r *pocketTypes.Relay) { r.Proof.Entropy++ }},

	// ---- request hash / payload
	{name: "request-hash-of-other-payload", post: func(w *relayWorld, e *c35Env, r *pocketTypes.Relay) {
		r.Proof.RequestHash = rf.RequestHashOf(pocketTypes.Payload{Data: `{"other":true}`, Method: "POST"}, r.Meta)
		resign(w, r, w.client)
	}},
	{name: "payload-data-changed-after-hashing", post: func(w *relayWorld, e *c35Env, r *pocketTypes.Relay) { r.Payload.Data += " " }},
	{name: "payload-path-changed-after-hashing", post: func(w *relayWorld, e *c35Env, r *pocketTypes.Relay) { r.Payload.Path = "/admin" }},
	{name: "payload-header-added-after-hashing", post: func(w *relayWorld, e *c35Env, r *pocketTypes.Relay) {
		r.Payload.Headers = map[string]string{"Authorization": "x"}
	}},
	{name: "meta-height-changed-after-hashing", post: func(w *relayWorld, e *c35Env, r *pocketTypes.Relay) { r.Meta.BlockHeight++ }},
	{name: "payload-empty", pre: func(w *relayWorld, e *c35Env, p *rf.RelayParams) { p.Payload.Data, p.Payload.Path = "", "" }},

	// ---- servicer
	{name: "servicer-key-of-in-session-peer", pre: func(w *relayWorld, e *c35Env, p *rf.RelayParams) {
		p.ServicerPub = w.others[0].PublicKey().RawString()
	}},
	{name: "servicer-key-of-stranger", pre: func(w *relayWorld, e *c35Env, p *rf.RelayParams) { p.ServicerPub = w.rogue.PublicKey().RawString() }},
	{name: "servicer-key-malformed", pre: func(w *relayWorld, e *c35Env, p *rf.RelayParams) { p.ServicerPub = p.ServicerPub[:60] }},

	// ---- chain
	{name: "chain-session-without-this-node", pre: func(w *relayWorld, e *c35Env, p *rf.RelayParams) { p.Chain = "0021" }},
	{name: "chain-not-hosted-by-node", pre: func(w *relayWorld, e *c35Env, p *rf.RelayParams) { p.Chain = "0040" }},
	{name: "chain-not-staked-by-app", pre: func(w *relayWorld, e *c35Env, p *rf.RelayParams) { p.Chain = "0003" }},

	// ---- heights
	{name: "session-height-plus-one", pre: func(w *relayWorld, e *c35Env, p *rf.RelayParams) { p.SessionHeight = e.sbh + 1 }},
	{name: "session-height-next-session", pre: func(w *relayWorld, e *c35Env, p *rf.RelayParams) { p.SessionHeight = e.sbh + w.bps }},
	{name: "session-height-beyond-tolerance", pre: func(w *relayWorld, e *c35Env, p *rf.RelayParams) {
		p.SessionHeight = e.sbh - (e.allowance+1)*w.bps
	}, enabled: func(w *relayWorld, e *c35Env) bool { return e.sbh-(e.allowance+1)*w.bps >= 1 }},
	{name: "session-height-zero", pre: func(w *relayWorld, e *c35Env, p *rf.RelayParams) { p.SessionHeight = 0 }},
	{name: "session-height-negative", pre: func(w *relayWorld, e *c35Env, p *rf.RelayParams) { p.SessionHeight = -e.sbh }},
	{name: "session-height-not-a-session-start", pre: func(w *relayWorld, e *c35Env, p *rf.RelayParams) { p.SessionHeight = e.sbh - 1 }},
	{name: "meta-height-above-allowance", pre: func(w *relayWorld, e *c35Env, p *rf.RelayParams) { p.MetaHeight = e.height + 11 }},
	{name: "meta-height-below-allowance", pre: func(w *relayWorld, e *c35Env, p *rf.RelayParams) { p.MetaHeight = e.height - 11 }},
	{name: "entropy-negative", pre: func(w *relayWorld, e *c35Env, p *rf.RelayParams) { p.Entropy = -p.Entropy }},
}

func TestC35(t *testing.T) {
	floors := map[string]float64{"served": 0.9, "lean": 0.25, "non-lean": 0.25}
	for _, a := range []string{"aat-signature-corrupted", "aat-unstaked-application", "aat-client-key-replaced", "client-signature-by-unnamed-key",
		"request-hash-of-other-payload", "payload-data-changed-after-hashing", "servicer-key-of-in-session-peer", "chain-not-hosted-by-node",
		"chain-not-staked-by-app", "chain-session-without-this-node", "session-height-beyond-tolerance", "meta-height-above-allowance", "entropy-negative"} {
		floors["alt:"+a] = 0.1
	}
	harness.Check(t, "C35",
		"per case: a chain-simulator world (self + 1-3 in-session peers, SessionNodeCount = all 0001 stakers, blocks/session 2-4, ctx anywhere in the 2nd-4th session, "+
			"lean / non-lean node mode, session sync allowance 0-1), the real keeper's HandleRelay with 24 relays from the relay factory, each valid or with exactly one alteration "+
			"(application token signature / signer / application key / client key / version, client signature, request hash vs payload/meta, servicer key, chain not hosted / "+
			"not staked by app / session without this node, session height, meta height, entropy); oracle: altered => error, no backend call, evidence of every header unchanged; "+
			"unaltered => served once, response signed by the node key over the response hash, backend reply returned, exactly that proof appended once. "+
			"non-trivial = case in which at least one unaltered relay was served and at least 8 distinct alterations were rejected",
		floors,
		func(rt *rapid.T, c *harness.Case) {
			kBoth := rapid.IntRange(1, 3).Draw(rt, "peers")
			bps := int64(rapid.IntRange(2, 4).Draw(rt, "bps"))
			lean := rapid.Bool().Draw(rt, "lean")
			allowance := int64(rapid.IntRange(0, 1).Draw(rt, "sessionAllowance"))
			stop := 1 + bps + int64(rapid.IntRange(int(bps), int(3*bps)-1).Draw(rt, "heightInto")) // somewhere in session 2..4 (>= 5 after warm-up)
			if stop < 5 {
				stop = 5
			}
			w := newRelayWorld(rt, kBoth, bps, 30000, stop, lean, allowance)
			defer w.close()
			c.Opf("%s", w.desc)
			if lean {
				c.Label("lean")
			} else {
				c.Label("non-lean")
			}
			env := &c35Env{height: w.n.Height, sbh: w.latestSessionStart(w.n.Height), allowance: allowance, rt: rt}
			ctx := w.ctx(rt)
			served, rejected := 0, map[string]bool{}
			baseHdr := rf.Header(w.app0.PublicKey(), "0001", env.sbh)
			for i := 0; i < 24; i++ {
				alt := c35Alterations[rapid.IntRange(0, len(c35Alterations)-1).Draw(rt, "alteration")]
				if rapid.IntRange(0, 4).Draw(rt, "forceValid") == 0 {
					alt = c35Alterations[0]
				}
				if alt.enabled != nil && !alt.enabled(w, env) {
					continue
				}
				params := w.validRelayParams(env.sbh, env.height+int64(rapid.IntRange(-3, 3).Draw(rt, "metaSkew")), fmt.Sprintf(`{"jsonrpc":"2.0","method":"eth_blockNumber","id":%d}`, i))
				if alt.pre != nil {
					alt.pre(w, env, &params)
				}
				relay := rf.NewRelay(params)
				if alt.post != nil {
					alt.post(w, env, &relay)
				}
				hdrs := []pocketTypes.SessionHeader{baseHdr, relay.Proof.SessionHeader()}
				before := []evidenceView{viewEvidence(w.selfNode, hdrs[0]), viewEvidence(w.selfNode, hdrs[1])}
				hits := w.backend.Count()
				resp, err := w.k.HandleRelay(ctx, relay)
				after := []evidenceView{viewEvidence(w.selfNode, hdrs[0]), viewEvidence(w.selfNode, hdrs[1])}
				desc := fmt.Sprintf("relay#%d %s chain=%s sbh=%d meta=%d entropy=%d -> err=%v", i, alt.name, relay.Proof.Blockchain, relay.Proof.SessionBlockHeight, relay.Meta.BlockHeight, relay.Proof.Entropy, errString(err))
				c.Opf("%s", desc)
				c.Label("alt:" + alt.name)
				c.AddExtra("relays_checked", 1)
				if !alt.valid {
					if err == nil || resp != nil {
						// (forwarding and recording are consequences of serving: one signature per served alteration)
						if c.Violation("C35/served/"+alt.name, "%s: the altered relay was answered (response signature %.16s...), backend calls +%d, evidence %s -> %s",
							desc, respSig(resp), w.backend.Count()-hits, before[1], after[1]) {
							continue
						}
					}
					if w.backend.Count() != hits {
						c.Violation("C35/forwarded/"+alt.name, "%s: the altered relay was forwarded to the hosted chain", desc)
					}
					for j := range hdrs {
						if !before[j].equal(after[j]) {
							c.Violation("C35/recorded/"+alt.name, "%s: evidence of header %d changed: %s -> %s", desc, j, before[j], after[j])
						}
					}
					rejected[alt.name] = true
					continue
				}
				// non-vacuity: the unaltered relay is served, signed by the node key, recorded exactly once
				if err != nil || resp == nil {
					c.Violation("C35/valid-relay-rejected/"+alt.name, "%s: a well-formed relay was not served", desc)
					continue
				}
				served++
				c.Label("served")
				sig, e1 := hex.DecodeString(resp.Signature)
				if e1 != nil || !w.self.PublicKey().VerifyBytes(resp.Hash(), sig) {
					c.Violation("C35/valid-relay/response-not-signed-by-node", "%s: response signature does not verify under the node key", desc)
				}
				if resp.Response != relayBackendReply || resp.Proof.HashStringWithSignature() != relay.Proof.HashStringWithSignature() {
					c.Violation("C35/valid-relay/response-differs", "%s: response payload %q / proof differ from the backend reply / request proof", desc, resp.Response)
				}
				if w.backend.Count() != hits+1 {
					c.Violation("C35/valid-relay/backend-calls", "%s: %d backend calls for one relay", desc, w.backend.Count()-hits)
				}
				h := relay.Proof.SessionHeader()
				bv, av := viewEvidence(w.selfNode, h), after[1]
				_ = bv
				want := append(append([]string{}, before[1].hashes...), relay.Proof.HashStringWithSignature())
				if !av.found || av.num != int64(len(want)) || !av.equal(evidenceView{found: true, sealed: av.sealed, num: int64(len(want)), hashes: want}) {
					c.Violation("C35/valid-relay/not-recorded-exactly-once", "%s: evidence before %s after %s", desc, before[1], av)
				}
			}
			if served > 0 && len(rejected) >= 8 {
				c.NonTrivial()
			}
		})
}

func errString(err error) string {
	if err == nil {
		return "<nil>"
	}
	s := err.Error()
	if len(s) > 90 {
		s = s[:90]
	}
	return s
}

func respSig(r *pocketTypes.RelayResponse) string {
	if r == nil {
		return "<nil>"
	}
	return r.Signature
}
