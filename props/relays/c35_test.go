package relays

import (
	"encoding/hex"
	"fmt"
	"strings"
	"testing"
	"time"

	"pgregory.net/rapid"

	"github.com/pokt-network/pocket-core/crypto"
	sdk "github.com/pokt-network/pocket-core/types"
	pocketTypes "github.com/pokt-network/pocket-core/x/pocketcore/types"

	"verif/harness"
	rf "verif/harness/relayfactory"
)

// C35: a relay is served and recorded only with valid client and application authorization.
//
// Keeper level: the REAL pocketcore keeper of a chain-simulator node (n.App.VerifPocketKeeper()), ctx built as
// the RPC layer does (app.NewContext(lastHeight)), keeper.HandleRelay(ctx, relay). Each generated relay is a
// valid relay from the relay factory with at most one alteration; whatever an attacker can re-sign with keys
// he owns (his own client key, an unstaked application key) is re-signed so that exactly the altered
// authorization element is what is wrong.

type c35Alteration struct {
	name  string
	valid bool // the relay must still be served (boundary / non-vacuity variants)
	// apply edits the parameters before minting (pre) and/or the minted relay (post)
	pre  func(w *relayWorld, env *c35Env, p *rf.RelayParams)
	post func(w *relayWorld, env *c35Env, r *pocketTypes.Relay)
	// enabled reports whether the alteration is meaningful in this world/state
	enabled func(w *relayWorld, env *c35Env) bool
}

type c35Env struct {
	height    int64 // ctx height
	sbh       int64 // latest session start
	allowance int64 // ClientSessionSyncAllowance (sessions)
	rt        *rapid.T
	// validator-set changes by real transactions while the world was built:
	// selfOn21 is "" (self never staked for 0021), "joined-mid-session" (self edit-staked onto 0021 in a block after
	// the latest session's first block: it is not in that session), "since-session-start" (self edit-staked onto
	// 0021 and the "other" node left 0021 in the same block, at or before the session's first block: the stakers of
	// 0021 at the session start are exactly SessionNodeCount nodes including self) or "since-session-start-undecided"
	// (self joined at or before the session start, other stayed: SessionNodeCount+1 stakers, selection decides).
	selfOn21 string
	join21At int64 // block of self's edit-stake (0 = none)
	// prev0001Out: self is jailed in the state of the previous session's last block: it is not a node of that session on
	// any chain, chain 0001 included
	prev0001Out bool
}

// chainSched is self's planned presence on chain 0021 in the "previous-session-boundary" worlds: it edit-stakes onto the
// chain in block joinAt (the "other" node leaves 0021 in the same block, so that the 0021 stakers are exactly
// SessionNodeCount nodes whenever self is one of them), away from it in block leaveAt and back onto it in block rejoinAt
// (0 = never). An edit-stake takes effect in the state of the block it is delivered in.
type chainSched struct{ joinAt, leaveAt, rejoinAt int64 }

// on reports whether self is staked for 0021 in the state of block h.
func (s chainSched) on(h int64) bool {
	if s.joinAt == 0 || h < s.joinAt {
		return false
	}
	if s.leaveAt != 0 && h >= s.leaveAt {
		return s.rejoinAt != 0 && h >= s.rejoinAt
	}
	return true
}

// inSession: a session that starts at block start is formed from the nodes staked for the chain in the state of its first
// block, minus those that are no longer eligible in the state of its last block (or of the node's latest block `now` while the
// session is still running). With exactly SessionNodeCount stakers every staker is selected, so self is a session node iff it
// is staked for the chain in both states; if it is not, no full session exists and the relay cannot be served either way.
func (s chainSched) inSession(start, bps, now int64) bool {
	end := start + bps - 1
	if end > now {
		end = now
	}
	return s.on(start) && s.on(end)
}

// selfOn21 == "left-mid-session": self was on 0021 at the session's first block and edit-staked away from it in a
// later block of the session: session nodes that no longer serve the chain are dropped from the session.

func chainAddr(k crypto.PrivateKey) sdk.Address { return sdk.Address(k.PublicKey().Address()) }

func flipHexByte(s string) string {
	b, err := hex.DecodeString(s)
	if err != nil || len(b) == 0 {
		return "00" + s
	}
	b[len(b)/2] ^= 0x40
	return hex.EncodeToString(b)
}

func resign(w *relayWorld, r *pocketTypes.Relay, client crypto.PrivateKey) {
	rf.SignRelayProof(&r.Proof, client)
}

var c35Alterations = []c35Alteration{
	{name: "none", valid: true},
	{name: "none-meta-at-upper-allowance", valid: true, pre: func(w *relayWorld, e *c35Env, p *rf.RelayParams) { p.MetaHeight = e.height + 10 }},
	{name: "none-meta-at-lower-allowance", valid: true, pre: func(w *relayWorld, e *c35Env, p *rf.RelayParams) { p.MetaHeight = e.height - 10 }},
	{name: "none-get-with-path-and-headers", valid: true, pre: func(w *relayWorld, e *c35Env, p *rf.RelayParams) {
		p.Payload.Method, p.Payload.Path, p.Payload.Data = "GET", "/v1/status", ""
		p.Payload.Headers = map[string]string{"X-Verif": "1"}
	}},
	{name: "none-previous-session-within-session-allowance", valid: true,
		enabled: func(w *relayWorld, e *c35Env) bool { return e.allowance >= 1 && e.sbh-w.bps >= 3 && !e.prev0001Out },
		pre:     func(w *relayWorld, e *c35Env, p *rf.RelayParams) { p.SessionHeight = e.sbh - w.bps }},

	// ---- application token
	{name: "aat-signature-corrupted", post: func(w *relayWorld, e *c35Env, r *pocketTypes.Relay) {
		r.Proof.Token.ApplicationSignature = flipHexByte(r.Proof.Token.ApplicationSignature)
	}},
	{name: "aat-signed-by-other-key", post: func(w *relayWorld, e *c35Env, r *pocketTypes.Relay) {
		rf.SignAAT(&r.Proof.Token, w.ghost) // names app0, signed by a key that is not app0
	}},
	{name: "aat-unstaked-application", pre: func(w *relayWorld, e *c35Env, p *rf.RelayParams) {
		p.Token = rf.MintAAT(w.ghost, w.client.PublicKey()) // properly signed by an application that is not staked
	}},
	{name: "aat-app-key-swapped-to-other-staked-app", post: func(w *relayWorld, e *c35Env, r *pocketTypes.Relay) {
		r.Proof.Token.ApplicationPublicKey = w.app1.PublicKey().RawString() // signature still app0's
		resign(w, r, w.client)
	}},
	{name: "aat-client-key-replaced", post: func(w *relayWorld, e *c35Env, r *pocketTypes.Relay) {
		r.Proof.Token.ClientPublicKey = w.rogue.PublicKey().RawString() // token not re-signed (attacker has no app key)
		resign(w, r, w.rogue)
	}},
	{name: "aat-version-unsupported", pre: func(w *relayWorld, e *c35Env, p *rf.RelayParams) {
		p.Token.Version = "0.0.2"
		rf.SignAAT(&p.Token, w.app0)
	}},
	{name: "aat-version-missing", pre: func(w *relayWorld, e *c35Env, p *rf.RelayParams) {
		p.Token.Version = ""
		rf.SignAAT(&p.Token, w.app0)
	}},

	// ---- client signature
	{name: "client-signature-by-unnamed-key", post: func(w *relayWorld, e *c35Env, r *pocketTypes.Relay) { resign(w, r, w.rogue) }},
	{name: "client-signature-corrupted", post: func(w *relayWorld, e *c35Env, r *pocketTypes.Relay) {
		r.Proof.Signature = flipHexByte(r.Proof.Signature)
	}},
	{name: "client-signature-over-other-entropy", post: func(w *relayWorld, e *c35Env, r *pocketTypes.Relay) { r.Proof.Entropy++ }},

	// ---- request hash / payload
	{name: "request-hash-of-other-payload", post: func(w *relayWorld, e *c35Env, r *pocketTypes.Relay) {
		r.Proof.RequestHash = rf.RequestHashOf(pocketTypes.Payload{Data: `{"other":true}`, Method: "POST"}, r.Meta)
		resign(w, r, w.client)
	}},
	{name: "payload-data-changed-after-hashing", post: func(w *relayWorld, e *c35Env, r *pocketTypes.Relay) { r.Payload.Data += " " }},
	{name: "payload-path-changed-after-hashing", post: func(w *relayWorld, e *c35Env, r *pocketTypes.Relay) { r.Payload.Path = "/admin" }},
	{name: "payload-header-added-after-hashing", post: func(w *relayWorld, e *c35Env, r *pocketTypes.Relay) {
		r.Payload.Headers = map[string]string{"Authorization": "x"}
	}},
	{name: "meta-height-changed-after-hashing", post: func(w *relayWorld, e *c35Env, r *pocketTypes.Relay) { r.Meta.BlockHeight++ }},
	{name: "payload-empty", pre: func(w *relayWorld, e *c35Env, p *rf.RelayParams) { p.Payload.Data, p.Payload.Path = "", "" }},

	// ---- servicer
	{name: "servicer-key-of-in-session-peer", pre: func(w *relayWorld, e *c35Env, p *rf.RelayParams) {
		p.ServicerPub = w.others[0].PublicKey().RawString()
	}},
	{name: "servicer-key-of-stranger", pre: func(w *relayWorld, e *c35Env, p *rf.RelayParams) { p.ServicerPub = w.rogue.PublicKey().RawString() }},
	{name: "servicer-key-malformed", pre: func(w *relayWorld, e *c35Env, p *rf.RelayParams) { p.ServicerPub = p.ServicerPub[:60] }},

	// ---- chain
	{name: "chain-session-without-this-node", pre: func(w *relayWorld, e *c35Env, p *rf.RelayParams) { p.Chain = "0021" },
		enabled: func(w *relayWorld, e *c35Env) bool { return e.selfOn21 == "" }},
	// the servicer staked for the chain (and hosts it) NOW, but joined after the session's first block: the session
	// was formed from the stakers at its first block, the servicer is not one of its nodes
	{name: "servicer-joined-chain-mid-session", pre: func(w *relayWorld, e *c35Env, p *rf.RelayParams) { p.Chain = "0021" },
		enabled: func(w *relayWorld, e *c35Env) bool { return e.selfOn21 == "joined-mid-session" }},
	{name: "servicer-joined-chain-after-previous-session-start", pre: func(w *relayWorld, e *c35Env, p *rf.RelayParams) {
		p.Chain, p.SessionHeight = "0021", e.sbh-w.bps
	}, enabled: func(w *relayWorld, e *c35Env) bool {
		return e.join21At > e.sbh-w.bps && e.allowance >= 1 && e.sbh-w.bps >= 3
	}},
	{name: "servicer-left-chain-mid-session", pre: func(w *relayWorld, e *c35Env, p *rf.RelayParams) { p.Chain = "0021" },
		enabled: func(w *relayWorld, e *c35Env) bool { return e.selfOn21 == "left-mid-session" }},
	// ... and the other way round: joined at or before the session's first block, stakers == SessionNodeCount: in the session
	{name: "none-servicer-joined-chain-before-session-start", valid: true, pre: func(w *relayWorld, e *c35Env, p *rf.RelayParams) { p.Chain = "0021" },
		enabled: func(w *relayWorld, e *c35Env) bool { return e.selfOn21 == "since-session-start" }},
	{name: "chain-not-hosted-by-node", pre: func(w *relayWorld, e *c35Env, p *rf.RelayParams) { p.Chain = "0040" }},
	{name: "chain-not-staked-by-app", pre: func(w *relayWorld, e *c35Env, p *rf.RelayParams) { p.Chain = "0003" }},

	// ---- heights
	{name: "session-height-plus-one", pre: func(w *relayWorld, e *c35Env, p *rf.RelayParams) { p.SessionHeight = e.sbh + 1 }},
	{name: "session-height-next-session", pre: func(w *relayWorld, e *c35Env, p *rf.RelayParams) { p.SessionHeight = e.sbh + w.bps }},
	{name: "session-height-beyond-tolerance", pre: func(w *relayWorld, e *c35Env, p *rf.RelayParams) {
		p.SessionHeight = e.sbh - (e.allowance+1)*w.bps
	}, enabled: func(w *relayWorld, e *c35Env) bool { return e.sbh-(e.allowance+1)*w.bps >= 1 }},
	{name: "session-height-zero", pre: func(w *relayWorld, e *c35Env, p *rf.RelayParams) { p.SessionHeight = 0 }},
	{name: "session-height-negative", pre: func(w *relayWorld, e *c35Env, p *rf.RelayParams) { p.SessionHeight = -e.sbh }},
	{name: "session-height-not-a-session-start", pre: func(w *relayWorld, e *c35Env, p *rf.RelayParams) { p.SessionHeight = e.sbh - 1 }},
	{name: "meta-height-above-allowance", pre: func(w *relayWorld, e *c35Env, p *rf.RelayParams) { p.MetaHeight = e.height + 11 }},
	{name: "meta-height-below-allowance", pre: func(w *relayWorld, e *c35Env, p *rf.RelayParams) { p.MetaHeight = e.height - 11 }},
	{name: "entropy-negative", pre: func(w *relayWorld, e *c35Env, p *rf.RelayParams) { p.Entropy = -p.Entropy }},
}

func TestC35(t *testing.T) {
	floors := map[string]float64{"served": 0.9, "lean": 0.25, "non-lean": 0.25, "validator-set-changed-mid-session": 0.3, "joiner-on-0001-mid-session": 0.2,
		"eligibility-differs-between-session-last-block-and-next-block": 0.08, "previous-session-boundary": 0.08, "previous-session-jail": 0.04,
		"alt:servicer-joined-chain-mid-session": 0.2, "alt:servicer-left-chain-mid-session": 0.08, "alt:none-servicer-joined-chain-before-session-start": 0.05}
	for _, a := range []string{"aat-signature-corrupted", "aat-unstaked-application", "aat-client-key-replaced", "client-signature-by-unnamed-key",
		"request-hash-of-other-payload", "payload-data-changed-after-hashing", "servicer-key-of-in-session-peer", "chain-not-hosted-by-node",
		"chain-not-staked-by-app", "chain-session-without-this-node", "session-height-beyond-tolerance", "meta-height-above-allowance", "entropy-negative"} {
		floors["alt:"+a] = 0.1
	}
	harness.Check(t, "C35",
		"per case: a chain-simulator world (self + 1-3 in-session peers, SessionNodeCount = all 0001 stakers, blocks/session 2-4, ctx anywhere in the 2nd-4th session, "+
			"lean / non-lean node mode, session sync allowance 0-1) whose validator set for a chain may change by real transactions while the chain runs (self edit-stakes onto chain 0021 "+
			"before or after the latest session's first block, with or without the other 0021 node edit-staking away in the same block, and possibly edit-stakes away again mid-session; a further node stakes / edit-stakes onto 0001 mid-session; "+
			"session rollover worlds (allowance 1): self is on 0021 since the PREVIOUS session's first block and edit-stakes away from / back onto the chain in that session's last block, the next session's first block or a neighbour, "+
			"or self is jailed for downtime (missed vote, real BeginBlocker) and unjailed by its own MsgUnjail around the same boundary; the first relays are then for the previous and the current session of that chain, "+
			"valid or not as the servicer is eligible in the state of the session's first block and of its last block (model: presence schedule evaluated at those two heights)), "+
			"node session cache empty; the real keeper's HandleRelay with 24 relays from the relay factory, each valid or with exactly one alteration "+
			"(application token signature / signer / application key / client key / version, client signature, request hash vs payload/meta, servicer key, chain not hosted / "+
			"not staked by app / session without this node / servicer joined the chain after the session's first block / servicer left the chain after it, session height, meta height, entropy); oracle: altered => error, no backend call, "+
			"evidence of every header unchanged; unaltered (including: servicer on the chain since the session's first block) => served once, response signed by the node key over the response hash, "+
			"backend reply returned, exactly that proof appended once. "+
			"non-trivial = case in which at least one unaltered relay was served and at least 8 distinct alterations were rejected",
		floors,
		func(rt *rapid.T, c *harness.Case) {
			kBoth := rapid.IntRange(1, 3).Draw(rt, "peers")
			bps := int64(rapid.IntRange(2, 4).Draw(rt, "bps"))
			lean := rapid.Bool().Draw(rt, "lean")
			allowance := int64(rapid.IntRange(0, 1).Draw(rt, "sessionAllowance"))
			stop := 1 + bps + int64(rapid.IntRange(int(bps), int(3*bps)-1).Draw(rt, "heightInto")) // somewhere in session 2..4 (>= 5 after warm-up)
			if stop < 5 {
				stop = 5
			}
			// The validator set for a chain changes by real transactions while the chain runs (edit-stakes replace a
			// node's chains in the block they are delivered in; a new node stakes). A session is formed from the nodes
			// staked for the chain in the state of the session's first block (sbh): a change in a block <= sbh is part
			// of the session, a change in a later block is not.
			sbh := ((stop-1)/bps)*bps + 1
			// (rapid draws small indices and the last one more often than the middle: the order is part of the weighting)
			join21 := rapid.SampledFrom([]string{"before-session-start", "mid-session", "previous-session-boundary", "before-session-start-and-leaves-mid-session", "previous-session-boundary",
				"before-session-start-and-leaves-mid-session", "mid-session", "none", "mid-session", "none", "mid-session", "before-session-start", "previous-session-jail", "previous-session-jail"}).Draw(rt, "selfJoins0021")
			join01 := rapid.SampledFrom([]string{"none", "none", "new-stake", "edit-stake"}).Draw(rt, "joinerJoins0001")
			leaves21 := join21 == "before-session-start-and-leaves-mid-session"
			if (join21 == "mid-session" || leaves21 || join01 != "none") && stop == sbh {
				stop++ // (bps >= 2: still the same session)
			}
			var join21At, leave21At, join01At int64
			otherLeaves := false
			var sched *chainSched
			if join21 == "previous-session-boundary" {
				// Session rollover: relays for the PREVIOUS session (session sync allowance 1) while self's eligibility for
				// the chain changes by edit-stakes around that session's last block E = sbh-1 and the next block sbh.
				allowance = 1
				if sbh-bps < 4 { // self's join is a transaction at or before the previous session's first block; generated blocks start at 4
					stop, sbh = stop+bps, sbh+bps
				}
				psbh, E := sbh-bps, sbh-1
				lo := psbh - bps + 1
				if lo < 4 {
					lo = 4
				}
				sched = &chainSched{joinAt: int64(rapid.IntRange(int(lo), int(psbh)).Draw(rt, "boundaryJoinAt"))}
				cands := []int64{0}
				for _, h := range []int64{E - 1, E, E, E, sbh, sbh, sbh, sbh + 1, psbh + 1 + int64(rapid.IntRange(0, int(stop-psbh-1)).Draw(rt, "leaveAnywhere"))} {
					if h > psbh && h <= stop {
						cands = append(cands, h)
					}
				}
				sched.leaveAt = rapid.SampledFrom(cands).Draw(rt, "boundaryLeaveAt")
				if sched.leaveAt != 0 && sched.leaveAt < stop {
					switch rapid.IntRange(0, 3).Draw(rt, "boundaryRejoin") {
					case 0:
					case 1:
						sched.rejoinAt = int64(rapid.IntRange(int(sched.leaveAt+1), int(stop)).Draw(rt, "boundaryRejoinAt"))
					default:
						sched.rejoinAt = sched.leaveAt + 1
					}
				}
				join21At, leave21At, otherLeaves = sched.joinAt, sched.leaveAt, true
			}
			// ... or self is jailed for downtime (a single missed vote jails in these worlds) and unjailed again by its own
			// MsgUnjail 61 s of block time later, around the same boundary. jailed(h) = jailAt <= h < unjailAt; self is
			// always unjailed again in the node's latest state, so only the previous session's membership is affected.
			var jailAt, unjailAt int64
			if join21 == "previous-session-jail" {
				allowance = 1
				psbh, E := sbh-bps, sbh-1
				var cands []int64
				for _, h := range []int64{E - 1, E, E, E, sbh, sbh, psbh + int64(rapid.IntRange(0, int(stop-psbh-1)).Draw(rt, "jailAnywhere"))} {
					if h >= 4 && h < stop {
						cands = append(cands, h)
					}
				}
				jailAt = rapid.SampledFrom(cands).Draw(rt, "jailAt")
				unjailAt = jailAt + 1
				if rapid.IntRange(0, 3).Draw(rt, "unjailLater") == 0 {
					unjailAt = int64(rapid.IntRange(int(jailAt+1), int(stop)).Draw(rt, "unjailAt"))
				}
				join21 = "none"
			}
			jailed := func(h int64) bool { return jailAt != 0 && jailAt <= h && h < unjailAt }
			switch join21 {
			case "before-session-start", "before-session-start-and-leaves-mid-session":
				join21At = int64(rapid.IntRange(int(sbh-bps+1), int(sbh)).Draw(rt, "join21At"))
				if leaves21 {
					leave21At = int64(rapid.IntRange(int(sbh+1), int(stop)).Draw(rt, "leave21At"))
				}
			case "mid-session":
				join21At = int64(rapid.IntRange(int(sbh+1), int(stop)).Draw(rt, "join21At"))
			}
			if join21 != "none" && sched == nil {
				otherLeaves = rapid.IntRange(0, 2).Draw(rt, "otherLeaves0021") > 0
			}
			if join01 != "none" {
				// only mid-session: a 0001 staker more at the session start would make self's membership a matter of selection
				join01At = int64(rapid.IntRange(int(sbh+1), int(stop)).Draw(rt, "join01At"))
			}
			opts := relayWorldOpts{KBoth: kBoth, Bps: bps, App0Stake: 30000, StopAt: stop, Lean: lean, SessionAllowance: allowance}
			if join01 == "edit-stake" {
				opts.JoinerGenesisChains = []string{"0050"}
			}
			if jailAt != 0 {
				opts.MinSignedPct = 100
				opts.AbsentAt = func(w *relayWorld, h int64) []crypto.PrivateKey {
					if h == jailAt {
						return []crypto.PrivateKey{w.self}
					}
					return nil
				}
				opts.DTAt = func(h int64) time.Duration {
					if h == unjailAt {
						return 61 * time.Second // DowntimeJailDuration is 60 s
					}
					return 0
				}
			}
			opts.TxsAt = func(w *relayWorld, h int64) []worldTx {
				var txs []worldTx
				if jailAt != 0 && h == unjailAt {
					txs = append(txs, w.unjailTx("self", w.self))
				}
				if h == join21At {
					txs = append(txs, w.stakeTx("self", w.self, []string{"0001", "0003", "0040", "0021"}))
					if otherLeaves {
						txs = append(txs, w.stakeTx("other", w.other, []string{"0003"}))
					}
				}
				if h == leave21At {
					txs = append(txs, w.stakeTx("self", w.self, []string{"0001", "0003", "0040"}))
				}
				if sched != nil && h == sched.rejoinAt {
					txs = append(txs, w.stakeTx("self", w.self, []string{"0001", "0003", "0040", "0021"}))
				}
				if h == join01At {
					chains := []string{"0001"}
					if join01 == "edit-stake" {
						chains = []string{"0050", "0001"}
					}
					txs = append(txs, w.stakeTx("joiner", w.joiner, chains))
				}
				return txs
			}
			w := newRelayWorldOpts(rt, opts)
			defer w.close()
			c.Opf("%s", w.desc)
			if lean {
				c.Label("lean")
			} else {
				c.Label("non-lean")
			}
			env := &c35Env{height: w.n.Height, sbh: w.latestSessionStart(w.n.Height), allowance: allowance, rt: rt, join21At: join21At}
			if env.sbh != sbh || env.height != stop {
				rt.Fatalf("world ended at height %d session %d, planned %d / %d", env.height, env.sbh, stop, sbh)
			}
			switch {
			case sched != nil:
				env.selfOn21 = "previous-session-boundary"
			case leaves21:
				env.selfOn21 = "left-mid-session"
			case join21 == "mid-session":
				env.selfOn21 = "joined-mid-session"
			case join21 == "before-session-start" && otherLeaves:
				env.selfOn21 = "since-session-start"
			case join21 == "before-session-start":
				env.selfOn21 = "since-session-start-undecided"
			}
			if env.selfOn21 != "" {
				c.Label("self-on-0021:" + env.selfOn21)
			}
			if join01 != "none" {
				c.Label("joiner-on-0001-mid-session")
			}
			if join21 == "mid-session" || leaves21 || join01 != "none" {
				c.Label("validator-set-changed-mid-session")
			}
			// relays decided by the validator-set changes come first: the node's session cache is empty then (as after
			// the once-per-session clearing, and after every edit-stake), so the session is formed by this very relay
			var first []c35Alteration
			for _, a := range c35Alterations {
				if (strings.Contains(a.name, "servicer-joined-chain") || strings.Contains(a.name, "servicer-left-chain") || a.name == "chain-session-without-this-node") && a.enabled(w, env) {
					first = append(first, a)
				}
			}
			if join01 != "none" {
				first = append(first, c35Alterations[0])
			}
			if jailAt != 0 {
				psbh, E := sbh-bps, sbh-1
				c.Opf("self jailed for downtime in h%d, unjailed by its MsgUnjail in h%d; previous session %d..%d, current %d.., node at %d; jailed(E)=%v jailed(E+1)=%v",
					jailAt, unjailAt, psbh, E, sbh, stop, jailed(E), jailed(sbh))
				if v, ok := w.n.App.VerifNodesKeeper().GetValidator(w.n.Ctx(), chainAddr(w.self)); !ok || v.Jailed {
					rt.Fatalf("world: self should be unjailed at the end (found=%v jailed=%v)", ok, v.Jailed)
				}
				prev := c35Alteration{name: "previous-session-servicer-jailed-in-session-last-block",
					pre: func(w *relayWorld, e *c35Env, p *rf.RelayParams) { p.SessionHeight = psbh }}
				if !jailed(E) {
					prev.name, prev.valid = "none-previous-session-servicer-not-jailed-in-session-last-block", true
				}
				env.prev0001Out = jailed(E)
				first = append(first, prev, c35Alterations[0])
				c.Label("previous-session-jail")
				if jailed(E) != jailed(sbh) {
					c.Label("eligibility-differs-between-session-last-block-and-next-block")
					if jailed(E) {
						c.Label("boundary:jailed-in-last-block-unjailed-in-next")
					} else {
						c.Label("boundary:unjailed-in-last-block-jailed-in-next")
					}
				}
				if stop == sbh {
					c.Label("boundary:node-at-next-session-first-block")
				}
			}
			if sched != nil {
				// the relays the schedule decides, each the first one for its session header on this node (session cache
				// miss: the node forms the session now): previous session and current session on chain 0021
				psbh, E := sbh-bps, sbh-1
				c.Opf("self on 0021: join h%d (other leaves), leave h%d, rejoin h%d; previous session %d..%d, current %d.., node at %d; on(E)=%v on(E+1)=%v",
					sched.joinAt, sched.leaveAt, sched.rejoinAt, psbh, E, sbh, stop, sched.on(E), sched.on(sbh))
				prev := c35Alteration{name: "previous-session-servicer-off-chain-in-session-last-block",
					pre: func(w *relayWorld, e *c35Env, p *rf.RelayParams) { p.Chain, p.SessionHeight = "0021", psbh }}
				if sched.inSession(psbh, bps, stop) {
					prev.name, prev.valid = "none-previous-session-servicer-on-chain-in-session-first-and-last-block", true
				}
				cur := c35Alteration{name: "servicer-off-chain-at-session-start-or-now", pre: func(w *relayWorld, e *c35Env, p *rf.RelayParams) { p.Chain = "0021" }}
				if sched.inSession(sbh, bps, stop) {
					cur.name, cur.valid = "none-servicer-on-chain-at-session-start-and-now", true
				}
				first = append(first, prev, cur)
				c.Label("previous-session-boundary")
				if sched.on(E) != sched.on(sbh) {
					// the class the rollover rule is about: deciding by the next session's first block gives the other answer
					c.Label("eligibility-differs-between-session-last-block-and-next-block")
					if sched.on(E) {
						c.Label("boundary:on-chain-in-last-block-off-in-next")
					} else {
						c.Label("boundary:off-chain-in-last-block-on-in-next")
					}
				}
				if sched.leaveAt == E {
					c.Label("boundary:left-chain-in-session-last-block")
				}
				if sched.leaveAt == sbh {
					c.Label("boundary:left-chain-in-next-session-first-block")
				}
				if stop == sbh {
					c.Label("boundary:node-at-next-session-first-block")
				}
			}
			ctx := w.ctx(rt)
			served, rejected := 0, map[string]bool{}
			baseHdr := rf.Header(w.app0.PublicKey(), "0001", env.sbh)
			for i := 0; i < 24; i++ {
				var alt c35Alteration
				if i < len(first) {
					alt = first[i]
				} else {
					alt = c35Alterations[rapid.IntRange(0, len(c35Alterations)-1).Draw(rt, "alteration")]
					if rapid.IntRange(0, 4).Draw(rt, "forceValid") == 0 {
						alt = c35Alterations[0]
					}
				}
				if alt.enabled != nil && !alt.enabled(w, env) {
					continue
				}
				params := w.validRelayParams(env.sbh, env.height+int64(rapid.IntRange(-3, 3).Draw(rt, "metaSkew")), fmt.Sprintf(`{"jsonrpc":"2.0","method":"eth_blockNumber","id":%d}`, i))
				if alt.pre != nil {
					alt.pre(w, env, &params)
				}
				relay := rf.NewRelay(params)
				if alt.post != nil {
					alt.post(w, env, &relay)
				}
				hdrs := []pocketTypes.SessionHeader{baseHdr, relay.Proof.SessionHeader()}
				before := []evidenceView{viewEvidence(w.selfNode, hdrs[0]), viewEvidence(w.selfNode, hdrs[1])}
				hits := w.backend.Count()
				resp, err := w.k.HandleRelay(ctx, relay)
				after := []evidenceView{viewEvidence(w.selfNode, hdrs[0]), viewEvidence(w.selfNode, hdrs[1])}
				desc := fmt.Sprintf("relay#%d %s chain=%s sbh=%d meta=%d entropy=%d -> err=%v", i, alt.name, relay.Proof.Blockchain, relay.Proof.SessionBlockHeight, relay.Meta.BlockHeight, relay.Proof.Entropy, errString(err))
				c.Opf("%s", desc)
				c.Label("alt:" + alt.name)
				c.AddExtra("relays_checked", 1)
				if !alt.valid {
					if err == nil || resp != nil {
						// (forwarding and recording are consequences of serving: one signature per served alteration)
						if c.Violation("C35/served/"+alt.name, "%s: the altered relay was answered (response signature %.16s...), backend calls +%d, evidence %s -> %s",
							desc, respSig(resp), w.backend.Count()-hits, before[1], after[1]) {
							continue
						}
					}
					if w.backend.Count() != hits {
						c.Violation("C35/forwarded/"+alt.name, "%s: the altered relay was forwarded to the hosted chain", desc)
					}
					for j := range hdrs {
						if !before[j].equal(after[j]) {
							c.Violation("C35/recorded/"+alt.name, "%s: evidence of header %d changed: %s -> %s", desc, j, before[j], after[j])
						}
					}
					rejected[alt.name] = true
					continue
				}
				// non-vacuity: the unaltered relay is served, signed by the node key, recorded exactly once
				if err != nil || resp == nil {
					if err != nil && strings.Contains(err.Error(), "already found") {
						// Bloom-filter false positive of the duplicate check (1 % by design at full allowance): a refused relay is
						// outside the property (which only limits what IS served); not a non-vacuity failure either
						c.Label("unique-relay-refused-by-bloom-false-positive")
						continue
					}
					c.Violation("C35/valid-relay-rejected/"+alt.name, "%s: a well-formed relay was not served", desc)
					continue
				}
				served++
				c.Label("served")
				sig, e1 := hex.DecodeString(resp.Signature)
				if e1 != nil || !w.self.PublicKey().VerifyBytes(resp.Hash(), sig) {
					c.Violation("C35/valid-relay/response-not-signed-by-node", "%s: response signature does not verify under the node key", desc)
				}
				if resp.Response != relayBackendReply || resp.Proof.HashStringWithSignature() != relay.Proof.HashStringWithSignature() {
					c.Violation("C35/valid-relay/response-differs", "%s: response payload %q / proof differ from the backend reply / request proof", desc, resp.Response)
				}
				if w.backend.Count() != hits+1 {
					c.Violation("C35/valid-relay/backend-calls", "%s: %d backend calls for one relay", desc, w.backend.Count()-hits)
				}
				h := relay.Proof.SessionHeader()
				bv, av := viewEvidence(w.selfNode, h), after[1]
				_ = bv
				want := append(append([]string{}, before[1].hashes...), relay.Proof.HashStringWithSignature())
				if !av.found || av.num != int64(len(want)) || !av.equal(evidenceView{found: true, sealed: av.sealed, num: int64(len(want)), hashes: want}) {
					c.Violation("C35/valid-relay/not-recorded-exactly-once", "%s: evidence before %s after %s", desc, before[1], av)
				}
			}
			if served > 0 && len(rejected) >= 8 {
				c.NonTrivial()
			}
		})
}

func errString(err error) string {
	if err == nil {
		return "<nil>"
	}
	s := err.Error()
	if len(s) > 90 {
		s = s[:90]
	}
	return s
}

func respSig(r *pocketTypes.RelayResponse) string {
	if r == nil {
		return "<nil>"
	}
	return r.Signature
}
