package relays

import (
	"fmt"
	sdk "github.com/pokt-network/pocket-core/types"
)

func dbgDump(r *c32Run, node sdk.Address) {
	nk := r.n.App.VerifNodesKeeper()
	ctx := r.n.Ctx()
	v, ok := nk.GetValidator(ctx, node)
	fmt.Printf("DBG validator found=%v stake=%s status=%v jailed=%v out=%v\n", ok, v.StakedTokens, v.Status, v.Jailed, v.OutputAddress)
	fmt.Printf("DBG floor=%s ceil=%s mult=%s exp=%s rttm=%v dao=%d prop=%d\n", nk.ServicerStakeFloorMultiplier(ctx), nk.ServicerStakeWeightCeiling(ctx), nk.ServicerStakeWeightMultiplier(ctx), nk.ServicerStakeFloorMultiplierExponent(ctx), nk.RelaysToTokensMultiplier(ctx), nk.DAOAllocation(ctx), nk.ProposerAllocation(ctx))
	a, b := nk.CalculateRelayReward(ctx, "0001", sdk.NewInt(5), v.StakedTokens)
	fmt.Printf("DBG calc toNode=%s toFee=%s height=%d\n", a, b, ctx.BlockHeight())
}
