package relays

import (
	"fmt"
	"strings"
	"testing"
	"time"

	"pgregory.net/rapid"

	"github.com/pokt-network/pocket-core/crypto"

	"verif/harness"
	"verif/harness/chain"
	rf "verif/harness/relayfactory"
)

// C35 over a sequence: the servicer's membership of a session can end while the session runs. Sessions leave out nodes
// that are jailed in the latest state, so a servicer jailed for downtime in the middle of a session is no longer "in the
// session for that application and chain" - whether or not it already served (and cached the session of) that application
// before it was jailed. After its unjail (still the same session) it is a member again.
func TestC35Sequence(t *testing.T) {
	harness.Check(t, "C35",
		"[sequence] relay world (1-3 peers, all chain-0001 stakers are in every session, 4-6 blocks per session, lean / non-lean); the node serves 0-3 valid relays of the running session "+
			"(0 = its session cache is cold), is then jailed for downtime in a later block of the SAME session (single missed vote jails), receives 1-3 further valid relays of that session, "+
			"and in half of the cases unjails itself 61 s later (same session if blocks are left) and receives relays again. Oracle: while jailed in the latest state every relay is refused, "+
			"the backend is not called and the stored evidence does not change; before the jailing and after the unjail valid relays are served and recorded once. "+
			"non-trivial = at least one relay was served before the jailing (session cached with the servicer in it)",
		map[string]float64{"served-before-jailing": 0.5, "cold-cache-at-jailing": 0.15, "relay-while-jailed": 0.9, "relay-after-unjail": 0.2},
		func(rt *rapid.T, c *harness.Case) {
			kBoth := rapid.IntRange(1, 3).Draw(rt, "peers")
			bps := int64(rapid.IntRange(4, 6).Draw(rt, "bps"))
			lean := rapid.Bool().Draw(rt, "lean")
			sess := int64(rapid.IntRange(1, 2).Draw(rt, "session")) // the session that starts at sess*bps+1
			sbh := sess*bps + 1
			stop := sbh + int64(rapid.IntRange(0, 1).Draw(rt, "serveAtOffset"))
			w := newRelayWorldOpts(rt, relayWorldOpts{KBoth: kBoth, Bps: bps, App0Stake: 30000, StopAt: stop, Lean: lean, MinSignedPct: 100})
			defer w.close()
			c.Opf("%s session@%d", w.desc, sbh)
			hdr := rf.Header(w.app0.PublicKey(), "0001", sbh)
			serial := 0
			relay := func(phase string, wantServed bool) {
				serial++
				r := rf.NewRelay(w.validRelayParams(sbh, w.n.Height, fmt.Sprintf(`{"seq":%d}`, serial)))
				before, hits := viewEvidence(w.selfNode, hdr), w.backend.Count()
				resp, err := w.k.HandleRelay(w.ctx(rt), r)
				after := viewEvidence(w.selfNode, hdr)
				desc := fmt.Sprintf("%s: relay #%d at height %d -> err=%s", phase, serial, w.n.Height, errString(err))
				c.Opf("%s", desc)
				if wantServed {
					if err != nil || resp == nil {
						if err != nil && strings.Contains(err.Error(), "already found") {
							c.Label("unique-relay-refused-by-bloom-false-positive")
							return
						}
						c.Violation("C35/sequence/valid-relay-rejected/"+phase, "%s: a valid relay of a session the servicer belongs to was not served", desc)
						return
					}
					if after.num != before.num+1 || w.backend.Count() != hits+1 {
						c.Violation("C35/sequence/valid-relay-not-recorded-once/"+phase, "%s: evidence %s -> %s, backend calls +%d", desc, before, after, w.backend.Count()-hits)
					}
					return
				}
				if err == nil && resp != nil {
					c.Violation("C35/sequence/served-while-jailed", "%s: the servicer is jailed in the latest state (not a member of any session generated now) but the relay was answered (signature %.16s...), backend calls +%d, evidence %s -> %s",
						desc, resp.Signature, w.backend.Count()-hits, before, after)
					return
				}
				if w.backend.Count() != hits {
					c.Violation("C35/sequence/backend-called-while-jailed", "%s: backend calls +%d", desc, w.backend.Count()-hits)
				}
				if !before.equal(after) {
					c.Violation("C35/sequence/recorded-while-jailed", "%s: evidence changed %s -> %s", desc, before, after)
				}
			}
			run := func(absent bool, dt time.Duration, txs ...[]byte) {
				b := chain.Block{DT: dt, Txs: txs}
				if absent {
					b.Absent = map[string]bool{fmt.Sprintf("%x", []byte(chain.Addr(w.self))): true}
				}
				res := w.n.RunBlock(b)
				for _, t := range res.Txs {
					if t.Code != 0 {
						rt.Fatalf("harness: world transaction failed: %d %s", t.Code, t.Log)
					}
				}
			}
			selfJailed := func() bool {
				v, ok := w.n.App.VerifNodesKeeper().GetValidator(w.n.Ctx(), chain.Addr(w.self))
				return ok && v.Jailed
			}
			// phase 1: relays before the jailing
			nBefore := rapid.IntRange(0, 3).Draw(rt, "relaysBeforeJailing")
			for i := 0; i < nBefore; i++ {
				relay("before-jailing", true)
			}
			if nBefore > 0 {
				c.Label("served-before-jailing")
				c.NonTrivial()
			} else {
				c.Label("cold-cache-at-jailing")
			}
			// phase 2: the block that reports the missed vote jails the servicer (still the same session)
			run(true, time.Second)
			if !selfJailed() {
				rt.Fatalf("harness: the servicer was not jailed by a missed vote at height %d", w.n.Height)
			}
			if w.latestSessionStart(w.n.Height) != sbh {
				rt.Fatalf("harness: the jailing block %d is outside session %d", w.n.Height, sbh)
			}
			nJailed := rapid.IntRange(1, 3).Draw(rt, "relaysWhileJailed")
			for i := 0; i < nJailed; i++ {
				c.Label("relay-while-jailed")
				relay("while-jailed", false)
				if i == 0 && w.n.Height+1 < sbh+bps-1 && rapid.Bool().Draw(rt, "anotherBlockWhileJailed") {
					run(false, time.Second)
				}
			}
			// phase 3: unjail (jail duration 60 s) and serve again, if the session still has a block left
			if w.n.Height+1 <= sbh+bps-1 && rapid.Bool().Draw(rt, "unjail") {
				run(false, 61*time.Second, w.unjailTx("self", w.self).Bytes)
				if selfJailed() {
					rt.Fatalf("harness: the unjail transaction left the servicer jailed")
				}
				c.Label("relay-after-unjail")
				relay("after-unjail", true)
			}
		})
}

var _ crypto.PrivateKey
