//go:build verif

package relays

import (
	"bytes"
	"encoding/hex"
	"fmt"
	appsTypes "github.com/pokt-network/pocket-core/x/apps/types"
	"runtime"
	"strconv"
	"strings"
	"sync"
	"sync/atomic"
	"testing"
	"time"
	"verif/harness/chain"

	"pgregory.net/rapid"

	sdk "github.com/pokt-network/pocket-core/types"
	pocketTypes "github.com/pokt-network/pocket-core/x/pocketcore/types"

	"verif/harness"
	rf "verif/harness/relayfactory"
)

// C34: stored relay evidence stays exact under concurrent relays.
//
// The harness owns the schedule: pocketTypes.VerifYield (build tag verif) is called by the code under test
// between relay validation and proof storage ("relay.validated") and inside SetProof between reading and
// writing back the evidence ("setproof.read"). Every managed goroutine parks there; a rapid-drawn sequence
// of steps decides who runs next, so a run is a function of the drawn schedule (since the relay path is
// serialized per servicer, a goroutine that was blocked on that lock continues as soon as the holder releases it).
// Besides relay goroutines a schedule can contain the claim sender (sealer) and the production events that move
// evidence between the store's LRU and its database (flush, evidence-iterator pass, relays of another session
// with a small LRU).

// ---------------------------------------------------------------------------------------------
// deterministic scheduler

type c34Event struct {
	id    int
	point string // "start", a yield point name, or "done"
}

type c34Sched struct {
	mu     sync.Mutex
	byGID  map[uint64]int
	resume []chan struct{}
	events chan c34Event
	state  []string // "" = running (or blocked on a lock), "done", or the point the goroutine is parked at
	gids   []uint64 // runtime goroutine ids
	trace  []string
	clock  int64
}

func curGID() uint64 {
	var buf [64]byte
	n := runtime.Stack(buf[:], false)
	f := bytes.Fields(buf[:n])
	id, _ := strconv.ParseUint(string(f[1]), 10, 64)
	return id
}

func newC34Sched(n int) *c34Sched {
	s := &c34Sched{byGID: map[uint64]int{}, events: make(chan c34Event, 4*n+8), state: make([]string, n), gids: make([]uint64, n)}
	for i := 0; i < n; i++ {
		s.resume = append(s.resume, make(chan struct{}, 1))
	}
	return s
}

// yield is installed as pocketTypes.VerifYield: goroutines the scheduler does not manage pass through.
func (s *c34Sched) yield(point string) {
	s.mu.Lock()
	id, ok := s.byGID[curGID()]
	s.mu.Unlock()
	if !ok {
		return
	}
	s.events <- c34Event{id, point}
	<-s.resume[id]
}

func (s *c34Sched) tick() int64 { return atomic.AddInt64(&s.clock, 1) }

// spawn starts a managed goroutine that parks at "start" before running body.
func (s *c34Sched) spawn(id int, body func()) {
	go func() {
		s.mu.Lock()
		s.byGID[curGID()] = id
		s.gids[id] = curGID()
		s.mu.Unlock()
		s.events <- c34Event{id, "start"}
		<-s.resume[id]
		defer func() {
			s.mu.Lock()
			delete(s.byGID, curGID())
			s.mu.Unlock()
			s.events <- c34Event{id, "done"}
		}()
		body()
	}()
}

func (s *c34Sched) apply(ev c34Event) {
	s.state[ev.id] = ev.point
	s.trace = append(s.trace, fmt.Sprintf("g%d@%s", ev.id, ev.point))
}

// goroutineStatus returns the scheduler status of a runtime goroutine ("running", "chan receive",
// "sync.Mutex.Lock", "IO wait", ...) as printed by runtime.Stack.
func goroutineStatus(gid uint64) string {
	buf := make([]byte, 1<<18)
	n := runtime.Stack(buf, true)
	marker := []byte(fmt.Sprintf("goroutine %d [", gid))
	i := bytes.Index(buf[:n], marker)
	if i < 0 {
		return ""
	}
	rest := buf[i+len(marker) : n]
	j := bytes.IndexByte(rest, ']')
	if j < 0 {
		return ""
	}
	return string(rest[:j])
}

// waitFor blocks until goroutine id is parked or done again. Should the code under test serialize the relay
// path with a lock (it does since 06530ac), a resumed goroutine can block on a lock held by a parked
// one: that is recognised from its runtime status (twice in a row) and reported as blocked; the goroutine then
// continues whenever the lock is released.
func (s *c34Sched) waitFor(id int) bool {
	locked := 0
	for s.state[id] == "" {
		select {
		case ev := <-s.events:
			s.apply(ev)
			locked = 0
		case <-time.After(2 * time.Millisecond):
			st := goroutineStatus(s.gids[id])
			if strings.HasPrefix(st, "sync.Mutex.Lock") || strings.HasPrefix(st, "sync.RWMutex") || strings.HasPrefix(st, "semacquire") {
				locked++
			} else {
				locked = 0
			}
			if locked >= 2 {
				s.trace = append(s.trace, fmt.Sprintf("g%d@blocked", id))
				return false
			}
		}
	}
	return true
}

func (s *c34Sched) parked() []int {
	var out []int
	for i, st := range s.state {
		if st != "" && st != "done" {
			out = append(out, i)
		}
	}
	return out
}

// step resumes the parked goroutine chosen by pick (an arbitrary non-negative number) and lets it run to its
// next yield point. Returns the goroutine id, or -1 if nothing is parked.
func (s *c34Sched) step(pick int) int {
	p := s.parked()
	if len(p) == 0 {
		return -1
	}
	id := p[pick%len(p)]
	s.state[id] = ""
	s.resume[id] <- struct{}{}
	s.waitFor(id)
	return id
}

// finish runs everything to completion (lowest id first). false = some goroutine never finished.
func (s *c34Sched) finish() bool {
	deadline := time.Now().Add(10 * time.Second)
	for time.Now().Before(deadline) {
		alive := false
		for _, st := range s.state {
			if st != "done" {
				alive = true
			}
		}
		if !alive {
			return true
		}
		if s.step(0) == -1 {
			// only blocked/running goroutines are left: wait for their events
			select {
			case ev := <-s.events:
				s.apply(ev)
			case <-time.After(50 * time.Millisecond):
			}
		}
	}
	return false
}

// ---------------------------------------------------------------------------------------------

type c34Result struct {
	relay    int // index into the pool of distinct relays
	answered bool
	signedOK bool
	at       int64 // clock tick when HandleRelay returned
	err      string
}

func TestC34(t *testing.T) {
	harness.Check(t, "C34",
		"per case one relay world (real keeper, per-node allowance 2-6 relays, in-process backend, evidence LRU capacity default / 1 / 2) and 6 schedules; per schedule k=2..5 goroutines call HandleRelay with relays drawn "+
			"from a pool of 1..k distinct relays of one session (so identical and distinct relays race), optionally one goroutine seals as the claim sender does (evidence iterator read, "+
			"0-3 state reads, then GenerateMerkleRoot), optionally one goroutine performs 1-3 store events (FlushToDB / an evidence-iterator pass / a relay of another session of the same node: the production "+
			"events that move evidence between the LRU and the database); every goroutine parks at the instrumented points and a drawn sequence of steps (resume parked goroutine i / the sealer / the "+
			"store events / run one relay goroutine until it returned) followed by a drawn priority order decides who runs next. "+
			"Oracle at quiescence: no two stored proofs with equal hash, NumOfProofs == len(Proofs) <= per-node allowance, every relay answered with a valid node signature before the seal began is stored "+
			"(also those of the other session). "+
			"non-trivial = case with a schedule in which, while one relay goroutine was parked between validation and storage, another relay goroutine was scheduled "+
			"(without serialization in the code both are then inside that window at once - label overlap; with a lock the second one blocks - label blocked-on-lock)",
		map[string]float64{"contended": 0.5, "identical-relays-race": 0.3, "with-sealer": 0.3, "limit-reached": 0.2, "small-evidence-lru": 0.25, "with-store-events": 0.5,
			"relay-answered-between-read-and-seal": 0.1, "relay-then-store-event-between-read-and-seal": 0.02},
		func(rt *rapid.T, c *harness.Case) {
			kBoth := rapid.IntRange(1, 2).Draw(rt, "peers")
			limit := int64(rapid.IntRange(2, 6).Draw(rt, "perNodeLimit"))
			bps := int64(rapid.IntRange(2, 4).Draw(rt, "bps"))
			lean := rapid.Bool().Draw(rt, "lean")
			// node operator's max_evidence_cache_entries: the default (500) or so small that the evidence of two
			// sessions does not fit and the store flushes itself to its database when a new entry arrives
			maxEv := rapid.SampledFrom([]int{0, 0, 1, 2}).Draw(rt, "maxEvidenceCacheEntries")
			// allowance = round(stake / 3 chains / snc) = limit
			// in a quarter of the worlds the application doubles its stake in the block AFTER the session's first block: the
			// allowance of the running session is the one of its first block, so the limit below does not move
			opts := relayWorldOpts{KBoth: kBoth, Bps: bps, App0Stake: limit * 3 * int64(kBoth+1), StopAt: 1 + 2*bps, Lean: lean, MaxEvidenceEntries: maxEv}
			if rapid.Bool().Draw(rt, "appBumpsStakeMidSessionA") && rapid.Bool().Draw(rt, "appBumpsStakeMidSessionB") {
				c.Label("application-doubles-stake-after-session-start")
				opts.StopAt = 2 + 2*bps
				bumpAt := opts.StopAt
				opts.TxsAt = func(w *relayWorld, height int64) []worldTx {
					if height != bumpAt {
						return nil
					}
					msg := &appsTypes.MsgStake{PubKey: w.app0.PublicKey(), Chains: []string{"0001", "0021", "0040"}, Value: sdk.NewInt(2 * limit * 3 * int64(kBoth+1) * 1_000_000)}
					return []worldTx{{Desc: "MsgStake{app0 doubles its stake}", Bytes: chain.SignTx(w.spec.ChainID, msg, chain.DefaultFee, "", w.nextEntropy(), w.app0)}}
				}
			}
			w := newRelayWorldOpts(rt, opts)
			defer w.close()
			defer func() { pocketTypes.VerifYield = nil }()
			c.Opf("%s limit=%d", w.desc, limit)
			if maxEv > 0 {
				c.Label("small-evidence-lru")
			}
			sbh := w.latestSessionStart(w.n.Height)
			hdr := rf.Header(w.app0.PublicKey(), "0001", sbh)
			for round := 0; round < 6; round++ {
				pocketTypes.ClearEvidence(w.selfNode.EvidenceStore)
				runC34Schedule(rt, c, w, hdr, sbh, limit, round)
			}
		})
}

func runC34Schedule(rt *rapid.T, c *harness.Case, w *relayWorld, hdr pocketTypes.SessionHeader, sbh, limit int64, round int) {
	k := rapid.IntRange(2, 5).Draw(rt, "goroutines")
	distinct := rapid.IntRange(1, k).Draw(rt, "distinctRelays")
	withSealer := rapid.Bool().Draw(rt, "sealer")
	pre := rapid.IntRange(0, int(limit)-1).Draw(rt, "preStored") // relays served sequentially before the race
	var pool []pocketTypes.Relay
	for i := 0; i < distinct+pre; i++ {
		pool = append(pool, rf.NewRelay(w.validRelayParams(sbh, w.n.Height, fmt.Sprintf(`{"id":%d,"round":%d}`, i, round))))
	}
	assign := make([]int, k)
	for g := range assign {
		assign[g] = g
		if g >= distinct {
			assign[g] = rapid.IntRange(0, distinct-1).Draw(rt, "relayOf")
		}
	}
	dupRace := false
	seen := map[int]bool{}
	for _, a := range assign {
		if seen[a] {
			dupRace = true
		}
		seen[a] = true
	}
	if dupRace {
		c.Label("identical-relays-race")
	}
	if withSealer {
		c.Label("with-sealer")
	}
	// production events that move evidence between the LRU and the database, as further schedulable actions of
	// one more goroutine: the flush the node does (FlushToDB), an evidence iterator pass (what every SendClaimTx
	// run starts with: it flushes the LRU first), and relays of another session of the same node (with a small
	// LRU the new entry makes the store flush itself)
	storeEvents := rapid.SliceOfN(rapid.SampledFrom([]string{"flush", "iterate", "other-session-relay"}), 0, 3).Draw(rt, "storeEvents")
	n := k
	sealerID, eventsID := -1, -1
	if withSealer {
		sealerID = n
		n++
	}
	if len(storeEvents) > 0 {
		eventsID = n
		n++
		c.Label("with-store-events")
	}
	for _, e := range storeEvents {
		c.Label("store-event:" + e)
	}
	hdrB := rf.Header(w.app1.PublicKey(), "0001", sbh)
	var otherPool []pocketTypes.Relay
	for i := range storeEvents {
		p := w.validRelayParams(sbh, w.n.Height, fmt.Sprintf(`{"other":%d,"round":%d}`, i, round))
		p.Token = rf.MintAAT(w.app1, w.client.PublicKey())
		otherPool = append(otherPool, rf.NewRelay(p))
	}
	sealerStateReads := 0
	if withSealer {
		sealerStateReads = rapid.IntRange(0, 3).Draw(rt, "sealerStateReads")
	}
	ids := make([]int, n)
	for i := range ids {
		ids[i] = i
	}
	drainOrder := rapid.Permutation(ids).Draw(rt, "drainOrder")
	schedule := rapid.SliceOfN(rapid.OneOf(rapid.IntRange(0, 11), rapid.IntRange(12, 15)), 0, 4*n+4).Draw(rt, "schedule")

	// relays stored before the race (sequential, no hook)
	pocketTypes.VerifYield = nil
	preHashes := map[string]bool{}
	for i := 0; i < pre; i++ {
		r := pool[distinct+i]
		if resp, err := w.k.HandleRelay(w.ctx(rt), r); err != nil || resp == nil {
			if err != nil && strings.Contains(err.Error(), "already found") {
				// the duplicate check is a Bloom filter sized for the per-node allowance (1 % false positives by design):
				// now and then it refuses a relay that was never seen. A refused relay is not answered, so the property
				// says nothing about it; this schedule simply has no usable starting point.
				c.Label("unique-relay-refused-by-bloom-false-positive")
				return
			}
			rt.Fatalf("pre-stored relay rejected: %v", err)
		}
		preHashes[r.Proof.HashStringWithSignature()] = true
	}

	s := newC34Sched(n)
	pocketTypes.VerifYield = s.yield
	results := make([]c34Result, k)
	ctxs := make([]sdk.Ctx, k)
	for g := 0; g < k; g++ {
		ctxs[g] = w.ctx(rt)
	}
	for g := 0; g < k; g++ {
		g := g
		s.spawn(g, func() {
			relay := pool[assign[g]]
			resp, err := w.k.HandleRelay(ctxs[g], relay)
			res := c34Result{relay: assign[g], at: s.tick()}
			if err != nil {
				res.err = strings.ReplaceAll(errString(err), "\n", " ")
			}
			if err == nil && resp != nil {
				res.answered = true
				sig, e := hex.DecodeString(resp.Signature)
				res.signedOK = e == nil && w.self.PublicKey().VerifyBytes(resp.Hash(), sig)
			}
			results[g] = res
		})
	}
	var sealStart, sealEnd int64
	var sealedProofs int
	sealFound := false
	sealerCopy := map[string]bool{} // proofs in the (possibly stale) evidence object the sealer writes back
	otherResults := make([]c34Result, len(storeEvents))
	if eventsID >= 0 {
		ctxE := w.ctx(rt)
		s.spawn(eventsID, func() {
			for i, e := range storeEvents {
				switch e {
				case "flush":
					_ = w.selfNode.EvidenceStore.FlushToDB()
				case "iterate":
					it := pocketTypes.EvidenceIterator(w.selfNode.EvidenceStore)
					for ; it.Valid(); it.Next() {
						_ = it.Value()
					}
					it.Close()
				case "other-session-relay":
					resp, err := w.k.HandleRelay(ctxE, otherPool[i])
					res := c34Result{relay: i, at: s.tick()}
					if err != nil {
						res.err = strings.ReplaceAll(errString(err), "\n", " ")
					}
					if err == nil && resp != nil {
						res.answered = true
						sig, e := hex.DecodeString(resp.Signature)
						res.signedOK = e == nil && w.self.PublicKey().VerifyBytes(resp.Hash(), sig)
					}
					otherResults[i] = res
				}
				s.yield("did:" + e)
			}
		})
	}
	if withSealer {
		s.spawn(sealerID, func() {
			// what SendClaimTx does with the evidence of a finished session: read it through the store iterator ...
			var ev pocketTypes.Evidence
			it := pocketTypes.EvidenceIterator(w.selfNode.EvidenceStore)
			for ; it.Valid(); it.Next() {
				e := it.Value()
				if e.SessionHeader.HashString() == hdr.HashString() {
					ev, sealFound = e, true
				}
			}
			it.Close()
			s.yield("sealer.read")
			// (the claim sender does several state reads here: session context, minimum proofs, expected reward,
			// supported chain, existing claim, claim maturity, application)
			for i := 0; i < sealerStateReads; i++ {
				s.yield("sealer.state-read")
			}
			// (the claim sender only claims evidence of at least MinimumNumberOfProofs relays; the tree builder's
			// contract is more than one leaf)
			if !sealFound || len(ev.Proofs) < 2 {
				sealFound = false
				return
			}
			// ... and seal it while computing the Merkle root
			for _, p := range ev.Proofs {
				sealerCopy[proofID(p)] = true
			}
			sealStart = s.tick()
			ev.GenerateMerkleRoot(sbh, limit, w.selfNode.EvidenceStore)
			sealedProofs = len(ev.Proofs)
			sealEnd = s.tick()
		})
	}
	// all goroutines reach "start"
	for i := 0; i < n; i++ {
		s.apply(<-s.events)
	}
	overlap := false
	noteOverlap := func() {
		between := 0
		for g := 0; g < k; g++ {
			if s.state[g] == "relay.validated" || s.state[g] == "setproof.read" {
				between++
			}
		}
		if between >= 2 {
			overlap = true
		}
	}
	// sealedAt: clock value from which on the evidence is sealed (by the sealer goroutine or by the automatic seal
	// when the limit is reached); relays answered later need not be recorded
	sealedAt := int64(1) << 60
	pollSeal := func() {
		// (seal map lookup only: reading the evidence itself would pull it from the database back into the LRU)
		if sealedAt == int64(1)<<60 && w.selfNode.EvidenceStore.IsSealed(pocketTypes.Evidence{SessionHeader: hdr}) {
			sealedAt = s.tick()
		}
	}
	// contended: while one relay goroutine was parked between validation and storage, another relay goroutine was
	// scheduled (on a tree without serialization it then overlaps, on a tree with a lock it blocks)
	contended := false
	isParked := func(id int) bool { return id >= 0 && s.state[id] != "" && s.state[id] != "done" }
	// one scheduling step: resume goroutine id (parked) and let it run to its next yield point
	stepID := func(id int) {
		inside := -1
		for g := 0; g < k; g++ {
			if s.state[g] == "relay.validated" || s.state[g] == "setproof.read" {
				inside = g
			}
		}
		s.state[id] = ""
		s.resume[id] <- struct{}{}
		s.waitFor(id)
		if inside >= 0 && id != inside && id < k {
			contended = true
		}
		noteOverlap()
		pollSeal()
	}
	// Schedule elements: 0..11 resume the parked goroutine number (element mod parked); 12 resumes the sealer,
	// 13 the store-event goroutine; 14 / 15 let the first / last parked relay goroutine run on until it has
	// returned (or blocks on a lock) - whole relays completing between two steps of the sealer or of the store
	// events are the common case in production, and rare under uniformly drawn single steps.
	for _, pick := range schedule {
		p := s.parked()
		if len(p) == 0 {
			break
		}
		switch {
		case pick == 12 && isParked(sealerID):
			stepID(sealerID)
		case pick == 13 && isParked(eventsID):
			stepID(eventsID)
		case pick >= 14:
			wid := -1
			for g := 0; g < k; g++ {
				if isParked(g) && (wid == -1 || pick == 15) {
					wid = g
				}
			}
			if wid == -1 {
				stepID(p[pick%len(p)])
				break
			}
			for i := 0; i < 4 && isParked(wid); i++ {
				stepID(wid)
			}
		default:
			stepID(p[pick%len(p)])
		}
	}
	// the rest runs in a drawn priority order (one step of the parked goroutine that comes first in drainOrder)
	for {
		next := -1
		for _, id := range drainOrder {
			if isParked(id) {
				next = id
				break
			}
		}
		if next == -1 {
			break
		}
		stepID(next)
	}
	if !s.finish() {
		rt.Fatalf("schedule did not reach quiescence: %v", s.trace)
	}
	if sealStart > 0 && sealStart < sealedAt {
		sealedAt = sealStart
	}
	pocketTypes.VerifYield = nil
	if overlap {
		c.Label("overlap")
	}
	if contended {
		c.Label("contended")
		c.NonTrivial()
	}
	for _, e := range s.trace {
		if strings.HasSuffix(e, "@blocked") {
			c.Label("blocked-on-lock")
			break
		}
	}
	c.AddExtra("schedules", 1)

	// ---- oracle at quiescence
	view := viewEvidence(w.selfNode, hdr)
	viewB := viewEvidence(w.selfNode, hdrB)
	desc := fmt.Sprintf("round %d: k=%d distinct=%d assign=%v pre=%d limit=%d sealer=%v storeEvents=%v trace=%s results=%s other=%s stored=%s storedOther=%s sealedFromTick=%d sealer(start=%d,proofs=%d)",
		round, k, distinct, assign, pre, limit, withSealer, storeEvents, strings.Join(s.trace, " "), renderC34(results), renderC34(otherResults), view, viewB, sealedAt, sealStart, sealedProofs)
	c.Opf("%s", desc)
	// Known-finding scoping (narrow): with an evidence LRU of capacity 1 and a second session being served, the
	// store itself loses unflushed evidence (a read that loads one session's evidence from the database pushes the
	// other session's newer, not yet flushed evidence out of the full LRU). A lost relay in exactly that
	// configuration reports under its own signature; everywhere else the signatures are the usual ones.
	singleEntryLRU := false
	if w.selfNode.EvidenceStore.Cache.Cap() == 1 {
		for i, res := range otherResults {
			if storeEvents[i] == "other-session-relay" && res.answered {
				singleEntryLRU = true
			}
		}
	}
	lossSig := func(sig string) string {
		if singleEntryLRU {
			return "C34/evidence/answered-relay-lost-single-entry-lru"
		}
		return sig
	}
	count := map[string]int{}
	for _, h := range view.hashes {
		count[h]++
	}
	// positions in the trace: when each worker finished validating, read the evidence, wrote it back (= done)
	pos := func(g int, point string) int {
		want := fmt.Sprintf("g%d@%s", g, point)
		for i, e := range s.trace {
			if e == want {
				return i
			}
		}
		return 1 << 30
	}
	// The known findings (validate-then-store without a lock) are narrow: they cover only outcomes that
	// needed the race; the same outcome without the race reports under a "-without-race" signature.
	for g := 0; g < k; g++ {
		h := proofID(pool[assign[g]].Proof)
		if count[h] <= 1 || !results[g].answered {
			continue
		}
		raced := false
		for o := 0; o < k; o++ {
			if o != g && assign[o] == assign[g] && results[o].answered &&
				pos(g, "relay.validated") < pos(o, "done") && pos(o, "relay.validated") < pos(g, "done") {
				raced = true
			}
		}
		if raced {
			c.Violation("C34/evidence/duplicate-proof-stored", "%s: proof %.12s stored %d times (identical relays validated before either was stored)", desc, h, count[h])
		} else {
			c.Violation("C34/evidence/duplicate-proof-stored-without-race", "%s: proof %.12s stored %d times although the identical relays did not overlap", desc, h, count[h])
		}
	}
	for h, cnt := range count {
		if cnt > 1 {
			owned := false
			for g := 0; g < k; g++ {
				if proofID(pool[assign[g]].Proof) == h && results[g].answered {
					owned = true
				}
			}
			if !owned {
				c.Violation("C34/evidence/duplicate-proof-stored-without-race", "%s: proof %.12s stored %d times", desc, h, cnt)
			}
		}
	}
	if view.num != int64(len(view.hashes)) {
		c.Violation("C34/evidence/count-differs-from-proofs", "%s: NumOfProofs=%d but %d proofs", desc, view.num, len(view.hashes))
	}
	if int64(len(view.hashes)) > limit || view.num > limit {
		c.Violation("C34/evidence/exceeds-max-relays", "%s: %d proofs stored, the application allows this node %d", desc, len(view.hashes), limit)
	}
	if int64(len(view.hashes)) >= limit {
		c.Label("limit-reached")
	}
	for h := range preHashes {
		if count[h] == 0 {
			c.Violation(lossSig("C34/evidence/earlier-relay-lost"), "%s: a relay served before the race is no longer stored", desc)
		}
	}
	for g, res := range results {
		if !res.answered {
			continue
		}
		c.Label("answered")
		if !res.signedOK {
			c.Violation("C34/response/not-signed-by-node", "%s: g%d answered without a valid node signature", desc, g)
		}
		if res.at > sealedAt {
			c.Label("answered-after-seal")
			continue // answered after the evidence was sealed: the property does not say it must be recorded
		}
		h := proofID(pool[res.relay].Proof)
		if count[h] == 0 {
			switch {
			case sealStart > 0 && !sealerCopy[h] && pos(sealerID, "sealer.read") < pos(g, "done"):
				c.Violation(lossSig("C34/seal/answered-relay-dropped-by-seal"), "%s: g%d was answered (tick %d) between the sealer's read and its seal (tick %d): the sealed evidence written back does not contain its proof", desc, g, res.at, sealStart)
			default:
				raced := false
				for o := 0; o < k; o++ {
					// another worker read the evidence before g wrote it and wrote its stale copy afterwards
					if o != g && pos(o, "setproof.read") < pos(g, "done") && pos(g, "done") < pos(o, "done") {
						raced = true
					}
				}
				if raced {
					c.Violation(lossSig("C34/evidence/answered-relay-not-recorded"), "%s: g%d was answered with a signed response (tick %d, evidence sealed from tick %d) but a concurrent relay overwrote its proof", desc, g, res.at, sealedAt)
				} else {
					c.Violation(lossSig("C34/evidence/answered-relay-not-recorded-without-race"), "%s: g%d was answered with a signed response (tick %d, evidence sealed from tick %d) but its proof is not stored, and no concurrent write explains it", desc, g, res.at, sealedAt)
				}
			}
		}
	}
	// the relays of the other session (same node, another application) are relays the node answered too: the
	// sealer does not touch that session, so each one must be recorded, exactly once
	countB := map[string]int{}
	for _, h := range viewB.hashes {
		countB[h]++
	}
	if viewB.num != int64(len(viewB.hashes)) {
		c.Violation("C34/evidence/count-differs-from-proofs", "%s: other session: NumOfProofs=%d but %d proofs", desc, viewB.num, len(viewB.hashes))
	}
	for i, res := range otherResults {
		if storeEvents[i] != "other-session-relay" || !res.answered {
			continue
		}
		c.Label("other-session-answered")
		if !res.signedOK {
			c.Violation("C34/response/not-signed-by-node", "%s: other-session relay %d answered without a valid node signature", desc, i)
		}
		switch countB[proofID(otherPool[i].Proof)] {
		case 1:
		case 0:
			c.Violation(lossSig("C34/evidence/other-session-answered-relay-not-recorded"), "%s: relay %d of the other session was answered with a signed response but its proof is not stored", desc, i)
		default:
			c.Violation("C34/evidence/duplicate-proof-stored-without-race", "%s: other-session relay %d stored %d times", desc, i, countB[proofID(otherPool[i].Proof)])
		}
	}
	// the situation the store events are there for: after the sealer read its copy, a relay was answered, then the
	// evidence moved (LRU -> database) once more, and only then the sealer sealed
	if sealStart > 0 {
		c.Label("sealed-by-sealer")
		c.AddExtra("schedules_sealed_by_sealer", 1)
		for g := 0; g < k; g++ {
			if results[g].answered && pos(sealerID, "sealer.read") < pos(g, "done") && pos(g, "done") < pos(sealerID, "done") {
				c.Label("relay-answered-between-read-and-seal")
				c.AddExtra("schedules_relay_answered_between_read_and_seal", 1)
				break
			}
		}
	}
	if sealStart > 0 && eventsID >= 0 {
		moved := -1
		for i, e := range s.trace {
			if !strings.HasPrefix(e, fmt.Sprintf("g%d@did:", eventsID)) || (strings.HasSuffix(e, "other-session-relay") && w.selfNode.EvidenceStore.Cache.Cap() > 1) {
				continue // (a relay of another session moves the evidence only when the LRU holds a single entry)
			}
			if i > pos(sealerID, "sealer.read") && i < pos(sealerID, "done") {
				for g := 0; g < k; g++ {
					if results[g].answered && pos(sealerID, "sealer.read") < pos(g, "done") && pos(g, "done") < i {
						moved = i
					}
				}
			}
		}
		if moved >= 0 {
			c.AddExtra("schedules_relay_then_store_event_between_read_and_seal", 1)
			c.Label("relay-then-store-event-between-read-and-seal")
		}
	}
	answered := 0
	for _, res := range results {
		if res.answered {
			answered++
		}
	}
	if int64(answered+pre) > limit {
		c.Label("served-beyond-allowance") // observation only: the property bounds what is stored, not what is served
	}
	_ = sealEnd
}

func renderC34(rs []c34Result) string {
	var sb strings.Builder
	for g, r := range rs {
		fmt.Fprintf(&sb, "[g%d relay%d answered=%v t=%d %s]", g, r.relay, r.answered, r.at, r.err)
	}
	return sb.String()
}
