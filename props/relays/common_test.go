package relays

import (
	"encoding/hex"
	"fmt"
	"os"
	"sort"
	"time"

	"pgregory.net/rapid"

	"github.com/pokt-network/pocket-core/crypto"
	sdk "github.com/pokt-network/pocket-core/types"
	nodesTypes "github.com/pokt-network/pocket-core/x/nodes/types"
	pocketKeeper "github.com/pokt-network/pocket-core/x/pocketcore/keeper"
	pocketTypes "github.com/pokt-network/pocket-core/x/pocketcore/types"

	"verif/harness/chain"
	rf "verif/harness/relayfactory"
)

// relayWorld is the keeper-level fixture of C35 and C34: a chain-simulator node run for a few blocks, one of
// its staked servicers registered as the local pocket node (production cache initialisation, evidence DB
// under VERIF_WORK), the relayed chains hosted on an in-process HTTP backend registered in the REAL keeper's
// hosted-blockchains object (Keeper.SetHostedBlockchains through the pointer the application was built
// with), and the real pocketcore keeper obtained with n.App.VerifPocketKeeper().
//
// Stakes are laid out so that session membership is decidable without re-implementing selection:
//
//	self    [0001, 0003, 0040]   K "both" nodes [0001, 0021, 0040, 0003]   one "other" node [0021]   SessionNodeCount = K+1
//	chain 0001: stakers = self + K          = SessionNodeCount -> self is in every 0001 session
//	chain 0021: stakers = K + other (no self) = SessionNodeCount -> a session exists and self is NOT in it
//	chain 0003: hosted by self, staked by self and the K peers (self is in the session), the application is not staked for it
//	chain 0040: application staked, self and the K peers staked (self is in the session), but self does not host it
//
// Optionally (relayWorldOpts.TxsAt) the validator set changes by real transactions while the chain runs: an
// edit-stake replaces a node's chains in the block it is delivered in, the funded "joiner" key stakes as a new
// node. A session is formed from the nodes staked for the chain in the state of its first block, so membership
// stays decidable: self edit-staking onto 0021 after the session's first block is not in that session; at or
// before it, together with "other" edit-staking away from 0021 in the same block, the 0021 stakers are again
// exactly SessionNodeCount nodes, self among them.
type relayWorld struct {
	spec     chain.Spec
	n        *chain.Node
	k        pocketKeeper.Keeper
	self     crypto.PrivateKey
	selfNode *pocketTypes.PocketNode
	others   []crypto.PrivateKey // in-session peers on 0001
	app0     crypto.PrivateKey   // staked: 0001, 0021, 0040
	app1     crypto.PrivateKey   // staked: 0001
	ghost    crypto.PrivateKey   // never staked
	client   crypto.PrivateKey
	rogue    crypto.PrivateKey // a client key no token names
	backend  *rf.Backend
	work     string
	bps      int64
	snc      int64
	lean     bool
	desc     string
	entropy  int64
	other    crypto.PrivateKey // the "other" node (genesis: staked for 0021 only)
	joiner   crypto.PrivateKey // funded, not staked at genesis (or staked for chain 0050 only): joins chains by real txs
	txLog    []string          // the validator-set transactions run while the world was built
}

// relayWorldOpts are the knobs of the fixture beyond the stake layout.
type relayWorldOpts struct {
	KBoth            int
	Bps              int64
	App0Stake        int64 // POKT
	StopAt           int64
	Lean             bool
	SessionAllowance int64
	// MaxEvidenceEntries is the node operator's max_evidence_cache_entries (0 = the default, 500): with a small
	// value the evidence LRU reaches its capacity and the store flushes itself to its database.
	MaxEvidenceEntries int
	// JoinerGenesisChains: when non-empty the joiner node is a genesis validator staked for these chains.
	JoinerGenesisChains []string
	// TxsAt, when non-nil, is asked for the transactions of every block the world runs (heights 4..StopAt):
	// validator-set changes (stake, edit-stake) by real transactions; every one of them must succeed.
	TxsAt func(w *relayWorld, height int64) []worldTx
	// MinSignedPct, when non-zero, is the MinSignedPerWindow parameter in percent (100: a single missed vote jails).
	MinSignedPct int64
	// AbsentAt, when non-nil, names the validators that did not sign the previous block, as reported in the
	// LastCommitInfo of block `height` (downtime jailing by the real BeginBlocker).
	AbsentAt func(w *relayWorld, height int64) []crypto.PrivateKey
	// DTAt, when non-nil, is the time step of block `height` (0: one second).
	DTAt func(height int64) time.Duration
}

// worldTx is one signed transaction of a world block with its description.
type worldTx struct {
	Desc  string
	Bytes []byte
}

// stakeTx is a MsgStake of node key k for the given chains with one stake unit: a new stake if k is not staked,
// otherwise an edit-stake that replaces the node's chains (same amount, effective in the block it is delivered in).
func (w *relayWorld) stakeTx(name string, k crypto.PrivateKey, chains []string) worldTx {
	msg := &nodesTypes.MsgStake{PublicKey: k.PublicKey(), Chains: append([]string{}, chains...), Value: sdk.NewInt(chain.StakeUnit),
		ServiceUrl: "https://node.example:443", Output: chain.Addr(k)}
	return worldTx{Desc: fmt.Sprintf("MsgStake{%s chains=%v}", name, chains), Bytes: chain.SignTx(w.spec.ChainID, msg, chain.DefaultFee, "", w.nextEntropy(), k)}
}

// unjailTx is a MsgUnjail of node key k signed by the node itself.
func (w *relayWorld) unjailTx(name string, k crypto.PrivateKey) worldTx {
	msg := &nodesTypes.MsgUnjail{ValidatorAddr: chain.Addr(k), Signer: chain.Addr(k)}
	return worldTx{Desc: fmt.Sprintf("MsgUnjail{%s}", name), Bytes: chain.SignTx(w.spec.ChainID, msg, chain.DefaultFee, "", w.nextEntropy(), k)}
}

const relayBackendReply = `{"id":1,"jsonrpc":"2.0","result":"0x10d4f"}`

// newRelayWorld builds the fixture. app0Stake (in POKT) fixes the application's relay budget:
// per-node allowance = round(app0Stake / 3 chains / SessionNodeCount).
func newRelayWorld(rt *rapid.T, kBoth int, bps int64, app0Stake int64, stopAt int64, lean bool, sessionAllowance int64) *relayWorld {
	return newRelayWorldOpts(rt, relayWorldOpts{KBoth: kBoth, Bps: bps, App0Stake: app0Stake, StopAt: stopAt, Lean: lean, SessionAllowance: sessionAllowance})
}

func newRelayWorldOpts(rt *rapid.T, o relayWorldOpts) *relayWorld {
	kBoth, bps, app0Stake, stopAt, lean, sessionAllowance := o.KBoth, o.Bps, o.App0Stake, o.StopAt, o.Lean, o.SessionAllowance
	w := &relayWorld{spec: chain.DefaultSpec(), bps: bps, snc: int64(kBoth + 1), lean: lean}
	s := &w.spec
	fund := func(k crypto.PrivateKey) {
		s.Accounts = append(s.Accounts, chain.AccountSpec{Key: k, Balance: 1_000_000_000})
	}
	w.self = chain.Key("self")
	fund(w.self)
	s.Nodes = append(s.Nodes, chain.NodeSpec{Key: w.self, Stake: chain.StakeUnit, Chains: []string{"0001", "0003", "0040"}})
	for i := 0; i < kBoth; i++ {
		k := chain.Key(fmt.Sprintf("both%d", i))
		fund(k)
		w.others = append(w.others, k)
		s.Nodes = append(s.Nodes, chain.NodeSpec{Key: k, Stake: chain.StakeUnit, Chains: []string{"0001", "0021", "0040", "0003"}})
	}
	other := chain.Key("other")
	w.other = other
	fund(other)
	s.Nodes = append(s.Nodes, chain.NodeSpec{Key: other, Stake: chain.StakeUnit, Chains: []string{"0021"}})
	w.joiner = chain.Key("joiner")
	s.Accounts = append(s.Accounts, chain.AccountSpec{Key: w.joiner, Balance: 2*chain.StakeUnit + 1_000_000_000})
	if len(o.JoinerGenesisChains) > 0 {
		s.Nodes = append(s.Nodes, chain.NodeSpec{Key: w.joiner, Stake: chain.StakeUnit, Chains: o.JoinerGenesisChains})
	}
	w.app0, w.app1, w.ghost = chain.Key("app0"), chain.Key("app1"), chain.Key("ghost")
	w.client, w.rogue = chain.Key("client"), chain.Key("rogue-client")
	for _, k := range []crypto.PrivateKey{w.app0, w.app1, w.ghost} {
		fund(k)
	}
	s.Apps = append(s.Apps, chain.AppSpec{Key: w.app0, Stake: app0Stake * 1_000_000, Chains: []string{"0001", "0021", "0040"}})
	s.Apps = append(s.Apps, chain.AppSpec{Key: w.app1, Stake: 3000 * 1_000_000, Chains: []string{"0001"}})
	s.NodeParams.SessionBlockFrequency = bps
	s.NodeParams.MaxValidators = int64(kBoth + 4)
	s.PocketParams.SessionNodeCount = w.snc
	s.PocketParams.SupportedBlockchains = []string{"0001", "0021", "0003", "0040"}
	if o.MinSignedPct != 0 {
		s.NodeParams.MinSignedPerWindow = sdk.NewDecWithPrec(o.MinSignedPct, 2)
	}
	w.n = chain.NewNode(s)
	for w.n.Height < stopAt {
		b := chain.Block{DT: time.Second}
		if o.DTAt != nil {
			if dt := o.DTAt(w.n.Height + 1); dt != 0 {
				b.DT = dt
			}
		}
		if o.AbsentAt != nil {
			for _, k := range o.AbsentAt(w, w.n.Height+1) {
				if b.Absent == nil {
					b.Absent = map[string]bool{}
				}
				b.Absent[hex.EncodeToString(chain.Addr(k))] = true
				w.txLog = append(w.txLog, fmt.Sprintf("h%d:absent-vote{%s}", w.n.Height+1, chain.Addr(k).String()[:8]))
			}
		}
		var txs []worldTx
		if o.TxsAt != nil {
			txs = o.TxsAt(w, w.n.Height+1)
			for _, t := range txs {
				b.Txs = append(b.Txs, t.Bytes)
			}
		}
		r := w.n.RunBlock(b)
		for i, t := range r.Txs {
			if t.Code != 0 {
				rt.Fatalf("world transaction %s in block %d failed: code %d %s", txs[i].Desc, r.Height, t.Code, t.Log)
			}
			w.txLog = append(w.txLog, fmt.Sprintf("h%d:%s", r.Height, txs[i].Desc))
		}
	}
	var err error
	w.work, err = os.MkdirTemp(os.Getenv("VERIF_WORK"), "relayworld-")
	if err != nil {
		rt.Fatalf("mkdtemp: %v", err)
	}
	// node-operator configuration (process globals the chain package initialised once with the testing defaults)
	pocketTypes.GlobalPocketConfig.LeanPocket = lean
	pocketTypes.GlobalPocketConfig.ClientBlockSyncAllowance = 10
	pocketTypes.GlobalPocketConfig.ClientSessionSyncAllowance = sessionAllowance
	pocketTypes.GlobalPocketConfig.JSONSortRelayResponses = true
	pocketTypes.GlobalPocketConfig.RelayErrors = false
	w.selfNode = rf.RegisterServicer(w.self, w.work, o.MaxEvidenceEntries)
	w.backend = rf.NewBackend(relayBackendReply)
	w.k = w.n.App.VerifPocketKeeper()
	rf.HostChains(w.k, w.backend.Srv.URL, "0001", "0021", "0003")
	w.desc = fmt.Sprintf("relayworld{peers=%d snc=%d bps=%d app0Stake=%d height=%d lean=%v sessionAllowance=%d evidenceLRU=%d txs=%v}", kBoth, w.snc, bps, app0Stake, w.n.Height, lean, sessionAllowance, w.selfNode.EvidenceStore.Cache.Cap(), w.txLog)
	return w
}

func (w *relayWorld) close() {
	w.backend.Close()
	pocketTypes.CleanPocketNodes()
	pocketTypes.GlobalPocketConfig.LeanPocket = false
	pocketTypes.GlobalPocketConfig.ClientSessionSyncAllowance = 0
	pocketTypes.GlobalPocketConfig.RelayErrors = true
	os.RemoveAll(w.work)
}

// latestSessionStart is the start height of the session that contains height h (sessions start at 1, 1+bps, ...).
func (w *relayWorld) latestSessionStart(h int64) int64 { return ((h-1)/w.bps)*w.bps + 1 }

// ctx is the context the RPC layer builds for a relay (app.NewContext(lastHeight)).
func (w *relayWorld) ctx(rt *rapid.T) sdk.Ctx {
	ctx, err := w.n.App.NewContext(w.n.App.LastBlockHeight())
	if err != nil {
		rt.Fatalf("NewContext: %v", err)
	}
	return ctx
}

func (w *relayWorld) nextEntropy() int64 { w.entropy++; return 1000 + w.entropy }

// validRelay is a well-formed relay to self for app0 on 0001 in the session starting at sbh.
func (w *relayWorld) validRelayParams(sbh, metaHeight int64, data string) rf.RelayParams {
	return rf.RelayParams{
		ProofParams: rf.ProofParams{Token: rf.MintAAT(w.app0, w.client.PublicKey()), Client: w.client, ServicerPub: w.self.PublicKey().RawString(),
			Chain: "0001", SessionHeight: sbh, Entropy: w.nextEntropy()},
		Payload:    pocketTypes.Payload{Data: data, Method: "POST", Path: "", Headers: nil},
		MetaHeight: metaHeight,
	}
}

// evidenceView is the stored relay evidence of one session header, read without side effects.
type evidenceView struct {
	found  bool
	sealed bool
	num    int64
	hashes []string // HashStringWithSignature of every stored proof, in stored order
}

func viewEvidence(node *pocketTypes.PocketNode, h pocketTypes.SessionHeader) evidenceView {
	// Not through GetEvidence/CacheStorage.Get: a read through the store pulls the object from the database
	// into the LRU (and, with a full LRU, pushes another entry out), i.e. observing would change where the
	// evidence lives. Peek at the LRU, else read and decode the database record, exactly as the store does.
	store := node.EvidenceStore
	key, err := pocketTypes.KeyForEvidence(h, pocketTypes.RelayEvidence)
	if err != nil {
		return evidenceView{}
	}
	var ev pocketTypes.Evidence
	if val, ok := store.Cache.Peek(hex.EncodeToString(key)); ok {
		if ev, ok = val.(pocketTypes.Evidence); !ok {
			return evidenceView{}
		}
	} else {
		bz, _ := store.DB.Get(key)
		if len(bz) == 0 {
			return evidenceView{}
		}
		obj, err := pocketTypes.Evidence{}.UnmarshalObject(bz)
		if err != nil {
			return evidenceView{}
		}
		if ev, ok = obj.(pocketTypes.Evidence); !ok {
			return evidenceView{}
		}
	}
	v := evidenceView{found: true, num: ev.NumOfProofs, sealed: store.IsSealed(ev)}
	for _, p := range ev.Proofs {
		v.hashes = append(v.hashes, proofID(p))
	}
	return v
}

func (v evidenceView) String() string {
	return fmt.Sprintf("{found=%v sealed=%v num=%d proofs=%d}", v.found, v.sealed, v.num, len(v.hashes))
}

func (v evidenceView) equal(o evidenceView) bool {
	if v.found != o.found || v.sealed != o.sealed || v.num != o.num || len(v.hashes) != len(o.hashes) {
		return false
	}
	for i := range v.hashes {
		if v.hashes[i] != o.hashes[i] {
			return false
		}
	}
	return true
}

// allEvidenceHeaders lists every session header that has an evidence object in the node's store.
func allEvidenceHeaders(node *pocketTypes.PocketNode) []string {
	var out []string
	it := pocketTypes.EvidenceIterator(node.EvidenceStore)
	defer it.Close()
	for ; it.Valid(); it.Next() {
		e := it.Value()
		out = append(out, fmt.Sprintf("%s/%s/%d:%d", e.SessionHeader.ApplicationPubKey[:8], e.SessionHeader.Chain, e.SessionHeader.SessionBlockHeight, e.NumOfProofs))
	}
	sort.Strings(out)
	return out
}

// proofID identifies a stored relay proof including its client signature (proofs that went through the
// evidence database come back as *RelayProof, fresh ones are RelayProof values).
func proofID(p pocketTypes.Proof) string {
	switch rp := p.(type) {
	case pocketTypes.RelayProof:
		return rp.HashStringWithSignature()
	case *pocketTypes.RelayProof:
		return rp.HashStringWithSignature()
	}
	return p.HashString()
}
