package abci

import (
	"fmt"
	"sort"
	"testing"

	"pgregory.net/rapid"

	"github.com/pokt-network/pocket-core/app"
	sdk "github.com/pokt-network/pocket-core/types"

	"verif/harness"
	"verif/harness/chain"
)

// C09 (application level): state observed through historical contexts and historical RPC queries at any retained
// height equals the state committed at that height, no matter what was written afterwards or what other
// historical reads happened in between. (The store-level form is props/storeb TestC09.)
//
// Model: after every Commit the harness records the committed balances, application records and node records
// (read from the latest state through store iteration). Later, at generated points, the real RPC query methods
// are called for past heights — each twice in a row, so that the second call is served from the node's
// historical-context cache — and must return exactly the recorded state.

type c09Snap struct {
	bal   map[string]string
	apps  map[string]string
	nodes map[string]string
}

func c09Record(n *chain.Node) c09Snap {
	js := func(v interface{}) string {
		b, err := app.Codec().MarshalJSON(v)
		if err != nil {
			return "ERR:" + err.Error()
		}
		return string(sdk.MustSortJSON(b))
	}
	s := c09Snap{bal: map[string]string{}, apps: map[string]string{}, nodes: map[string]string{}}
	for a, c := range n.Accounts() {
		s.bal[a] = c.AmountOf(sdk.DefaultStakeDenom).String()
	}
	ctx := n.Ctx()
	for _, a := range n.App.VerifAppsKeeper().GetAllApplications(ctx) {
		s.apps[a.Address.String()] = js(a)
	}
	for _, v := range n.App.VerifNodesKeeper().GetAllValidators(ctx) {
		s.nodes[v.Address.String()] = js(v)
	}
	return s
}

func TestC09App(t *testing.T) {
	harness.Check(t, "C09",
		"[application level] generated world + history (8-20 blocks of sends, node/app stake, edit, unstake, transfer, param changes); after every commit the committed "+
			"balances / application records / node records are recorded; at generated points the RPC query methods (QueryBalance, QueryApp, QueryNode) are called for a past or the "+
			"latest height, each twice in a row (second call served from the historical-context cache), interleaved with further blocks. Oracle: recorded state of that height. "+
			"non-trivial = a historical read of an object that changed after the queried height",
		map[string]float64{"historical-read-of-later-changed-object": 0.5},
		func(rt *rapid.T, c *harness.Case) {
			w := chain.GenWorld(rt)
			h := w.GenHistory(rt, 8, 20)
			c.Opf("%s", w.Describe())
			n := chain.NewNode(&w.Spec)
			snaps := map[int64]c09Snap{n.Height: c09Record(n)}
			js := func(v interface{}) string {
				b, _ := app.Codec().MarshalJSON(v)
				return string(sdk.MustSortJSON(b))
			}
			reads := 0
			query := func() {
				hs := make([]int64, 0, len(snaps))
				for k := range snaps {
					hs = append(hs, k)
				}
				sort.Slice(hs, func(i, j int) bool { return hs[i] < hs[j] })
				qh := hs[rapid.IntRange(0, len(hs)-1).Draw(rt, "queryHeight")]
				snap, latest := snaps[qh], snaps[n.Height]
				kind := rapid.SampledFrom([]string{"balance", "app", "node"}).Draw(rt, "queryKind")
				pa := *n.App
				pick := func(m map[string]string, label string) (string, bool) {
					ks := make([]string, 0, len(m))
					for k := range m {
						if len(k) == 40 { // the RPC layer only accepts 20-byte addresses (accounts with other lengths exist in state)
							ks = append(ks, k)
						}
					}
					if len(ks) == 0 {
						return "", false
					}
					sort.Strings(ks)
					return ks[rapid.IntRange(0, len(ks)-1).Draw(rt, label)], true
				}
				for rep := 0; rep < 2; rep++ {
					switch kind {
					case "balance":
						a, ok := pick(snap.bal, "addr")
						if !ok {
							return
						}
						if rep == 0 {
							c.Opf("QueryBalance(%s.., h=%d) x2 at latest %d", a[:8], qh, n.Height)
							if latest.bal[a] != snap.bal[a] {
								c.Label("historical-read-of-later-changed-object")
								c.NonTrivial()
							}
						}
						got, err := pa.QueryBalance(a, qh)
						if err != nil || got.String() != snap.bal[a] {
							c.Violation("C09/app/balance-at-height-differs-from-committed", "QueryBalance(%s, height %d) call #%d at latest %d: got %v (err %v), committed %s", a, qh, rep+1, n.Height, got, err, snap.bal[a])
						}
					case "app":
						a, ok := pick(snap.apps, "addr")
						if !ok {
							return
						}
						if rep == 0 {
							c.Opf("QueryApp(%s.., h=%d) x2 at latest %d", a[:8], qh, n.Height)
							if latest.apps[a] != snap.apps[a] {
								c.Label("historical-read-of-later-changed-object")
								c.NonTrivial()
							}
						}
						got, err := pa.QueryApp(a, qh)
						if err != nil || js(got) != snap.apps[a] {
							c.Violation("C09/app/application-at-height-differs-from-committed", "QueryApp(%s, height %d) call #%d at latest %d: got %s (err %v), committed %s", a, qh, rep+1, n.Height, js(got), err, snap.apps[a])
						}
					default:
						a, ok := pick(snap.nodes, "addr")
						if !ok {
							return
						}
						if rep == 0 {
							c.Opf("QueryNode(%s.., h=%d) x2 at latest %d", a[:8], qh, n.Height)
							if latest.nodes[a] != snap.nodes[a] {
								c.Label("historical-read-of-later-changed-object")
								c.NonTrivial()
							}
						}
						got, err := pa.QueryNode(a, qh)
						if err != nil || js(got) != snap.nodes[a] {
							c.Violation("C09/app/node-at-height-differs-from-committed", "QueryNode(%s, height %d) call #%d at latest %d: got %s (err %v), committed %s", a, qh, rep+1, n.Height, js(got), err, snap.nodes[a])
						}
					}
					reads++
				}
			}
			for i, b := range h.Blocks {
				n.RunBlock(b)
				c.Opf("%s", chain.DescribeBlock(b, h.Txs[i]))
				snaps[n.Height] = c09Record(n)
				k := rapid.IntRange(0, 3).Draw(rt, "nQueries")
				for q := 0; q < k; q++ {
					query()
				}
			}
			c.AddExtra("historical_reads_compared", reads)
			_ = fmt.Sprint
		})
}
