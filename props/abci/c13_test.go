package abci

import (
	"encoding/hex"
	"fmt"
	"os"
	"testing"
	"time"

	abci "github.com/tendermint/tendermint/abci/types"
	"pgregory.net/rapid"

	"github.com/pokt-network/pocket-core/app"
	"github.com/pokt-network/pocket-core/crypto"
	sdk "github.com/pokt-network/pocket-core/types"
	appsTypes "github.com/pokt-network/pocket-core/x/apps/types"
	nodesTypes "github.com/pokt-network/pocket-core/x/nodes/types"
	pocketTypes "github.com/pokt-network/pocket-core/x/pocketcore/types"

	"verif/harness"
	"verif/harness/chain"
	rf "verif/harness/relayfactory"
)

// C13: consensus is independent of off-chain activity and node-local caches.
//
// Differential: node A executes a generated history (claims and proofs minted by the relay factory, application
// edit-stake / unstake / transfer, node edit-stake / jail / unjail, sends) while serving generated service traffic
// between the ABCI calls: dispatch requests, RPC queries and ABCI custom queries at the latest and at historical
// heights (applications, nodes, validators-by-chain, claims); node B executes the same history without traffic.
// Both nodes restart at the same generated points (a restart empties the node-local caches, so the next read fills
// them — from whoever reads first). Transcripts and final store dumps must be equal.

type c13World struct {
	spec   chain.Spec
	nodes  []crypto.PrivateKey
	apps   []crypto.PrivateKey
	client crypto.PrivateKey
	fresh  []crypto.PrivateKey
	bps    int64
	window int64
	ent    int64
	chains []string // the two relay chains of this world
}

func (w *c13World) e() int64 { w.ent++; return 5000 + w.ent }

func newC13World(rt *rapid.T) *c13World {
	w := &c13World{spec: chain.DefaultSpec(), client: chain.Key("c13-client")}
	s := &w.spec
	// network identifiers are 1 or 2 bytes; a third of the worlds use a one-byte identifier and a two-byte identifier that
	// starts with the same byte (the one-byte id is then a key prefix of the other in the validators-by-chain index)
	w.chains = []string{"0001", "0021"}
	if rapid.SampledFrom([]int{0, 0, 1}).Draw(rt, "chainIds") == 1 {
		w.chains = []string{"01", "01ab"}
	}
	s.PocketParams.SupportedBlockchains = append([]string{}, w.chains...)
	w.bps = int64(rapid.IntRange(2, 4).Draw(rt, "bps"))
	w.window = 2
	s.NodeParams.SessionBlockFrequency = w.bps
	s.NodeParams.MaxValidators = 5
	s.NodeParams.UnstakingTime = 30 * time.Second
	s.AppParams.UnstakingTime = 30 * time.Second
	s.AppParams.BaseRelaysPerPOKT = 100000
	nn := rapid.IntRange(2, 4).Draw(rt, "nNodes")
	for i := 0; i < nn; i++ {
		k := chain.Key(fmt.Sprintf("c13-node%d", i))
		w.nodes = append(w.nodes, k)
		s.Nodes = append(s.Nodes, chain.NodeSpec{Key: k, Stake: chain.StakeUnit * int64(1+i%2), Chains: append([]string{}, w.chains...)})
		s.Accounts = append(s.Accounts, chain.AccountSpec{Key: k, Balance: 40_000_000_000})
	}
	for i := 0; i < 2; i++ {
		k := chain.Key(fmt.Sprintf("c13-app%d", i))
		w.apps = append(w.apps, k)
		s.Apps = append(s.Apps, chain.AppSpec{Key: k, Stake: 50_000_000, Chains: append([]string{}, w.chains...)})
		s.Accounts = append(s.Accounts, chain.AccountSpec{Key: k, Balance: 2_000_000_000})
	}
	for i := 0; i < 2; i++ {
		w.fresh = append(w.fresh, chain.Key(fmt.Sprintf("c13-fresh%d", i)))
	}
	s.Accounts = append(s.Accounts, chain.AccountSpec{Key: s.DAOOwner, Balance: 1_000_000_000})
	s.PocketParams.SessionNodeCount = int64(nn)
	s.PocketParams.ClaimSubmissionWindow = w.window
	s.PocketParams.ClaimExpiration = 4
	s.PocketParams.MinimumNumberOfProofs = 5
	return w
}

// c13Action is one generated element of a block (a tx, possibly materialised at run time) or a traffic call.
type c13Action struct {
	kind  string
	desc  string
	node  int
	app   int
	chain string
	sbh   int64 // session block height (for claim/proof/dispatch)
	total int
	amt   int64
	h     int64 // height selector for queries
	claim int   // index of the claim a proof refers to
}

type c13Claim struct {
	node, app int
	chain     string
	sbh       int64
	tree      *rf.Tree
}

func (w *c13World) sessionStart(h int64) int64 { return ((h-1)/w.bps)*w.bps + 1 }

var c13AllTraffic = []string{"dispatch", "dispatch", "abciApp", "abciApp", "abciNode", "abciValidators", "abciApps", "rpcApp", "rpcNode", "rpcNodes", "rpcApps", "rpcValByChain", "rpcClaims", "rpcParams",
	"abciDispatch", "abciDispatch", "mempoolCheckTx", "mempoolSimulate"}

// c11Traffic: what C11 quantifies over - CheckTx, simulation and queries (no application-method dispatch)
var c11Traffic = []string{"mempoolCheckTx", "mempoolCheckTx", "mempoolSimulate", "mempoolSimulate", "mempoolSimulate", "abciDispatch", "abciDispatch", "abciApp", "abciNode", "abciValidators", "abciApps",
	"rpcApp", "rpcNode", "rpcValByChain", "rpcClaims", "rpcParams"}

func TestC13(t *testing.T) {
	harness.Check(t, "C13",
		"generated world (2-4 nodes all in every session, 2 apps, blocks-per-session 2-4) and a history of 14-30 blocks with claims + proofs (relay factory), app edit-stake / begin-unstake "+
			"/ transfer, node edit-stake (chains) / downtime jail / unjail, sends, and restarts; node A additionally serves generated traffic between the ABCI calls: dispatch for current and "+
			"past sessions (application method and ABCI query route), RPC queries and ABCI custom queries (applications, nodes, validators, claims, params) at latest and historical heights, CheckTx and "+
			"/app/simulate of the block's own transactions (claims and proofs included) before they are delivered; node B none. Oracle: equal app hash / tx "+
			"results / validator updates per block and equal final store dumps. non-trivial = traffic touched an application, node or session that a LATER block's transaction reads "+
			"(dispatch followed by a claim for that session; application/node query at a past height followed by a tx on that object; any of these right after a restart)",
		map[string]float64{"dispatch-then-claim-same-session": 0.3, "historical-object-query-then-tx": 0.4, "restart": 0.5, "claim-accepted": 0.5, "proof-accepted": 0.2, "mempool-traffic": 0.3},
		c13Body("C13/block-result-differs-with-traffic", "C13/final-state-differs-with-traffic", c13AllTraffic))
}

// TestC11Claims is the C11 differential on histories with relay claims and proofs (the transactions whose validation
// reads past heights through ctx.PrevCtx and the session / validators-by-chain caches): the noise is restricted to what
// C11 names - CheckTx and simulation of the block's own transactions before delivery, and queries at any height.
func TestC11Claims(t *testing.T) {
	harness.Check(t, "C11",
		"[claims and proofs] the C13 world and history generator (14-30 blocks with relay claims + proofs, stake changes, jailing, restarts); node A additionally receives, between the ABCI calls, "+
			"CheckTx and /app/simulate of the block's own transactions before they are delivered and ABCI / RPC queries (incl. the dispatch querier) at latest and past heights; node B none. "+
			"Oracle: equal per-block results and final store dumps. non-trivial = as C13 (traffic touched an object or session a later transaction reads)",
		map[string]float64{"restart": 0.5, "claim-accepted": 0.5, "proof-accepted": 0.2, "mempool-traffic": 0.5},
		c13Body("C11/claims/block-result-differs-with-noise", "C11/claims/final-state-differs-with-noise", c11Traffic))
}

func c13Body(sigBlock, sigFinal string, kinds []string) func(rt *rapid.T, c *harness.Case) {
	return func(rt *rapid.T, c *harness.Case) {
		w := newC13World(rt)
		oneByte := len(w.chains[0]) == 2
		if oneByte {
			c.Label("one-byte-chain-id-prefix-of-another")
		}
		nblocks := rapid.IntRange(14, 30).Draw(rt, "nBlocks")
		start := int64(w.spec.Warmup) // histories start at height Warmup+1 (no setup block: no ViaTx nodes, no multisig)
		// ---- generate the script (inputs only) ----
		type blockScript struct {
			dt      time.Duration
			absent  map[string]bool
			txs     []c13Action
			traffic [][]c13Action // per slot (0 = before BeginBlock, i+1 after tx i, last = before Commit)
			restart bool
		}
		var script []blockScript
		var claims []c13Claim
		victim := rapid.IntRange(0, len(w.nodes)-1).Draw(rt, "victim")
		touchedApp := map[int]int{}     // app index -> block index of last historical/any traffic touching it
		touchedNode := map[int]int{}    // node index -> block
		dispatched := map[string]bool{} // "app/chain/sbh"
		interesting := false
		for b := 0; b < nblocks; b++ {
			h := start + int64(b) + 1
			bs := blockScript{dt: time.Duration(rapid.SampledFrom([]int{1, 1, 5, 20, 70}).Draw(rt, "dt")) * time.Second, absent: map[string]bool{}}
			if rapid.IntRange(0, 2).Draw(rt, "victimAbsent") > 0 {
				bs.absent[hex.EncodeToString(chain.Addr(w.nodes[victim]))] = true
			}
			if b > 2 && rapid.IntRange(0, 5).Draw(rt, "restart") == 0 {
				bs.restart = true
				c.Label("restart")
			}
			ntx := rapid.IntRange(0, 3).Draw(rt, "nTx")
			for i := 0; i < ntx; i++ {
				kind := rapid.SampledFrom([]string{"claim", "claim", "proof", "proof", "appEdit", "appUnstake", "appTransfer", "nodeEdit", "nodeUnjail", "send"}).Draw(rt, "txKind")
				a := c13Action{kind: kind, node: rapid.IntRange(0, len(w.nodes)-1).Draw(rt, "node"), app: rapid.IntRange(0, 1).Draw(rt, "app"),
					chain: rapid.SampledFrom(w.chains).Draw(rt, "chain")}
				switch kind {
				case "claim":
					// a session that has ended (usually) or is still running (sometimes)
					back := int64(rapid.IntRange(0, 3).Draw(rt, "sessionsBack"))
					a.sbh = w.sessionStart(h) - back*w.bps
					if a.sbh < 1 {
						a.sbh = 1
					}
					a.total = rapid.IntRange(5, 9).Draw(rt, "total")
					a.claim = len(claims)
					claims = append(claims, c13Claim{node: a.node, app: a.app, chain: a.chain, sbh: a.sbh})
					a.desc = fmt.Sprintf("claim#%d node%d app%d %s sbh=%d total=%d", a.claim, a.node, a.app, a.chain, a.sbh, a.total)
					if dispatched[fmt.Sprintf("%d/%s/%d", a.app, a.chain, a.sbh)] {
						c.Label("dispatch-then-claim-same-session")
						interesting = true
					}
				case "proof":
					if len(claims) == 0 {
						a.kind, a.amt = "send", 1
						a.desc = "send 1 node->app (no claim yet)"
						break
					}
					a.claim = rapid.IntRange(0, len(claims)-1).Draw(rt, "whichClaim")
					a.desc = fmt.Sprintf("proof for claim#%d", a.claim)
				case "appEdit":
					a.amt = 50_000_000 + int64(rapid.IntRange(1, 40).Draw(rt, "bump"))*1_000_000
					a.desc = fmt.Sprintf("appEdit app%d stake=%d", a.app, a.amt)
				case "appUnstake":
					a.desc = fmt.Sprintf("appUnstake app%d", a.app)
				case "appTransfer":
					a.desc = fmt.Sprintf("appTransfer app%d -> fresh%d", a.app, a.node%2)
					if rapid.Bool().Draw(rt, "ontoOtherAppKey") {
						// ... or onto the key of the OTHER application (refused while that application has a record, a normal
						// transfer once it was paid out and removed)
						a.amt = 1
						a.desc = fmt.Sprintf("appTransfer app%d -> key of app%d", a.app, 1-a.app)
					}
				case "nodeEdit":
					a.amt = int64(rapid.IntRange(1, 2).Draw(rt, "nChains"))
					a.desc = fmt.Sprintf("nodeEdit node%d chains=%d", a.node, a.amt)
				case "nodeUnjail":
					a.node = victim
					a.desc = fmt.Sprintf("nodeUnjail node%d", a.node)
				default:
					a.amt = int64(rapid.IntRange(1, 100000).Draw(rt, "amt"))
					a.desc = fmt.Sprintf("send %d node%d->app%d", a.amt, a.node, a.app)
				}
				if kind == "appEdit" || kind == "appUnstake" || kind == "appTransfer" || kind == "claim" {
					if tb, ok := touchedApp[a.app]; ok && tb <= b {
						c.Label("historical-object-query-then-tx")
						interesting = true
					}
				}
				if kind == "nodeEdit" || kind == "nodeUnjail" || kind == "claim" {
					if tb, ok := touchedNode[a.node]; ok && tb <= b {
						c.Label("historical-object-query-then-tx")
						interesting = true
					}
				}
				bs.txs = append(bs.txs, a)
			}
			bs.traffic = make([][]c13Action, len(bs.txs)+2)
			for slot := range bs.traffic {
				k := rapid.SampledFrom([]int{0, 0, 1, 2, 3}).Draw(rt, "nTraffic")
				for i := 0; i < k; i++ {
					kind := rapid.SampledFrom(kinds).Draw(rt, "trafficKind")
					a := c13Action{kind: kind, node: rapid.IntRange(0, len(w.nodes)-1).Draw(rt, "tnode"), app: rapid.IntRange(0, 1).Draw(rt, "tapp"),
						chain: rapid.SampledFrom(w.chains).Draw(rt, "tchain"), h: int64(rapid.IntRange(0, 6).Draw(rt, "back"))}
					if kind == "dispatch" || kind == "abciDispatch" {
						a.sbh = w.sessionStart(h-1) - int64(rapid.IntRange(0, 1).Draw(rt, "dsBack"))*w.bps
						if a.sbh < 1 {
							a.sbh = 1
						}
						dispatched[fmt.Sprintf("%d/%s/%d", a.app, a.chain, a.sbh)] = true
						a.desc = fmt.Sprintf("@%d:%s app%d %s sbh=%d back=%d", slot, kind, a.app, a.chain, a.sbh, a.h)
					} else if kind == "mempoolCheckTx" || kind == "mempoolSimulate" {
						a.total = rapid.IntRange(0, 3).Draw(rt, "whichBlockTx")
						a.desc = fmt.Sprintf("@%d:%s tx#%d of this block", slot, kind, a.total)
						if len(bs.txs) > 0 {
							c.Label("mempool-traffic")
						}
					} else {
						a.desc = fmt.Sprintf("@%d:%s app%d node%d %s back=%d", slot, kind, a.app, a.node, a.chain, a.h)
					}
					switch kind {
					case "abciApp", "rpcApp", "abciApps", "rpcApps":
						touchedApp[a.app] = b
					case "abciNode", "rpcNode", "abciValidators", "rpcNodes", "rpcValByChain":
						touchedNode[a.node] = b
					}
					bs.traffic[slot] = append(bs.traffic[slot], a)
				}
			}
			script = append(script, bs)
		}
		// Overlay (a third of the histories, when the query route is part of the traffic): the combination that makes a
		// historical read matter to a later block. Around a session start L a node leaves a chain (block L-2) and is back on
		// it by L-1; with L the latest height somebody asks the dispatch querier through the ABCI route for the session that
		// starts at L, at a height where the node was off the chain; after the session has ended a servicer claims for it.
		hasRoute := false
		for _, k := range kinds {
			hasRoute = hasRoute || k == "abciDispatch"
		}
		if hasRoute && rapid.SampledFrom([]int{0, 0, 1}).Draw(rt, "overlayHistoricalDispatch") == 1 {
			var starts []int // block indices b whose height is a session start with room before and after
			for b := 3; b+int(w.bps)+1 < len(script); b++ {
				if h := start + int64(b) + 1; w.sessionStart(h) == h {
					starts = append(starts, b)
				}
			}
			if len(starts) > 0 {
				bL := starts[rapid.IntRange(0, len(starts)-1).Draw(rt, "overlayAt")]
				L := start + int64(bL) + 1
				x := rapid.IntRange(0, len(w.nodes)-1).Draw(rt, "overlayLeaver")
				y := rapid.IntRange(0, len(w.nodes)-1).Draw(rt, "overlayClaimer")
				ap := rapid.IntRange(0, 1).Draw(rt, "overlayApp")
				addTx := func(b int, a c13Action) {
					script[b].txs = append(script[b].txs, a)
					script[b].traffic = append(script[b].traffic, nil)
				}
				addTx(bL-2, c13Action{kind: "nodeEdit", node: x, amt: 1, desc: fmt.Sprintf("[overlay] nodeEdit node%d chains=1", x)})
				addTx(bL-1, c13Action{kind: "nodeEdit", node: x, amt: 2, desc: fmt.Sprintf("[overlay] nodeEdit node%d chains=2", x)})
				back := int64(rapid.IntRange(1, 2).Draw(rt, "overlayBack"))
				q := c13Action{kind: "abciDispatch", app: ap, chain: w.chains[1], sbh: L, h: back}
				q.desc = fmt.Sprintf("@0:[overlay] abciDispatch app%d %s sbh=%d back=%d", ap, q.chain, L, back)
				script[bL+1].traffic[0] = append(script[bL+1].traffic[0], q)
				bc := bL + int(w.bps) + rapid.IntRange(0, 1).Draw(rt, "overlayClaimDelay")
				if bc >= len(script) {
					bc = len(script) - 1
				}
				cl := c13Action{kind: "claim", node: y, app: ap, chain: w.chains[1], sbh: L, total: rapid.IntRange(5, 9).Draw(rt, "overlayTotal"), claim: len(claims)}
				claims = append(claims, c13Claim{node: y, app: ap, chain: cl.chain, sbh: L})
				cl.desc = fmt.Sprintf("[overlay] claim#%d node%d app%d %s sbh=%d total=%d", cl.claim, y, ap, cl.chain, L, cl.total)
				addTx(bc, cl)
				c.Label("historical-dispatch-then-claim-overlay")
				interesting = true
			}
		}
		for b, bs := range script {
			s := fmt.Sprintf("b%d{dt=%s absent=%d restart=%v", b, bs.dt, len(bs.absent), bs.restart)
			for _, a := range bs.txs {
				s += " | " + a.desc
			}
			for _, sl := range bs.traffic {
				for _, a := range sl {
					s += " " + a.desc
				}
			}
			c.Opf("%s}", s)
		}
		if interesting {
			c.NonTrivial()
		}

		refRestarts := rapid.SampledFrom([]string{"same", "same", "never", "every-block"}).Draw(rt, "referenceNodeRestarts")
		c.Label("reference-restarts-" + refRestarts)
		heightCacheOnA := rapid.SampledFrom([]bool{false, false, true}).Draw(rt, "heightCacheOnTrafficNode")
		if heightCacheOnA {
			c.Label("traffic-node-runs-with-height-cache")
		}
		// ---- execution ----
		run := func(withTraffic bool) ([]chain.BlockResult, map[string][]chain.KV, int, int) {
			w.ent = 0
			// the in-memory height cache (--useCache) is one more node-local cache: in a third of the cases the node that
			// serves the traffic also runs with it, the reference node never does
			spec := w.spec
			spec.Cache = withTraffic && heightCacheOnA
			n := chain.NewNode(&spec)
			// a production node always runs with its own servicer key registered; this is what creates the global
			// session cache that dispatch fills and claim validation reads
			work, err := os.MkdirTemp(os.Getenv("VERIF_WORK"), "c13-")
			if err != nil {
				rt.Fatalf("mkdtemp: %v", err)
			}
			defer os.RemoveAll(work)
			defer pocketTypes.CleanPocketNodes()
			regN := 0
			register := func() {
				regN++
				rf.RegisterServicer(chain.Key("c13-self"), fmt.Sprintf("%s/r%d", work, regN), 0)
			}
			register()
			trees := map[int]*rf.Tree{}
			var out []chain.BlockResult
			okClaims, okProofs := 0, 0
			mat := func(a c13Action) []byte {
				nk, ak := w.nodes[a.node], w.apps[a.app]
				switch a.kind {
				case "claim":
					ev := rf.EvidenceSet(rf.ProofParams{Token: rf.MintAAT(ak, w.client.PublicKey()), Client: w.client, ServicerPub: nk.PublicKey().RawString(),
						Chain: a.chain, SessionHeight: a.sbh}, a.total, int64(1000*a.claim+1))
					tree := rf.BuildTree(a.sbh, ev)
					trees[a.claim] = tree
					msg := rf.NewMsgClaim(rf.Header(ak.PublicKey(), a.chain, a.sbh), chain.Addr(nk), tree)
					return chain.SignTx(w.spec.ChainID, msg, chain.DefaultFee, "", w.e(), nk)
				case "proof":
					cl := claims[a.claim]
					tree := trees[a.claim]
					if tree == nil {
						// the claim tx has not been generated yet in this run: send instead
						msg := &nodesTypes.MsgSend{FromAddress: chain.Addr(nk), ToAddress: chain.Addr(ak), Amount: sdk.NewInt(1)}
						return chain.SignTx(w.spec.ChainID, msg, chain.DefaultFee, "", w.e(), nk)
					}
					ph := rf.ProofHeight(cl.sbh, w.window, w.bps)
					idx := int64(0)
					if eh, ok := rf.EntropyHash(n.BlockStore, ph); ok {
						idx = rf.RequiredIndex(eh, rf.Header(w.apps[cl.app].PublicKey(), cl.chain, cl.sbh), tree.Total())
					}
					return chain.SignTx(w.spec.ChainID, rf.NewMsgProof(tree, idx), chain.DefaultFee, "", w.e(), w.nodes[cl.node])
				case "appEdit":
					msg := &appsTypes.MsgStake{PubKey: ak.PublicKey(), Chains: append([]string{}, w.chains...), Value: sdk.NewInt(a.amt)}
					return chain.SignTx(w.spec.ChainID, msg, chain.DefaultFee, "", w.e(), ak)
				case "appUnstake":
					return chain.SignTx(w.spec.ChainID, &appsTypes.MsgBeginUnstake{Address: chain.Addr(ak)}, chain.DefaultFee, "", w.e(), ak)
				case "appTransfer":
					msg := &appsTypes.MsgStake{PubKey: w.fresh[a.node%2].PublicKey(), Chains: nil, Value: sdk.ZeroInt()}
					if a.amt == 1 {
						msg.PubKey = w.apps[1-a.app].PublicKey()
					}
					return chain.SignTx(w.spec.ChainID, msg, chain.DefaultFee, "", w.e(), ak)
				case "nodeEdit":
					chains := append([]string{}, w.chains...)[:a.amt]
					st := w.spec.Nodes[a.node].Stake
					msg := &nodesTypes.MsgStake{PublicKey: nk.PublicKey(), Chains: chains, Value: sdk.NewInt(st), ServiceUrl: "https://node.example:443", Output: chain.Addr(nk)}
					return chain.SignTx(w.spec.ChainID, msg, chain.DefaultFee, "", w.e(), nk)
				case "nodeUnjail":
					return chain.SignTx(w.spec.ChainID, &nodesTypes.MsgUnjail{ValidatorAddr: chain.Addr(nk), Signer: chain.Addr(nk)}, chain.DefaultFee, "", w.e(), nk)
				default:
					msg := &nodesTypes.MsgSend{FromAddress: chain.Addr(nk), ToAddress: chain.Addr(ak), Amount: sdk.NewInt(a.amt)}
					return chain.SignTx(w.spec.ChainID, msg, chain.DefaultFee, "", w.e(), nk)
				}
			}
			var blockTxs [][]byte // the current block's transactions, materialised before the block starts
			traffic := func(a c13Action) {
				defer func() { _ = recover() }()
				latest := n.App.LastBlockHeight()
				qh := latest - a.h
				if qh < 1 {
					qh = 1
				}
				pa := *n.App
				appAddr, nodeAddr := chain.Addr(w.apps[a.app]), chain.Addr(w.nodes[a.node])
				switch a.kind {
				case "dispatch":
					_, _ = pa.HandleDispatch(pocketTypes.SessionHeader{ApplicationPubKey: w.apps[a.app].PublicKey().RawString(), Chain: a.chain, SessionBlockHeight: a.sbh})
				case "mempoolCheckTx":
					if len(blockTxs) > 0 {
						n.App.CheckTx(abci.RequestCheckTx{Tx: blockTxs[a.total%len(blockTxs)]})
					}
				case "mempoolSimulate":
					if len(blockTxs) > 0 {
						n.App.Query(abci.RequestQuery{Path: "/app/simulate", Data: blockTxs[a.total%len(blockTxs)], Height: qh})
					}
				case "abciDispatch":
					// the dispatch querier reached through the ABCI query route (Tendermint RPC abci_query), at any height
					n.App.Query(abci.RequestQuery{Path: "custom/pocketcore/dispatch", Height: qh, Data: app.Codec().MustMarshalJSON(pocketTypes.QueryDispatchParams{
						SessionHeader: pocketTypes.SessionHeader{ApplicationPubKey: w.apps[a.app].PublicKey().RawString(), Chain: a.chain, SessionBlockHeight: a.sbh}})})
				case "abciApp":
					n.App.Query(abci.RequestQuery{Path: "custom/application/application", Height: qh, Data: app.Codec().MustMarshalJSON(appsTypes.QueryAppParams{Address: appAddr})})
				case "abciApps":
					n.App.Query(abci.RequestQuery{Path: "custom/application/applications", Height: qh, Data: app.Codec().MustMarshalJSON(appsTypes.QueryApplicationsWithOpts{Page: 1, Limit: 100})})
				case "abciNode":
					n.App.Query(abci.RequestQuery{Path: "custom/pos/validator", Height: qh, Data: app.Codec().MustMarshalJSON(nodesTypes.QueryValidatorParams{Address: nodeAddr})})
				case "abciValidators":
					n.App.Query(abci.RequestQuery{Path: "custom/pos/validators", Height: qh, Data: app.Codec().MustMarshalJSON(nodesTypes.QueryValidatorsParams{Page: 1, Limit: 100, Blockchain: a.chain})})
				case "rpcApp":
					_, _ = pa.QueryApp(appAddr.String(), qh)
				case "rpcApps":
					_, _ = pa.QueryApps(qh, appsTypes.QueryApplicationsWithOpts{Page: 1, Limit: 100})
				case "rpcNode":
					_, _ = pa.QueryNode(nodeAddr.String(), qh)
				case "rpcNodes":
					_, _ = pa.QueryNodes(qh, nodesTypes.QueryValidatorsParams{Page: 1, Limit: 100, Blockchain: a.chain})
				case "rpcValByChain":
					_, _ = pa.QueryValidatorByChain(qh, a.chain)
				case "rpcClaims":
					_, _ = pa.QueryClaims(nodeAddr.String(), qh, 1, 100)
				default:
					_, _ = pa.QueryAllParams(qh)
				}
			}
			for bi, bs := range script {
				// restarts empty every node-local cache. The node with traffic restarts at the generated points; the reference
				// node at the same points, never, or before every block (a node that never runs with a populated cache)
				restart := bs.restart
				if !withTraffic {
					switch refRestarts {
					case "never":
						restart = false
					case "every-block":
						restart = bi > 0
					}
				}
				if restart {
					n.Restart()
					register()
				}
				do := func(slot int) {
					if withTraffic {
						for _, a := range bs.traffic[slot] {
							traffic(a)
						}
					}
				}
				// txs are materialised against this node's own block store (proof index needs its block hashes), all of them
				// before the block starts: they are what the mempool holds (and CheckTx / simulate traffic refers to)
				blockTxs = blockTxs[:0]
				for _, a := range bs.txs {
					blockTxs = append(blockTxs, mat(a))
				}
				do(0)
				n.BeginBlock(chain.Block{DT: bs.dt, Absent: bs.absent, Proposer: chain.Addr(w.nodes[0])})
				for i, a := range bs.txs {
					tx := blockTxs[i]
					r := n.DeliverTx(tx)
					if !withTraffic && (a.kind == "claim" || a.kind == "proof") {
						c.AddExtra(fmt.Sprintf("code_%s_%s_%d", a.kind, r.Codespace, r.Code), 1)
					}
					if r.Code == 0 && a.kind == "claim" {
						okClaims++
					}
					if r.Code == 0 && a.kind == "proof" && trees[a.claim] != nil {
						okProofs++
					}
					do(i + 1)
				}
				eb := n.EndBlock()
				do(len(bs.txs) + 1)
				out = append(out, n.Commit(eb))
			}
			return out, n.Dump(), okClaims, okProofs
		}
		refT, refD, okc, okp := run(false)
		if okc > 0 {
			c.Label("claim-accepted")
			if oneByte {
				c.Label("claim-accepted-on-one-byte-chain-world")
			}
		}
		if okp > 0 {
			c.Label("proof-accepted")
		}
		gotT, gotD, _, _ := run(true)
		for i := range refT {
			if gotT[i].String() != refT[i].String() {
				c.Violation(sigBlock, "block b%d (height %d) differs:\n with traffic: %s\n without:      %s", i, refT[i].Height, gotT[i], refT[i])
				return
			}
		}
		if d := chain.DiffDumps(gotD, refD); d != "" {
			c.Violation(sigFinal, "final substore dumps differ: %s", d)
		}
	}
}
