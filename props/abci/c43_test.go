package abci

import (
	"reflect"
	"encoding/hex"
	"encoding/json"
	"fmt"
	"os"
	"os/exec"
	"path/filepath"
	"sort"
	"strings"
	"testing"
	"time"

	tmlog "github.com/tendermint/tendermint/libs/log"
	"pgregory.net/rapid"

	"github.com/pokt-network/pocket-core/app"
	"github.com/pokt-network/pocket-core/codec"
	"github.com/pokt-network/pocket-core/crypto"
	sdk "github.com/pokt-network/pocket-core/types"
	appsTypes "github.com/pokt-network/pocket-core/x/apps/types"
	authTypes "github.com/pokt-network/pocket-core/x/auth/types"
	govTypes "github.com/pokt-network/pocket-core/x/gov/types"
	nodesTypes "github.com/pokt-network/pocket-core/x/nodes/types"
	pocketTypes "github.com/pokt-network/pocket-core/x/pocketcore/types"

	"verif/harness"
	"verif/harness/chain"
	rf "verif/harness/relayfactory"
)

// C43: exporting the application state at a height and initialising a new chain from that export yields the same
// accounts/balances, supply, nodes, applications, parameters and pending claims.
//
// The import runs in a SUBPROCESS (this test binary re-executed with TestC43ImportHelper): the modules' genesis
// checks abort the process with os.Exit/log.Fatal, which must be observed as a result, not kill the harness.

const (
	envC43Genesis = "VERIF_C43_GENESIS"
	envC43Out     = "VERIF_C43_OUT"
)

// TestC43ImportHelper is the subprocess body: it is a no-op unless the environment names a genesis file.
func TestC43ImportHelper(t *testing.T) {
	gpath, opath := os.Getenv(envC43Genesis), os.Getenv(envC43Out)
	if gpath == "" || opath == "" {
		t.Skip("helper: only runs as a subprocess of TestC43")
	}
	bz, err := os.ReadFile(gpath)
	if err != nil {
		t.Fatal(err)
	}
	var gs app.GenesisState
	if err := app.Codec().UnmarshalJSON(bz, &gs); err != nil {
		t.Fatalf("cannot parse exported genesis: %v", err)
	}
	spec := chain.DefaultSpec()
	// a node started on the new chain derives its activation schedule from the upgrade parameter of the genesis
	var gg govTypes.GenesisState
	if err := app.Codec().UnmarshalJSON(gs[govTypes.ModuleName], &gg); err != nil {
		t.Fatalf("cannot parse exported gov genesis: %v", err)
	}
	spec.UpgradeHeight, spec.OldUpgradeHeight = gg.Params.Upgrade.Height, gg.Params.Upgrade.OldUpgradeHeight
	spec.Features = codec.SliceToMap(gg.Params.Upgrade.Features)
	chain.Logger = tmlog.NewTMLogger(os.Stdout)
	n := chain.NewNodeFromGenesis(&spec, gs)
	out, _ := json.Marshal(n.StateView())
	if err := os.WriteFile(opath, out, 0o644); err != nil {
		t.Fatal(err)
	}
}

// c43ClaimTry is one generated claim attempt of a block: selectors that are resolved against the chain state when the
// block is about to run (which applications are staked, which nodes the session holds).
type c43ClaimTry struct {
	appSel, chainSel, back, nodeSel, total int
}

// c43Claim is a claim transaction that was put into a block.
type c43Claim struct {
	id     string // store identity: hex(servicer address | session header hash | evidence type byte)
	desc   string
	msg    pocketTypes.MsgClaim
	height int64
	txIdx  int
	code   uint32
}

func claimID(m pocketTypes.MsgClaim) string {
	et, _ := m.EvidenceType.Byte()
	return hex.EncodeToString(append(append(append([]byte{}, m.FromAddress.Bytes()...), m.SessionHeader.Hash()...), et))
}

// c43MintClaim resolves a claim attempt against the state of node n for the block that will run at height h and returns
// the signed MsgClaim transaction of a servicer that is in the chosen session ("" reason when built).
func c43MintClaim(n *chain.Node, w *chain.World, keys []crypto.PrivateKey, client crypto.PrivateKey, tr c43ClaimTry, h int64, serial int64) (tx []byte, cl c43Claim, skip string) {
	pk := n.App.VerifPocketKeeper()
	ctx := n.Ctx()
	bps := pk.BlocksPerSession(ctx)
	cur := ((h-1)/bps)*bps + 1
	sbh := cur - int64(tr.back)*bps
	if sbh < 1 {
		return nil, cl, "no-ended-session"
	}
	sessCtx, err := ctx.PrevCtx(sbh)
	if err != nil {
		return nil, cl, "no-session-context"
	}
	endCtx, err := ctx.PrevCtx(sbh + pk.BlocksPerSession(sessCtx) - 1)
	if err != nil {
		return nil, cl, "no-session-context"
	}
	// applications staked at the session start, in key pool order
	var appKeys []crypto.PrivateKey
	for _, k := range keys {
		if _, ok := pk.GetAppFromPublicKey(sessCtx, k.PublicKey().RawString()); ok {
			appKeys = append(appKeys, k)
		}
	}
	if len(appKeys) == 0 {
		return nil, cl, "no-application"
	}
	ak := appKeys[tr.appSel%len(appKeys)]
	a, _ := pk.GetAppFromPublicKey(sessCtx, ak.PublicKey().RawString())
	if len(a.GetChains()) == 0 {
		return nil, cl, "no-application"
	}
	ch := a.GetChains()[tr.chainSel%len(a.GetChains())]
	snc := pk.SessionNodeCount(sessCtx)
	header := rf.Header(ak.PublicKey(), ch, sbh)
	hash, err := sessCtx.BlockHash(n.App.VerifCodec(), sessCtx.BlockHeight())
	if err != nil {
		return nil, cl, "no-session-context"
	}
	sess, serr := pocketTypes.NewSession(sessCtx, endCtx, n.App.VerifNodesKeeper(), header, hex.EncodeToString(hash), int(snc))
	if serr != nil || len(sess.SessionNodes) == 0 {
		return nil, cl, "no-session"
	}
	addr := sess.SessionNodes[tr.nodeSel%len(sess.SessionNodes)]
	var nk crypto.PrivateKey
	for _, k := range keys {
		if chain.Addr(k).Equals(addr) {
			nk = k
		}
	}
	if nk == nil {
		return nil, cl, "no-session"
	}
	total := int64(tr.total)
	if m := pk.MinimumNumberOfProofs(sessCtx); total < m {
		total = m
	}
	if max := pocketTypes.MaxPossibleRelays(a, snc).Int64(); total > max {
		total = max
	}
	if total < 5 {
		return nil, cl, "application-too-small"
	}
	ev := rf.EvidenceSet(rf.ProofParams{Token: rf.MintAAT(ak, client.PublicKey()), Client: client, ServicerPub: nk.PublicKey().RawString(), Chain: ch, SessionHeight: sbh}, int(total), 1000*serial+1)
	tree := rf.BuildTree(sbh, ev)
	msg := rf.NewMsgClaim(header, addr, tree)
	cl = c43Claim{id: claimID(*msg), msg: *msg, height: h,
		desc: fmt.Sprintf("claim %s for %s/%s session@%d total=%d root=%x", w.KeyName(nk), w.KeyName(ak), ch, sbh, total, msg.MerkleRoot.Hash[:4])}
	return chain.SignTx(w.Spec.ChainID, msg, chain.DefaultFee, "", w.NextEntropy(), nk), cl, ""
}

const c43ClaimAbortSig = "C43/import/aborted-claim-with-expiration-height"

func c43AbortSignature(msg string) string {
	switch {
	case strings.Contains(msg, "module account total does not equal the amount in each validator account"):
		return "C43/import/aborted-node-pool-mismatch"
	case strings.Contains(msg, "module account total does not equal the amount in each application account"):
		return "C43/import/aborted-app-pool-mismatch"
	case strings.Contains(msg, "Incorrect address length"):
		return "C43/import/aborted-account-address-not-20-bytes"
	case strings.Contains(msg, "validator has less than minimum stake"):
		return "C43/import/aborted-node-below-minimum-stake-rejected"
	case strings.Contains(msg, "application has less than minimum stake"):
		return "C43/import/aborted-app-at-minimum-stake-rejected"
	case strings.Contains(msg, "is not a recognized parameter"):
		return "C43/import/aborted-acl-key-not-recognized"
	case strings.Contains(msg, "the expiration height included in the claim message is invalid"):
		return c43ClaimAbortSig
	}
	return "C43/import/aborted"
}

func TestC43(t *testing.T) {
	work := os.Getenv("VERIF_WORK")
	if work == "" {
		work = t.TempDir()
	}
	// runImport initialises a fresh application from an exported genesis in a subprocess and returns its state view,
	// or the abort reason.
	runImport := func(genesis []byte) (map[string]map[string]string, string, error) {
		gpath := filepath.Join(work, "c43-genesis.json")
		opath := filepath.Join(work, "c43-view.json")
		_ = os.Remove(opath)
		if err := os.WriteFile(gpath, genesis, 0o644); err != nil {
			t.Fatal(err)
		}
		cmd := exec.Command(os.Args[0], "-test.run", "^TestC43ImportHelper$", "-test.count=1")
		cmd.Env = append(os.Environ(), envC43Genesis+"="+gpath, envC43Out+"="+opath, harness.EnvStats+"=", harness.EnvFailRec+"=")
		outb, runErr := cmd.CombinedOutput()
		vb, rerr := os.ReadFile(opath)
		if runErr != nil || rerr != nil {
			if runErr == nil {
				runErr = rerr
			}
			return nil, abortReason(string(outb)), runErr
		}
		var got map[string]map[string]string
		if err := json.Unmarshal(vb, &got); err != nil {
			t.Fatalf("harness: bad view json: %v", err)
		}
		return got, "", nil
	}
	harness.Check(t, "C43",
		"generated world + full-feature history (8-24 blocks: sends, node/app stake, edit, begin-unstake (records left unstaking at export), app transfer, param changes, DAO "+
			"actions, downtime slash/jail; in 3 of 4 cases also MsgClaim transactions minted by the relay factory: 0-3 per block in the last 8 blocks, occasionally earlier (those expire before the "+
			"export), each for a generated application / chain / ended session, signed by a servicer of that session (session node count 1-3), submitted inside the claim window or (sometimes) too late, "+
			"never proved - so 0-4+ claims of different servicers/applications/chains/sessions are pending at the export height); ExportAppState at the last height. Export-side oracle: the node, application "+
			"and claim records parsed from the exported JSON equal the exporting node's records, the claims being read by a raw prefix scan of the pocketcore store (not through Keeper.GetAllClaims) and "+
			"matched against the submitted messages. Import side: a second application is initialised from the exported JSON in a subprocess; normalised views "+
			"(non-empty account balances, supply, node records, application records, params of all modules incl. ACL/DAO owner/upgrade, claims) must be equal; an aborting import is a "+
			"failed case. non-trivial = exported state holds an unstaking or jailed node/app and non-zero staking pools, or at least two pending claims",
		map[string]float64{"has-unstaking-or-jailed": 0.3, "pending-claims>=2": 0.15, "pending-claims=0": 0.2},
		func(rt *rapid.T, c *harness.Case) {
			w := chain.GenWorld(rt)
			// keep unstaking records alive until export: long unstaking time in half of the cases
			if rapid.Bool().Draw(rt, "longUnstaking") {
				w.Spec.NodeParams.UnstakingTime = 10 * time.Hour
				w.Spec.AppParams.UnstakingTime = 10 * time.Hour
			}
			// the features that add ACL keys when they activate (BLOCK, RSCAL, PerChainRTTM) make the import abort in the
			// gov module (known finding); half of the worlds never activate them so that the search continues behind it
			if rapid.Bool().Draw(rt, "withoutAclAddingFeatures") {
				f := map[string]int64{}
				for k, v := range w.Spec.Features {
					if k != "BLOCK" && k != "RSCAL" && k != "PerChainRTTM" {
						f[k] = v
					}
				}
				w.Spec.SetFeatures(f)
				c.Label("no-acl-adding-features")
			}
			// claims: 1 case in 4 has none at all (the import of an export that holds claims aborts: keep exploring the
			// import side); otherwise sessions hold 1-3 servicers
			withClaims := rapid.IntRange(0, 3).Draw(rt, "withClaims") > 0
			if withClaims {
				snc := rapid.SampledFrom([]int64{1, 1, 2, 3}).Draw(rt, "sessionNodeCount")
				if snc > int64(len(w.Nodes)) {
					snc = int64(len(w.Nodes))
				}
				w.Spec.PocketParams.SessionNodeCount = snc
				c.Label("with-claim-txs")
			}
			h := w.GenHistory(rt, 8, 24)
			plan := make([][]c43ClaimTry, len(h.Blocks))
			if withClaims {
				for i := range h.Blocks {
					k := rapid.SampledFrom([]int{0, 0, 0, 0, 1}).Draw(rt, "earlyClaims")
					if i >= len(h.Blocks)-8 {
						k = rapid.SampledFrom([]int{0, 1, 1, 2, 3}).Draw(rt, "lateClaims")
					}
					for j := 0; j < k; j++ {
						plan[i] = append(plan[i], c43ClaimTry{appSel: rapid.IntRange(0, 7).Draw(rt, "claimApp"), chainSel: rapid.IntRange(0, 3).Draw(rt, "claimChain"),
							back: rapid.SampledFrom([]int{1, 1, 1, 1, 2}).Draw(rt, "claimSessionsBack"), nodeSel: rapid.IntRange(0, 7).Draw(rt, "claimNode"),
							total: rapid.IntRange(5, 9).Draw(rt, "claimTotal")})
					}
				}
			}
			c.Opf("%s sessionNodeCount=%d", w.Describe(), w.Spec.PocketParams.SessionNodeCount)
			n := chain.NewNode(&w.Spec)
			// a production node runs with its own servicer key registered (creates the node-global session / evidence caches)
			sdir, err := os.MkdirTemp(work, "c43-servicer-")
			if err != nil {
				rt.Fatalf("mkdtemp: %v", err)
			}
			defer os.RemoveAll(sdir)
			defer pocketTypes.CleanPocketNodes()
			rf.RegisterServicer(chain.Key("c43-self"), sdir, 0)
			client := chain.Key("c43-client")
			var keyPool []crypto.PrivateKey
			keyPool = append(keyPool, w.Nodes...)
			keyPool = append(keyPool, w.Apps...)
			keyPool = append(keyPool, w.Spare...)
			keyPool = append(keyPool, w.Fresh...)
			keyPool = append(keyPool, w.Accounts...)
			var claims []*c43Claim
			serial := int64(0)
			for i, b := range h.Blocks {
				height := n.Height + 1
				desc := chain.DescribeBlock(b, h.Txs[i])
				b.Txs = append([][]byte{}, b.Txs...)
				var mine []*c43Claim
				for _, tr := range plan[i] {
					serial++
					tx, cl, skip := c43MintClaim(n, w, keyPool, client, tr, height, serial)
					if skip != "" {
						c.Label("claim-skipped-" + skip)
						desc += fmt.Sprintf(" | (claim attempt app#%d chain#%d back=%d node#%d: %s)", tr.appSel, tr.chainSel, tr.back, tr.nodeSel, skip)
						continue
					}
					cl.txIdx = len(b.Txs)
					b.Txs = append(b.Txs, tx)
					cp := cl
					mine = append(mine, &cp)
					desc += " | " + cl.desc
				}
				r := n.RunBlock(b)
				for _, cl := range mine {
					cl.code = r.Txs[cl.txIdx].Code
					c.AddExtra(fmt.Sprintf("claim_tx_code_%d", cl.code), 1)
					if cl.code == 0 {
						c.Label("claim-accepted")
					} else {
						c.Label("claim-rejected")
					}
					claims = append(claims, cl)
				}
				c.Opf("%s", desc)
			}
			want := n.StateView()
			interesting := false
			for _, js := range want["nodes"] {
				if strings.Contains(js, `"status":1`) || strings.Contains(js, `"jailed":true`) {
					interesting = true
				}
			}
			for _, js := range want["apps"] {
				if strings.Contains(js, `"status":1`) || strings.Contains(js, `"jailed":true`) {
					interesting = true
				}
			}
			if interesting {
				c.Label("has-unstaking-or-jailed")
				c.NonTrivial()
			}
			// pending claims of the exporter (raw store scan inside StateView) against the submitted messages
			{
				np := len(want["claims"])
				c.AddExtra("pending_claims_at_export", np)
				switch {
				case np == 0:
					c.Label("pending-claims=0")
				case np == 1:
					c.Label("pending-claims=1")
				default:
					c.Label("pending-claims>=2")
					c.NonTrivial()
				}
				latest := map[string]*c43Claim{}
				for _, cl := range claims {
					if cl.code == 0 {
						latest[cl.id] = cl
					}
				}
				froms, apps, chains, sessions := map[string]bool{}, map[string]bool{}, map[string]bool{}, map[int64]bool{}
				for id, js := range want["claims"] {
					cl := latest[id]
					if cl == nil {
						rt.Fatalf("harness: pending claim %s in the store was never submitted: %s", id, js)
					}
					var stored pocketTypes.MsgClaim
					if err := app.Codec().UnmarshalJSON([]byte(js), &stored); err != nil {
						rt.Fatalf("harness: stored claim does not parse back: %v", err)
					}
					exp := stored.ExpirationHeight
					stored.ExpirationHeight = 0
					if chain.MustJSON(stored) != chain.MustJSON(cl.msg) || exp <= n.Height {
						rt.Fatalf("harness: pending claim read from the raw store differs from the accepted message (or is expired: %d at height %d): %s vs %s", exp, n.Height, js, chain.MustJSON(cl.msg))
					}
					froms[cl.msg.FromAddress.String()], apps[cl.msg.SessionHeader.ApplicationPubKey], chains[cl.msg.SessionHeader.Chain], sessions[cl.msg.SessionHeader.SessionBlockHeight] = true, true, true, true
				}
				if len(froms) > 1 {
					c.Label("pending-claims-of-different-servicers")
				}
				if len(apps) > 1 || len(chains) > 1 || len(sessions) > 1 {
					c.Label("pending-claims-of-different-sessions")
				}
				expired := 0
				for id := range latest {
					if _, ok := want["claims"][id]; !ok {
						expired++
					}
				}
				if expired > 0 {
					c.Label("claim-expired-before-export")
				}
			}
			// in worlds where stake-weighted rewards are active governance has, half of the time, raised the weighting ceiling
			// above its floor (a parameter pair whose defaults coincide) before the export
			if _, rscal := w.Spec.Features[codec.RSCALKey]; rscal && rapid.Bool().Draw(rt, "ceilingRaised") {
				val, _ := app.Codec().MarshalJSON(int64(rapid.SampledFrom([]int{2, 3, 4}).Draw(rt, "ceilingBins")) * chain.StakeUnit)
				tx := chain.SignTx(w.Spec.ChainID, &govTypes.MsgChangeParam{FromAddress: chain.Addr(w.Spec.DAOOwner), ParamKey: "pos/ServicerStakeWeightCeiling", ParamVal: val}, chain.DefaultFee, "", w.NextEntropy(), w.Spec.DAOOwner)
				r := n.RunBlock(chain.Block{DT: time.Second, Proposer: chain.Addr(w.Nodes[0]), Txs: [][]byte{tx}})
				c.Opf("block{changeParam pos/ServicerStakeWeightCeiling=%s by dao -> %d}", val, r.Txs[0].Code)
				if r.Txs[0].Code == 0 {
					c.Label("weighting-ceiling-raised-before-export")
				}
				want = n.StateView()
			}
			exported, err := n.App.ExportAppState(n.Height, false, nil)
			if err != nil {
				c.Violation("C43/export/failed", "ExportAppState(%d) failed: %v", n.Height, err)
				return
			}
			// Export-side oracle, independent of the import path: the exported JSON, parsed with the modules' own genesis
			// types, must carry exactly the exporting node's node, application and pending claim records (every field).
			var gs app.GenesisState
			var pg pocketTypes.GenesisState
			{
				if err := app.Codec().UnmarshalJSON(exported, &gs); err != nil {
					c.Violation("C43/export/not-parseable", "exported app state does not parse: %v", err)
					return
				}
				js := func(v interface{}) string {
					b, err := app.Codec().MarshalJSON(v)
					if err != nil {
						return "ERR:" + err.Error()
					}
					return string(sdk.MustSortJSON(b))
				}
				var ng nodesTypes.GenesisState
				if err := app.Codec().UnmarshalJSON(gs[nodesTypes.ModuleName], &ng); err != nil {
					c.Violation("C43/export/nodes-genesis-not-parseable", "exported pos genesis does not parse: %v", err)
					return
				}
				// parameters, one by one, against the raw parameter store of the exporting node (not against the keepers'
				// GetParams aggregate, which is what the export itself is built from)
				rawParams := map[string]string{}
				for _, kv := range n.Dump()["params"] {
					rawParams[string(kv.K)] = string(sdk.MustSortJSON(kv.V))
				}
				cmpParams := func(subspace string, pairs sdk.ParamSetPairs) {
					for _, pr := range pairs {
						raw, stored := rawParams[subspace+"/"+string(pr.Key)]
						if !stored {
							continue // a parameter of a feature that never activated on this chain
						}
						bz, err := app.Codec().MarshalJSON(reflect.ValueOf(pr.Value).Elem().Interface())
						if err != nil {
							continue
						}
						c.AddExtra("exported_parameters_compared", 1)
						if got := string(sdk.MustSortJSON(bz)); got != raw {
							c.Violation("C43/export/parameter-differs-in-exported-json", "exported %s genesis carries %s = %s, the exporting node's parameter store holds %s", subspace, pr.Key, got, raw)
						}
					}
				}
				cmpParams("pos", (&ng.Params).ParamSetPairs())
				gotN := map[string]string{}
				for _, v := range ng.Validators {
					gotN[v.Address.String()] = js(v)
				}
				if d := diffView(want["nodes"], gotN); d != "" {
					c.Violation("C43/export/node-records-differ-in-exported-json", "node records parsed from the exported genesis differ from the exporting node's records: %s", d)
				}
				var ag appsTypes.GenesisState
				if err := app.Codec().UnmarshalJSON(gs[appsTypes.ModuleName], &ag); err != nil {
					c.Violation("C43/export/apps-genesis-not-parseable", "exported application genesis does not parse: %v", err)
					return
				}
				gotA := map[string]string{}
				for _, a := range ag.Applications {
					gotA[a.Address.String()] = js(a)
				}
				if d := diffView(want["apps"], gotA); d != "" {
					c.Violation("C43/export/app-records-differ-in-exported-json", "application records parsed from the exported genesis differ from the exporting node's records: %s", d)
				}
				if err := app.Codec().UnmarshalJSON(gs[pocketTypes.ModuleName], &pg); err != nil {
					c.Violation("C43/export/pocketcore-genesis-not-parseable", "exported pocketcore genesis does not parse: %v", err)
					return
				}
				gotC := map[string]string{}
				for _, cl := range pg.Claims {
					id := claimID(cl)
					for _, dup := gotC[id]; dup; _, dup = gotC[id] {
						id += "+duplicate"
					}
					gotC[id] = js(cl)
				}
				if len(pg.Claims) != len(want["claims"]) {
					c.Violation("C43/export/claim-count-differs-in-exported-json", "the exported genesis carries %d claims, the exporting node's store holds %d pending claims", len(pg.Claims), len(want["claims"]))
				} else if d := diffView(want["claims"], gotC); d != "" {
					c.Violation("C43/export/claim-records-differ-in-exported-json", "claims parsed from the exported genesis differ from the pending claims in the exporting node's store (raw scan): %s", d)
				}
				c.AddExtra("exported_records_compared", len(gotN)+len(gotA)+len(gotC))
				c.AddExtra("exported_claims_compared", len(gotC))
			}
			got, msg, runErr := runImport(exported)
			skipClaims := false
			if runErr != nil {
				sig := c43AbortSignature(msg)
				known := c.Violation(sig, "initialising a chain from the exported genesis aborted (%v): %s", runErr, msg)
				if !known || sig != c43ClaimAbortSig {
					return
				}
				// known finding: the import refuses exported claims. Continue behind it the way an operator would have to:
				// drop the claims from the exported file and import the rest.
				c.Label("import-retried-without-claims")
				pg.Claims = nil
				gs[pocketTypes.ModuleName] = app.Codec().MustMarshalJSON(pg)
				stripped, err := app.Codec().MarshalJSON(gs)
				if err != nil {
					rt.Fatalf("harness: cannot re-marshal the genesis: %v", err)
				}
				got, msg, runErr = runImport(stripped)
				if runErr != nil {
					c.Violation(c43AbortSignature(msg), "initialising a chain from the exported genesis (claims removed) aborted (%v): %s", runErr, msg)
					return
				}
				skipClaims = true
			}
			for _, cat := range []string{"params", "accounts", "supply", "nodes", "apps", "claims"} {
				if cat == "claims" && skipClaims {
					continue
				}
				if d := diffView(want[cat], got[cat]); d != "" {
					sig := "C43/" + cat + "/differs-after-import"
					switch {
					case cat == "nodes" && onlyFieldDiffers(want[cat], got[cat], "output_address", "reward_delegators"):
						sig = "C43/nodes/output-address-or-delegators-lost"
					case cat == "apps" && missingOnlyUnstaking(want[cat], got[cat]):
						sig = "C43/apps/unstaking-applications-dropped"
					case cat == "apps" && onlyFieldDiffers(want[cat], got[cat], "max_relays"):
						sig = "C43/apps/max-relays-recomputed"
					case cat == "accounts" && onlyModuleAccountsDiffer(want[cat], got[cat]):
						sig = "C43/accounts/module-account-balance-differs"
					case cat == "supply" && supplyInflated(want[cat]["total"], got[cat]["total"]):
						sig = "C43/supply/inflated-after-import"
					}
					if c.Violation(sig, "%s differ between the exporting node (height %d) and the chain initialised from the export: %s", cat, n.Height, d) {
						continue
					}
				}
			}
		})
}

// abortReason extracts the panic / fatal message from the subprocess output.
func abortReason(out string) string {
	var keep []string
	for _, l := range strings.Split(out, "\n") {
		t := strings.TrimSpace(l)
		if (strings.HasPrefix(t, "/repo/") || strings.HasPrefix(t, "/verif/")) && len(keep) > 0 && len(keep) < 7 {
			keep = append(keep, t)
			continue
		}
		if strings.HasPrefix(t, "panic:") || strings.Contains(t, "module account") || strings.Contains(t, "must be staked") || strings.HasPrefix(t, "Message:") || strings.HasPrefix(t, "E[") || strings.Contains(t, "rror:") || strings.Contains(t, "fatal") {
			keep = append(keep, t)
		}
	}
	if len(keep) == 0 {
		return lastLines(out, 6)
	}
	if len(keep) > 8 {
		keep = keep[:8]
	}
	return strings.Join(keep, " | ")
}

func lastLines(s string, k int) string {
	ls := strings.Split(strings.TrimSpace(s), "\n")
	if len(ls) > k {
		ls = ls[len(ls)-k:]
	}
	return strings.Join(ls, " | ")
}

func diffView(a, b map[string]string) string {
	keys := map[string]bool{}
	for k := range a {
		keys[k] = true
	}
	for k := range b {
		keys[k] = true
	}
	ks := make([]string, 0, len(keys))
	for k := range keys {
		ks = append(ks, k)
	}
	sort.Strings(ks)
	var out []string
	for _, k := range ks {
		if a[k] != b[k] {
			out = append(out, fmt.Sprintf("%s: exported-from=%s imported=%s", k, trunc200(a[k]), trunc200(b[k])))
		}
	}
	if len(out) > 3 {
		out = append(out[:3], fmt.Sprintf("... (%d items differ)", len(out)))
	}
	return strings.Join(out, " ;; ")
}

func trunc200(s string) string {
	if s == "" {
		return "<absent>"
	}
	if len(s) > 260 {
		return s[:260] + "…"
	}
	return s
}

// onlyFieldDiffers: every differing record differs only in the named JSON fields.
func onlyFieldDiffers(a, b map[string]string, fields ...string) bool {
	var walk func(v interface{}) interface{}
	walk = func(v interface{}) interface{} {
		if m, ok := v.(map[string]interface{}); ok {
			for _, f := range fields {
				delete(m, f)
			}
			for k, x := range m {
				m[k] = walk(x)
			}
		}
		return v
	}
	strip := func(js string) string {
		var m interface{}
		if json.Unmarshal([]byte(js), &m) != nil {
			return js
		}
		o, _ := json.Marshal(walk(m))
		return string(o)
	}
	if len(a) != len(b) {
		return false
	}
	for k, va := range a {
		vb, ok := b[k]
		if !ok {
			return false
		}
		if va != vb && strip(va) != strip(vb) {
			return false
		}
	}
	return true
}

// missingOnlyUnstaking: the imported side lacks exactly records that were unstaking (status 1) on the exporting side.
func missingOnlyUnstaking(a, b map[string]string) bool {
	for k, vb := range b {
		if a[k] != vb {
			return false
		}
	}
	for k, va := range a {
		if _, ok := b[k]; !ok && !strings.Contains(va, `"status":1`) {
			return false
		}
	}
	return len(a) > len(b)
}

var moduleAccountNames = []string{"fee_collector", "staked_tokens_pool", "application_stake_tokens_pool", "dao", "pos", "application"}

func onlyModuleAccountsDiffer(a, b map[string]string) bool {
	mods := map[string]bool{}
	for _, n := range moduleAccountNames {
		mods[authTypes.NewModuleAddress(n).String()] = true
	}
	for k, va := range a {
		if b[k] != va && !mods[k] {
			return false
		}
	}
	for k := range b {
		if _, ok := a[k]; !ok && !mods[k] {
			return false
		}
	}
	return true
}

func supplyInflated(exported, imported string) bool {
	e, err1 := sdk.ParseCoins(exported)
	i, err2 := sdk.ParseCoins(imported)
	if err1 != nil || err2 != nil {
		return false
	}
	return i.AmountOf(sdk.DefaultStakeDenom).GT(e.AmountOf(sdk.DefaultStakeDenom))
}
