package abci

import (
	"encoding/json"
	"fmt"
	"os"
	"os/exec"
	"path/filepath"
	"sort"
	"strings"
	"testing"
	"time"

	tmlog "github.com/tendermint/tendermint/libs/log"
	"pgregory.net/rapid"

	"github.com/pokt-network/pocket-core/app"
	"github.com/pokt-network/pocket-core/codec"
	sdk "github.com/pokt-network/pocket-core/types"
	appsTypes "github.com/pokt-network/pocket-core/x/apps/types"
	authTypes "github.com/pokt-network/pocket-core/x/auth/types"
	govTypes "github.com/pokt-network/pocket-core/x/gov/types"
	nodesTypes "github.com/pokt-network/pocket-core/x/nodes/types"

	"verif/harness"
	"verif/harness/chain"
)

// C43: exporting the application state at a height and initialising a new chain from that export yields the same
// accounts/balances, supply, nodes, applications, parameters and pending claims.
//
// The import runs in a SUBPROCESS (this test binary re-executed with TestC43ImportHelper): the modules' genesis
// checks abort the process with os.Exit/log.Fatal, which must be observed as a result, not kill the harness.

const (
	envC43Genesis = "VERIF_C43_GENESIS"
	envC43Out     = "VERIF_C43_OUT"
)

// TestC43ImportHelper is the subprocess body: it is a no-op unless the environment names a genesis file.
func TestC43ImportHelper(t *testing.T) {
	gpath, opath := os.Getenv(envC43Genesis), os.Getenv(envC43Out)
	if gpath == "" || opath == "" {
		t.Skip("helper: only runs as a subprocess of TestC43")
	}
	bz, err := os.ReadFile(gpath)
	if err != nil {
		t.Fatal(err)
	}
	var gs app.GenesisState
	if err := app.Codec().UnmarshalJSON(bz, &gs); err != nil {
		t.Fatalf("cannot parse exported genesis: %v", err)
	}
	spec := chain.DefaultSpec()
	// a node started on the new chain derives its activation schedule from the upgrade parameter of the genesis
	var gg govTypes.GenesisState
	if err := app.Codec().UnmarshalJSON(gs[govTypes.ModuleName], &gg); err != nil {
		t.Fatalf("cannot parse exported gov genesis: %v", err)
	}
	spec.UpgradeHeight, spec.OldUpgradeHeight = gg.Params.Upgrade.Height, gg.Params.Upgrade.OldUpgradeHeight
	spec.Features = codec.SliceToMap(gg.Params.Upgrade.Features)
	chain.Logger = tmlog.NewTMLogger(os.Stdout)
	n := chain.NewNodeFromGenesis(&spec, gs)
	out, _ := json.Marshal(n.StateView())
	if err := os.WriteFile(opath, out, 0o644); err != nil {
		t.Fatal(err)
	}
}

func TestC43(t *testing.T) {
	work := os.Getenv("VERIF_WORK")
	if work == "" {
		work = t.TempDir()
	}
	harness.Check(t, "C43",
		"generated world + full-feature history (8-24 blocks: sends, node/app stake, edit, begin-unstake (records left unstaking at export), app transfer, param changes, DAO "+
			"actions, downtime slash/jail); ExportAppState at the last height; a second application is initialised from the exported JSON in a subprocess; normalised views "+
			"(non-empty account balances, supply, node records, application records, params of all modules incl. ACL/DAO owner/upgrade, claims) must be equal; an aborting import is a "+
			"failed case. non-trivial = exported state holds an unstaking or jailed node/app and non-zero staking pools",
		map[string]float64{"has-unstaking-or-jailed": 0.3},
		func(rt *rapid.T, c *harness.Case) {
			w := chain.GenWorld(rt)
			// keep unstaking records alive until export: long unstaking time in half of the cases
			if rapid.Bool().Draw(rt, "longUnstaking") {
				w.Spec.NodeParams.UnstakingTime = 10 * time.Hour
				w.Spec.AppParams.UnstakingTime = 10 * time.Hour
			}
			// the features that add ACL keys when they activate (BLOCK, RSCAL, PerChainRTTM) make the import abort in the
			// gov module (known finding); half of the worlds never activate them so that the search continues behind it
			if rapid.Bool().Draw(rt, "withoutAclAddingFeatures") {
				f := map[string]int64{}
				for k, v := range w.Spec.Features {
					if k != "BLOCK" && k != "RSCAL" && k != "PerChainRTTM" {
						f[k] = v
					}
				}
				w.Spec.SetFeatures(f)
				c.Label("no-acl-adding-features")
			}
			h := w.GenHistory(rt, 8, 24)
			c.Opf("%s", w.Describe())
			n := chain.NewNode(&w.Spec)
			for i, b := range h.Blocks {
				n.RunBlock(b)
				c.Opf("%s", chain.DescribeBlock(b, h.Txs[i]))
			}
			want := n.StateView()
			interesting := false
			for _, js := range want["nodes"] {
				if strings.Contains(js, `"status":1`) || strings.Contains(js, `"jailed":true`) {
					interesting = true
				}
			}
			for _, js := range want["apps"] {
				if strings.Contains(js, `"status":1`) || strings.Contains(js, `"jailed":true`) {
					interesting = true
				}
			}
			if interesting {
				c.Label("has-unstaking-or-jailed")
				c.NonTrivial()
			}
			exported, err := n.App.ExportAppState(n.Height, false, nil)
			if err != nil {
				c.Violation("C43/export/failed", "ExportAppState(%d) failed: %v", n.Height, err)
				return
			}
			// Export-side oracle, independent of the import path: the exported JSON, parsed with the modules' own genesis
			// types, must carry exactly the exporting node's node and application records (every field).
			{
				var gs app.GenesisState
				if err := app.Codec().UnmarshalJSON(exported, &gs); err != nil {
					c.Violation("C43/export/not-parseable", "exported app state does not parse: %v", err)
					return
				}
				js := func(v interface{}) string {
					b, err := app.Codec().MarshalJSON(v)
					if err != nil {
						return "ERR:" + err.Error()
					}
					return string(sdk.MustSortJSON(b))
				}
				var ng nodesTypes.GenesisState
				if err := app.Codec().UnmarshalJSON(gs[nodesTypes.ModuleName], &ng); err != nil {
					c.Violation("C43/export/nodes-genesis-not-parseable", "exported pos genesis does not parse: %v", err)
					return
				}
				gotN := map[string]string{}
				for _, v := range ng.Validators {
					gotN[v.Address.String()] = js(v)
				}
				if d := diffView(want["nodes"], gotN); d != "" {
					c.Violation("C43/export/node-records-differ-in-exported-json", "node records parsed from the exported genesis differ from the exporting node's records: %s", d)
				}
				var ag appsTypes.GenesisState
				if err := app.Codec().UnmarshalJSON(gs[appsTypes.ModuleName], &ag); err != nil {
					c.Violation("C43/export/apps-genesis-not-parseable", "exported application genesis does not parse: %v", err)
					return
				}
				gotA := map[string]string{}
				for _, a := range ag.Applications {
					gotA[a.Address.String()] = js(a)
				}
				if d := diffView(want["apps"], gotA); d != "" {
					c.Violation("C43/export/app-records-differ-in-exported-json", "application records parsed from the exported genesis differ from the exporting node's records: %s", d)
				}
				c.AddExtra("exported_records_compared", len(gotN)+len(gotA))
			}
			gpath := filepath.Join(work, "c43-genesis.json")
			opath := filepath.Join(work, "c43-view.json")
			_ = os.Remove(opath)
			if err := os.WriteFile(gpath, exported, 0o644); err != nil {
				t.Fatal(err)
			}
			cmd := exec.Command(os.Args[0], "-test.run", "^TestC43ImportHelper$", "-test.count=1")
			cmd.Env = append(os.Environ(), envC43Genesis+"="+gpath, envC43Out+"="+opath, harness.EnvStats+"=", harness.EnvFailRec+"=")
			outb, runErr := cmd.CombinedOutput()
			vb, rerr := os.ReadFile(opath)
			if runErr != nil || rerr != nil {
				msg := abortReason(string(outb))
				sig := "C43/import/aborted"
				switch {
				case strings.Contains(msg, "module account total does not equal the amount in each validator account"):
					sig = "C43/import/aborted-node-pool-mismatch"
				case strings.Contains(msg, "module account total does not equal the amount in each application account"):
					sig = "C43/import/aborted-app-pool-mismatch"
				case strings.Contains(msg, "Incorrect address length"):
					sig = "C43/import/aborted-account-address-not-20-bytes"
				case strings.Contains(msg, "validator has less than minimum stake"):
					sig = "C43/import/aborted-node-below-minimum-stake-rejected"
				case strings.Contains(msg, "application has less than minimum stake"):
					sig = "C43/import/aborted-app-at-minimum-stake-rejected"
				case strings.Contains(msg, "is not a recognized parameter"):
					sig = "C43/import/aborted-acl-key-not-recognized"
				}
				c.Violation(sig, "initialising a chain from the exported genesis aborted (%v): %s", runErr, msg)
				return
			}
			var got map[string]map[string]string
			if err := json.Unmarshal(vb, &got); err != nil {
				t.Fatalf("harness: bad view json: %v", err)
			}
			for _, cat := range []string{"params", "accounts", "supply", "nodes", "apps", "claims"} {
				if d := diffView(want[cat], got[cat]); d != "" {
					sig := "C43/" + cat + "/differs-after-import"
					switch {
					case cat == "nodes" && onlyFieldDiffers(want[cat], got[cat], "output_address", "reward_delegators"):
						sig = "C43/nodes/output-address-or-delegators-lost"
					case cat == "apps" && missingOnlyUnstaking(want[cat], got[cat]):
						sig = "C43/apps/unstaking-applications-dropped"
					case cat == "apps" && onlyFieldDiffers(want[cat], got[cat], "max_relays"):
						sig = "C43/apps/max-relays-recomputed"
					case cat == "accounts" && onlyModuleAccountsDiffer(want[cat], got[cat]):
						sig = "C43/accounts/module-account-balance-differs"
					case cat == "supply" && supplyInflated(want[cat]["total"], got[cat]["total"]):
						sig = "C43/supply/inflated-after-import"
					}
					if c.Violation(sig, "%s differ between the exporting node (height %d) and the chain initialised from the export: %s", cat, n.Height, d) {
						continue
					}
				}
			}
		})
}

// abortReason extracts the panic / fatal message from the subprocess output.
func abortReason(out string) string {
	var keep []string
	for _, l := range strings.Split(out, "\n") {
		t := strings.TrimSpace(l)
		if (strings.HasPrefix(t, "/repo/") || strings.HasPrefix(t, "/verif/")) && len(keep) > 0 && len(keep) < 7 {
			keep = append(keep, t)
			continue
		}
		if strings.HasPrefix(t, "panic:") || strings.Contains(t, "module account") || strings.Contains(t, "must be staked") || strings.HasPrefix(t, "Message:") || strings.HasPrefix(t, "E[") || strings.Contains(t, "rror:") || strings.Contains(t, "fatal") {
			keep = append(keep, t)
		}
	}
	if len(keep) == 0 {
		return lastLines(out, 6)
	}
	if len(keep) > 8 {
		keep = keep[:8]
	}
	return strings.Join(keep, " | ")
}

func lastLines(s string, k int) string {
	ls := strings.Split(strings.TrimSpace(s), "\n")
	if len(ls) > k {
		ls = ls[len(ls)-k:]
	}
	return strings.Join(ls, " | ")
}

func diffView(a, b map[string]string) string {
	keys := map[string]bool{}
	for k := range a {
		keys[k] = true
	}
	for k := range b {
		keys[k] = true
	}
	ks := make([]string, 0, len(keys))
	for k := range keys {
		ks = append(ks, k)
	}
	sort.Strings(ks)
	var out []string
	for _, k := range ks {
		if a[k] != b[k] {
			out = append(out, fmt.Sprintf("%s: exported-from=%s imported=%s", k, trunc200(a[k]), trunc200(b[k])))
		}
	}
	if len(out) > 3 {
		out = append(out[:3], fmt.Sprintf("... (%d items differ)", len(out)))
	}
	return strings.Join(out, " ;; ")
}

func trunc200(s string) string {
	if s == "" {
		return "<absent>"
	}
	if len(s) > 260 {
		return s[:260] + "…"
	}
	return s
}

// onlyFieldDiffers: every differing record differs only in the named JSON fields.
func onlyFieldDiffers(a, b map[string]string, fields ...string) bool {
	var walk func(v interface{}) interface{}
	walk = func(v interface{}) interface{} {
		if m, ok := v.(map[string]interface{}); ok {
			for _, f := range fields {
				delete(m, f)
			}
			for k, x := range m {
				m[k] = walk(x)
			}
		}
		return v
	}
	strip := func(js string) string {
		var m interface{}
		if json.Unmarshal([]byte(js), &m) != nil {
			return js
		}
		o, _ := json.Marshal(walk(m))
		return string(o)
	}
	if len(a) != len(b) {
		return false
	}
	for k, va := range a {
		vb, ok := b[k]
		if !ok {
			return false
		}
		if va != vb && strip(va) != strip(vb) {
			return false
		}
	}
	return true
}

// missingOnlyUnstaking: the imported side lacks exactly records that were unstaking (status 1) on the exporting side.
func missingOnlyUnstaking(a, b map[string]string) bool {
	for k, vb := range b {
		if a[k] != vb {
			return false
		}
	}
	for k, va := range a {
		if _, ok := b[k]; !ok && !strings.Contains(va, `"status":1`) {
			return false
		}
	}
	return len(a) > len(b)
}

var moduleAccountNames = []string{"fee_collector", "staked_tokens_pool", "application_stake_tokens_pool", "dao", "pos", "application"}

func onlyModuleAccountsDiffer(a, b map[string]string) bool {
	mods := map[string]bool{}
	for _, n := range moduleAccountNames {
		mods[authTypes.NewModuleAddress(n).String()] = true
	}
	for k, va := range a {
		if b[k] != va && !mods[k] {
			return false
		}
	}
	for k := range b {
		if _, ok := a[k]; !ok && !mods[k] {
			return false
		}
	}
	return true
}

func supplyInflated(exported, imported string) bool {
	e, err1 := sdk.ParseCoins(exported)
	i, err2 := sdk.ParseCoins(imported)
	if err1 != nil || err2 != nil {
		return false
	}
	return i.AmountOf(sdk.DefaultStakeDenom).GT(e.AmountOf(sdk.DefaultStakeDenom))
}
