package abci

import sdk "github.com/pokt-network/pocket-core/types"

func coins(amt int64) sdk.Coins {
	return sdk.NewCoins(sdk.NewCoin(sdk.DefaultStakeDenom, sdk.NewInt(amt)))
}
