package abci

import (
	"encoding/hex"
	"fmt"
	"runtime"
	"sort"
	"strings"
	"testing"
	"time"

	"pgregory.net/rapid"

	nodesTypes "github.com/pokt-network/pocket-core/x/nodes/types"

	"verif/harness"
	"verif/harness/chain"
)

// C12: block execution is a deterministic function of chain data.
//
// (a) the same genesis + blocks executed three times in-process (process globals reset each time, different
//     GOMAXPROCS) must give identical transcripts (app hash, tx code/codespace/data, validator updates);
// (b) metamorphic time shift: the same history with every timestamp shifted by a constant, once entirely in
//     the local past (year 2001) and once entirely in the local future (year 2101), must give identical tx
//     result codes, validator updates and balances (app hashes may differ: absolute times are stored).

// genC12History biases towards the mechanisms the property names: proposers with several reward delegators
// whose accounts do not exist yet (paid in BeginBlock from collected fees), many new accounts in one block,
// and a jail scenario with unjail attempts around JailedUntil.
func genC12History(rt *rapid.T, w *chain.World, c *harness.Case) *chain.History {
	h := &chain.History{}
	// the jailed operator must be in the consensus set: take the highest stake (always in the top set)
	victim := 0
	for i, n := range w.Spec.Nodes {
		if n.Stake > w.Spec.Nodes[victim].Stake {
			victim = i
		}
	}
	vk := w.Nodes[victim]
	vaddr := hex.EncodeToString(chain.Addr(vk))
	jail := rapid.IntRange(0, 2).Draw(rt, "jailScenario") > 0
	if jail {
		c.Label("jail-scenario")
		// 14 blocks with the victim absent (the signing window restarts at every height divisible by 10) and the others signing (window 10, max missed 4 -> jailed at the 5th miss)
		for i := 0; i < 14; i++ {
			b, txs := w.GenBlock(rt)
			b.DT = time.Second
			b.Absent = map[string]bool{vaddr: true}
			h.Blocks = append(h.Blocks, b)
			h.Txs = append(h.Txs, txs)
		}
		// unjail attempts at generated offsets around the jail duration (60 s)
		n := rapid.IntRange(1, 4).Draw(rt, "unjailAttempts")
		for i := 0; i < n; i++ {
			b, txs := w.GenBlock(rt)
			b.Absent = map[string]bool{}
			b.DT = time.Duration(rapid.SampledFrom([]int{0, 1, 20, 50, 58, 59, 60, 61, 70, 200}).Draw(rt, "unjailDT")) * time.Second
			signer := vk
			if rapid.Bool().Draw(rt, "unjailByOutput") {
				signer = w.Outputs[victim]
			}
			g := unjailTx(w, vk, signer)
			txs = append(txs, g)
			b.Txs = append(b.Txs, g.Bytes)
			h.Blocks = append(h.Blocks, b)
			h.Txs = append(h.Txs, txs)
		}
	}
	if rapid.IntRange(0, 2).Draw(rt, "multiUnstake") == 0 && len(w.Nodes) >= 2 {
		// several nodes begin unstaking inside one session: they are released at the same session end and share one
		// completion time (one unstaking-queue entry holding several addresses), and mature in the same block
		c.Label("multi-unstake-same-session")
		c.NonTrivial()
		b, txs := w.GenBlock(rt)
		k := rapid.IntRange(2, len(w.Nodes)).Draw(rt, "unstakers")
		for i := 0; i < k; i++ {
			op := w.Nodes[i]
			msg := &nodesTypes.MsgBeginUnstake{Address: chain.Addr(op), Signer: chain.Addr(op)}
			e := w.NextEntropy()
			g := chain.GenTx{Desc: fmt.Sprintf("nodeUnstake %s e=%d", w.KeyName(op), e), Kind: "nodeUnstake", Msg: msg, Signer: op,
				Bytes: chain.SignTx(w.Spec.ChainID, msg, chain.DefaultFee, "", e, op)}
			txs = append(txs, g)
			b.Txs = append(b.Txs, g.Bytes)
		}
		h.Blocks = append(h.Blocks, b)
		h.Txs = append(h.Txs, txs)
	}
	rest := w.GenHistory(rt, 2, 8)
	h.Blocks = append(h.Blocks, rest.Blocks...)
	h.Txs = append(h.Txs, rest.Txs...)
	// a final time jump so that pending unstakes mature inside the history
	fin, ftx := w.GenBlock(rt)
	fin.DT = 3 * time.Minute
	h.Blocks = append(h.Blocks, fin)
	h.Txs = append(h.Txs, ftx)
	return h
}

func renderNoHash(t []chain.BlockResult) []string {
	out := make([]string, len(t))
	for i, r := range t {
		s := fmt.Sprintf("h=%d", r.Height)
		for j, tx := range r.Txs {
			s += fmt.Sprintf(" tx%d=(%d,%s)", j, tx.Code, tx.Codespace)
		}
		for _, u := range r.ValUpdates {
			s += fmt.Sprintf(" val(%X:%d)", u.PubKey.Data, u.Power)
		}
		out[i] = s
	}
	return out
}

func balancesString(n *chain.Node) string {
	acc := n.Accounts()
	ks := make([]string, 0, len(acc))
	for k := range acc {
		ks = append(ks, k)
	}
	sort.Strings(ks)
	var sb strings.Builder
	for _, k := range ks {
		sb.WriteString(k + "=" + acc[k].String() + ";")
	}
	return sb.String()
}

func TestC12(t *testing.T) {
	harness.Check(t, "C12",
		"generated world + history biased to reward-delegator payouts to not-yet-existing accounts, many new accounts per block and a downtime-jail scenario with unjail "+
			"attempts around JailedUntil; executed 3x in-process (globals reset, GOMAXPROCS 1/4/16) -> identical transcripts; and executed with all timestamps shifted to year 2001 "+
			"vs 2101 (both sides of the local clock) -> identical tx codes, validator updates and balances. non-trivial = the history pays a proposer with >=2 delegators "+
			"or contains an unjail attempt of a jailed node",
		map[string]float64{"jail-scenario": 0.4, "proposer-with-delegators": 0.3, "unjail-of-jailed-node": 0.25, "delegator-burst": 0.2, "multi-unstake-same-session": 0.2},
		func(rt *rapid.T, c *harness.Case) {
			w := chain.GenWorld(rt)
			w.GovUpgrades = true // FEATURE upgrades (merging and re-listing scheduled features) are part of the chain data
			burst := rapid.IntRange(0, 2).Draw(rt, "delegatorBurst") == 0
			if burst {
				// node0 gets 4-8 reward delegators whose accounts do not exist yet and proposes every block: its first fee
				// payout creates all those accounts in one BeginBlock
				nd := rapid.IntRange(4, 8).Draw(rt, "burstDelegators")
				m := map[string]uint32{}
				for d := 0; d < nd; d++ {
					m[chain.Addr(chain.Key(fmt.Sprintf("burst-deleg-%d", d))).String()] = uint32(rapid.IntRange(1, 12).Draw(rt, "burstShare"))
				}
				w.Spec.Nodes[0].Delegators = m
				w.Spec.NodeParams.ProposerAllocation = int64(rapid.IntRange(20, 40).Draw(rt, "burstProposerAlloc"))
				c.Label("delegator-burst")
			}
			h := genC12History(rt, w, c)
			if burst {
				for i := range h.Blocks {
					h.Blocks[i].Proposer = chain.Addr(w.Nodes[0])
				}
			}
			c.Opf("%s", w.Describe())
			for _, d := range h.Describe() {
				c.Opf("%s", d)
			}
			// classify
			deleg := map[string]int{}
			for i, n := range w.Spec.Nodes {
				deleg[chain.Addr(w.Nodes[i]).String()] = len(n.Delegators)
			}
			for i := 0; i+1 < len(h.Blocks); i++ {
				if len(h.Blocks[i].Txs) > 0 && deleg[h.Blocks[i].Proposer.String()] >= 2 {
					c.Label("proposer-with-delegators")
					c.NonTrivial()
				}
			}

			run := func(procs int, genesis time.Time) ([]chain.BlockResult, string, bool) {
				old := runtime.GOMAXPROCS(procs)
				defer runtime.GOMAXPROCS(old)
				spec := w.Spec
				spec.GenesisTime = genesis
				n := chain.NewNode(&spec)
				tr := h.Run(n)
				// did an unjail attempt hit a jailed node? (read from results: an unjail tx whose failure code is not "not jailed")
				hit := false
				for bi, r := range tr {
					for ti, tx := range r.Txs {
						if h.Txs[bi][ti].Kind == "nodeUnjail" && !(tx.Codespace == "pos" && (tx.Code == 105 || tx.Code == 101)) {
							hit = true
						}
					}
				}
				return tr, balancesString(n), hit
			}
			base := w.Spec.GenesisTime
			t1, _, hit := run(1, base)
			if hit {
				c.Label("unjail-of-jailed-node")
				c.NonTrivial()
			}
			for _, p := range []int{4, 16} {
				t2, _, _ := run(p, base)
				for i := range t1 {
					if t1[i].String() != t2[i].String() {
						c.Violation("C12/repeat/transcript-differs-between-identical-runs", "block %d differs between two executions of the same chain data:\n run1: %s\n run2: %s", i, t1[i], t2[i])
						break
					}
				}
			}
			past := time.Date(2001, 3, 4, 5, 6, 7, 0, time.UTC)
			future := time.Date(2101, 3, 4, 5, 6, 7, 0, time.UTC)
			tp, bp, _ := run(8, past)
			tf, bf, _ := run(8, future)
			rp, rf := renderNoHash(tp), renderNoHash(tf)
			for i := range rp {
				if rp[i] != rf[i] {
					sig := "C12/timeshift/results-differ-between-past-and-future-clock"
					// narrow: does the first differing tx concern an unjail?
					for ti := range tp[i].Txs {
						if tp[i].Txs[ti].Code != tf[i].Txs[ti].Code && h.Txs[i][ti].Kind == "nodeUnjail" {
							sig = "C12/timeshift/unjail-outcome-depends-on-wall-clock"
						}
						if tp[i].Txs[ti].Code != tf[i].Txs[ti].Code {
							break
						}
					}
					if c.Violation(sig, "block %d: results depend on which side of the local clock the block times lie:\n year2001: %s\n year2101: %s\n block: %s", i, rp[i], rf[i], h.Describe()[i]) {
						return // known finding: later blocks legitimately diverge after it
					}
				}
			}
			if bp != bf {
				c.Violation("C12/timeshift/balances-differ-between-past-and-future-clock", "final balances differ between the time-shifted runs")
			}
		})
}
