package abci

import (
	"fmt"
	"sort"
	"testing"

	"pgregory.net/rapid"

	"verif/harness/chain"
)

// TestGenStats is a development aid: distribution of tx outcomes per kind.
func TestGenStats(t *testing.T) {
	ok, fail := map[string]int{}, map[string]int{}
	logs := map[string]map[string]int{}
	rapid.Check(t, func(rt *rapid.T) {
		w := chain.GenWorld(rt)
		n := chain.NewNode(&w.Spec)
		nb := rapid.IntRange(3, 20).Draw(rt, "blocks")
		for i := 0; i < nb; i++ {
			b, txs := w.GenBlock(rt)
			r := n.RunBlock(b)
			for j, tx := range r.Txs {
				if tx.Code == 0 {
					ok[txs[j].Kind]++
				} else {
					fail[txs[j].Kind]++
					if logs[txs[j].Kind] == nil {
						logs[txs[j].Kind] = map[string]int{}
					}
					logs[txs[j].Kind][fmt.Sprintf("%s/%d", tx.Codespace, tx.Code)]++
				}
			}
		}
	})
	var ks []string
	for k := range fail {
		ks = append(ks, k)
	}
	sort.Strings(ks)
	for _, k := range ks {
		t.Logf("%-12s ok=%d fail=%d %v", k, ok[k], fail[k], logs[k])
	}
}
