package abci

import (
	"fmt"
	"testing"
	"time"

	"pgregory.net/rapid"

	"github.com/pokt-network/pocket-core/crypto"
	sdk "github.com/pokt-network/pocket-core/types"
	authTypes "github.com/pokt-network/pocket-core/x/auth/types"
	nodesTypes "github.com/pokt-network/pocket-core/x/nodes/types"

	"verif/harness"
	"verif/harness/chain"
)

// C18: a send moves exactly the requested amount from sender to recipient and changes no other balance except
// for the fee; if the sender cannot cover it nothing moves but the fee; balances never negative and canonical.

func TestC18(t *testing.T) {
	harness.Check(t, "C18",
		"generated world; 8-20 correctly signed sends delivered one after another (several per block) with amount in {1, spendable-1, spendable, spendable+1, balance, "+
			"balance+1, 2^62} where spendable = balance - fee, recipient in {existing account, new account, self, module account (fee collector, staking pools, DAO)}; balances of ALL accounts "+
			"read before/after every DeliverTx. Oracle: code 0 => sender -amount-fee, recipient +amount (self: -fee), fee collector +fee, nobody else changes, new recipient exists with exactly amount; "+
			"code != 0 => nothing but the fee moved; amount > spendable never succeeds; every balance non-negative and a valid sorted coin set after every tx. "+
			"non-trivial = amount within +-1 of spendable, self-send, or new recipient",
		map[string]float64{"amount-at-spendable-boundary": 0.5, "self-send": 0.2, "new-recipient": 0.3, "module-recipient": 0.15, "insufficient": 0.3},
		func(rt *rapid.T, c *harness.Case) {
			w := chain.GenWorld(rt)
			c.Opf("%s", w.Describe())
			// in half of the worlds the genesis file also gives some plain accounts coins of other denominations (one that sorts
			// before and one that sorts after the staking denomination); sends only ever move the staking denomination
			otherDenoms := rapid.Bool().Draw(rt, "otherDenominations")
			if otherDenoms {
				c.Label("accounts-hold-other-denominations")
				for i := range w.Spec.Accounts {
					if w.Spec.Accounts[i].Multi != nil {
						continue
					}
					switch rapid.IntRange(0, 3).Draw(rt, "extraCoins") {
					case 0:
						w.Spec.Accounts[i].Extra = sdk.NewCoins(sdk.NewCoin("uzzz", sdk.NewInt(5000)))
					case 1:
						w.Spec.Accounts[i].Extra = sdk.NewCoins(sdk.NewCoin("aaa", sdk.NewInt(7)))
					case 2:
						w.Spec.Accounts[i].Extra = sdk.NewCoins(sdk.NewCoin("aaa", sdk.NewInt(7)), sdk.NewCoin("uzzz", sdk.NewInt(5000)))
					}
				}
			}
			n := chain.NewNode(&w.Spec)
			collector := authTypes.NewModuleAddress(authTypes.FeeCollectorName)
			modules := []sdk.Address{collector, authTypes.NewModuleAddress("staked_tokens_pool"), authTypes.NewModuleAddress("application_stake_tokens_pool"), authTypes.NewModuleAddress("dao")}
			funded := w.AllFunded()
			nblocks := rapid.IntRange(3, 6).Draw(rt, "nBlocks")
			freshUsed := 0
			var again crypto.PrivateKey
			for b := 0; b < nblocks; b++ {
				n.BeginBlock(chain.Block{DT: time.Second, Proposer: chain.Addr(w.Nodes[0])})
				ntx := rapid.IntRange(1, 5).Draw(rt, "nTxs")
				for i := 0; i < ntx; i++ {
					k := funded[rapid.IntRange(0, len(funded)-1).Draw(rt, "from")]
					if again != nil {
						// the sender that was just drained to exactly one fee (or to nothing) sends once more
						k, again = again, nil
						c.Label("sender-with-nothing-but-the-fee")
					}
					from := chain.Addr(k)
					before := n.Accounts()
					bal := before[from.String()].AmountOf(sdk.DefaultStakeDenom)
					spendable := bal.Sub(sdk.NewInt(chain.DefaultFee))
					var to sdk.Address
					toKind := rapid.SampledFrom([]string{"existing", "existing", "new", "self", "module", "oddLength"}).Draw(rt, "toKind")
					switch toKind {
					case "existing":
						to = chain.Addr(funded[rapid.IntRange(0, len(funded)-1).Draw(rt, "to")])
					case "new":
						freshUsed++
						to = chain.Addr(chain.Key(fmt.Sprintf("c18-new-%d", freshUsed)))
						c.Label("new-recipient")
						c.NonTrivial()
					case "self":
						to = from
					case "oddLength":
						to = chain.OddAddress(rapid.IntRange(0, 7).Draw(rt, "odd"))
						c.Label("odd-length-recipient")
					default:
						to = modules[rapid.IntRange(0, len(modules)-1).Draw(rt, "module")]
						c.Label("module-recipient")
					}
					if to.Equals(from) {
						c.Label("self-send")
						c.NonTrivial()
					}
					amtKind := rapid.SampledFrom([]string{"one", "spendable-1", "spendable", "spendable+1", "balance", "balance+1", "huge", "mid", "leaveOneFee", "leaveOneFee"}).Draw(rt, "amtKind")
					var amt sdk.BigInt
					switch amtKind {
					case "one":
						amt = sdk.OneInt()
					case "spendable-1":
						amt = spendable.Sub(sdk.OneInt())
					case "spendable":
						amt = spendable
					case "spendable+1":
						amt = spendable.Add(sdk.OneInt())
					case "balance":
						amt = bal
					case "balance+1":
						amt = bal.Add(sdk.OneInt())
					case "leaveOneFee":
						// afterwards the sender holds exactly the fee of one more transaction in the staking denomination
						amt = spendable.Sub(sdk.NewInt(chain.DefaultFee))
						if amt.IsPositive() {
							again = k
						}
					case "huge":
						amt = sdk.NewInt(1 << 62)
					default:
						amt = sdk.NewInt(int64(rapid.IntRange(2, 2_000_000).Draw(rt, "midAmt")))
					}
					if !amt.IsPositive() {
						amt = sdk.OneInt()
					}
					if amtKind == "spendable-1" || amtKind == "spendable" || amtKind == "spendable+1" {
						c.Label("amount-at-spendable-boundary")
						c.NonTrivial()
					}
					msg := &nodesTypes.MsgSend{FromAddress: from, ToAddress: to, Amount: amt}
					tx := chain.SignTx(w.Spec.ChainID, msg, chain.DefaultFee, "", w.NextEntropy(), k)
					r := n.DeliverTx(tx)
					after := n.Accounts()
					desc := fmt.Sprintf("send %s(%s of %s) %s->%s(%s) => %d/%s", amt, amtKind, bal, w.KeyName(k), w.KeyNameAddr(to), toKind, r.Code, r.Codespace)
					c.Opf("%s", desc)
					diff := diffBalances(before, after)
					fee := sdk.NewInt(chain.DefaultFee)
					canPayFee := bal.GTE(fee)
					exp := map[string]sdk.BigInt{}
					add := func(a sdk.Address, d sdk.BigInt) {
						if cur, ok := exp[a.String()]; ok {
							exp[a.String()] = cur.Add(d)
						} else {
							exp[a.String()] = d
						}
					}
					if amt.GT(spendable) {
						c.Label("insufficient")
						if r.Code == 0 {
							c.Violation("C18/send/uncovered-amount-succeeded", "send of %s with balance %s and fee %s returned code 0: %s", amt, bal, fee, desc)
						}
					}
					if r.Code == 0 {
						add(from, fee.Neg())
						add(collector, fee)
						add(from, amt.Neg())
						add(to, amt)
					} else if canPayFee && len(diff) != 0 {
						add(from, fee.Neg())
						add(collector, fee)
					}
					for k2, v := range exp {
						if v.IsZero() {
							delete(exp, k2)
						}
					}
					if !sameDiff(exp, diff) {
						c.Violation("C18/send/balance-deltas-wrong", "balances changed by %v, expected %v: %s", diff, exp, desc)
					}
					if r.Code == 0 && toKind == "new" {
						if got := after[to.String()].AmountOf(sdk.DefaultStakeDenom); !got.Equal(amt) {
							c.Violation("C18/send/new-recipient-balance-wrong", "new recipient holds %s, expected exactly %s: %s", got, amt, desc)
						}
					}
					for a, coins := range after {
						if !coins.IsValid() && len(coins) != 0 {
							c.Violation("C18/balance/not-canonical", "account %s holds non-canonical coins %v after %s", a, coins, desc)
						}
						if coins.IsAnyNegative() {
							c.Violation("C18/balance/negative", "account %s holds negative coins %v after %s", a, coins, desc)
						}
					}
				}
				n.Commit(n.EndBlock())
			}
		})
}

var _ = crypto.PrivateKey(nil)
