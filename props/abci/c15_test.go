package abci

import (
	"fmt"
	"strings"
	"testing"
	"time"

	"pgregory.net/rapid"

	"github.com/pokt-network/pocket-core/app"
	"github.com/pokt-network/pocket-core/crypto"
	sdk "github.com/pokt-network/pocket-core/types"
	authTypes "github.com/pokt-network/pocket-core/x/auth/types"
	govTypes "github.com/pokt-network/pocket-core/x/gov/types"
	nodesTypes "github.com/pokt-network/pocket-core/x/nodes/types"

	"verif/harness"
	"verif/harness/chain"
)

// C15: authenticated transactions pay exactly their declared fee, once; rejected-before/at-authentication
// transactions move no funds.
//
// The model knows by construction whether a generated tx passes authentication:
//   auth := signer is a declared signer ∧ signature valid over this chain's sign bytes ∧ declared fee is a valid coin
//           set with upokt >= required ∧ memo within limit ∧ not a duplicate ∧ stateless message validation passes.
// auth ∧ payer balance >= fee  ⇒ payer -fee, collector +fee exactly (message effects subtracted: they are known
//                                 because the message is a send whose outcome is observable from its result code).
// ¬auth (or balance < fee)     ⇒ code != 0 and every balance unchanged.

const requiredFee = int64(10000) // base fee of every message type (Msg.GetFee)

// feeModel is the harness's own reading of the auth/FeeMultipliers parameter: the first table entry whose key equals the
// message type multiplies the base fee, otherwise the default multiplier does.
type feeModel struct {
	keys  []string
	mults []int64
	def   int64
}

func (m feeModel) required(msgType string) int64 {
	for i, k := range m.keys {
		if k == msgType {
			return requiredFee * m.mults[i]
		}
	}
	return requiredFee * m.def
}

type feeCase struct {
	desc      string
	tx        []byte
	payer     sdk.Address
	declared  sdk.Coins
	authOK    bool
	msgAmount int64 // amount of the send
	// onlyFeeTooLow: everything else about the tx is fine (signatures, memo, coin-set validity) but upokt < required
	onlyFeeTooLow bool
	multisig      bool
	required      int64
	to            sdk.Address
	from          sdk.Address
}

func feeCoins(rt *rapid.T, requiredFee int64) (sdk.Coins, string, bool) {
	kind := rapid.SampledFrom([]string{"zero", "below", "equal", "above", "10x", "multiDenom", "otherDenomOnly", "invalidUnsorted", "invalidDup", "invalidZeroEntry", "empty"}).Draw(rt, "feeKind")
	up := func(a int64) sdk.Coin { return sdk.Coin{Denom: sdk.DefaultStakeDenom, Amount: sdk.NewInt(a)} }
	switch kind {
	case "zero":
		return sdk.Coins{up(0)}, kind, false // invalid coin set (zero amount)
	case "below":
		return sdk.Coins{up(requiredFee - 1)}, kind, false
	case "equal":
		return sdk.Coins{up(requiredFee)}, kind, true
	case "above":
		return sdk.Coins{up(requiredFee + int64(rapid.IntRange(1, 5000).Draw(rt, "feeExtra")))}, kind, true
	case "10x":
		return sdk.Coins{up(requiredFee * 10)}, kind, true
	case "multiDenom":
		// sorted, valid: "aaa" < "upokt"; payer has no "aaa" coins -> cannot cover -> must be rejected without moving funds
		return sdk.Coins{{Denom: "aaa", Amount: sdk.NewInt(5)}, up(requiredFee)}, kind, true
	case "otherDenomOnly":
		return sdk.Coins{{Denom: "aaa", Amount: sdk.NewInt(1000000)}}, kind, false
	case "invalidUnsorted":
		return sdk.Coins{up(requiredFee), {Denom: "aaa", Amount: sdk.NewInt(5)}}, kind, false
	case "invalidDup":
		return sdk.Coins{up(requiredFee), up(requiredFee)}, kind, false
	case "invalidZeroEntry":
		return sdk.Coins{{Denom: "aaa", Amount: sdk.NewInt(0)}, up(requiredFee)}, kind, false
	default:
		return sdk.Coins{}, kind, false
	}
}

func TestC15(t *testing.T) {
	harness.Check(t, "C15",
		"generated world, in half of the cases with the fee table (auth/FeeMultipliers: 1-3 entries over message types, default multiplier) replaced by a governance transaction first - the required fee is then "+
			"the harness's own reading of that table for the message type; per case 6-14 send / edit-stake transactions each in its own block with generated fee (0, required-1, required, above, 10x, multi-denom, other denom, "+
			"unsorted/duplicate/zero-entry/empty coin sets), signer kind (single key with/without pubkey in the signature, multisig complete / missing member / wrong order), "+
			"signature validity (valid, other chain id, signed over another fee, garbage), memo length, payer balance around the fee, amount around the balance (handler fails after "+
			"authentication). Oracle: model predicate auth (known by construction) decides: auth ∧ covers fee ⇒ payer -declared fee and collector +declared fee exactly once whatever "+
			"the message result; otherwise code != 0 and no balance changes. non-trivial = authenticated tx whose message fails, or fee below required, or multisig signer",
		map[string]float64{"auth-pass-handler-fail": 0.18, "fee-below-required": 0.3, "multisig": 0.4, "bad-signature": 0.3, "duplicate-in-same-block": 0.5,
			"fee-table-changed": 0.3, "required-fee-from-fee-table": 0.2, "fee-decided-by-non-first-table-entry": 0.08},
		func(rt *rapid.T, c *harness.Case) {
			w := chain.GenWorld(rt)
			c.Opf("%s", w.Describe())
			n := chain.NewNode(&w.Spec)
			collector := authTypes.NewModuleAddress(authTypes.FeeCollectorName)
			// in half of the worlds governance has replaced the fee table (auth/FeeMultipliers) before the transactions arrive:
			// 1-3 entries over the message types used here and elsewhere, multipliers 1-10, default multiplier 1-2
			fm := feeModel{def: 1}
			if rapid.Bool().Draw(rt, "feeTableChanged") {
				ne := rapid.IntRange(1, 3).Draw(rt, "feeEntries")
				tbl := authTypes.FeeMultipliers{Default: int64(rapid.IntRange(1, 2).Draw(rt, "feeDefault"))}
				fm = feeModel{def: tbl.Default}
				for i := 0; i < ne; i++ {
					k := rapid.SampledFrom([]string{"send", "stake_validator", "begin_unstake_validator", "change_param", "send"}).Draw(rt, "feeKey")
					mu := rapid.SampledFrom([]int64{1, 2, 3, 10}).Draw(rt, "feeMult")
					tbl.FeeMultis = append(tbl.FeeMultis, authTypes.FeeMultiplier{Key: k, Multiplier: mu})
					fm.keys, fm.mults = append(fm.keys, k), append(fm.mults, mu)
				}
				val, err := app.Codec().MarshalJSON(tbl)
				if err != nil {
					rt.Fatalf("harness: %v", err)
				}
				tx := chain.SignTx(w.Spec.ChainID, &govTypes.MsgChangeParam{FromAddress: chain.Addr(w.Spec.DAOOwner), ParamKey: "auth/FeeMultipliers", ParamVal: val}, chain.DefaultFee, "", w.NextEntropy(), w.Spec.DAOOwner)
				br := n.RunBlock(chain.Block{DT: time.Second, Proposer: chain.Addr(w.Nodes[0]), Txs: [][]byte{tx}})
				if len(br.Txs) != 1 || br.Txs[0].Code != 0 {
					rt.Fatalf("harness: the fee table change was not accepted: %+v", br.Txs)
				}
				c.Opf("fee table := %v default x%d", tbl.FeeMultis, tbl.Default)
				c.Label("fee-table-changed")
				if fm.required("send") != requiredFee || fm.required("stake_validator") != requiredFee {
					c.Label("fee-table-raises-a-used-message-type")
				}
				for _, t := range []string{"send", "stake_validator"} {
					for i, k := range fm.keys {
						if k == t {
							if i > 0 {
								c.Label("fee-decided-by-non-first-table-entry")
							}
							break
						}
					}
				}
			}
			ntx := rapid.IntRange(6, 14).Draw(rt, "nTxs")
			for i := 0; i < ntx; i++ {
				fc := genFeeCase(rt, w, n, c, fm)
				c.Opf("%s", fc.desc)
				before := n.Accounts()
				// each tx in its own block; the fee collector is emptied at the next BeginBlock, so measure inside the block
				n.BeginBlock(chain.Block{DT: time.Second, Proposer: chain.Addr(w.Nodes[0])})
				mid := n.Accounts() // after BeginBlock (fee distribution of the previous block happened)
				r := n.DeliverTx(fc.tx)
				after := n.Accounts()
				// "once": the identical bytes delivered again in the same block must move nothing, whatever the first result was
				if rapid.IntRange(0, 2).Draw(rt, "duplicateInBlock") == 0 {
					c.Label("duplicate-in-same-block")
					r2 := n.DeliverTx(fc.tx)
					after2 := n.Accounts()
					if d2 := diffBalances(after, after2); len(d2) != 0 || r2.Code == 0 {
						c.Violation("C15/duplicate-in-block/moved-funds-again", "the same transaction bytes delivered twice in one block: second delivery returned %d/%s and moved %v (first: %d/%s): %s", r2.Code, r2.Codespace, d2, r.Code, r.Codespace, fc.desc)
					}
				}
				n.Commit(n.EndBlock())
				_ = before

				payerBal := mid[fc.payer.String()].AmountOf(sdk.DefaultStakeDenom)
				covers := true
				if _, neg := mid[fc.payer.String()].SafeSub(fc.declared); neg || !fc.declared.IsValid() {
					covers = false
				}
				diff := diffBalances(mid, after)
				authOK := fc.authOK
				if !authOK && covers && fc.onlyFeeTooLow && fc.multisig && (r.Code == 0 || len(diff) != 0) {
					// known shape (narrow): a fully and correctly signed MULTISIG tx whose only defect is a valid fee coin set
					// below the required fee is not stopped by the ante handler (the fee threshold is only checked on the
					// single-key branch). If listed as known, judge the rest of the tx as authenticated with its declared fee.
					if c.Violation("C15/multisig/fee-below-required-accepted", "multisig tx with declared fee %s below the required %d was accepted (code=%d/%s, deltas %v): %s", fc.declared, fc.required, r.Code, r.Codespace, diff, fc.desc) {
						authOK = true
					}
				}
				if !authOK || !covers {
					if r.Code == 0 {
						c.Violation("C15/unauthenticated-or-uncovered-tx-succeeded", "tx that must be rejected at/before authentication (auth=%v covers=%v) got code 0: %s", authOK, covers, fc.desc)
					}
					if len(diff) != 0 {
						c.Violation("C15/rejected-tx-moved-funds", "tx rejected at/before authentication (auth=%v covers=%v code=%d/%s) moved funds %v: %s", fc.authOK, covers, r.Code, r.Codespace, diff, fc.desc)
					}
					continue
				}
				// authenticated and covered: the declared fee moves exactly once
				fee := fc.declared.AmountOf(sdk.DefaultStakeDenom)
				exp := map[string]sdk.BigInt{}
				add := func(a sdk.Address, d sdk.BigInt) {
					k := a.String()
					if cur, ok := exp[k]; ok {
						exp[k] = cur.Add(d)
					} else {
						exp[k] = d
					}
				}
				add(fc.payer, fee.Neg())
				add(collector, fee)
				if r.Code == 0 {
					add(fc.from, sdk.NewInt(fc.msgAmount).Neg())
					add(fc.to, sdk.NewInt(fc.msgAmount))
				} else {
					c.Label("auth-pass-handler-fail")
					c.NonTrivial()
				}
				for k, v := range exp {
					if v.IsZero() {
						delete(exp, k)
					}
				}
				if len(diff) == 0 && r.Code == 1 && r.Codespace == "sdk" && strings.Contains(fc.desc, "signer=singleNoPubKey") && strings.Contains(r.Log, "nil pointer") {
					// known shape: the ante handler dereferences the omitted public key and panics before the fee is taken
					if c.Violation("C15/omitted-pubkey/ante-panics-before-fee", "correctly signed tx without public key in the signature was rejected by a recovered nil-pointer panic in the ante handler and paid no fee: %s", fc.desc) {
						continue
					}
				}
				if !sameDiff(exp, diff) {
					c.Violation("C15/authenticated-tx-fee-movement-wrong", "authenticated tx (code=%d/%s) must move exactly the declared fee %s from payer to fee collector (payer balance %s): expected deltas %v got %v: %s",
						r.Code, r.Codespace, fc.declared, payerBal, exp, diff, fc.desc)
				}
			}
			// "once" across blocks: a block holds a transaction the ante handler rejects (fee below the required fee) followed by
			// a well-formed send that pays its fee; when the bytes of that send come again in a later block they must be rejected
			// without moving anything (the fee was paid when the transaction was first delivered)
			if rapid.Bool().Draw(rt, "mixedBlockThenResubmission") {
				c.Label("mixed-block-then-resubmission")
				funded := w.AllFunded()
				a := funded[rapid.IntRange(0, len(funded)-1).Draw(rt, "mixedBad")]
				b := w.Spec.DAOOwner
				req := fm.required("send")
				fee := func(v int64) sdk.Coins { return sdk.NewCoins(sdk.NewCoin(sdk.DefaultStakeDenom, sdk.NewInt(v))) }
				bad := chain.SignTxOpts(chain.TxOpts{ChainID: w.Spec.ChainID, Msg: &nodesTypes.MsgSend{FromAddress: chain.Addr(a), ToAddress: chain.Addr(b), Amount: sdk.NewInt(1)},
					Fee: fee(1), Entropy: w.NextEntropy(), Signer: a, IncludePubKey: true})
				good := chain.SignTxOpts(chain.TxOpts{ChainID: w.Spec.ChainID, Msg: &nodesTypes.MsgSend{FromAddress: chain.Addr(b), ToAddress: chain.Addr(a), Amount: sdk.NewInt(1)},
					Fee: fee(req), Entropy: w.NextEntropy(), Signer: b, IncludePubKey: true})
				res := n.RunBlock(chain.Block{DT: time.Second, Proposer: chain.Addr(w.Nodes[0]), Txs: [][]byte{bad, good}})
				c.Opf("mixed block: [send with fee 1 by %s -> %d/%s, send with fee %d by dao -> %d/%s]", w.KeyName(a), res.Txs[0].Code, res.Txs[0].Codespace, req, res.Txs[1].Code, res.Txs[1].Codespace)
				gap := rapid.IntRange(0, 2).Draw(rt, "blocksBeforeResubmission")
				for i := 0; i < gap; i++ {
					n.RunBlock(chain.Block{DT: time.Second, Proposer: chain.Addr(w.Nodes[0])})
				}
				n.BeginBlock(chain.Block{DT: time.Second, Proposer: chain.Addr(w.Nodes[0])})
				mid := n.Accounts()
				r2 := n.DeliverTx(good)
				after := n.Accounts()
				n.Commit(n.EndBlock())
				if res.Txs[1].Code == 0 {
					if d := diffBalances(mid, after); len(d) != 0 || r2.Code == 0 {
						c.Violation("C15/resubmission-in-later-block/moved-funds-again", "a send that paid its fee in block %d (which also held an ante-rejected transaction before it) was delivered again %d block(s) later: result %d/%s, balances moved %v",
							res.Height, gap+1, r2.Code, r2.Codespace, d)
					}
				}
			}
		})
}

func diffBalances(a, b map[string]sdk.Coins) map[string]sdk.BigInt {
	out := map[string]sdk.BigInt{}
	seen := map[string]bool{}
	for k := range a {
		seen[k] = true
	}
	for k := range b {
		seen[k] = true
	}
	for k := range seen {
		// compare every denom: other denoms never exist in these worlds, so upokt is sufficient, but check equality of the whole set too
		d := b[k].AmountOf(sdk.DefaultStakeDenom).Sub(a[k].AmountOf(sdk.DefaultStakeDenom))
		if !d.IsZero() {
			out[k] = d
		} else if !b[k].IsEqual(a[k]) && (len(a[k]) > 0 || len(b[k]) > 0) {
			out[k+"/otherdenom"] = sdk.OneInt()
		}
	}
	return out
}

func sameDiff(a, b map[string]sdk.BigInt) bool {
	if len(a) != len(b) {
		return false
	}
	for k, v := range a {
		w, ok := b[k]
		if !ok || !v.Equal(w) {
			return false
		}
	}
	return true
}

func genFeeCase(rt *rapid.T, w *chain.World, n *chain.Node, c *harness.Case, fm feeModel) feeCase {
	funded := w.AllFunded()
	signerKind := rapid.SampledFrom([]string{"single", "single", "singleNoPubKey", "multisig", "multisig", "outputKeyEdit"}).Draw(rt, "signerKind")
	outIdx := -1
	if signerKind == "outputKeyEdit" {
		// an edit-stake of a node signed by its OUTPUT key: the fee is owed by the key that signed, not by the first
		// declared signer (the operator)
		for i := range w.Nodes {
			if w.Spec.Nodes[i].ViaTx && !w.Outputs[i].PublicKey().Equals(w.Nodes[i].PublicKey()) {
				outIdx = i
			}
		}
		if outIdx < 0 {
			signerKind = "single"
		} else {
			c.Label("signed-by-output-key")
		}
	}
	// the required fee depends on the message type (auth/FeeMultipliers)
	required := fm.required("send")
	if signerKind == "outputKeyEdit" {
		required = fm.required("stake_validator")
	}
	declared, feeKind, feeOK := feeCoins(rt, required)
	if !feeOK {
		c.Label("fee-below-required")
		c.NonTrivial()
	}
	if required != requiredFee {
		c.Label("required-fee-from-fee-table")
	}
	sigKind := rapid.SampledFrom([]string{"valid", "valid", "valid", "otherChain", "overOtherFee", "garbage", "wrongKey"}).Draw(rt, "sigKind")
	memoLen := rapid.SampledFrom([]int{0, 0, 10, 75, 76, 200}).Draw(rt, "memoLen")
	memo := strings.Repeat("m", memoLen)
	memoOK := uint64(memoLen) <= w.Spec.AuthParams.MaxMemoCharacters
	to := chain.Addr(funded[rapid.IntRange(0, len(funded)-1).Draw(rt, "to")])
	entropy := w.NextEntropy()
	authOK := feeOK && memoOK
	if sigKind != "valid" {
		authOK = false
		c.Label("bad-signature")
	}
	chainID := w.Spec.ChainID
	if sigKind == "otherChain" {
		chainID = "some-other-chain"
	}
	var signFee sdk.Coins
	if sigKind == "overOtherFee" {
		// always different from the declared fee
		signFee = sdk.Coins{{Denom: sdk.DefaultStakeDenom, Amount: declared.AmountOf(sdk.DefaultStakeDenom).Add(sdk.NewInt(13))}}
	}
	var fc feeCase
	amountSel := rapid.SampledFrom([]string{"small", "small", "allAfterFee", "moreThanBalance"}).Draw(rt, "amountSel")
	amountFor := func(bal sdk.BigInt) int64 {
		switch amountSel {
		case "small":
			return 1
		case "allAfterFee":
			a := bal.Sub(declared.AmountOf(sdk.DefaultStakeDenom))
			if a.IsPositive() && a.IsInt64() {
				return a.Int64()
			}
			return 1
		default:
			if bal.IsInt64() {
				return bal.Int64() + 1
			}
			return 1
		}
	}
	if signerKind == "multisig" {
		c.Label("multisig")
		c.NonTrivial()
		from := chain.MultiAddr(w.Multi)
		amt := amountFor(n.Balance(from))
		msg := &nodesTypes.MsgSend{FromAddress: from, ToAddress: to, Amount: sdk.NewInt(amt)}
		variant := rapid.SampledFrom([]string{"complete", "complete", "complete", "missingOne", "reversed"}).Draw(rt, "multiVariant")
		signers := append([]crypto.PrivateKey{}, w.MultiMembers...)
		switch variant {
		case "missingOne":
			signers = signers[:len(signers)-1]
			authOK = false
		case "reversed":
			for i, j := 0, len(signers)-1; i < j; i, j = i+1, j-1 {
				signers[i], signers[j] = signers[j], signers[i]
			}
			authOK = false
		}
		var tx []byte
		switch sigKind {
		case "garbage", "wrongKey":
			bad := []crypto.PrivateKey{chain.Key("stranger-a"), chain.Key("stranger-b"), chain.Key("stranger-c")}[:len(signers)]
			tx = chain.SignMultiTx(chainID, msg, declared, memo, entropy, w.Multi, bad, nil, nil)
		default:
			tx = chain.SignMultiTx(chainID, msg, declared, memo, entropy, w.Multi, signers, nil, signFee)
		}
		fc = feeCase{tx: tx, payer: from, from: from, to: to, msgAmount: amt}
		fc.desc = fmt.Sprintf("send %d multisig(%d members,%s)->%s fee=%s(%s) sig=%s memo=%d", amt, len(w.MultiMembers), variant, w.KeyNameAddr(to), feeKind, declared, sigKind, memoLen)
	} else if signerKind == "outputKeyEdit" {
		k := w.Outputs[outIdx]
		ns := w.Spec.Nodes[outIdx]
		// same amount, chains and output: no coins move besides the fee whether or not the edit is accepted
		msg := &nodesTypes.MsgStake{PublicKey: w.Nodes[outIdx].PublicKey(), Chains: ns.Chains, Value: sdk.NewInt(ns.Stake), ServiceUrl: "https://node.example:443", Output: chain.Addr(k), RewardDelegators: ns.Delegators}
		o := chain.TxOpts{ChainID: chainID, Msg: msg, Fee: declared, Memo: memo, Entropy: entropy, Signer: k, IncludePubKey: true, SignFee: signFee}
		switch sigKind {
		case "garbage":
			o.SigOverride = []byte(strings.Repeat("\x17", 64))
		case "wrongKey":
			o.Signer = chain.Key("stranger-a")
			o.PubKeyOverride = k.PublicKey()
		}
		fc = feeCase{tx: chain.SignTxOpts(o), payer: chain.Addr(k), from: chain.Addr(k), to: chain.Addr(k), msgAmount: 0}
		fc.desc = fmt.Sprintf("edit-stake node%d (unchanged) signed by its output key fee=%s(%s) sig=%s memo=%d", outIdx, feeKind, declared, sigKind, memoLen)
	} else {
		k := funded[rapid.IntRange(0, len(funded)-1).Draw(rt, "from")]
		from := chain.Addr(k)
		amt := amountFor(n.Balance(from))
		msg := &nodesTypes.MsgSend{FromAddress: from, ToAddress: to, Amount: sdk.NewInt(amt)}
		o := chain.TxOpts{ChainID: chainID, Msg: msg, Fee: declared, Memo: memo, Entropy: entropy, Signer: k, IncludePubKey: signerKind == "single", SignFee: signFee}
		switch sigKind {
		case "garbage":
			o.SigOverride = []byte(strings.Repeat("\x17", 64))
		case "wrongKey":
			o.Signer = chain.Key("stranger-a")
			o.PubKeyOverride = k.PublicKey()
			if signerKind != "single" {
				o.PubKeyOverride = nil
			}
		}
		fc = feeCase{tx: chain.SignTxOpts(o), payer: from, from: from, to: to, msgAmount: amt}
		fc.desc = fmt.Sprintf("send %d %s->%s fee=%s(%s) signer=%s sig=%s memo=%d", amt, w.KeyName(k), w.KeyNameAddr(to), feeKind, declared, signerKind, sigKind, memoLen)
	}
	fc.declared = declared
	fc.required = required
	fc.authOK = authOK
	fc.multisig = signerKind == "multisig"
	fc.onlyFeeTooLow = !feeOK && declared.IsValid() && memoOK && sigKind == "valid" && !strings.Contains(fc.desc, "missingOne") && !strings.Contains(fc.desc, "reversed") &&
		declared.AmountOf(sdk.DefaultStakeDenom).LT(sdk.NewInt(required)) && len(declared) <= 1
	return fc
}
