package abci

import (
	"strings"
	"bytes"
	"encoding/binary"
	"fmt"
	"testing"
	"time"

	"pgregory.net/rapid"

	"github.com/pokt-network/pocket-core/app"
	sdk "github.com/pokt-network/pocket-core/types"
	appsTypes "github.com/pokt-network/pocket-core/x/apps/types"
	"github.com/pokt-network/pocket-core/x/auth"
	authTypes "github.com/pokt-network/pocket-core/x/auth/types"
	govTypes "github.com/pokt-network/pocket-core/x/gov/types"
	nodesTypes "github.com/pokt-network/pocket-core/x/nodes/types"

	"verif/harness"
	"verif/harness/chain"
)

// C16: a signed transaction can take effect at most once — also when resubmitted identically (same block, next
// block, later) or re-encoded into different bytes that still decode to the same signed content.

// ---- minimal protobuf wire helpers (independent of the code under test) ----

type wireField struct {
	num   uint64
	wtype uint64
	raw   []byte // full encoding of the field as found (tag + payload)
	body  []byte // payload for length-delimited fields (without the length)
	val   uint64 // varint value
}

func parseWire(b []byte) ([]wireField, bool) {
	var out []wireField
	for len(b) > 0 {
		tag, n := binary.Uvarint(b)
		if n <= 0 {
			return nil, false
		}
		f := wireField{num: tag >> 3, wtype: tag & 7}
		rest := b[n:]
		used := n
		switch f.wtype {
		case 0:
			v, m := binary.Uvarint(rest)
			if m <= 0 {
				return nil, false
			}
			f.val = v
			used += m
		case 2:
			l, m := binary.Uvarint(rest)
			if m <= 0 || uint64(len(rest)-m) < l {
				return nil, false
			}
			f.body = rest[m : m+int(l)]
			used += m + int(l)
		case 1:
			used += 8
		case 5:
			used += 4
		default:
			return nil, false
		}
		if used > len(b) {
			return nil, false
		}
		f.raw = b[:used]
		out = append(out, f)
		b = b[used:]
	}
	return out, true
}

func uvarint(v uint64) []byte {
	var buf [binary.MaxVarintLen64]byte
	return append([]byte{}, buf[:binary.PutUvarint(buf[:], v)]...)
}

// overlong encodes v with one redundant continuation byte (non-minimal varint).
func overlong(v uint64) []byte {
	b := uvarint(v)
	b[len(b)-1] |= 0x80
	return append(b, 0x00)
}

func lenDelimited(num uint64, body []byte) []byte {
	out := uvarint(num<<3 | 2)
	out = append(out, uvarint(uint64(len(body)))...)
	return append(out, body...)
}

func withPrefix(msg []byte) []byte { return append(uvarint(uint64(len(msg))), msg...) }

// reencodings returns semantics-preserving re-encodings of a length-prefixed ProtoStdTx, by variant name.
func reencodings(tx []byte) map[string][]byte {
	out := map[string][]byte{}
	l, n := binary.Uvarint(tx)
	if n <= 0 || int(l) != len(tx)-n {
		return out
	}
	msg := tx[n:]
	fields, ok := parseWire(msg)
	if !ok {
		return out
	}
	join := func(fs []wireField) []byte {
		var b []byte
		for _, f := range fs {
			b = append(b, f.raw...)
		}
		return b
	}
	// unknown fields appended at top level
	out["unknown-varint-field-appended"] = withPrefix(append(append([]byte{}, msg...), append(uvarint(99<<3|0), 0x01)...))
	out["unknown-bytes-field-appended"] = withPrefix(append(append([]byte{}, msg...), lenDelimited(98, []byte("xyz"))...))
	out["unknown-fixed32-field-appended"] = withPrefix(append(append([]byte{}, msg...), append(uvarint(97<<3|5), 1, 2, 3, 4)...))
	out["unknown-field-prepended"] = withPrefix(append(lenDelimited(96, []byte{7}), msg...))
	// top-level field order reversed
	rev := make([]wireField, len(fields))
	for i, f := range fields {
		rev[len(fields)-1-i] = f
	}
	if len(fields) > 1 {
		out["fields-reordered"] = withPrefix(join(rev))
	}
	// scalar field repeated with the same value (last one wins)
	for _, f := range fields {
		if f.num == 5 && f.wtype == 0 {
			out["entropy-field-repeated"] = withPrefix(append(append([]byte{}, msg...), f.raw...))
		}
		if f.num == 4 && f.wtype == 2 {
			out["memo-field-repeated"] = withPrefix(append(append([]byte{}, msg...), f.raw...))
		}
	}
	// an explicit default value for an absent scalar (memo = "")
	hasMemo := false
	for _, f := range fields {
		if f.num == 4 {
			hasMemo = true
		}
	}
	if !hasMemo {
		out["explicit-empty-memo"] = withPrefix(append(append([]byte{}, msg...), lenDelimited(4, nil)...))
	}
	// non-minimal varints: outer length prefix, a tag, an inner length, the entropy value
	out["outer-length-overlong"] = append(overlong(uint64(len(msg))), msg...)
	for i, f := range fields {
		if f.wtype == 2 && f.num == 3 {
			fs := append([]wireField{}, fields...)
			nf := f
			nf.raw = append(append(overlong(f.num<<3|2), uvarint(uint64(len(f.body)))...), f.body...)
			fs[i] = nf
			out["tag-overlong"] = withPrefix(join(fs))
			nf2 := f
			nf2.raw = append(append(uvarint(f.num<<3|2), overlong(uint64(len(f.body)))...), f.body...)
			fs2 := append([]wireField{}, fields...)
			fs2[i] = nf2
			out["inner-length-overlong"] = withPrefix(join(fs2))
			// unknown field inside the nested signature message
			nb := append(append([]byte{}, f.body...), lenDelimited(77, []byte{1, 2})...)
			nf3 := f
			nf3.raw = lenDelimited(3, nb)
			fs3 := append([]wireField{}, fields...)
			fs3[i] = nf3
			out["unknown-field-inside-signature"] = withPrefix(join(fs3))
		}
		if f.wtype == 2 && f.num == 1 {
			// unknown field inside the Any wrapper of the message
			nb := append(append([]byte{}, f.body...), lenDelimited(66, []byte{9})...)
			nf := f
			nf.raw = lenDelimited(1, nb)
			fs := append([]wireField{}, fields...)
			fs[i] = nf
			out["unknown-field-inside-any"] = withPrefix(join(fs))
			// unknown field inside the message carried by the Any (its value is field 2 of the Any)
			if inner, ok := parseWire(f.body); ok {
				var anyb []byte
				for _, g := range inner {
					if g.num == 2 && g.wtype == 2 {
						anyb = append(anyb, lenDelimited(2, append(append([]byte{}, g.body...), lenDelimited(55, []byte{3})...))...)
					} else {
						anyb = append(anyb, g.raw...)
					}
				}
				nf2 := f
				nf2.raw = lenDelimited(1, anyb)
				fs2 := append([]wireField{}, fields...)
				fs2[i] = nf2
				out["unknown-field-inside-message"] = withPrefix(join(fs2))
			}
		}
		if f.wtype == 0 && f.num == 5 {
			fs := append([]wireField{}, fields...)
			nf := f
			nf.raw = append(uvarint(f.num<<3|0), overlong(f.val)...)
			fs[i] = nf
			out["entropy-value-overlong"] = withPrefix(join(fs))
		}
	}
	return out
}

func TestC16(t *testing.T) {
	harness.Check(t, "C16",
		"generated world; a correctly signed send T (random amount/recipient/memo/entropy) delivered once; then resubmissions of the identical bytes in the same block, the next block and "+
			"k blocks later, and of every semantics-preserving re-encoding produced by an independent protobuf wire mutator (unknown fields appended/prepended at top level, inside the "+
			"signature, the Any and the message; repeated scalar; explicit default; reordered fields; non-minimal varints for outer length, tag, inner length, value) — only re-encodings that "+
			"the real decoder accepts AND that decode to a tx with identical sign bytes, signature and fee are used. Oracle: every resubmission has code != 0 and the recipient was credited "+
			"exactly once over the whole history. non-trivial = at least one accepted re-encoding with different bytes and equal sign bytes was resubmitted",
		map[string]float64{"reencoding-accepted-by-decoder": 0.9, "same-block-duplicate": 0.9, "later-block-duplicate": 0.9, "original-fails-in-handler": 0.2, "original-signed-by-multisig": 0.08},
		func(rt *rapid.T, c *harness.Case) {
			w := chain.GenWorld(rt)
			c.Opf("%s", w.Describe())
			n := chain.NewNode(&w.Spec)
			funded := w.AllFunded()
			from := funded[rapid.IntRange(0, len(funded)-1).Draw(rt, "from")]
			// a fresh recipient so that credits are attributable
			to := chain.Addr(chain.Key(fmt.Sprintf("c16-recipient-%d", rapid.IntRange(0, 3).Draw(rt, "rcpt"))))
			amt := int64(rapid.IntRange(1, 5000).Draw(rt, "amt"))
			memo := rapid.SampledFrom([]string{"", "", "hello", "m"}).Draw(rt, "memo")
			entropy := int64(rapid.IntRange(1, 1<<30).Draw(rt, "entropy"))
			if rapid.IntRange(0, 4).Draw(rt, "negEntropy") == 0 {
				entropy = -entropy
			}
			var msg sdk.ProtoMsg = &nodesTypes.MsgSend{FromAddress: chain.Addr(from), ToAddress: to, Amount: sdk.NewInt(amt)}
			tKind := rapid.SampledFrom([]string{"send", "send", "daoTransferByNonOwner", "appTransferByNonApp", "multisigSend"}).Draw(rt, "tKind")
			fromAddr := chain.Addr(from)
			switch tKind {
			case "multisigSend":
				// the signer is a multi-signature account (its own branch of the ante handler)
				fromAddr = chain.MultiAddr(w.Multi)
				msg = &nodesTypes.MsgSend{FromAddress: fromAddr, ToAddress: to, Amount: sdk.NewInt(amt)}
				c.Label("original-signed-by-multisig")
			case "daoTransferByNonOwner":
				// authenticates (the sender names itself), pays the fee, then fails in the gov handler: its only effect is the fee
				if !from.PublicKey().Equals(w.Spec.DAOOwner.PublicKey()) {
					msg = &govTypes.MsgDAOTransfer{FromAddress: chain.Addr(from), ToAddress: to, Amount: sdk.NewInt(amt), Action: govTypes.DAOTransferString}
					c.Label("original-fails-in-handler")
				} else {
					tKind = "send"
				}
			case "appTransferByNonApp":
				msg = &appsTypes.MsgStake{PubKey: from.PublicKey(), Chains: nil, Value: sdk.ZeroInt()}
				c.Label("original-fails-in-handler")
			}
			T := chain.SignTx(w.Spec.ChainID, msg, chain.DefaultFee, memo, entropy, from)
			signerName := w.KeyName(from)
			if tKind == "multisigSend" {
				T = chain.SignMultiTx(w.Spec.ChainID, msg, sdk.NewCoins(sdk.NewCoin(sdk.DefaultStakeDenom, sdk.NewInt(chain.DefaultFee))), memo, entropy, w.Multi, w.MultiMembers, nil, nil)
				signerName = fmt.Sprintf("multisig(%d members)", len(w.MultiMembers))
			}
			c.Opf("T = %s amt=%d by %s memo=%q entropy=%d (%d bytes)", tKind, amt, signerName, memo, entropy, len(T))
			dec := auth.DefaultTxDecoder(app.Codec())
			orig, derr := dec(T, 10)
			if derr != nil {
				t.Fatalf("harness: original tx does not decode: %v", derr)
			}
			ostd := orig.(authTypes.StdTx)
			osb, _ := authTypes.StdSignBytes(w.Spec.ChainID, ostd.Entropy, ostd.Fee, ostd.Msg, ostd.Memo)
			// candidate re-encodings, filtered through the REAL decoder
			type variant struct {
				name string
				bz   []byte
			}
			var vs []variant
			rejected := 0
			for _, name := range sortedKeys(reencodings(T)) {
				bz := reencodings(T)[name]
				if bytes.Equal(bz, T) {
					continue
				}
				d, err := dec(bz, 10)
				if err != nil {
					rejected++
					continue
				}
				std := d.(authTypes.StdTx)
				sb, e2 := authTypes.StdSignBytes(w.Spec.ChainID, std.Entropy, std.Fee, std.Msg, std.Memo)
				if e2 != nil || !bytes.Equal(sb, osb) || !bytes.Equal(std.Signature.Signature, ostd.Signature.Signature) || std.Signature.GetPublicKey() != ostd.Signature.GetPublicKey() {
					rejected++
					continue
				}
				vs = append(vs, variant{name, bz})
			}
			c.AddExtra("reencodings_accepted_by_decoder", len(vs))
			c.AddExtra("reencodings_rejected_by_decoder", rejected)
			if len(vs) > 0 {
				c.Label("reencoding-accepted-by-decoder")
				c.NonTrivial()
			}
			// choose which variants to resubmit and where
			pick := func(label string) []variant {
				var out []variant
				for _, v := range vs {
					if rapid.IntRange(0, 2).Draw(rt, label) == 0 {
						out = append(out, v)
					}
				}
				return out
			}
			sameBlock, nextBlock, later := pick("inSameBlock"), pick("inNextBlock"), pick("later")
			// one signature, one transaction: the same signature attached to content that differs in a field the signer
			// committed to (the entropy nonce, the memo) is NOT the signed transaction and must not take effect either -
			// "signed once" would otherwise cover as many transactions as there are values of that field
			{
				enc := auth.DefaultTxEncoder(app.Codec())
				alt := ostd
				alt.Entropy = ostd.Entropy + 1 + int64(rapid.IntRange(0, 1000).Draw(rt, "entropyShift"))
				if bz, err := enc(alt, 10); err == nil && !bytes.Equal(bz, T) {
					v := variant{"same-signature-other-entropy", bz}
					sameBlock, nextBlock, later = append(sameBlock, v), append(nextBlock, v), append(later, v)
				}
				alt = ostd
				alt.Memo = ostd.Memo + "x"
				if bz, err := enc(alt, 10); err == nil && !bytes.Equal(bz, T) {
					v := variant{"same-signature-other-memo", bz}
					nextBlock = append(nextBlock, v)
				}
				c.Label("same-signature-on-other-content")
			}
			credited := func() sdk.BigInt { return n.Balance(to) }
			payer := func() sdk.BigInt { return n.Balance(fromAddr) }
			deliver := func(where string, name string, bz []byte) {
				before, pbefore := credited(), payer()
				r := n.DeliverTx(bz)
				after, pafter := credited(), payer()
				c.Opf("resubmit %s in %s -> %d/%s", name, where, r.Code, r.Codespace)
				if name == "identical-bytes" && r.Code != 0 && !pafter.Equal(pbefore) {
					// a rejected resubmission of the identical bytes must not even charge the fee again (the first delivery did)
					c.Violation("C16/identical-bytes/fee-charged-again", "resubmission of the identical bytes of T (%s) in %s was rejected (%d/%s) but the signer's balance went %s -> %s: the transaction took effect (its fee) a second time", tKind, where, r.Code, r.Codespace, pbefore, pafter)
				}
				if r.Code == 0 || !after.Equal(before) {
					sig := "C16/reencoding/byte-different-encoding-took-effect-again"
					if name == "identical-bytes" {
						sig = "C16/identical-bytes/took-effect-again"
					}
					if strings.HasPrefix(name, "same-signature-other-") {
						sig = "C16/" + name + "/one-signature-took-effect-for-other-content"
					}
					c.Violation(sig, "resubmission of T as %q in %s returned code %d/%s and the recipient balance went %s -> %s (T itself already took effect)", name, where, r.Code, r.Codespace, before, after)
				}
			}
			// prelude (a quarter of the cases): governance announces a new version (a second event on the stored upgrade, at the
			// current height, no features named) and the node is restarted before T arrives - the protection against duplicates
			// inside one block is a scheduled feature and has to survive both
			if rapid.Bool().Draw(rt, "versionUpgradeThenRestartA") && rapid.Bool().Draw(rt, "versionUpgradeThenRestartB") {
				up := &govTypes.MsgUpgrade{Address: chain.Addr(w.Spec.DAOOwner), Upgrade: govTypes.Upgrade{Height: n.Height + 1, Version: "0.12.0"}}
				res := n.RunBlock(chain.Block{DT: time.Second, Proposer: chain.Addr(w.Nodes[0]), Txs: [][]byte{chain.SignTx(w.Spec.ChainID, up, chain.DefaultFee, "", entropy+7, w.Spec.DAOOwner)}})
				c.Opf("prelude: version upgrade 0.12.0 at height %d -> %d/%s; restart", res.Height, res.Txs[0].Code, res.Txs[0].Codespace)
				if res.Txs[0].Code == 0 {
					c.Label("version-upgrade-then-restart-before-T")
				}
				n.Restart()
			}
			// block 1: T, then duplicates in the same block
			n.BeginBlock(chain.Block{DT: time.Second, Proposer: chain.Addr(w.Nodes[0])})
			if rapid.SampledFrom([]int{0, 0, 1}).Draw(rt, "anteFailureBeforeT") == 1 {
				// T shares its block with an earlier transaction that the ante handler rejects (somebody else's send with a
				// garbage signature): such results are not indexed, T's must be
				bad := funded[rapid.IntRange(0, len(funded)-1).Draw(rt, "badSender")]
				bmsg := &nodesTypes.MsgSend{FromAddress: chain.Addr(bad), ToAddress: to, Amount: sdk.NewInt(3)}
				// (correctly signed, but its fee is below the required fee or its memo is too long: rejected by the ante handler
				// with an auth-codespace error)
				bopts := chain.TxOpts{ChainID: w.Spec.ChainID, Msg: bmsg, Fee: sdk.NewCoins(sdk.NewCoin(sdk.DefaultStakeDenom, sdk.NewInt(chain.DefaultFee))), Entropy: entropy + 1, Signer: bad, IncludePubKey: true}
				if rapid.Bool().Draw(rt, "badByFee") {
					bopts.Fee = sdk.NewCoins(sdk.NewCoin(sdk.DefaultStakeDenom, sdk.NewInt(1)))
				} else {
					bopts.Memo = strings.Repeat("m", 300)
				}
				btx := chain.SignTxOpts(bopts)
				rb := n.DeliverTx(btx)
				c.Opf("ante-rejected tx before T in the same block -> %d/%s", rb.Code, rb.Codespace)
				if rb.Code != 0 && rb.Codespace == "auth" {
					c.Label("ante-failure-before-T-in-its-block")
				}
			}
			r0 := n.DeliverTx(T)
			if r0.Code != 0 {
				// e.g. the sender cannot cover amount+fee: no effect to replay; still resubmissions must not succeed later either
				c.Label("original-failed")
			}
			base := credited()
			c.Label("same-block-duplicate")
			deliver("same block", "identical-bytes", T)
			for _, v := range sameBlock {
				deliver("same block", v.name, v.bz)
			}
			n.Commit(n.EndBlock())
			// next block
			n.BeginBlock(chain.Block{DT: time.Second, Proposer: chain.Addr(w.Nodes[0])})
			c.Label("later-block-duplicate")
			deliver("next block", "identical-bytes", T)
			for _, v := range nextBlock {
				deliver("next block", v.name, v.bz)
			}
			n.Commit(n.EndBlock())
			// k blocks later
			k := rapid.IntRange(1, 4).Draw(rt, "gap")
			for i := 0; i < k; i++ {
				n.RunBlock(chain.Block{DT: time.Second})
			}
			n.BeginBlock(chain.Block{DT: time.Second, Proposer: chain.Addr(w.Nodes[0])})
			deliver(fmt.Sprintf("%d blocks later", k+1), "identical-bytes", T)
			for _, v := range later {
				deliver(fmt.Sprintf("%d blocks later", k+1), v.name, v.bz)
			}
			n.Commit(n.EndBlock())
			if tKind == "send" && r0.Code == 0 && !base.Equal(sdk.NewInt(amt)) && base.LT(sdk.NewInt(amt)) {
				c.Violation("C16/original/not-credited", "T returned code 0 but the recipient holds %s instead of %d", base, amt)
			}
		})
}

func sortedKeys(m map[string][]byte) []string {
	ks := make([]string, 0, len(m))
	for k := range m {
		ks = append(ks, k)
	}
	for i := 1; i < len(ks); i++ {
		for j := i; j > 0 && ks[j] < ks[j-1]; j-- {
			ks[j], ks[j-1] = ks[j-1], ks[j]
		}
	}
	return ks
}
