package abci

import (
	"fmt"
	"testing"
	"time"

	sdk "github.com/pokt-network/pocket-core/types"
	nodesTypes "github.com/pokt-network/pocket-core/x/nodes/types"

	"verif/harness/chain"
)

func smokeSpec() chain.Spec {
	s := chain.DefaultSpec()
	for i := 0; i < 3; i++ {
		s.Accounts = append(s.Accounts, chain.AccountSpec{Key: chain.Key(fmt.Sprintf("acc%d", i)), Balance: 1_000_000_000})
	}
	for i := 0; i < 3; i++ {
		s.Nodes = append(s.Nodes, chain.NodeSpec{Key: chain.Key(fmt.Sprintf("node%d", i)), Stake: 15_000_000_000 * int64(i+1), Chains: []string{"0001"}})
	}
	s.Apps = append(s.Apps, chain.AppSpec{Key: chain.Key("app0"), Stake: 10_000_000, Chains: []string{"0001"}})
	return s
}

func TestSmoke(t *testing.T) {
	run := func() []chain.BlockResult {
		s := smokeSpec()
		n := chain.NewNode(&s)
		var out []chain.BlockResult
		for b := 0; b < 8; b++ {
			msg := &nodesTypes.MsgSend{FromAddress: chain.Addr(s.Accounts[0].Key), ToAddress: chain.Addr(s.Accounts[1].Key), Amount: sdk.NewInt(1000 + int64(b))}
			tx := chain.SignTx(s.ChainID, msg, 10000, "", int64(b+1), s.Accounts[0].Key)
			r := n.RunBlock(chain.Block{DT: time.Second, Txs: [][]byte{tx}})
			out = append(out, r)
		}
		t.Log(n.Supply(), n.Balance(chain.Addr(s.Accounts[1].Key)), n.ValidatorsAt(n.Height))
		return out
	}
	t0 := time.Now()
	a := run()
	t.Log("one run", time.Since(t0))
	b := run()
	for i := range a {
		t.Log(a[i].String())
		if a[i].String() != b[i].String() {
			t.Fatalf("nondeterministic at block %d: %s vs %s", i, a[i], b[i])
		}
		for _, tx := range a[i].Txs {
			if tx.Code != 0 {
				t.Fatalf("tx failed: %+v", tx)
			}
		}
	}
}
