package abci

import (
	"sort"
	"bytes"
	"fmt"
	"testing"
	"time"

	"pgregory.net/rapid"

	"github.com/pokt-network/pocket-core/app"
	"github.com/pokt-network/pocket-core/crypto"
	sdk "github.com/pokt-network/pocket-core/types"
	appsTypes "github.com/pokt-network/pocket-core/x/apps/types"
	authTypes "github.com/pokt-network/pocket-core/x/auth/types"
	govTypes "github.com/pokt-network/pocket-core/x/gov/types"
	nodesTypes "github.com/pokt-network/pocket-core/x/nodes/types"

	"verif/harness"
	"verif/harness/chain"
)

// C14: only authorized signers can make a transaction change state.
//
// One-sided model (restating the property): for each generated attack the model knows by construction that the
// signing key has no authority over the object the message targets. Two classes:
//   noauth  - the signature does not verify under any key the message declares as signer (other key, other chain id,
//             signature over other content, garbage, incomplete multisig, wrong stored key): code != 0 and the dump of
//             every persistent substore is byte-identical before/after.
//   selfpay - the attacker names ITSELF as the message's signer field (unstake/unjail someone else's node, change a
//             parameter, move DAO funds, propose itself as output address, transfer an application it does not own): the
//             transaction authenticates as the attacker's own, so the attacker's fee may move (attacker -> fee
//             collector) — and nothing else in state may change; code != 0.

type attack struct {
	desc  string
	tx    []byte
	class string // noauth | selfpay
	payer sdk.Address
}

func accountKey(a sdk.Address) []byte { return authTypes.AddressStoreKey(a) }

func stateDiffKeys(a, b map[string][]chain.KV) map[string][]string {
	out := map[string][]string{}
	for name := range a {
		am, bm := map[string][]byte{}, map[string][]byte{}
		for _, kv := range a[name] {
			am[string(kv.K)] = kv.V
		}
		for _, kv := range b[name] {
			bm[string(kv.K)] = kv.V
		}
		for k, v := range am {
			if w, ok := bm[k]; !ok || !bytes.Equal(v, w) {
				out[name] = append(out[name], k)
			}
		}
		for k := range bm {
			if _, ok := am[k]; !ok {
				out[name] = append(out[name], k)
			}
		}
	}
	return out
}

func TestC14(t *testing.T) {
	harness.Check(t, "C14",
		"generated world, 0-6 blocks of generated history, then 6-14 attack transactions (one DeliverTx each) over every message kind (send, node stake/edit, node begin-unstake, "+
			"node unjail, app stake/edit, app begin-unstake, app transfer, change-param, DAO transfer/burn, upgrade) x attack kind (signed by an unrelated funded key with its own or the "+
			"victim's public key, by a key that is a legitimate signer of OTHER objects (another operator, the DAO owner), other chain id, signature over a different fee/message, garbage or "+
			"bit-flipped signature, omitted public key with a foreign signature, incomplete/misordered multisig, attacker naming itself in the signer field, owner of one application transferring it onto the key of "+
			"another existing - staked or unstaking - application). Oracle: full dump of "+
			"all substores before/after: noauth => identical and code != 0; selfpay => only the attacker's account and the fee collector change, by exactly the fee, code != 0. "+
			"non-trivial = the attacking key is a funded account that legitimately signs for some other object",
		map[string]float64{"noauth": 0.9, "selfpay": 0.8, "attacker-is-other-operator": 0.5, "multisig-attack": 0.18, "wrong-chain": 0.3, "app-transfer-onto-existing-application": 0.2, "app-transfer-onto-unstaking-application": 0.03, "app-owner-edits-another-application": 0.2, "output-key-edits-delegators": 0.1},
		func(rt *rapid.T, c *harness.Case) {
			w := chain.GenWorld(rt)
			c.Opf("%s", w.Describe())
			n := chain.NewNode(&w.Spec)
			pre := w.GenHistory(rt, 0, 6)
			for i, b := range pre.Blocks {
				n.RunBlock(b)
				c.Opf("%s", chain.DescribeBlock(b, pre.Txs[i]))
			}
			// in half of the worlds with two or more applications one of them begins to unstake right before the attacks
			// (its record then waits in the unstaking queue unless the unstaking time is zero)
			if len(w.Apps) >= 2 && rapid.Bool().Draw(rt, "anAppIsUnstaking") {
				k := w.Apps[len(w.Apps)-1]
				tx := chain.SignTx(w.Spec.ChainID, &appsTypes.MsgBeginUnstake{Address: chain.Addr(k)}, chain.DefaultFee, "", w.NextEntropy(), k)
				n.RunBlock(chain.Block{DT: time.Second, Proposer: chain.Addr(w.Nodes[0]), Txs: [][]byte{tx}})
				c.Opf("block{app begin-unstake %s by itself}", w.KeyName(k))
			}
			collector := authTypes.NewModuleAddress(authTypes.FeeCollectorName)
			na := rapid.IntRange(6, 14).Draw(rt, "nAttacks")
			n.BeginBlock(chain.Block{DT: time.Second, Proposer: chain.Addr(w.Nodes[0])})
			for i := 0; i < na; i++ {
				at := genAttack(rt, w, n, c)
				c.Opf("%s", at.desc)
				c.Label(at.class)
				before := n.Dump()
				r := n.DeliverTx(at.tx)
				after := n.Dump()
				if r.Code == 0 {
					c.Violation("C14/"+at.class+"/unauthorized-tx-succeeded", "transaction not authorized by its signer returned code 0: %s", at.desc)
				}
				diff := stateDiffKeys(before, after)
				switch at.class {
				case "noauth":
					if len(diff) != 0 {
						c.Violation("C14/noauth/state-changed", "transaction whose signature does not verify under any declared signer changed state (code %d/%s) in %v: %s", r.Code, r.Codespace, renderDiff(diff), at.desc)
					}
				case "selfpay":
					allowed := map[string]bool{string(accountKey(at.payer)): true, string(accountKey(collector)): true}
					for store, keys := range diff {
						for _, k := range keys {
							if store != authTypes.StoreKey || !allowed[k] {
								c.Violation("C14/selfpay/state-beyond-own-fee-changed", "transaction signed by a key without authority over its target changed [%s] key %x (code %d/%s): %s", store, k, r.Code, r.Codespace, at.desc)
							}
						}
					}
					if len(diff) != 0 {
						// exactly the fee moved from the attacker to the collector
						ctx := n.Ctx()
						_ = ctx
						bb := balanceIn(before, at.payer, n)
						ba := balanceIn(after, at.payer, n)
						if !bb.Sub(ba).Equal(sdk.NewInt(chain.DefaultFee)) {
							c.Violation("C14/selfpay/attacker-balance-delta-not-fee", "attacker balance changed by %s (fee is %d): %s", ba.Sub(bb), chain.DefaultFee, at.desc)
						}
					}
				}
				// every few attacks start a new block so that the fee collector is emptied in between
				if rapid.IntRange(0, 3).Draw(rt, "newBlock") == 0 {
					n.Commit(n.EndBlock())
					n.BeginBlock(chain.Block{DT: time.Second, Proposer: chain.Addr(w.Nodes[0])})
				}
			}
			n.Commit(n.EndBlock())
		})
}

func renderDiff(d map[string][]string) string {
	s := ""
	for st, ks := range d {
		for _, k := range ks {
			s += fmt.Sprintf("[%s]%x ", st, k)
		}
	}
	return s
}

// balanceIn decodes the upokt balance of addr from a dump (through the auth keeper's decoder).
func balanceIn(d map[string][]chain.KV, addr sdk.Address, n *chain.Node) sdk.BigInt {
	key := accountKey(addr)
	for _, kv := range d[authTypes.StoreKey] {
		if bytes.Equal(kv.K, key) {
			acc, err := n.App.VerifAccountKeeper().DecodeAccount(kv.V, n.Ctx())
			if err != nil {
				panic(err)
			}
			return acc.GetCoins().AmountOf(sdk.DefaultStakeDenom)
		}
	}
	return sdk.ZeroInt()
}

func genAttack(rt *rapid.T, w *chain.World, n *chain.Node, c *harness.Case) attack {
	funded := w.AllFunded()
	// the attacker: a funded key; classify whether it legitimately signs for other objects
	atk := funded[rapid.IntRange(0, len(funded)-1).Draw(rt, "attacker")]
	// every fourth attack comes from the owner of an application and targets somebody else's application
	appOwnerAttack := len(w.Apps) >= 2 && rapid.Bool().Draw(rt, "appOwnerAttackA") && rapid.Bool().Draw(rt, "appOwnerAttackB")
	if appOwnerAttack {
		atk = w.Apps[rapid.IntRange(0, len(w.Apps)-1).Draw(rt, "attackerApp")]
	}
	isOp := false
	for _, k := range w.Nodes {
		if k.PublicKey().Equals(atk.PublicKey()) {
			isOp = true
		}
	}
	if isOp || atk.PublicKey().Equals(w.Spec.DAOOwner.PublicKey()) {
		c.Label("attacker-is-other-operator")
		c.NonTrivial()
	}
	other := func(pool []crypto.PrivateKey, label string) crypto.PrivateKey {
		// a victim different from the attacker (and whose output is not the attacker)
		for tries := 0; tries < 20; tries++ {
			v := pool[rapid.IntRange(0, len(pool)-1).Draw(rt, label)]
			if !v.PublicKey().Equals(atk.PublicKey()) {
				return v
			}
		}
		return nil
	}
	// authority is read from STATE at attack time (the generated pre-history may have changed output addresses or moved
	// applications): a key is authorized for a node iff it is the record's operator or current output address
	authorizedForNode := func(v crypto.PrivateKey) bool {
		for _, rec := range n.App.VerifNodesKeeper().GetAllValidators(n.Ctx()) {
			if rec.Address.Equals(chain.Addr(v)) {
				return rec.Address.Equals(chain.Addr(atk)) || (rec.OutputAddress != nil && rec.OutputAddress.Equals(chain.Addr(atk)))
			}
		}
		return chain.Addr(v).Equals(chain.Addr(atk))
	}
	// nodeExists: the generated pre-history may have unstaked a node completely (unstaking time 0): its record is gone,
	// and then ANY funded key may stake that public key again naming itself as output address and paying the stake from
	// its own balance (the non-custodial staking flow) - that is an authorized transaction, not an attack.
	nodeExists := func(v crypto.PrivateKey) bool {
		_, found := n.App.VerifNodesKeeper().GetValidator(n.Ctx(), chain.Addr(v))
		return found
	}
	attackerHasApp := false
	for _, rec := range n.App.VerifAppsKeeper().GetAllApplications(n.Ctx()) {
		if rec.Address.Equals(chain.Addr(atk)) {
			attackerHasApp = true
		}
	}
	fee := coins(chain.DefaultFee)
	e := w.NextEntropy()
	kind := rapid.SampledFrom([]string{"send", "nodeUnstake", "nodeUnjail", "nodeEdit", "appStake", "appUnstake", "appTransfer", "changeParam", "dao", "upgrade", "multisigSend", "outputEditsDelegators", "outputEditsDelegators"}).Draw(rt, "msgKind")
	if appOwnerAttack {
		kind = "appTransfer"
	}
	// how the (invalid) authentication is built for the noauth class
	noauthTx := func(msg sdk.ProtoMsg, victim crypto.PrivateKey, desc string) attack {
		how := rapid.SampledFrom([]string{"attackerKeyOwnPub", "attackerKeyVictimPub", "attackerKeyNoPub", "victimOtherChain", "victimOtherFee", "victimOtherMsg", "victimBitflip", "garbage"}).Draw(rt, "how")
		o := chain.TxOpts{ChainID: w.Spec.ChainID, Msg: msg, Fee: fee, Entropy: e, Signer: atk, IncludePubKey: true}
		switch how {
		case "attackerKeyOwnPub":
		case "attackerKeyVictimPub":
			o.PubKeyOverride = victim.PublicKey()
		case "attackerKeyNoPub":
			o.IncludePubKey = false
		case "victimOtherChain":
			o.Signer = victim
			o.ChainID = "another-chain"
			c.Label("wrong-chain")
		case "victimOtherFee":
			o.Signer = victim
			o.SignFee = coins(chain.DefaultFee + 1)
		case "victimOtherMsg":
			o.Signer = victim
			o.SignMsg = &nodesTypes.MsgSend{FromAddress: chain.Addr(victim), ToAddress: chain.Addr(atk), Amount: sdk.NewInt(424242)}
		case "victimBitflip":
			good := chain.SignTxOpts(chain.TxOpts{ChainID: w.Spec.ChainID, Msg: msg, Fee: fee, Entropy: e, Signer: victim, IncludePubKey: true})
			_ = good
			sb, _ := authTypes.StdSignBytes(w.Spec.ChainID, e, fee, msg, "")
			sig, _ := victim.Sign(sb)
			bit := rapid.IntRange(0, len(sig)*8-1).Draw(rt, "bit")
			sig[bit/8] ^= 1 << uint(bit%8)
			o.Signer = victim
			o.SigOverride = sig
		case "garbage":
			o.Signer = victim
			o.SigOverride = bytes.Repeat([]byte{0xAB}, 64)
		}
		return attack{desc: fmt.Sprintf("%s [noauth:%s attacker=%s]", desc, how, w.KeyName(atk)), tx: chain.SignTxOpts(o), class: "noauth", payer: chain.Addr(atk)}
	}
	selfpayTx := func(msg sdk.ProtoMsg, desc string) attack {
		return attack{desc: fmt.Sprintf("%s [selfpay attacker=%s]", desc, w.KeyName(atk)), tx: chain.SignTx(w.Spec.ChainID, msg, chain.DefaultFee, "", e, atk), class: "selfpay", payer: chain.Addr(atk)}
	}
	selfOrNo := rapid.Bool().Draw(rt, "selfpayVariant")
	switch kind {
	case "send":
		v := other(funded, "victim")
		if v == nil {
			v = w.Spec.DAOOwner
		}
		msg := &nodesTypes.MsgSend{FromAddress: chain.Addr(v), ToAddress: chain.Addr(atk), Amount: sdk.NewInt(int64(rapid.IntRange(1, 1000000).Draw(rt, "amt")))}
		return noauthTx(msg, v, fmt.Sprintf("send %s from %s to attacker", msg.Amount, w.KeyName(v)))
	case "nodeUnstake", "nodeUnjail":
		idx := rapid.IntRange(0, len(w.Nodes)-1).Draw(rt, "node")
		v := w.Nodes[idx]
		if authorizedForNode(v) {
			// the attacker would be authorized: retarget to a send attack instead
			msg := &nodesTypes.MsgSend{FromAddress: chain.Addr(w.Spec.DAOOwner), ToAddress: chain.Addr(atk), Amount: sdk.NewInt(7)}
			if atk.PublicKey().Equals(w.Spec.DAOOwner.PublicKey()) {
				msg.FromAddress = chain.Addr(w.Spare[0])
				return noauthTx(msg, w.Spare[0], "send 7 from spare0 to attacker")
			}
			return noauthTx(msg, w.Spec.DAOOwner, "send 7 from dao to attacker")
		}
		var mk func(signer sdk.Address) sdk.ProtoMsg
		if kind == "nodeUnstake" {
			mk = func(s sdk.Address) sdk.ProtoMsg {
				return &nodesTypes.MsgBeginUnstake{Address: chain.Addr(v), Signer: s}
			}
		} else {
			mk = func(s sdk.Address) sdk.ProtoMsg {
				return &nodesTypes.MsgUnjail{ValidatorAddr: chain.Addr(v), Signer: s}
			}
		}
		if selfOrNo {
			return selfpayTx(mk(chain.Addr(atk)), fmt.Sprintf("%s %s with signer field = attacker", kind, w.KeyName(v)))
		}
		return noauthTx(mk(chain.Addr(v)), v, fmt.Sprintf("%s %s with signer field = operator", kind, w.KeyName(v)))
	case "outputEditsDelegators":
		// the OUTPUT key of a node may sign edit-stakes, but the reward delegators change only when the operator signs: the
		// output key re-submits the node's record with one delegator address replaced by itself (same number of entries,
		// same shares)
		for idx, v := range w.Nodes {
			rec, found := n.App.VerifNodesKeeper().GetValidator(n.Ctx(), chain.Addr(v))
			out := w.Outputs[idx]
			if !found || !rec.IsStaked() || rec.OutputAddress == nil || rec.OutputAddress.Equals(rec.Address) || !rec.OutputAddress.Equals(chain.Addr(out)) || len(rec.RewardDelegators) == 0 {
				continue
			}
			if _, self := rec.RewardDelegators[chain.Addr(out).String()]; self {
				continue
			}
			dkeys := make([]string, 0, len(rec.RewardDelegators))
			for d := range rec.RewardDelegators {
				dkeys = append(dkeys, d)
			}
			sort.Strings(dkeys)
			victimD := dkeys[rapid.IntRange(0, len(dkeys)-1).Draw(rt, "replacedDelegator")]
			nd := map[string]uint32{}
			for d, sh := range rec.RewardDelegators {
				if d == victimD {
					nd[chain.Addr(out).String()] = sh
				} else {
					nd[d] = sh
				}
			}
			atk = out
			c.Label("output-key-edits-delegators")
			msg := &nodesTypes.MsgStake{PublicKey: v.PublicKey(), Chains: rec.Chains, Value: rec.StakedTokens, ServiceUrl: rec.ServiceURL, Output: rec.OutputAddress, RewardDelegators: nd}
			return selfpayTx(msg, fmt.Sprintf("edit-stake %s by its output key replacing reward delegator %s.. with itself (same entry count and shares)", w.KeyName(v), victimD[:8]))
		}
		{
			v := w.Spare[2]
			if v.PublicKey().Equals(atk.PublicKey()) {
				v = w.Spare[1]
			}
			msg := &nodesTypes.MsgSend{FromAddress: chain.Addr(v), ToAddress: chain.Addr(atk), Amount: sdk.NewInt(12)}
			return noauthTx(msg, v, "send 12 from a spare key to attacker")
		}
	case "nodeEdit":
		idx := rapid.IntRange(0, len(w.Nodes)-1).Draw(rt, "node")
		v := w.Nodes[idx]
		if authorizedForNode(v) || !nodeExists(v) {
			msg := &nodesTypes.MsgSend{FromAddress: chain.Addr(w.Spare[1]), ToAddress: chain.Addr(atk), Amount: sdk.NewInt(9)}
			if atk.PublicKey().Equals(w.Spare[1].PublicKey()) {
				msg.FromAddress = chain.Addr(w.Spare[0])
				return noauthTx(msg, w.Spare[0], "send 9 from spare0 to attacker")
			}
			return noauthTx(msg, w.Spare[1], "send 9 from spare1 to attacker")
		}
		st := w.Spec.Nodes[idx]
		msg := &nodesTypes.MsgStake{PublicKey: v.PublicKey(), Chains: st.Chains, Value: sdk.NewInt(st.Stake + chain.StakeUnit), ServiceUrl: "https://evil.example:443", Output: chain.Addr(w.Outputs[idx])}
		if selfOrNo {
			// the attacker proposes itself as the new output address: it becomes a declared signer of the message
			msg.Output = chain.Addr(atk)
			return selfpayTx(msg, fmt.Sprintf("edit-stake %s proposing attacker as output", w.KeyName(v)))
		}
		return noauthTx(msg, v, fmt.Sprintf("edit-stake %s keeping output", w.KeyName(v)))
	case "appStake", "appUnstake":
		v := other(w.Apps, "app")
		if v == nil {
			v = w.Spare[0]
			if v.PublicKey().Equals(atk.PublicKey()) {
				v = w.Spare[1]
			}
		}
		if kind == "appStake" {
			msg := &appsTypes.MsgStake{PubKey: v.PublicKey(), Chains: []string{"0001"}, Value: sdk.NewInt(60_000_000)}
			return noauthTx(msg, v, fmt.Sprintf("app stake/edit of %s", w.KeyName(v)))
		}
		msg := &appsTypes.MsgBeginUnstake{Address: chain.Addr(v)}
		return noauthTx(msg, v, fmt.Sprintf("app begin-unstake of %s", w.KeyName(v)))
	case "appTransfer":
		// transfer of an application is authorized only by the CURRENT application key. The attacker has no staked
		// application unless it is one of the app keys: then target another app (it cannot name whose app moves: the
		// message moves the signer's own app), so use a non-app attacker only.
		if attackerHasApp {
			// the attacker owns an application: it may transfer ITS OWN application to a fresh key, but naming the key of
			// somebody else's application (staked or waiting to unstake) as the target must not touch that application's
			// record - the attacker's signature has no authority over it
			var others []appsTypes.Application
			for _, rec := range n.App.VerifAppsKeeper().GetAllApplications(n.Ctx()) {
				if !rec.Address.Equals(chain.Addr(atk)) {
					others = append(others, rec)
				}
			}
			if len(others) > 0 && (appOwnerAttack || rapid.Bool().Draw(rt, "ontoExistingApp")) {
				tgt := others[rapid.IntRange(0, len(others)-1).Draw(rt, "targetApp")]
				if rapid.Bool().Draw(rt, "editInsteadOfTransfer") {
					// ... or the owner of one application signs an ordinary stake / edit-stake message (value, chains) that names
					// the OTHER application's key: it has no authority over that application
					c.Label("app-owner-edits-another-application")
					val := tgt.StakedTokens.Add(sdk.NewInt(int64(rapid.SampledFrom([]int{0, 1, 1_000_000}).Draw(rt, "editBump"))))
					msg := &appsTypes.MsgStake{PubKey: tgt.PublicKey, Chains: append([]string{}, tgt.Chains...), Value: val}
					return selfpayTx(msg, fmt.Sprintf("app edit-stake of existing application %s (value %s) signed by the owner of another application", tgt.Address.String()[:8], val))
				}
				c.Label("app-transfer-onto-existing-application")
				if tgt.IsUnstaking() {
					c.Label("app-transfer-onto-unstaking-application")
				}
				msg := &appsTypes.MsgStake{PubKey: tgt.PublicKey, Chains: nil, Value: sdk.ZeroInt()}
				return selfpayTx(msg, fmt.Sprintf("app transfer of the attacker's application onto the key of existing application %s (status %d)", tgt.Address.String()[:8], tgt.Status))
			}
			v := w.Spare[2]
			if v.PublicKey().Equals(atk.PublicKey()) {
				v = w.Spare[1]
			}
			msg := &nodesTypes.MsgSend{FromAddress: chain.Addr(v), ToAddress: chain.Addr(atk), Amount: sdk.NewInt(11)}
			return noauthTx(msg, v, "send 11 from a spare key to attacker")
		}
		// attacker (no app) tries to take over: MsgStake{PubKey: attacker's key, value 0, no chains} signed by attacker
		msg := &appsTypes.MsgStake{PubKey: atk.PublicKey(), Chains: nil, Value: sdk.ZeroInt()}
		return selfpayTx(msg, "app transfer onto attacker's key signed by attacker (owns no application)")
	case "changeParam":
		pc := chain.GenParamChange(rt)
		val, _ := app.Codec().MarshalJSON(pc.Val)
		if atk.PublicKey().Equals(w.Spec.DAOOwner.PublicKey()) {
			msg := &nodesTypes.MsgSend{FromAddress: chain.Addr(w.Spare[0]), ToAddress: chain.Addr(atk), Amount: sdk.NewInt(13)}
			return noauthTx(msg, w.Spare[0], "send 13 from spare0 to attacker")
		}
		if selfOrNo {
			return selfpayTx(&govTypes.MsgChangeParam{FromAddress: chain.Addr(atk), ParamKey: pc.Key, ParamVal: val}, fmt.Sprintf("change-param %s=%v from attacker", pc.Key, pc.Val))
		}
		return noauthTx(&govTypes.MsgChangeParam{FromAddress: chain.Addr(w.Spec.DAOOwner), ParamKey: pc.Key, ParamVal: val}, w.Spec.DAOOwner, fmt.Sprintf("change-param %s=%v from owner address", pc.Key, pc.Val))
	case "dao", "upgrade":
		if atk.PublicKey().Equals(w.Spec.DAOOwner.PublicKey()) {
			msg := &nodesTypes.MsgSend{FromAddress: chain.Addr(w.Spare[1]), ToAddress: chain.Addr(atk), Amount: sdk.NewInt(15)}
			return noauthTx(msg, w.Spare[1], "send 15 from spare1 to attacker")
		}
		from := chain.Addr(w.Spec.DAOOwner)
		if selfOrNo {
			from = chain.Addr(atk)
		}
		var msg sdk.ProtoMsg
		var d string
		if kind == "dao" {
			action := rapid.SampledFrom([]string{govTypes.DAOTransferString, govTypes.DAOBurnString}).Draw(rt, "action")
			m := &govTypes.MsgDAOTransfer{FromAddress: from, Amount: sdk.NewInt(int64(rapid.IntRange(1, 4_000_000).Draw(rt, "amt"))), Action: action}
			if action == govTypes.DAOTransferString {
				m.ToAddress = chain.Addr(atk)
			}
			msg, d = m, fmt.Sprintf("dao %s %s", action, m.Amount)
		} else {
			msg = &govTypes.MsgUpgrade{Address: from, Upgrade: govTypes.Upgrade{Height: 1, Version: "FEATURE", Features: []string{"EVIL:9"}}}
			d = "feature upgrade EVIL:9"
		}
		if selfOrNo {
			return selfpayTx(msg, d+" from attacker")
		}
		return noauthTx(msg, w.Spec.DAOOwner, d+" from owner address")
	default: // multisigSend
		c.Label("multisig-attack")
		from := chain.MultiAddr(w.Multi)
		msg := &nodesTypes.MsgSend{FromAddress: from, ToAddress: chain.Addr(atk), Amount: sdk.NewInt(int64(rapid.IntRange(1, 1000000).Draw(rt, "amt")))}
		members := append([]crypto.PrivateKey{}, w.MultiMembers...)
		variant := rapid.SampledFrom([]string{"missingLast", "missingFirst", "reversed", "oneForeign", "oneOverOtherMsg", "duplicatedFirst", "otherChain", "extraSignature"}).Draw(rt, "multiVariant")
		chainID := w.Spec.ChainID
		var tx []byte
		switch variant {
		case "missingLast":
			tx = chain.SignMultiTx(chainID, msg, fee, "", e, w.Multi, members[:len(members)-1], nil, nil)
		case "missingFirst":
			tx = chain.SignMultiTx(chainID, msg, fee, "", e, w.Multi, members[1:], nil, nil)
		case "reversed":
			for i, j := 0, len(members)-1; i < j; i, j = i+1, j-1 {
				members[i], members[j] = members[j], members[i]
			}
			tx = chain.SignMultiTx(chainID, msg, fee, "", e, w.Multi, members, nil, nil)
		case "oneForeign":
			members[rapid.IntRange(0, len(members)-1).Draw(rt, "which")] = atk
			tx = chain.SignMultiTx(chainID, msg, fee, "", e, w.Multi, members, nil, nil)
		case "duplicatedFirst":
			for i := range members {
				members[i] = w.MultiMembers[0]
			}
			tx = chain.SignMultiTx(chainID, msg, fee, "", e, w.Multi, members, nil, nil)
		case "otherChain":
			tx = chain.SignMultiTx("another-chain", msg, fee, "", e, w.Multi, members, nil, nil)
			c.Label("wrong-chain")
		case "extraSignature":
			tx = chain.SignMultiTx(chainID, msg, fee, "", e, w.Multi, append(members, atk), nil, nil)
		default:
			tx = chain.SignMultiTx(chainID, msg, fee, "", e, w.Multi, members, &nodesTypes.MsgSend{FromAddress: from, ToAddress: chain.Addr(atk), Amount: msg.Amount.Add(sdk.OneInt())}, nil)
		}
		return attack{desc: fmt.Sprintf("send %s from multisig to attacker [noauth:multisig-%s attacker=%s]", msg.Amount, variant, w.KeyName(atk)), tx: tx, class: "noauth", payer: from}
	}
}
