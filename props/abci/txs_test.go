package abci

import (
	"fmt"

	"github.com/pokt-network/pocket-core/crypto"
	nodesTypes "github.com/pokt-network/pocket-core/x/nodes/types"

	"verif/harness/chain"
)

func unjailTx(w *chain.World, op, signer crypto.PrivateKey) chain.GenTx {
	msg := &nodesTypes.MsgUnjail{ValidatorAddr: chain.Addr(op), Signer: chain.Addr(signer)}
	e := w.NextEntropy()
	return chain.GenTx{Desc: fmt.Sprintf("nodeUnjail %s by %s e=%d", w.KeyName(op), w.KeyName(signer), e), Kind: "nodeUnjail", Msg: msg, Signer: signer,
		Bytes: chain.SignTx(w.Spec.ChainID, msg, chain.DefaultFee, "", e, signer)}
}
