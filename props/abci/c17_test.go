package abci

import (
	"encoding/hex"
	"fmt"
	"testing"

	abci "github.com/tendermint/tendermint/abci/types"
	tmtypes "github.com/tendermint/tendermint/types"

	"pgregory.net/rapid"

	sdk "github.com/pokt-network/pocket-core/types"
	govTypes "github.com/pokt-network/pocket-core/x/gov/types"

	"verif/harness"
	"verif/harness/chain"
)

// C17: at every committed height the recorded total supply equals the sum of all balances (module accounts
// included); the supply changes only through minting of relay rewards and through burns.
//
// This check drives generated full-feature histories WITHOUT relay proofs (those are covered with the relay
// factory in C32/C26): so the supply may never increase, and may decrease only in a block that contains a
// successful DAO burn, double-sign evidence, a downtime slash (a validator became jailed / lost stake) or a
// replay/challenge burn.

func sumBalances(acc map[string]sdk.Coins) sdk.BigInt {
	s := sdk.ZeroInt()
	for _, c := range acc {
		s = s.Add(c.AmountOf(sdk.DefaultStakeDenom))
	}
	return s
}

func TestC17(t *testing.T) {
	harness.Check(t, "C17",
		"generated world + history of 6-22 blocks with sends, node/app stake, edit-stake, unstake to maturity, app transfer, param changes, DAO transfer/burn, missed "+
			"signatures (downtime slash + jail, force unstake) from a genesis whose supply matches its balances; after every Commit: stored supply == sum of the balances of every "+
			"account in the auth store; in a third of the blocks a relay reward is minted the way the proof handler does it; the supply increases only in such a block and (without a reward in the block) decreases only in a block with a successful DAO burn or a slash; a DAO burn "+
			"without slash in the block decreases it by exactly the burned amounts. non-trivial = history containing a supply decrease (burn or slash) and at least one stake/unstake",
		map[string]float64{"supply-decreased": 0.3, "dao-burn-ok": 0.15, "slash-or-jail": 0.1},
		func(rt *rapid.T, c *harness.Case) {
			w := chain.GenWorld(rt)
			h := w.GenHistory(rt, 8, 24)
			c.Opf("%s", w.Describe())
			// bias: a downtime scenario (highest-stake node absent for the first 7 blocks => slash + jail) and double-sign evidence
			victim := 0
			for i, nd := range w.Spec.Nodes {
				if nd.Stake > w.Spec.Nodes[victim].Stake {
					victim = i
				}
			}
			vaddr := chain.Addr(w.Nodes[victim])
			if rapid.Bool().Draw(rt, "downtimeScenario") {
				for i := 0; i < 14 && i < len(h.Blocks); i++ {
					h.Blocks[i].Absent = map[string]bool{hex.EncodeToString(vaddr): true}
				}
			}
			if rapid.IntRange(0, 2).Draw(rt, "doubleSign") == 0 {
				at := rapid.IntRange(1, len(h.Blocks)-1).Draw(rt, "evidenceBlock")
				who := chain.Addr(w.Nodes[rapid.IntRange(0, len(w.Nodes)-1).Draw(rt, "evidenceNode")])
				// height of the infraction = the previous block; power as Tendermint would report it
				h.Blocks[at].Evidence = []abci.Evidence{{Type: tmtypes.ABCIEvidenceTypeDuplicateVote, Validator: abci.Validator{Address: who, Power: 15000},
					Height: int64(3 + at), Time: w.Spec.GenesisTime, TotalVotingPower: 100000}}
			}
			n := chain.NewNode(&w.Spec)
			check := func(where string) sdk.BigInt {
				sup := n.Supply().AmountOf(sdk.DefaultStakeDenom)
				sum := sumBalances(n.Accounts())
				if !sup.Equal(sum) {
					c.Violation("C17/supply-differs-from-sum-of-balances", "%s: stored supply %s != sum of balances %s (diff %s)", where, sup, sum, sup.Sub(sum))
				}
				return sup
			}
			prev := check("after warm-up")
			nk := n.App.VerifNodesKeeper()
			jailedBefore := map[string]bool{}
			stakeBefore := map[string]sdk.BigInt{}
			snap := func() {
				jailedBefore = map[string]bool{}
				stakeBefore = map[string]sdk.BigInt{}
				for _, v := range nk.GetAllValidators(n.Ctx()) {
					jailedBefore[v.Address.String()] = v.Jailed
					stakeBefore[v.Address.String()] = v.StakedTokens
				}
			}
			snap()
			decreased, staked := false, false
			for i, b := range h.Blocks {
				// in a third of the blocks a relay reward is minted the way the proof handler does it (servicer = a staked node,
				// 1 to 100000 relays): the only event that may make the supply grow
				rewarded := false
				var r chain.BlockResult
				if vals := nk.GetAllValidators(n.Ctx()); len(vals) > 0 && rapid.SampledFrom([]int{0, 0, 1}).Draw(rt, "relayReward") == 1 {
					v := vals[rapid.IntRange(0, len(vals)-1).Draw(rt, "rewardedNode")]
					relays := int64(rapid.SampledFrom([]int{1, 7, 100, 12345, 100000}).Draw(rt, "rewardedRelays"))
					n.BeginBlock(b)
					if v.IsStaked() && len(v.Chains) > 0 {
						nk.RewardForRelaysPerChain(n.Ctx(), v.Chains[0], sdk.NewInt(relays), v.Address)
						rewarded = true
						c.Label("relay-reward-minted")
						c.Opf("relay reward: %d relays on %s for %s", relays, v.Chains[0], v.Address.String()[:8])
					}
					for _, tx := range b.Txs {
						n.DeliverTx(tx)
					}
					r = n.Commit(n.EndBlock())
				} else {
					r = n.RunBlock(b)
				}
				c.Opf("%s", chain.DescribeBlock(b, h.Txs[i]))
				burned := sdk.ZeroInt()
				for j, tx := range r.Txs {
					g := h.Txs[i][j]
					if tx.Code == 0 && (g.Kind == "nodeStake" || g.Kind == "nodeUnstake" || g.Kind == "appStake" || g.Kind == "appUnstake") {
						staked = true
					}
					if m, ok := g.Msg.(*govTypes.MsgDAOTransfer); ok && tx.Code == 0 && m.Action == govTypes.DAOBurnString {
						burned = burned.Add(m.Amount)
						c.Label("dao-burn-ok")
					}
				}
				slashed := len(b.Evidence) > 0
				for _, v := range nk.GetAllValidators(n.Ctx()) {
					a := v.Address.String()
					if st, ok := stakeBefore[a]; ok && v.StakedTokens.LT(st) {
						slashed = true
					}
					if was, ok := jailedBefore[a]; ok && !was && v.Jailed {
						slashed = true
					}
				}
				present := map[string]bool{}
				for _, v := range nk.GetAllValidators(n.Ctx()) {
					present[v.Address.String()] = true
				}
				for a := range stakeBefore {
					if !present[a] {
						// the record matured and was paid out in this block: a slash earlier in the same block is not observable
						// from records, so only the direction of the supply change is judged for this block
						slashed = true
						c.Label("unstake-completed")
					}
				}
				// a validator that was slashed and removed in the same block leaves no record: detect by disappearance of a jailed/unstaking one is not
				// needed here — without a slash indicator the equality below is exact, with one only the direction is judged.
				if slashed {
					c.Label("slash-or-jail")
				}
				cur := check(fmt.Sprintf("after block %d (height %d)", i, r.Height))
				delta := cur.Sub(prev)
				if delta.IsPositive() && !rewarded {
					c.Violation("C17/supply-increased-without-relay-reward", "height %d: supply grew by %s in a block without any relay proof: %s", r.Height, delta, chain.DescribeBlock(b, h.Txs[i]))
				}
				if delta.IsNegative() {
					decreased = true
					c.Label("supply-decreased")
					if !slashed && !rewarded && !delta.Neg().Equal(burned) {
						c.Violation("C17/supply-decrease-not-explained-by-burns", "height %d: supply fell by %s, successful DAO burns in the block total %s, no slash happened: %s", r.Height, delta.Neg(), burned, chain.DescribeBlock(b, h.Txs[i]))
					}
					if slashed && !rewarded && delta.Neg().LT(burned) {
						c.Violation("C17/supply-decrease-smaller-than-burns", "height %d: supply fell by %s but DAO burns alone total %s", r.Height, delta.Neg(), burned)
					}
				} else if !burned.IsZero() && !rewarded {
					c.Violation("C17/dao-burn-did-not-reduce-supply", "height %d: successful DAO burns of %s but supply delta is %s", r.Height, burned, delta)
				}
				prev = cur
				snap()
			}
			if decreased && staked {
				c.NonTrivial()
			}
		})
}
