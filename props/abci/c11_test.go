package abci

import (
	"bytes"
	"fmt"
	"sort"
	"testing"

	abci "github.com/tendermint/tendermint/abci/types"
	"pgregory.net/rapid"

	"github.com/pokt-network/pocket-core/app"
	"github.com/pokt-network/pocket-core/codec"
	appsTypes "github.com/pokt-network/pocket-core/x/apps/types"
	nodesTypes "github.com/pokt-network/pocket-core/x/nodes/types"
	pocketTypes "github.com/pokt-network/pocket-core/x/pocketcore/types"

	"verif/harness"
	"verif/harness/chain"
)

// C11: CheckTx, simulation and queries never alter consensus state.
//
// Differential: node A executes history H with generated "noise" calls interleaved at every point between the
// ABCI block calls; node B executes H alone. Transcripts (app hash, per-tx code/codespace/data, validator
// updates) and the final dump of every persistent substore must be equal. Inside A, the state digest is also
// compared immediately before/after each noise call issued between blocks (localises the culprit).

type noiseOp struct {
	Kind   string // checktx | simulate | store | appq | custom | dispatch
	Desc   string
	Tx     []byte
	Path   string
	Data   []byte
	Height int64 // offset code: see resolveHeight
	Prove  bool
	Sub    string // app query name
	Target int
}

// noise slots: slot 0 = before BeginBlock (i.e. after the previous Commit), slot i+1 = after DeliverTx i,
// last slot = after EndBlock and before Commit.
type noisePlan [][][]noiseOp // [block][slot][]op

var appQueries = []string{"balance", "account", "accounts", "nodes", "node", "nodeParams", "signingInfo", "signingInfos",
	"totalNodeCoins", "daoBalance", "daoOwner", "upgrade", "acl", "allParams", "param", "apps", "app", "totalAppCoins", "appParams",
	"valByChain", "supportedChains", "claims", "pocketParams"}

func genNoiseOp(rt *rapid.T, w *chain.World) noiseOp {
	kind := rapid.SampledFrom([]string{"checktx", "simulate", "simulate", "store", "appq", "appq", "custom", "dispatch"}).Draw(rt, "noiseKind")
	hsel := int64(rapid.IntRange(0, 5).Draw(rt, "heightSel"))
	switch kind {
	case "checktx", "simulate":
		g := w.GenAnyTx(rt)
		tx := g.Bytes
		variant := rapid.SampledFrom([]string{"signed", "signed", "garbageSig", "truncated"}).Draw(rt, "txVariant")
		switch variant {
		case "garbageSig":
			fee := chain.DefaultFee
			tx = chain.SignTxOpts(chain.TxOpts{ChainID: w.Spec.ChainID, Msg: g.Msg, Fee: coins(fee), Entropy: w.NextEntropy(), Signer: g.Signer,
				IncludePubKey: true, SigOverride: bytes.Repeat([]byte{0x42}, 64)})
		case "truncated":
			if len(tx) > 4 {
				tx = tx[:len(tx)/2]
			}
		}
		return noiseOp{Kind: kind, Desc: fmt.Sprintf("%s(%s;%s)", kind, g.Desc, variant), Tx: tx, Height: hsel}
	case "store":
		name := rapid.SampledFrom([]string{"auth", "pos", "application", "pocketcore", "gov", "main"}).Draw(rt, "storeName")
		sub := rapid.SampledFrom([]string{"key", "subspace"}).Draw(rt, "storeSub")
		key := []byte{byte(rapid.IntRange(0, 0x30).Draw(rt, "keyPrefix"))}
		if sub == "key" && rapid.Bool().Draw(rt, "accountKey") {
			key = append([]byte{0x01}, chain.Addr(w.AllFunded()[rapid.IntRange(0, len(w.AllFunded())-1).Draw(rt, "who")])...)
		}
		prove := sub == "key" && rapid.Bool().Draw(rt, "prove")
		return noiseOp{Kind: "store", Desc: fmt.Sprintf("store(/%s/%s %x prove=%v h%d)", name, sub, key, prove, hsel), Path: "/store/" + name + "/" + sub, Data: key, Prove: prove, Height: hsel}
	case "appq":
		q := rapid.SampledFrom(appQueries).Draw(rt, "appQuery")
		if rapid.IntRange(0, 3).Draw(rt, "govQuery") == 1 {
			// the stored upgrade / parameters at a past height (what a node derives its activation schedule from)
			q = rapid.SampledFrom([]string{"upgrade", "allParams"}).Draw(rt, "govQueryKind")
		}
		t := rapid.IntRange(0, 40).Draw(rt, "target")
		return noiseOp{Kind: "appq", Sub: q, Target: t, Height: hsel, Desc: fmt.Sprintf("appq(%s,t%d,h%d)", q, t, hsel)}
	case "custom":
		type cq struct {
			path string
			data func() []byte
		}
		who := w.AllFunded()[rapid.IntRange(0, len(w.AllFunded())-1).Draw(rt, "who")]
		cqs := []cq{
			{"custom/pos/validators", func() []byte {
				return app.Codec().MustMarshalJSON(nodesTypes.QueryValidatorsParams{Page: 1, Limit: 100})
			}},
			{"custom/pos/validator", func() []byte {
				return app.Codec().MustMarshalJSON(nodesTypes.QueryValidatorParams{Address: chain.Addr(who)})
			}},
			{"custom/pos/account_balance", func() []byte {
				return app.Codec().MustMarshalJSON(nodesTypes.QueryAccountBalanceParams{Address: chain.Addr(who)})
			}},
			{"custom/pos/parameters", func() []byte { return nil }},
			{"custom/pos/total_supply", func() []byte { return nil }},
			{"custom/pos/stakedPool", func() []byte { return nil }},
			{"custom/application/applications", func() []byte {
				return app.Codec().MustMarshalJSON(appsTypes.QueryApplicationsWithOpts{Page: 1, Limit: 100})
			}},
			{"custom/application/application", func() []byte {
				return app.Codec().MustMarshalJSON(appsTypes.QueryAppParams{Address: chain.Addr(who)})
			}},
			{"custom/application/parameters", func() []byte { return nil }},
			{"custom/pocketcore/parameters", func() []byte { return nil }},
			{"custom/pocketcore/supportedBlockchains", func() []byte { return nil }},
			{"custom/gov/acl", func() []byte { return nil }},
			{"custom/gov/dao", func() []byte { return nil }},
			{"custom/gov/upgrade", func() []byte { return nil }},
			{"custom/gov/daoOwner", func() []byte { return nil }},
			{"custom/nosuchroute/x", func() []byte { return []byte("junk") }},
		}
		c := cqs[rapid.IntRange(0, len(cqs)-1).Draw(rt, "customQuery")]
		return noiseOp{Kind: "custom", Path: c.path, Data: c.data(), Height: hsel, Desc: fmt.Sprintf("custom(%s,h%d)", c.path, hsel)}
	default:
		t := rapid.IntRange(0, 10).Draw(rt, "target")
		return noiseOp{Kind: "dispatch", Target: t, Height: hsel, Desc: fmt.Sprintf("dispatch(app%d,h%d)", t, hsel)}
	}
}

// resolveHeight maps the selector to a concrete height relative to the node's last committed height.
func resolveHeight(sel int64, latest int64) int64 {
	switch sel {
	case 0:
		return 0 // "latest" as clients send it
	case 1:
		return latest
	case 2:
		if latest > 1 {
			return latest - 1
		}
		return latest
	case 3:
		if latest > 3 {
			return 1 + (latest*7)%(latest-1) // some retained past height
		}
		return 1
	case 4:
		return latest + 5 // not yet existing
	default:
		return 2 // an early height (before the feature activations)
	}
}

func runNoise(n *chain.Node, w *chain.World, op noiseOp) (panicked bool) {
	defer func() {
		if r := recover(); r != nil {
			panicked = true
		}
	}()
	latest := n.App.LastBlockHeight()
	h := resolveHeight(op.Height, latest)
	funded := w.AllFunded()
	addr := chain.Addr(funded[op.Target%len(funded)]).String()
	switch op.Kind {
	case "checktx":
		n.App.CheckTx(abci.RequestCheckTx{Tx: op.Tx})
	case "simulate":
		n.App.Query(abci.RequestQuery{Path: "/app/simulate", Data: op.Tx, Height: h})
	case "store":
		n.App.Query(abci.RequestQuery{Path: op.Path, Data: op.Data, Height: h, Prove: op.Prove})
	case "custom":
		n.App.Query(abci.RequestQuery{Path: op.Path, Data: op.Data, Height: h})
	case "dispatch":
		apps := w.Apps
		k := apps[op.Target%len(apps)]
		bps := w.Spec.NodeParams.SessionBlockFrequency
		sh := latest - (latest-1)%bps
		if sh < 1 {
			sh = 1
		}
		_, _ = n.App.HandleDispatch(pocketTypes.SessionHeader{ApplicationPubKey: k.PublicKey().RawString(), Chain: chain.Chains[op.Target%2], SessionBlockHeight: sh})
	case "appq":
		a := *n.App
		switch op.Sub {
		case "balance":
			_, _ = a.QueryBalance(addr, h)
		case "account":
			_, _ = a.QueryAccount(addr, h)
		case "accounts":
			_, _ = a.QueryAccounts(h, 1, 50)
		case "nodes":
			_, _ = a.QueryNodes(h, nodesTypes.QueryValidatorsParams{Page: 1, Limit: 50})
		case "node":
			_, _ = a.QueryNode(addr, h)
		case "nodeParams":
			_, _ = a.QueryNodeParams(h)
		case "signingInfo":
			_, _ = a.QuerySigningInfo(h, addr)
		case "signingInfos":
			_, _ = a.QuerySigningInfos("", h, 1, 50)
		case "totalNodeCoins":
			_, _, _ = a.QueryTotalNodeCoins(h)
		case "daoBalance":
			_, _ = a.QueryDaoBalance(h)
		case "daoOwner":
			_, _ = a.QueryDaoOwner(h)
		case "upgrade":
			_, _ = a.QueryUpgrade(h)
		case "acl":
			_, _ = a.QueryACL(h)
		case "allParams":
			_, _ = a.QueryAllParams(h)
		case "param":
			_, _ = a.QueryParam(h, chain.ACLKeys[op.Target%len(chain.ACLKeys)])
		case "apps":
			_, _ = a.QueryApps(h, appsTypes.QueryApplicationsWithOpts{Page: 1, Limit: 50})
		case "app":
			_, _ = a.QueryApp(addr, h)
		case "totalAppCoins":
			_, _ = a.QueryTotalAppCoins(h)
		case "appParams":
			_, _ = a.QueryAppParams(h)
		case "valByChain":
			_, _ = a.QueryValidatorByChain(h, chain.Chains[op.Target%2])
		case "supportedChains":
			_, _ = a.QueryPocketSupportedBlockchains(h)
		case "claims":
			_, _ = a.QueryClaims("", h, 1, 50)
		case "pocketParams":
			_, _ = a.QueryPocketParams(h)
		}
	}
	return false
}

func TestC11(t *testing.T) {
	harness.Check(t, "C11",
		"generated world + block history (4-14 blocks of generated txs/votes) executed twice: node A with generated noise (CheckTx, /app/simulate of signed / "+
			"garbage-signed / truncated txs of every message kind, /store key+subspace queries with and without proof, every custom ABCI query route, the "+
			"app's RPC query methods and dispatch, at heights {0,latest,latest-1,past,future,2}) interleaved at every slot between ABCI calls; node B "+
			"without. Oracle: equal app hash + tx results + validator updates per block and equal final substore dumps; plus state digest unchanged "+
			"across each noise call issued between blocks. non-trivial = noise holds a simulate/CheckTx of a well-signed state-changing tx or a query at a past height, "+
			"followed by at least one later block",
		map[string]float64{"simulate": 0.5, "checktx": 0.3, "past-height-query": 0.5, "noise-inside-block": 0.5},
		func(rt *rapid.T, c *harness.Case) {
			w := chain.GenWorld(rt)
			w.GovUpgrades = true
			h := w.GenHistory(rt, 4, 14)
			c.Opf("%s", w.Describe())
			plan := make(noisePlan, len(h.Blocks))
			interesting := false
			for b := range h.Blocks {
				slots := len(h.Blocks[b].Txs) + 2
				plan[b] = make([][]noiseOp, slots)
				for s := 0; s < slots; s++ {
					k := rapid.SampledFrom([]int{0, 0, 1, 2}).Draw(rt, "nNoise")
					for i := 0; i < k; i++ {
						op := genNoiseOp(rt, w)
						plan[b][s] = append(plan[b][s], op)
						c.Label(op.Kind)
						if s > 0 {
							c.Label("noise-inside-block")
						}
						if op.Kind != "checktx" && op.Kind != "simulate" && op.Height >= 2 && op.Height != 4 {
							c.Label("past-height-query")
							if b < len(h.Blocks)-1 {
								interesting = true
							}
						}
						if (op.Kind == "checktx" || op.Kind == "simulate") && b < len(h.Blocks)-1 {
							interesting = true
						}
					}
				}
			}
			for b, d := range h.Describe() {
				s := d
				for slot, ops := range plan[b] {
					for _, op := range ops {
						s += fmt.Sprintf(" @%d:%s", slot, op.Desc)
					}
				}
				c.Opf("%s", s)
			}
			if interesting {
				c.NonTrivial()
			}

			// node B: the reference run without noise
			nB := chain.NewNode(&w.Spec)
			refT := h.Run(nB)
			refDump := nB.Dump()

			// node A: with noise
			nA := chain.NewNode(&w.Spec)
			noiseCalls, panics := 0, 0
			for b, blk := range h.Blocks {
				do := func(slot int, between bool) {
					for _, op := range plan[b][slot] {
						var before string
						if between {
							before = nA.DumpDigest()
						}
						// the activation schedule (upgrade heights and feature heights the gates of every later block read) is
						// process state derived from the chain: it belongs to "the state the next block builds on"
						schedBefore := activationSchedule()
						if runNoise(nA, w, op) {
							panics++
						}
						noiseCalls++
						if schedAfter := activationSchedule(); schedAfter != schedBefore {
							c.Violation("C11/"+op.Kind+"/activation-schedule-changed-by-call", "noise call %s (latest height %d) changed the node's activation schedule: %s -> %s", op.Desc, nA.Height, schedBefore, schedAfter)
						}
						if between {
							if after := nA.DumpDigest(); after != before {
								c.Violation("C11/"+op.Kind+"/state-digest-changed-by-call", "noise call %s issued after commit of height %d changed the persistent state (digest %s -> %s)", op.Desc, nA.Height, before[:12], after[:12])
							}
						}
					}
				}
				do(0, true)
				nA.BeginBlock(blk)
				for i, tx := range blk.Txs {
					nA.DeliverTx(tx)
					do(i+1, false)
				}
				eb := nA.EndBlock()
				do(len(blk.Txs)+1, false)
				got := nA.Commit(eb)
				if got.String() != refT[b].String() {
					c.Violation("C11/block-result-differs-with-noise", "block %d (height %d) differs:\n with noise: %s\n without:    %s", b, got.Height, got, refT[b])
				}
			}
			if d := chain.DiffDumps(nA.Dump(), refDump); d != "" {
				c.Violation("C11/final-state-differs-with-noise", "final substore dumps differ: %s", d)
			}
			c.AddExtra("noise_calls", noiseCalls)
			c.AddExtra("noise_calls_panicked", panics)
		})
}

// activationSchedule renders the process-global upgrade / feature activation heights.
func activationSchedule() string {
	keys := make([]string, 0, len(codec.UpgradeFeatureMap))
	for k := range codec.UpgradeFeatureMap {
		keys = append(keys, k)
	}
	sort.Strings(keys)
	out := fmt.Sprintf("upgrade=%d old=%d", codec.UpgradeHeight, codec.OldUpgradeHeight)
	for _, k := range keys {
		out += fmt.Sprintf(" %s:%d", k, codec.UpgradeFeatureMap[k])
	}
	return out
}
