package appsmod

import (
	"bytes"
	"fmt"
	"testing"
	"time"

	"pgregory.net/rapid"

	"github.com/pokt-network/pocket-core/codec"
	"github.com/pokt-network/pocket-core/crypto"
	sdk "github.com/pokt-network/pocket-core/types"
	appsTypes "github.com/pokt-network/pocket-core/x/apps/types"
	nodesTypes "github.com/pokt-network/pocket-core/x/nodes/types"

	"verif/harness"
	"verif/harness/chain"
)

// C23: edit-stake immutability rules for nodes and applications.

const unit = chain.StakeUnit

type nodeWorld struct {
	spec      chain.Spec
	dir       *keyDir
	ops       []crypto.PrivateKey // operators staked at genesis (custodial: genesis records carry no output address)
	spares    []crypto.PrivateKey // funded keys that stake as nodes inside the history
	outs      []crypto.PrivateKey // funded keys used as output addresses
	strangers []crypto.PrivateKey
	apps      []crypto.PrivateKey
	delegs    []string
	victim    crypto.PrivateKey // operator that never signs blocks (gets jailed); nil = none
	dao       crypto.PrivateKey
	staggered bool
	raiseCeil bool // a gov tx raises the stake-weight ceiling so that the VEDIT bin rule bites
	entropy   int64
}

func (w *nodeWorld) nextEntropy() int64 { w.entropy++; return w.entropy }

func genNodeWorld(rt *rapid.T) *nodeWorld {
	w := &nodeWorld{spec: chain.DefaultSpec(), dir: newKeyDir()}
	s := &w.spec
	fund := func(k crypto.PrivateKey, bal int64) {
		s.Accounts = append(s.Accounts, chain.AccountSpec{Key: k, Balance: bal})
	}
	nn := 3 + uniformN(rt, "nNodes", 3)
	for i := 0; i < nn; i++ {
		k := w.dir.add(fmt.Sprintf("node%d", i))
		fund(k, pickI64(rt, "opBal", 400_000_000_000, 400_000_000_000, 400_000_000_000, 30_000))
		stake := unit*int64(1+uniformN(rt, "bins", 3)) + pickI64(rt, "extra", 0, 0, 1_000_000)
		nch := 1 + uniformN(rt, "nChains", 2)
		s.Nodes = append(s.Nodes, chain.NodeSpec{Key: k, Stake: stake, Chains: append([]string{}, chain.Chains[:nch]...)})
		w.ops = append(w.ops, k)
	}
	for i := 0; i < 2; i++ {
		k := w.dir.add(fmt.Sprintf("spare%d", i))
		fund(k, 400_000_000_000)
		w.spares = append(w.spares, k)
	}
	for i := 0; i < 4; i++ {
		k := w.dir.add(fmt.Sprintf("out%d", i))
		fund(k, pickI64(rt, "outBal", 400_000_000_000, 400_000_000_000, 400_000_000_000, 30_000))
		w.outs = append(w.outs, k)
	}
	for i := 0; i < 2; i++ {
		k := w.dir.add(fmt.Sprintf("stranger%d", i))
		fund(k, 400_000_000_000)
		w.strangers = append(w.strangers, k)
	}
	for i := 0; i < 2; i++ {
		k := w.dir.add(fmt.Sprintf("app%d", i))
		fund(k, 1_000_000_000)
		s.Apps = append(s.Apps, chain.AppSpec{Key: k, Stake: 2_000_000 + int64(i)*3_000_000, Chains: []string{"0001"}})
		w.apps = append(w.apps, k)
	}
	for i := 0; i < 3; i++ {
		w.delegs = append(w.delegs, chain.Addr(w.dir.add(fmt.Sprintf("deleg%d", i))).String())
	}
	w.dao = s.DAOOwner
	w.dir.names[hx(chain.Addr(w.dao))] = "dao"
	fund(w.dao, 1_000_000_000)
	s.AppParams.MaxApplications = 5
	s.NodeParams.MaxValidators = 10
	s.NodeParams.SessionBlockFrequency = pickI64(rt, "blocksPerSession", 3, 4, 6)
	s.NodeParams.UnstakingTime = time.Duration(pickI64(rt, "unstakeSecs", 5, 60, 600)) * time.Second
	s.AppParams.UnstakingTime = s.NodeParams.UnstakingTime
	s.NodeParams.MinSignedPerWindow = sdk.NewDecWithPrec(pickI64(rt, "minSigned", 9, 9, 6), 1)
	s.NodeParams.MaxJailedBlocks = pickI64(rt, "maxJailedBlocks", 3, 40, 40)
	s.NodeParams.MaximumChains = pickI64(rt, "maxChains", 2, 3, 15)
	if uniformN(rt, "hasVictim", 10) < 7 {
		w.victim = w.ops[uniformN(rt, "victim", nn)]
	}
	w.staggered = uniformN(rt, "staggered", 10) < 6
	if w.staggered {
		ncust := pickI64(rt, "NCUST", 3, 5, 6, 7, 8, 9, 10)
		feats := map[string]int64{codec.NonCustodialUpdateKey: ncust}
		if uniformN(rt, "oeditNever", 6) == 0 {
			feats[codec.OutputAddressEditKey] = 0
		} else {
			feats[codec.OutputAddressEditKey] = ncust + int64(uniformN(rt, "oeditDelay", 8))
		}
		if uniformN(rt, "rdNever", 6) == 0 {
			feats[codec.RewardDelegatorsKey] = 0
		} else {
			feats[codec.RewardDelegatorsKey] = ncust + int64(uniformN(rt, "rdDelay", 8))
		}
		feats[codec.VEDITKey] = pickI64(rt, "VEDIT", 0, 3, 6, 9, 12)
		setFeatures(s, feats)
	}
	w.raiseCeil = uniformN(rt, "raiseCeiling", 3) == 0
	// The harness sets the output addresses of genesis nodes with an edit-stake block after its 3 warm-up blocks
	// (genesis records are stored in the legacy form). That needs NCUST to be active at height 4, so it is used only
	// in half of the non-staggered worlds (with separate output keys); otherwise the genesis records stay custodial
	// (nil output) and the check runs the third warm-up block itself.
	if !w.staggered && uniformN(rt, "harnessOutputs", 2) == 0 {
		for i := range s.Nodes {
			if uniformN(rt, "sepOut", 3) > 0 {
				s.Nodes[i].Output = w.outs[i%len(w.outs)]
			}
		}
	} else {
		s.Warmup = 2
	}
	return w
}

func (w *nodeWorld) describe() string {
	s := &w.spec
	d := "world{nodes=["
	for _, n := range s.Nodes {
		d += fmt.Sprintf("%d/%dch ", n.Stake, len(n.Chains))
	}
	v := "none"
	if w.victim != nil {
		v = w.dir.name(chain.Addr(w.victim))
	}
	return d + fmt.Sprintf("] bps=%d unstake=%s minSigned=%s maxJailed=%d maxChains=%d victim=%s NCUST=%d OEDIT=%d RewardDelegators=%d VEDIT=%d raiseCeiling=%v}",
		s.NodeParams.SessionBlockFrequency, s.NodeParams.UnstakingTime, s.NodeParams.MinSignedPerWindow, s.NodeParams.MaxJailedBlocks, s.NodeParams.MaximumChains, v,
		s.Features[codec.NonCustodialUpdateKey], s.Features[codec.OutputAddressEditKey], s.Features[codec.RewardDelegatorsKey], s.Features[codec.VEDITKey], w.raiseCeil)
}

func nodeState(r valRec, waiting bool) string {
	switch {
	case waiting:
		return "waiting"
	case r.val.Status == sdk.Unstaking:
		return "unstaking"
	case r.val.Status == sdk.Staked && r.val.Jailed:
		return "jailed"
	case r.val.Status == sdk.Staked:
		return "staked"
	}
	return statusName(r.val.Status)
}

func renderVal(v nodesTypes.Validator) string {
	out := "nil"
	if v.OutputAddress != nil {
		out = hx(v.OutputAddress)[:8]
	}
	return fmt.Sprintf("{%s %s jailed=%v stake=%s out=%s deleg=%s chains=%v url=%s until=%s}", hx(v.Address)[:8], statusName(v.Status), v.Jailed, v.StakedTokens, out,
		renderDelegators(v.RewardDelegators), v.Chains, v.ServiceURL, v.UnstakingCompletionTime.UTC().Format(time.RFC3339))
}

type nodeEdit struct {
	op          crypto.PrivateKey
	legacy      bool
	value       int64
	chains      []string
	url         string
	output      sdk.Address
	delegs      map[string]uint32
	delegsValid bool
	signer      crypto.PrivateKey
	signerClass string
	desc        string
	bytes       []byte
}

type c23 struct {
	c *harness.Case
	w *nodeWorld
	n *chain.Node
}

func (m *c23) on(key string, h int64) bool { return featureOn(&m.w.spec, key, h) }

func (m *c23) keyOf(a sdk.Address) crypto.PrivateKey {
	if a == nil {
		return nil
	}
	return m.w.dir.keys[hx(a)]
}

// genNodeEdit draws an edit-stake message for the staked/jailed/waiting/unstaking node `op` whose record is pre.
func (m *c23) genNodeEdit(rt *rapid.T, op crypto.PrivateKey, pre nodesTypes.Validator, h int64) nodeEdit {
	w := m.w
	e := nodeEdit{op: op}
	ncust := m.on(codec.NonCustodialUpdateKey, h)
	e.legacy = !ncust
	if uniformN(rt, "wrongEra", 14) == 0 {
		e.legacy = !e.legacy
	}
	cur := pre.StakedTokens.Int64()
	amts := positive(cur-1, cur-unit, cur, cur, cur, cur, cur+1, cur+unit-1, cur+unit, cur+unit, cur+unit, cur+2*unit)
	e.value = amts[uniformN(rt, "amount", len(amts))]
	e.chains = append([]string{}, pre.Chains...)
	switch pick(rt, "chains", 4, 2, 1) {
	case 1:
		if len(e.chains) == 1 {
			e.chains = []string{"0001", "0021"}
		} else {
			e.chains = []string{"0021"}
		}
	case 2:
		e.chains = nil
		for i := int64(0); i <= w.spec.NodeParams.MaximumChains && i < 16; i++ {
			e.chains = append(e.chains, fmt.Sprintf("%04X", 0x40+i))
		}
	}
	e.url = pre.ServiceURL
	if uniformN(rt, "newURL", 3) == 0 {
		e.url = fmt.Sprintf("https://n%d.example:%d", h, 400+uniformN(rt, "port", 50))
	}
	// output address
	opAddr := chain.Addr(op)
	outW := []int{5, 3, 1, 1}
	if pre.OutputAddress != nil && !pre.OutputAddress.Equals(opAddr) {
		outW = []int{4, 5, 1, 1} // a separate current output exists: propose new ones more often
	}
	switch pick(rt, "output", outW...) {
	case 0:
		e.output = pre.OutputAddress
		if e.output == nil { // the record has none yet: name the operator or a separate key (first-set case)
			if uniformN(rt, "firstSetSeparate", 2) == 0 {
				e.output = chain.Addr(pickKey(rt, "outKey", w.outs))
			} else {
				e.output = opAddr
			}
		}
	case 1:
		e.output = chain.Addr(pickKey(rt, "outKey", append(append([]crypto.PrivateKey{}, w.outs...), w.strangers[0])))
	case 2:
		e.output = nil
	default:
		e.output = opAddr
	}
	// delegators
	e.delegsValid = true
	e.delegs = copyDelegs(pre.RewardDelegators)
	switch pick(rt, "delegators", 5, 3, 1, 1) {
	case 1:
		e.delegs = map[string]uint32{}
		nd := 1 + uniformN(rt, "nDeleg", 2)
		for i := 0; i < nd; i++ {
			e.delegs[w.delegs[(i+uniformN(rt, "delegOff", 3))%len(w.delegs)]] = uint32(1 + uniformN(rt, "share", 40))
		}
	case 2:
		e.delegs = nil
	case 3:
		e.delegsValid = false
		switch uniformN(rt, "badDeleg", 3) {
		case 0:
			e.delegs = map[string]uint32{w.delegs[0]: 0}
		case 1:
			e.delegs = map[string]uint32{w.delegs[0]: 60, w.delegs[1]: 41}
		default:
			e.delegs = map[string]uint32{"nothex": 5}
		}
	}
	// focus: in 40% of the edits exactly one field group differs from the stored record
	sameOut := pre.OutputAddress
	if sameOut == nil {
		sameOut = opAddr
	}
	switch pick(rt, "focus", 6, 1, 1, 1, 1) {
	case 1: // amount only
		e.chains, e.url, e.output, e.delegs, e.delegsValid = append([]string{}, pre.Chains...), pre.ServiceURL, sameOut, copyDelegs(pre.RewardDelegators), true
	case 2: // output address only
		e.value, e.chains, e.url, e.delegs, e.delegsValid = cur, append([]string{}, pre.Chains...), pre.ServiceURL, copyDelegs(pre.RewardDelegators), true
	case 3: // delegators only
		e.value, e.chains, e.url, e.output = cur, append([]string{}, pre.Chains...), pre.ServiceURL, sameOut
	case 4: // chains / URL only
		e.value, e.output, e.delegs, e.delegsValid = cur, sameOut, copyDelegs(pre.RewardDelegators), true
	}
	// signer
	curOut := m.keyOf(pre.OutputAddress)
	newOut := m.keyOf(e.output)
	wts := []int{5, 0, 0, 1}
	if curOut != nil && !pre.OutputAddress.Equals(opAddr) {
		wts[1] = 6
	}
	if newOut != nil && !e.output.Equals(opAddr) && !e.output.Equals(pre.OutputAddress) {
		wts[2] = 3
	}
	switch pick(rt, "signer", wts...) {
	case 0:
		e.signer, e.signerClass = op, "operator"
	case 1:
		e.signer, e.signerClass = curOut, "current-output"
	case 2:
		e.signer, e.signerClass = newOut, "proposed-output"
	default:
		e.signer, e.signerClass = pickKey(rt, "stranger", w.strangers), "stranger"
		if chain.Addr(e.signer).Equals(e.output) {
			e.signerClass = "proposed-output"
		}
	}
	var msg sdk.ProtoMsg
	if e.legacy {
		msg = &nodesTypes.LegacyMsgStake{PublicKey: op.PublicKey(), Chains: e.chains, Value: sdk.NewInt(e.value), ServiceUrl: e.url}
		e.output, e.delegs, e.delegsValid = nil, nil, true
	} else {
		msg = &nodesTypes.MsgStake{PublicKey: op.PublicKey(), Chains: e.chains, Value: sdk.NewInt(e.value), ServiceUrl: e.url, Output: e.output, RewardDelegators: e.delegs}
	}
	e.bytes = chain.SignTx(w.spec.ChainID, msg, fee, "", w.nextEntropy(), e.signer)
	e.desc = fmt.Sprintf("nodeEdit %s legacy=%v amt=%d (cur %d) chains=%v url=%s out=%s deleg=%s signed by %s(%s)", w.dir.name(opAddr), e.legacy, e.value, cur, e.chains, e.url,
		w.dir.name(e.output), renderDelegators(e.delegs), w.dir.name(chain.Addr(e.signer)), e.signerClass)
	return e
}

func copyDelegs(m map[string]uint32) map[string]uint32 {
	if len(m) == 0 {
		return nil
	}
	out := map[string]uint32{}
	for k, v := range m {
		out[k] = v
	}
	return out
}

func addrEq(a, b sdk.Address) bool { return bytes.Equal(a, b) } // nil == empty

// classifyNodeEdit labels the attempt and applies the non-trivial rule (a forbidden change in an otherwise valid tx).
func (m *c23) classifyNodeEdit(e nodeEdit, pre nodesTypes.Validator, waiting bool, h int64) {
	c := m.c
	ncust, oedit, rd := m.on(codec.NonCustodialUpdateKey, h), m.on(codec.OutputAddressEditKey, h), m.on(codec.RewardDelegatorsKey, h)
	opAddr := chain.Addr(e.op)
	sAddr := chain.Addr(e.signer)
	c.Label("state:" + nodeState(valRec{val: pre}, waiting))
	c.Label("signer:" + e.signerClass)
	switch {
	case !ncust:
		c.Label("era:before-NCUST")
	case !oedit && !rd:
		c.Label("era:NCUST-only")
	case !oedit:
		c.Label("era:before-OEDIT")
	case !rd:
		c.Label("era:before-RewardDelegators")
	default:
		c.Label("era:all-active")
	}
	var forbidden []string
	if e.value < pre.StakedTokens.Int64() {
		forbidden = append(forbidden, "lower-stake")
	}
	if !e.legacy && !addrEq(e.output, pre.OutputAddress) && e.output != nil {
		switch {
		case pre.OutputAddress == nil:
			c.Label("attempt:first-set-output")
		case ncust && oedit && sAddr.Equals(pre.OutputAddress):
			c.Label("attempt:output-change-by-current-output")
		default:
			forbidden = append(forbidden, "output-change-unauthorized")
		}
	}
	if !e.legacy && e.delegsValid && !sameDelegators(e.delegs, pre.RewardDelegators) {
		if ncust && rd && sAddr.Equals(opAddr) {
			c.Label("attempt:delegators-by-operator")
		} else {
			forbidden = append(forbidden, "delegators-unauthorized")
		}
	}
	if waiting {
		forbidden = append(forbidden, "edit-waiting")
	}
	if pre.Status != sdk.Staked {
		forbidden = append(forbidden, "edit-"+statusName(pre.Status))
	}
	eraOK := e.legacy == !ncust
	signerOK := sAddr.Equals(opAddr) || (ncust && (sAddr.Equals(pre.OutputAddress) || sAddr.Equals(e.output)))
	funded := m.n.Balance(sAddr).Int64() >= fee+2*unit
	shapeOK := e.delegsValid && int64(len(e.chains)) <= m.w.spec.NodeParams.MaximumChains && (e.legacy || e.output != nil || !ncust)
	valid := eraOK && signerOK && funded && shapeOK && h != m.w.spec.Features[codec.NonCustodialUpdateKey]
	for _, f := range forbidden {
		c.Label("attempt:" + f)
		if valid {
			c.AddExtra("forbidden_in_valid_tx:"+f, 1)
		}
	}
	if len(forbidden) > 0 && valid {
		c.Label("forbidden-attempt-in-valid-tx")
		c.NonTrivial()
	}
}

// judgeNodeEdit is the oracle: the raw records before and after one edit-stake DeliverTx.
func (m *c23) judgeNodeEdit(e nodeEdit, pre, post map[string]valRec, waiting bool, code uint32, codespace string, h int64) {
	c := m.c
	A := hx(chain.Addr(e.op))
	ctxs := func() string {
		p := "<none>"
		if r, ok := post[A]; ok {
			p = renderVal(r.val)
		}
		return fmt.Sprintf("h=%d %s -> code %d %s; before %s after %s", h, e.desc, code, codespace, renderVal(pre[A].val), p)
	}
	for _, a := range sortedKeys(pre) {
		if a == A {
			continue
		}
		if r1, ok := post[a]; !ok || !bytes.Equal(r1.raw, pre[a].raw) {
			c.Violation("C23/node-edit/other-record-changed", "%s: record of %s changed", ctxs(), m.w.dir.names[a])
		}
	}
	for _, a := range sortedKeys(post) {
		if _, ok := pre[a]; !ok {
			c.Violation("C23/node-edit/other-record-created", "%s: record of %s created", ctxs(), m.w.dir.names[a])
		}
	}
	o := pre[A].val
	r1, ok := post[A]
	if !ok {
		c.Violation("C23/node-edit/record-removed", "%s", ctxs())
		return
	}
	n := r1.val
	changed := !bytes.Equal(pre[A].raw, r1.raw)
	ncust, oedit, rd := m.on(codec.NonCustodialUpdateKey, h), m.on(codec.OutputAddressEditKey, h), m.on(codec.RewardDelegatorsKey, h)
	sAddr, opAddr := chain.Addr(e.signer), chain.Addr(e.op)
	if !n.Address.Equals(o.Address) || !pubEq(n.PublicKey, o.PublicKey) {
		c.Violation("C23/node-edit/address-or-key-changed", "%s", ctxs())
	}
	if n.Jailed != o.Jailed {
		c.Violation("C23/node-edit/jailed-flag-changed", "%s", ctxs())
	}
	if n.Status != o.Status {
		c.Violation("C23/node-edit/status-changed", "%s", ctxs())
	}
	if !n.UnstakingCompletionTime.Equal(o.UnstakingCompletionTime) {
		c.Violation("C23/node-edit/unstaking-time-changed", "%s", ctxs())
	}
	if bi(n.StakedTokens).Cmp(bi(o.StakedTokens)) < 0 {
		c.Violation("C23/node-edit/stake-lowered", "%s", ctxs())
	}
	if !addrEq(n.OutputAddress, o.OutputAddress) {
		switch {
		case !ncust:
			c.Violation("C23/node-edit/output-changed-before-NCUST", "%s", ctxs())
		case o.OutputAddress == nil:
			c.Label("ok:first-set-output")
			if !sAddr.Equals(opAddr) {
				c.Violation("C23/node-edit/output-first-set-by-non-operator", "%s", ctxs())
			}
		case !oedit:
			c.Violation("C23/node-edit/output-changed-before-OEDIT", "%s", ctxs())
		case !sAddr.Equals(o.OutputAddress):
			c.Violation("C23/node-edit/output-changed-without-current-output-signature", "%s", ctxs())
		default:
			c.Label("ok:output-changed-by-current-output")
		}
	}
	if !sameDelegators(n.RewardDelegators, o.RewardDelegators) {
		switch {
		case !ncust || !rd:
			c.Violation("C23/node-edit/delegators-changed-before-activation", "%s", ctxs())
		case !sAddr.Equals(opAddr):
			c.Violation("C23/node-edit/delegators-changed-by-non-operator", "%s", ctxs())
		default:
			c.Label("ok:delegators-changed-by-operator")
		}
	}
	if changed && !sAddr.Equals(opAddr) && !(o.OutputAddress != nil && sAddr.Equals(o.OutputAddress)) {
		c.Violation("C23/node-edit/changed-by-unauthorized-signer", "%s", ctxs())
	}
	if code != 0 && changed {
		c.Violation("C23/node-edit/failed-edit-changed-record", "%s", ctxs())
	}
	if code == 0 && o.Status == sdk.Staked {
		c.Label("ok:edit-accepted")
		if o.Jailed {
			c.Label("ok:edit-accepted-while-jailed")
		}
	}
	if waiting && (changed || code == 0) {
		if ncust {
			c.Violation("C23/node-edit/waiting-node-edited", "%s: the node was waiting to begin unstaking", ctxs())
		} else {
			// expected to be reported on the unchanged tree: the guard only exists behind the NCUST gate
			c.Violation("C23/node-edit/waiting-node-edited-before-NCUST", "%s: the node was waiting to begin unstaking (height before the NCUST activation)", ctxs())
		}
	}
}

func (m *c23) judgeAppEdit(desc string, P, S string, pre, post map[string]appRec, code uint32, codespace string) {
	c := m.c
	ctxs := func() string {
		p := "<none>"
		if r, ok := post[P]; ok {
			p = renderApp(r.app)
		}
		return fmt.Sprintf("%s -> code %d %s; before %s after %s", desc, code, codespace, renderApp(pre[P].app), p)
	}
	for _, a := range sortedKeys(pre) {
		if a == P {
			continue
		}
		if r1, ok := post[a]; !ok || !bytes.Equal(r1.raw, pre[a].raw) {
			c.Violation("C23/app-edit/other-record-changed", "%s: record of %s changed", ctxs(), m.w.dir.names[a])
		}
	}
	o := pre[P].app
	r1, ok := post[P]
	if !ok {
		c.Violation("C23/app-edit/record-removed", "%s", ctxs())
		return
	}
	n := r1.app
	changed := !bytes.Equal(pre[P].raw, r1.raw)
	if !n.Address.Equals(o.Address) || !pubEq(n.PublicKey, o.PublicKey) {
		c.Violation("C23/app-edit/address-or-key-changed", "%s", ctxs())
	}
	if o.Jailed {
		c.Label("app-edit-of-jailed-application")
	}
	if n.Jailed != o.Jailed {
		c.Violation("C23/app-edit/jailed-flag-changed", "%s", ctxs())
	}
	if n.Status != o.Status {
		c.Violation("C23/app-edit/status-changed", "%s", ctxs())
	}
	if !n.UnstakingCompletionTime.Equal(o.UnstakingCompletionTime) {
		c.Violation("C23/app-edit/unstaking-time-changed", "%s", ctxs())
	}
	if bi(n.StakedTokens).Cmp(bi(o.StakedTokens)) < 0 {
		c.Violation("C23/app-edit/stake-lowered", "%s", ctxs())
	}
	if changed && S != P {
		c.Violation("C23/app-edit/changed-by-foreign-signer", "%s", ctxs())
	}
	if code != 0 && changed {
		c.Violation("C23/app-edit/failed-edit-changed-record", "%s", ctxs())
	}
	if code == 0 {
		c.Label("ok:app-edit-accepted")
	}
}

func TestC23(t *testing.T) {
	harness.Check(t, "C23",
		"chain-simulator histories (14-24 blocks, 1-3 txs each, real signed txs through DeliverTx) over generated worlds: 3-5 genesis nodes (custodial records), spare "+
			"operators that stake with separate output addresses once NCUST is active, 2 apps, one operator that never signs (downtime-jailed after 2 or 5 missed blocks), "+
			"session length 3/4/6, unstaking time 5/60/600 s; in 60% of worlds the NCUST / OEDIT / RewardDelegators / VEDIT activation heights lie inside the history (5-17, "+
			"or never) — legacy messages before NCUST, new ones after; in 1/3 a gov tx raises the stake-weight ceiling so that the VEDIT same-bin rule applies. Main action: "+
			"edit-stake of a node picked by state (staked / jailed / waiting-to-unstake / unstaking) with amount {cur-bin,cur-1,cur,cur+1,cur+bin-1,cur+bin,cur+2bin}, chains "+
			"same/changed/too many, URL, output {same,new,nil,operator}, delegators {same,changed,dropped,invalid}, signer {operator,current output,proposed output,stranger}; "+
			"plus begin-unstake, unjail, app edit-stakes (amount below/equal/above, chains, own key or stranger). Oracle: raw validator / application records before and after "+
			"each edit's DeliverTx against the immutability rules. non-trivial = history containing an edit that attempts a forbidden change (lower stake, unauthorised output "+
			"or delegator change, edit of a waiting or unstaking node) inside an otherwise valid tx (right message type for the height, signer among operator / current / proposed output, funded, well-formed)",
		map[string]float64{"state:staked": 0.9, "state:jailed": 0.3, "state:waiting": 0.5, "state:unstaking": 0.3,
			"signer:operator": 0.9, "signer:current-output": 0.5, "signer:proposed-output": 0.4, "signer:stranger": 0.6,
			"era:before-NCUST": 0.25, "era:before-OEDIT": 0.15, "era:before-RewardDelegators": 0.1, "era:all-active": 0.6,
			"attempt:lower-stake": 0.8, "attempt:output-change-unauthorized": 0.4, "attempt:delegators-unauthorized": 0.6, "attempt:edit-waiting": 0.5,
			"ok:output-changed-by-current-output": 0.15, "ok:delegators-changed-by-operator": 0.25, "ok:first-set-output": 0.5, "ok:app-edit-accepted": 0.5,
			"ok:edit-accepted-while-jailed": 0.1, "forbidden-attempt-in-valid-tx": 0.9},
		func(rt *rapid.T, c *harness.Case) {
			w := genNodeWorld(rt)
			c.Opf("%s", w.describe())
			if w.staggered {
				c.Label("features-staggered")
			}
			n := chain.NewNode(&w.spec)
			if w.spec.Warmup == 2 {
				n.RunBlock(chain.Block{DT: time.Second})
			}
			m := &c23{c: c, w: w, n: n}
			nb := 14 + uniformN(rt, "blocks", 11)
			operators := append(append([]crypto.PrivateKey{}, w.ops...), w.spares...)
			jailAppAt := -1
			if rapid.Bool().Draw(rt, "jailAppA") && rapid.Bool().Draw(rt, "jailAppB") {
				jailAppAt = rapid.IntRange(0, 3).Draw(rt, "jailAppAt")
			}
			for b := 0; b < nb; b++ {
				dt := time.Duration(pickI64(rt, "dtSecs", 1, 1, 5, 30)) * time.Second
				blk := chain.Block{DT: dt, Absent: map[string]bool{}}
				if w.victim != nil {
					blk.Absent[hx(chain.Addr(w.victim))] = true
				}
				// Jailed applications are a state the module supports (JailApplication in the keeper interface other modules
				// see, an unjail message and handler), although no transaction of this version jails one: in a quarter of the
				// histories the second application is jailed through the keeper between two blocks, and later edits of it must
				// keep the flag.
				if b == jailAppAt {
					ak, addr := n.App.VerifAppsKeeper(), chain.Addr(w.apps[1])
					if a, ok := ak.GetApplication(n.Ctx(), addr); ok && a.IsStaked() && !a.IsJailed() {
						ak.JailApplication(n.Ctx(), addr)
						c.Opf("[keeper] JailApplication(%s)", w.dir.name(addr))
						c.Label("application-jailed-through-keeper")
					}
				}
				n.BeginBlock(blk)
				h := n.Height + 1
				c.Opf("block h=%d dt=%s", h, dt)
				ncust := m.on(codec.NonCustodialUpdateKey, h)
				ntx := 1 + uniformN(rt, "nTxs", 3)
				if w.raiseCeil && b == 1 {
					res := n.DeliverTx(changeParamTx(w.spec.ChainID, "pos/ServicerStakeWeightCeiling", int64(4*unit), w.dao, w.nextEntropy()))
					c.Opf("  changeParam pos/ServicerStakeWeightCeiling=%d -> code %d", 4*unit, res.Code)
				}
				for i := 0; i < ntx; i++ {
					vals := readVals(n)
					waiting := readWaiting(n)
					byState := map[string][]crypto.PrivateKey{}
					for _, k := range operators {
						a := hx(chain.Addr(k))
						if r, ok := vals[a]; ok {
							st := nodeState(r, waiting[a])
							byState[st] = append(byState[st], k)
						}
					}
					kind := pick(rt, "kind", 12, 2, 1, 2, 3)
					if kind == 3 { // stake a spare operator
						var cand []crypto.PrivateKey
						for _, k := range w.spares {
							if _, ok := vals[hx(chain.Addr(k))]; !ok {
								cand = append(cand, k)
							}
						}
						if len(cand) == 0 || h == w.spec.Features[codec.NonCustodialUpdateKey] {
							kind = 0
						} else {
							k := pickKey(rt, "spare", cand)
							var msg sdk.ProtoMsg
							out := chain.Addr(pickKey(rt, "spareOut", append([]crypto.PrivateKey{k}, w.outs...)))
							stake := unit*int64(1+uniformN(rt, "bins", 2)) + pickI64(rt, "extra", 0, 1_000_000)
							if ncust {
								ms := &nodesTypes.MsgStake{PublicKey: k.PublicKey(), Chains: []string{"0001"}, Value: sdk.NewInt(stake), ServiceUrl: "https://spare.example:443", Output: out}
								if m.on(codec.RewardDelegatorsKey, h) && uniformN(rt, "spareDeleg", 2) == 0 {
									ms.RewardDelegators = map[string]uint32{w.delegs[0]: 10}
								}
								msg = ms
							} else {
								out = nil
								msg = &nodesTypes.LegacyMsgStake{PublicKey: k.PublicKey(), Chains: []string{"0001"}, Value: sdk.NewInt(stake), ServiceUrl: "https://spare.example:443"}
							}
							res := n.DeliverTx(chain.SignTx(w.spec.ChainID, msg, fee, "", w.nextEntropy(), k))
							c.Opf("  nodeStake %s amt=%d out=%s -> code %d %s", w.dir.name(chain.Addr(k)), stake, w.dir.name(out), res.Code, res.Codespace)
							continue
						}
					}
					switch kind {
					case 0: // edit-stake of a node, picked by state
						states := []string{"staked", "jailed", "waiting", "unstaking"}
						wts := []int{4, 4, 5, 3}
						for i, s := range states {
							if len(byState[s]) == 0 {
								wts[i] = 0
							}
						}
						if wts[0]+wts[1]+wts[2]+wts[3] == 0 {
							continue
						}
						st := states[pick(rt, "targetState", wts...)]
						op := pickKey(rt, "target", byState[st])
						A := hx(chain.Addr(op))
						e := m.genNodeEdit(rt, op, vals[A].val, h)
						m.classifyNodeEdit(e, vals[A].val, waiting[A], h)
						res := n.DeliverTx(e.bytes)
						c.Opf("  %s [%s] -> code %d %s", e.desc, st, res.Code, res.Codespace)
						c.AddExtra("node_edits_judged", 1)
						m.judgeNodeEdit(e, vals, readVals(n), waiting[A], res.Code, res.Codespace, h)
					case 1: // begin-unstake (keeps at least two unjailed staked nodes)
						if len(byState["staked"]) <= 2 {
							continue
						}
						pool := append(append([]crypto.PrivateKey{}, byState["staked"]...), byState["jailed"]...)
						op := pickKey(rt, "unstakeTarget", pool)
						signer := op
						if out := m.keyOf(vals[hx(chain.Addr(op))].val.OutputAddress); out != nil && uniformN(rt, "byOutput", 2) == 0 {
							signer = out
						}
						var msg sdk.ProtoMsg
						if ncust {
							msg = &nodesTypes.MsgBeginUnstake{Address: chain.Addr(op), Signer: chain.Addr(signer)}
						} else {
							signer = op
							msg = &nodesTypes.LegacyMsgBeginUnstake{Address: chain.Addr(op)}
						}
						res := n.DeliverTx(chain.SignTx(w.spec.ChainID, msg, fee, "", w.nextEntropy(), signer))
						c.Opf("  nodeUnstake %s by %s -> code %d %s", w.dir.name(chain.Addr(op)), w.dir.name(chain.Addr(signer)), res.Code, res.Codespace)
					case 2: // unjail
						if len(byState["jailed"]) == 0 {
							continue
						}
						op := pickKey(rt, "unjailTarget", byState["jailed"])
						var msg sdk.ProtoMsg
						if ncust {
							msg = &nodesTypes.MsgUnjail{ValidatorAddr: chain.Addr(op), Signer: chain.Addr(op)}
						} else {
							msg = &nodesTypes.LegacyMsgUnjail{ValidatorAddr: chain.Addr(op)}
						}
						res := n.DeliverTx(chain.SignTx(w.spec.ChainID, msg, fee, "", w.nextEntropy(), op))
						c.Opf("  nodeUnjail %s -> code %d %s", w.dir.name(chain.Addr(op)), res.Code, res.Codespace)
					default: // application edit-stake
						apps := readApps(n)
						var pool []crypto.PrivateKey
						for _, k := range w.apps {
							if _, ok := apps[hx(chain.Addr(k))]; ok {
								pool = append(pool, k)
							}
						}
						if len(pool) == 0 {
							continue
						}
						k := pickKey(rt, "appTarget", pool)
						P := hx(chain.Addr(k))
						o := apps[P].app
						cur := o.StakedTokens.Int64()
						amts := positive(cur-1, cur-1_000_000, cur, cur, cur+1, cur+1_000_000)
						amt := amts[uniformN(rt, "appAmt", len(amts))]
						chains := append([]string{}, o.Chains...)
						if uniformN(rt, "appChains", 3) == 0 {
							chains = []string{"0021", "0003"}
						}
						signer := k
						if uniformN(rt, "appStranger", 6) == 0 {
							signer = pickKey(rt, "stranger", w.strangers)
						}
						if uniformN(rt, "appUnstakeFirst", 12) == 0 {
							res := n.DeliverTx(chain.SignTx(w.spec.ChainID, &appsTypes.MsgBeginUnstake{Address: chain.Addr(k)}, fee, "", w.nextEntropy(), k))
							c.Opf("  appUnstake %s -> code %d", w.dir.name(chain.Addr(k)), res.Code)
							apps = readApps(n)
							o = apps[P].app
						}
						msg := &appsTypes.MsgStake{PubKey: k.PublicKey(), Chains: chains, Value: sdk.NewInt(amt)}
						desc := fmt.Sprintf("appEdit %s amt=%d (cur %d) chains=%v signed by %s", w.dir.name(chain.Addr(k)), amt, cur, chains, w.dir.name(chain.Addr(signer)))
						if amt < cur && hx(chain.Addr(signer)) == P {
							c.Label("attempt:app-lower-stake")
							c.NonTrivial()
						}
						if o.Status != sdk.Staked && hx(chain.Addr(signer)) == P {
							c.Label("attempt:app-edit-" + statusName(o.Status))
							c.NonTrivial()
						}
						res := n.DeliverTx(chain.SignTx(w.spec.ChainID, msg, fee, "", w.nextEntropy(), signer))
						c.Opf("  %s -> code %d %s", desc, res.Code, res.Codespace)
						c.AddExtra("app_edits_judged", 1)
						m.judgeAppEdit(desc, P, hx(chain.Addr(signer)), apps, readApps(n), res.Code, res.Codespace)
					}
				}
				n.Commit(n.EndBlock())
				historicalAppLookup(rt, c, n)
			}
		})
}
