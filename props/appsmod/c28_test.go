package appsmod

import (
	"bytes"
	"fmt"
	"math/big"
	"testing"
	"time"

	"pgregory.net/rapid"

	"github.com/pokt-network/pocket-core/codec"
	sdk "github.com/pokt-network/pocket-core/types"
	appsTypes "github.com/pokt-network/pocket-core/x/apps/types"

	"verif/harness"
	"verif/harness/chain"
)

// C28: application admission (minimum stake, maximum chains, funds, MaxApplications), relay allowance derived
// from the stake, and transfer of an application to a new key.

var maxUint64 = new(big.Int).SetUint64(^uint64(0))

// expectedMaxRelays restates the relay-allowance formula with exact rationals:
//
//	relays = trunc( participation × (BaseRelaysPerPOKT / 100) × (stake in uPOKT / 1e6) + StabilityAdjustment ), capped at 2^64-1
//
// participation = (application pool + node pool) / total supply when ParticipationRateOn, else 1 (the pools and the
// supply as they are once the stake has been moved into the pool). BaseRelaysPerPOKT is read as hundredths of a relay
// per POKT; see the report: the parameter's doc string says "base relays per POKT coin staked".
func expectedMaxRelays(stake *big.Int, p appsTypes.Params, post appView) *big.Int {
	r := new(big.Rat).SetFrac(new(big.Int).Mul(b64(p.BaseRelaysPerPOKT), stake), b64(100*1_000_000))
	if p.ParticipationRateOn {
		r.Mul(r, new(big.Rat).SetFrac(new(big.Int).Add(post.pool, post.nodePool), post.supply))
	}
	r.Add(r, new(big.Rat).SetInt64(p.StabilityAdjustment))
	res := new(big.Int).Quo(r.Num(), r.Denom()) // truncation towards zero
	if res.Cmp(maxUint64) > 0 {
		res.Set(maxUint64)
	}
	return res
}

// relaysMatch: exact without participation rate (every intermediate value has at most 8 decimals). With the
// participation rate the implementation rounds the rate and the product to 18 decimals, so the exact-rational result
// may differ by the baseline × 1e-18 (relative rounding error of the rate) plus one unit at a truncation boundary.
func relaysMatch(got, want, stake *big.Int, p appsTypes.Params) bool {
	if !p.ParticipationRateOn {
		return got.Cmp(want) == 0
	}
	if got.Cmp(maxUint64) == 0 && want.Cmp(maxUint64) == 0 {
		return true
	}
	tol := new(big.Int).Mul(b64(p.BaseRelaysPerPOKT), stake)
	tol.Quo(tol, new(big.Int).Exp(big.NewInt(10), big.NewInt(26), nil)) // baseline (= base*stake/1e8) * 1e-18
	tol.Add(tol, big.NewInt(2))
	d := new(big.Int).Sub(got, want)
	return d.CmpAbs(tol) <= 0
}

type c28 struct {
	c *harness.Case
	w *appWorld
	n *chain.Node
}

func (m *c28) recStr(v appView, a string) string {
	if r, ok := v.recs[a]; ok {
		return renderApp(r.app)
	}
	return "<none>"
}

// judge compares the application-module state before and after one application stake message.
func (m *c28) judge(tx appTx, pre, post appView, code uint32, codespace string, balPre, balPost map[string]*big.Int) {
	c := m.c
	P := hx(sdk.Address(tx.msg.PubKey.Address()))
	S := hx(chain.Addr(tx.signer)) // the key that really signed
	value := bi(tx.msg.Value)
	nChains := int64(len(tx.msg.Chains))
	ctx := fmt.Sprintf("%s -> code %d %s; P before %s after %s", tx.desc, code, codespace, m.recStr(pre, P), m.recStr(post, P))

	// 1. records of applications that are neither the message's key nor the signer's never change
	for _, a := range sortedKeys(mergeKeys(pre.recs, post.recs)) {
		if a == P || a == S {
			continue
		}
		r0, ok0 := pre.recs[a]
		r1, ok1 := post.recs[a]
		if ok0 != ok1 || !bytes.Equal(r0.raw, r1.raw) {
			c.Violation("C28/app-stake/unrelated-record-changed", "%s: record of %s changed from %s to %s although it is neither the message key nor the signer",
				ctx, m.w.dir.names[a], m.recStr(pre, a), m.recStr(post, a))
		}
	}
	same := func(a string) bool {
		r0, ok0 := pre.recs[a]
		r1, ok1 := post.recs[a]
		return ok0 == ok1 && bytes.Equal(r0.raw, r1.raw)
	}
	sameIndex := len(pre.index) == len(post.index)
	for a, k := range pre.index {
		if post.index[a] != k {
			sameIndex = false
		}
	}
	// 2. a failed transaction leaves the application module untouched
	if code != 0 {
		if !same(P) || !same(S) || !sameIndex || pre.pool.Cmp(post.pool) != 0 {
			c.Violation("C28/app-stake/failed-tx-changed-app-state", "%s: failed tx changed application state (signer record %s -> %s, pool %s -> %s, index %v -> %v)",
				ctx, m.recStr(pre, S), m.recStr(post, S), pre.pool, post.pool, pre.index, post.index)
		}
		m.explainRejection(tx, pre, code, codespace, balPre, P, ctx)
		return
	}
	rp0, okP0 := pre.recs[P]
	rp1, okP1 := post.recs[P]
	rs0, okS0 := pre.recs[S]
	_, okS1 := post.recs[S]
	transferShape := value.Sign() == 0 && nChains == 0
	transferActive := featureOn(&m.w.spec, codec.AppTransferKey, pre.height)

	if S != P && okS0 && !okS1 {
		// 3a. the signer's own record vanished: this must be a valid transfer
		c.Label("transfer-ok")
		if !transferShape {
			c.Violation("C28/transfer/not-transfer-shaped", "%s: signer's record removed by a message that is not a transfer (value %s, %d chains)", ctx, value, nChains)
		}
		if !transferActive {
			c.Violation("C28/transfer/before-activation", "%s: transfer executed at height %d before the feature activation", ctx, pre.height)
		}
		if rs0.app.Status != sdk.Staked {
			c.Violation("C28/transfer/from-not-staked", "%s: transferred an application that was %s", ctx, statusName(rs0.app.Status))
		}
		if okP0 {
			c.Violation("C28/transfer/onto-existing-record", "%s: transfer overwrote the existing record %s", ctx, renderApp(rp0.app))
		}
		if !okP1 {
			c.Violation("C28/transfer/new-record-missing", "%s: old record removed but no record under the new key", ctx)
			return
		}
		o, nw := rs0.app, rp1.app
		if hx(nw.Address) != P || !pubEq(nw.PublicKey, tx.msg.PubKey) {
			c.Violation("C28/transfer/new-record-wrong-key", "%s: new record carries address %s / key %s", ctx, nw.Address, nw.PublicKey.RawString())
		}
		if bi(nw.StakedTokens).Cmp(bi(o.StakedTokens)) != 0 {
			c.Violation("C28/transfer/stake-changed", "%s: stake %s became %s", ctx, o.StakedTokens, nw.StakedTokens)
		}
		if bi(nw.MaxRelays).Cmp(bi(o.MaxRelays)) != 0 {
			c.Violation("C28/transfer/max-relays-changed", "%s: relay allowance %s became %s", ctx, o.MaxRelays, nw.MaxRelays)
		}
		if nw.Status != sdk.Staked || nw.Jailed != o.Jailed || !sameStrings(nw.Chains, o.Chains) || !nw.UnstakingCompletionTime.Equal(o.UnstakingCompletionTime) {
			c.Violation("C28/transfer/other-field-changed", "%s: old %s new %s", ctx, renderApp(o), renderApp(nw))
		}
		if post.index[S] != 0 {
			c.Violation("C28/transfer/old-key-left-in-staked-index", "%s: staked index still lists the old address (%v)", ctx, post.index)
		}
		if post.index[P] != 1 {
			c.Violation("C28/transfer/new-key-not-in-staked-index", "%s: staked index lists the new address %d times (%v)", ctx, post.index[P], post.index)
		}
		if pre.pool.Cmp(post.pool) != 0 {
			c.Violation("C28/transfer/pool-changed", "%s: pool %s -> %s", ctx, pre.pool, post.pool)
		}
		if d := new(big.Int).Sub(balPre[S], balPost[S]); d.Cmp(b64(fee)) != 0 {
			c.Violation("C28/transfer/signer-balance", "%s: signer balance changed by -%s, expected the fee only", ctx, d)
		}
		if balPre[P].Cmp(balPost[P]) != 0 {
			c.Violation("C28/transfer/new-key-balance", "%s: balance of the new key %s -> %s", ctx, balPre[P], balPost[P])
		}
		return
	}
	if S != P && !same(S) {
		c.Violation("C28/app-stake/signer-record-modified", "%s: the signer's own record changed from %s to %s without being transferred", ctx, m.recStr(pre, S), m.recStr(post, S))
	}
	becameStaked := okP1 && rp1.app.Status == sdk.Staked && !(okP0 && rp0.app.Status == sdk.Staked)
	if becameStaked {
		// 3b. admission of a new staked application
		c.Label("new-stake-ok")
		if S != P {
			c.Violation("C28/app-stake/admitted-by-foreign-signer", "%s: application became staked through a tx signed by %s", ctx, m.w.dir.names[S])
		}
		if value.Cmp(b64(pre.params.AppStakeMin)) < 0 {
			c.Violation("C28/app-stake/admitted-below-minimum", "%s: amount %s below the minimum %d", ctx, value, pre.params.AppStakeMin)
		}
		if nChains > pre.params.MaxChains {
			c.Violation("C28/app-stake/admitted-too-many-chains", "%s: %d chains, maximum %d", ctx, nChains, pre.params.MaxChains)
		}
		if need := new(big.Int).Add(value, b64(fee)); balPre[P].Cmp(need) < 0 {
			c.Violation("C28/app-stake/admitted-without-funds", "%s: balance %s before the tx cannot cover amount+fee %s", ctx, balPre[P], need)
		}
		if cnt := pre.stakedCount(); cnt >= pre.params.MaxApplications {
			c.Violation("C28/app-stake/admitted-at-max-applications", "%s: %d applications were staked, MaxApplications=%d", ctx, cnt, pre.params.MaxApplications)
		}
		if okP0 {
			return // re-stake of a record in another status: admission conditions judged, effects are not specified
		}
		a := rp1.app
		if hx(a.Address) != P || !pubEq(a.PublicKey, tx.msg.PubKey) || a.Jailed || bi(a.StakedTokens).Cmp(value) != 0 || !sameStrings(a.Chains, tx.msg.Chains) {
			c.Violation("C28/app-stake/record-differs-from-request", "%s: stored record %s", ctx, renderApp(a))
		}
		if want := expectedMaxRelays(value, pre.params, post); !relaysMatch(bi(a.MaxRelays), want, value, pre.params) {
			c.Violation("C28/app-stake/max-relays-not-from-formula", "%s: MaxRelays %s, formula gives %s (base=%d adj=%d participation=%v pools %s+%s supply %s)", ctx, a.MaxRelays, want,
				pre.params.BaseRelaysPerPOKT, pre.params.StabilityAdjustment, pre.params.ParticipationRateOn, post.pool, post.nodePool, post.supply)
		}
		if bi(a.MaxRelays).Cmp(maxUint64) == 0 {
			c.Label("max-relays-capped")
		}
		if new(big.Int).Sub(post.pool, pre.pool).Cmp(value) != 0 || new(big.Int).Sub(balPre[P], balPost[P]).Cmp(new(big.Int).Add(value, b64(fee))) != 0 {
			c.Violation("C28/app-stake/pool-or-balance-mismatch", "%s: pool %s -> %s, balance %s -> %s, amount %s", ctx, pre.pool, post.pool, balPre[P], balPost[P], value)
		}
		if post.index[P] != 1 {
			c.Violation("C28/app-stake/not-in-staked-index", "%s: staked index lists the new application %d times", ctx, post.index[P])
		}
		return
	}
	if okP0 && rp0.app.Status == sdk.Staked && okP1 {
		// 3c. successful edit of a staked application
		c.Label("edit-ok")
		o, a := rp0.app, rp1.app
		if S != P {
			if !same(P) {
				c.Violation("C28/app-edit/edited-by-foreign-signer", "%s: record changed through a tx signed by %s", ctx, m.w.dir.names[S])
			}
			return
		}
		diff := new(big.Int).Sub(value, bi(o.StakedTokens))
		if diff.Sign() < 0 || bi(a.StakedTokens).Cmp(value) != 0 {
			c.Violation("C28/app-edit/stake-not-as-requested", "%s: stake %s -> %s for requested %s", ctx, o.StakedTokens, a.StakedTokens, value)
			return
		}
		if nChains > pre.params.MaxChains {
			c.Violation("C28/app-edit/too-many-chains", "%s: %d chains, maximum %d", ctx, nChains, pre.params.MaxChains)
		}
		if !sameStrings(a.Chains, tx.msg.Chains) || hx(a.Address) != P || !pubEq(a.PublicKey, o.PublicKey) || a.Jailed != o.Jailed || a.Status != o.Status {
			c.Violation("C28/app-edit/record-differs-from-request", "%s", ctx)
		}
		if diff.Sign() > 0 {
			c.Label("edit-bump-ok")
			if need := new(big.Int).Add(diff, b64(fee)); balPre[P].Cmp(need) < 0 {
				c.Violation("C28/app-edit/bump-without-funds", "%s: balance %s cannot cover bump+fee %s", ctx, balPre[P], need)
			}
			if want := expectedMaxRelays(value, pre.params, post); !relaysMatch(bi(a.MaxRelays), want, value, pre.params) {
				c.Violation("C28/app-edit/max-relays-not-from-formula", "%s: MaxRelays %s, formula gives %s (base=%d adj=%d participation=%v)", ctx, a.MaxRelays, want,
					pre.params.BaseRelaysPerPOKT, pre.params.StabilityAdjustment, pre.params.ParticipationRateOn)
			}
		} else if bi(a.MaxRelays).Cmp(bi(o.MaxRelays)) != 0 {
			c.Violation("C28/app-edit/max-relays-changed-without-bump", "%s: MaxRelays %s -> %s", ctx, o.MaxRelays, a.MaxRelays)
		}
		if new(big.Int).Sub(post.pool, pre.pool).Cmp(diff) != 0 || new(big.Int).Sub(balPre[P], balPost[P]).Cmp(new(big.Int).Add(diff, b64(fee))) != 0 {
			c.Violation("C28/app-edit/pool-or-balance-mismatch", "%s: pool %s -> %s, balance %s -> %s, bump %s", ctx, pre.pool, post.pool, balPre[P], balPost[P], diff)
		}
		return
	}
	if !same(P) {
		c.Violation("C28/app-stake/unclassified-change", "%s: record changed in a way that is neither a stake, an edit nor a transfer", ctx)
	}
}

// explainRejection: the module's own rejection codes must be truthful about the limit they name.
func (m *c28) explainRejection(tx appTx, pre appView, code uint32, codespace string, balPre map[string]*big.Int, P, ctx string) {
	if codespace != appsTypes.ModuleName {
		return
	}
	c := m.c
	value := bi(tx.msg.Value)
	switch sdk.CodeType(code) {
	case appsTypes.CodeMaxApplications:
		c.Label("rejected-max-applications")
		if cnt := pre.stakedCount(); cnt < pre.params.MaxApplications {
			c.Violation("C28/app-stake/max-applications-rejection-below-max", "%s: rejected for MaxApplications=%d while only %d applications were staked", ctx, pre.params.MaxApplications, cnt)
		}
	case appsTypes.CodeMinimumStake:
		if value.Cmp(b64(pre.params.AppStakeMin)) >= 0 {
			c.Violation("C28/app-stake/minimum-rejection-at-or-above-minimum", "%s: rejected as below the minimum %d", ctx, pre.params.AppStakeMin)
		}
	case appsTypes.CodeTooManyChains:
		if int64(len(tx.msg.Chains)) <= pre.params.MaxChains {
			c.Violation("C28/app-stake/chains-rejection-within-maximum", "%s: rejected for too many chains with maximum %d", ctx, pre.params.MaxChains)
		}
	case appsTypes.CodeNotEnoughCoins:
		need := new(big.Int).Set(value)
		if r, ok := pre.recs[P]; ok && r.app.Status == sdk.Staked {
			need.Sub(need, bi(r.app.StakedTokens))
		}
		if avail := new(big.Int).Sub(balPre[P], b64(fee)); avail.Cmp(need) >= 0 && hx(chain.Addr(tx.signer)) == P {
			c.Violation("C28/app-stake/funds-rejection-with-funds", "%s: rejected for funds although %s were available for %s", ctx, avail, need)
		}
	}
}

func mergeKeys(a, b map[string]appRec) map[string]bool {
	out := map[string]bool{}
	for k := range a {
		out[k] = true
	}
	for k := range b {
		out[k] = true
	}
	return out
}

func TestC28(t *testing.T) {
	wt := appWeights{stake: 7, edit: 3, transfer: 7, unstake: 3, param: 2, send: 1, unstakeSecs: []int{0, 5, 20, 90}, maxAppsSlack: []int{0, 1, 1, 2}, honestTransfer: 2}
	harness.Check(t, "C28",
		"chain-simulator histories (real signed txs through DeliverTx, 8-16 blocks, 1-4 txs each) over generated worlds: 1-3 genesis apps, MaxApplications = apps+0..2 "+
			"(and changed to 1-5 by gov txs), AppStakeMin 1e6/2e6 (changed by gov), MaxChains 1-3, BaseRelaysPerPOKT in {1,100,167,99999,9e18}, StabilityAdjustment, "+
			"ParticipationRateOn; stake requests with amount in {min-1,min,min+1,balance-fee-1..+1,balance}, chain count around the maximum, sometimes signed by a stranger; "+
			"edit-stakes; transfers from {staked, unstaking, non-app} to {fresh key, funded key without record, key with a record in any status, same key} signed by "+
			"{current app, stranger presenting the app's public key, stranger, the new key}, also malformed transfer shapes; begin-unstakes and maturity. Every application "+
			"stake message is judged from the raw records / staked index / pool / balances read before and after its DeliverTx. "+
			"non-trivial = history containing an otherwise admissible new-stake request made while the staked count is MaxApplications or MaxApplications-1, or a correctly "+
			"signed, well-formed transfer by a staked application onto a key that already has a record",
		map[string]float64{"at-max-boundary": 0.5, "at-max:count==max": 0.3, "at-max:count==max-1": 0.25, "transfer-onto-existing": 0.4, "transfer-ok": 0.35, "transfer-wrong-signer": 0.4,
			"amount-at-minimum±1": 0.5, "chains-over-max": 0.3, "amount-at-balance±1": 0.4, "rejected-max-applications": 0.25, "new-stake-ok": 0.4},
		func(rt *rapid.T, c *harness.Case) {
			w := genAppWorld(rt, wt)
			c.Opf("%s", w.describe())
			n := chain.NewNode(&w.spec)
			m := &c28{c: c, w: w, n: n}
			nb := 8 + uniformN(rt, "blocks", 9)
			for b := 0; b < nb; b++ {
				dt := time.Duration(pickI64(rt, "dtSecs", 0, 1, 1, 5, 15, 40)) * time.Second
				n.BeginBlock(chain.Block{DT: dt})
				ntx := 1 + uniformN(rt, "nTxs", 4)
				c.Opf("block h=%d dt=%s", n.Height+1, dt)
				for i := 0; i < ntx; i++ {
					pre := viewApps(n)
					tx := w.genTx(rt, n, pre, wt)
					for _, l := range tx.labels {
						c.Label(l)
					}
					var P, S sdk.Address
					balPre := map[string]*big.Int{}
					if tx.msg != nil {
						P, S = sdk.Address(tx.msg.PubKey.Address()), chain.Addr(tx.signer)
						balPre[hx(P)], balPre[hx(S)] = balance(n, P), balance(n, S)
						m.classify(tx, pre, balPre)
					}
					res := n.DeliverTx(tx.bytes)
					c.Opf("  %s -> code %d %s", tx.desc, res.Code, res.Codespace)
					if tx.msg == nil {
						continue
					}
					post := viewApps(n)
					balPost := map[string]*big.Int{hx(P): balance(n, P), hx(S): balance(n, S)}
					c.AddExtra("stake_messages_judged", 1)
					m.judge(tx, pre, post, res.Code, res.Codespace, balPre, balPost)
				}
				n.Commit(n.EndBlock())
				historicalAppLookup(rt, c, n)
			}
		})
}

// classify applies the non-trivial rule and the boundary labels to a request before it is delivered.
func (m *c28) classify(tx appTx, pre appView, balPre map[string]*big.Int) {
	c := m.c
	P := hx(sdk.Address(tx.msg.PubKey.Address()))
	S := hx(chain.Addr(tx.signer))
	value := bi(tx.msg.Value)
	_, okP := pre.recs[P]
	honestSig := pubEq(tx.signer.PublicKey(), tx.claimed.PublicKey())
	if S == P && !okP && value.Sign() > 0 {
		cnt, max := pre.stakedCount(), pre.params.MaxApplications
		admissible := value.Cmp(b64(pre.params.AppStakeMin)) >= 0 && int64(len(tx.msg.Chains)) <= pre.params.MaxChains &&
			balPre[P].Cmp(new(big.Int).Add(value, b64(fee))) >= 0
		if admissible && (cnt == max || cnt == max-1) {
			c.Label("at-max-boundary")
			if cnt == max {
				c.Label("at-max:count==max")
			} else {
				c.Label("at-max:count==max-1")
			}
			c.NonTrivial()
		}
		if admissible && cnt > max {
			c.Label("at-max:count>max")
		}
	}
	if rs, okS := pre.recs[S]; S != P && okS && rs.app.Status == sdk.Staked && okP && honestSig && value.Sign() == 0 && len(tx.msg.Chains) == 0 {
		c.Label("well-formed-transfer-onto-existing")
		c.NonTrivial()
	}
}
