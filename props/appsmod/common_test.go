package appsmod

import (
	"bytes"
	"encoding/hex"
	"fmt"
	"math/big"
	"sort"

	"pgregory.net/rapid"

	"github.com/pokt-network/pocket-core/app"
	"github.com/pokt-network/pocket-core/crypto"
	sdk "github.com/pokt-network/pocket-core/types"
	appsTypes "github.com/pokt-network/pocket-core/x/apps/types"
	authTypes "github.com/pokt-network/pocket-core/x/auth/types"
	govTypes "github.com/pokt-network/pocket-core/x/gov/types"
	nodesTypes "github.com/pokt-network/pocket-core/x/nodes/types"

	"verif/harness/chain"
)

// ---- math/big helpers (oracles never use sdk.BigInt / sdk.BigDec arithmetic) ----

func bi(x sdk.BigInt) *big.Int {
	b, ok := new(big.Int).SetString(x.String(), 10)
	if !ok {
		panic("not an integer: " + x.String())
	}
	return b
}

func b64(x int64) *big.Int { return big.NewInt(x) }

// ---- draws that honour weights (rapid's integer generators are biased towards small values) ----

func uniformN(rt *rapid.T, label string, n int) int {
	x := 0
	for i := 0; i < 12; i++ {
		x <<= 1
		if rapid.Bool().Draw(rt, label) {
			x |= 1
		}
	}
	return x * n / 4096
}

func pick(rt *rapid.T, label string, weights ...int) int {
	total := 0
	for _, w := range weights {
		total += w
	}
	x := uniformN(rt, label, total)
	for i, w := range weights {
		if x < w {
			return i
		}
		x -= w
	}
	return len(weights) - 1
}

func pickKey(rt *rapid.T, label string, pool []crypto.PrivateKey) crypto.PrivateKey {
	return pool[uniformN(rt, label, len(pool))]
}

func pickI64(rt *rapid.T, label string, vals ...int64) int64 {
	return vals[uniformN(rt, label, len(vals))]
}

// ---- feature configuration ----

// setFeatures overwrites the activation heights of named features (0 = never) and keeps the gov genesis
// upgrade record in step with the codec globals, exactly as a chain that had voted these heights would be.
func setFeatures(s *chain.Spec, hs map[string]int64) {
	for k, h := range hs {
		if h == 0 {
			delete(s.Features, k)
		} else {
			s.Features[k] = h
		}
	}
	var fl []string
	for k, v := range s.Features {
		fl = append(fl, fmt.Sprintf("%s:%d", k, v))
	}
	sort.Strings(fl)
	s.GovUpgrade = govTypes.Upgrade{Height: s.UpgradeHeight, OldUpgradeHeight: s.OldUpgradeHeight, Version: "0.12.0", Features: fl}
}

func featureOn(s *chain.Spec, key string, h int64) bool {
	a := s.Features[key]
	return a != 0 && h >= a
}

// ---- key directory ----

type keyDir struct {
	names map[string]string // hex address -> label
	keys  map[string]crypto.PrivateKey
}

func newKeyDir() *keyDir {
	return &keyDir{names: map[string]string{}, keys: map[string]crypto.PrivateKey{}}
}

func (d *keyDir) add(label string) crypto.PrivateKey {
	k := chain.Key(label)
	a := hx(chain.Addr(k))
	d.names[a] = label
	d.keys[a] = k
	return k
}

func (d *keyDir) name(a sdk.Address) string {
	if a == nil {
		return "nil"
	}
	if n, ok := d.names[hx(a)]; ok {
		return n
	}
	return hx(a)[:8]
}

func hx(a sdk.Address) string { return hex.EncodeToString(a) }

// ---- raw state readers (prefix iteration of the module stores; no keeper getter, no cache) ----

type appRec struct {
	app appsTypes.Application
	raw []byte
}

// readApps decodes every record under the all-applications prefix of the application store.
func readApps(n *chain.Node) map[string]appRec {
	st := n.App.Store().GetKVStore(n.App.Keys[appsTypes.StoreKey])
	it, err := sdk.KVStorePrefixIterator(st, appsTypes.AllApplicationsKey)
	if err != nil {
		panic(err)
	}
	defer it.Close()
	out := map[string]appRec{}
	for ; it.Valid(); it.Next() {
		var a appsTypes.Application
		if err := app.Codec().UnmarshalBinaryLengthPrefixed(it.Value(), &a, n.Height+1); err != nil {
			panic(fmt.Sprintf("undecodable application record %x: %v", it.Key(), err))
		}
		key := hex.EncodeToString(it.Key()[1:])
		out[key] = appRec{app: a, raw: append([]byte{}, it.Value()...)}
	}
	return out
}

// readAppStakedIndex returns the addresses (hex) stored as values under the staked-applications prefix.
func readAppStakedIndex(n *chain.Node) map[string]int {
	st := n.App.Store().GetKVStore(n.App.Keys[appsTypes.StoreKey])
	it, err := sdk.KVStorePrefixIterator(st, appsTypes.StakedAppsKey)
	if err != nil {
		panic(err)
	}
	defer it.Close()
	out := map[string]int{}
	for ; it.Valid(); it.Next() {
		out[hex.EncodeToString(it.Value())]++
	}
	return out
}

type valRec struct {
	val nodesTypes.Validator
	raw []byte
}

// readVals decodes every record under the all-validators prefix. The bytes are decoded as the current
// (superset) validator message, whatever the feature gates of the keeper would do at this height.
func readVals(n *chain.Node) map[string]valRec {
	st := n.App.Store().GetKVStore(n.App.Keys[nodesTypes.StoreKey])
	it, err := sdk.KVStorePrefixIterator(st, nodesTypes.AllValidatorsKey)
	if err != nil {
		panic(err)
	}
	defer it.Close()
	out := map[string]valRec{}
	for ; it.Valid(); it.Next() {
		var v nodesTypes.Validator
		if err := app.Codec().UnmarshalBinaryLengthPrefixed(it.Value(), &v, n.Height+1); err != nil {
			panic(fmt.Sprintf("undecodable validator record %x: %v", it.Key(), err))
		}
		out[hex.EncodeToString(it.Key()[1:])] = valRec{val: v, raw: append([]byte{}, it.Value()...)}
	}
	return out
}

// readWaiting returns the set (hex addresses) under the waiting-to-begin-unstaking prefix.
func readWaiting(n *chain.Node) map[string]bool {
	st := n.App.Store().GetKVStore(n.App.Keys[nodesTypes.StoreKey])
	it, err := sdk.KVStorePrefixIterator(st, nodesTypes.WaitingToBeginUnstakingKey)
	if err != nil {
		panic(err)
	}
	defer it.Close()
	out := map[string]bool{}
	for ; it.Valid(); it.Next() {
		out[hex.EncodeToString(it.Key()[1:])] = true
	}
	return out
}

func appPoolAddr() sdk.Address  { return authTypes.NewModuleAddress(appsTypes.StakedPoolName) }
func nodePoolAddr() sdk.Address { return authTypes.NewModuleAddress(nodesTypes.StakedPoolName) }

func balance(n *chain.Node, a sdk.Address) *big.Int { return bi(n.Balance(a)) }

func totalSupply(n *chain.Node) *big.Int {
	return bi(n.Supply().AmountOf(sdk.DefaultStakeDenom))
}

// sumAppStakes = Σ StakedTokens over application records that are Staked or Unstaking.
func sumAppStakes(recs map[string]appRec) *big.Int {
	s := new(big.Int)
	for _, r := range recs {
		if r.app.Status == sdk.Staked || r.app.Status == sdk.Unstaking {
			s.Add(s, bi(r.app.StakedTokens))
		}
	}
	return s
}

func sameStrings(a, b []string) bool {
	if len(a) != len(b) {
		return false
	}
	for i := range a {
		if a[i] != b[i] {
			return false
		}
	}
	return true
}

func sameDelegators(a, b map[string]uint32) bool {
	if len(a) != len(b) {
		return false
	}
	for k, v := range a {
		w, ok := b[k]
		if !ok || w != v {
			return false
		}
	}
	return true
}

func renderDelegators(m map[string]uint32) string {
	ks := make([]string, 0, len(m))
	for k := range m {
		ks = append(ks, k)
	}
	sort.Strings(ks)
	var sb bytes.Buffer
	sb.WriteString("{")
	for i, k := range ks {
		if i > 0 {
			sb.WriteString(",")
		}
		kk := k
		if len(kk) > 8 {
			kk = kk[:8]
		}
		fmt.Fprintf(&sb, "%s:%d", kk, m[k])
	}
	sb.WriteString("}")
	return sb.String()
}

func pubEq(a, b crypto.PublicKey) bool {
	if a == nil || b == nil {
		return a == nil && b == nil
	}
	return a.RawString() == b.RawString()
}

// changeParamTx builds a gov parameter change signed by signer.
func changeParamTx(chainID string, key string, val interface{}, signer crypto.PrivateKey, entropy int64) []byte {
	bz, err := app.Codec().MarshalJSON(val)
	if err != nil {
		panic(err)
	}
	msg := &govTypes.MsgChangeParam{FromAddress: chain.Addr(signer), ParamKey: key, ParamVal: bz}
	return chain.SignTx(chainID, msg, chain.DefaultFee, "", entropy, signer)
}
