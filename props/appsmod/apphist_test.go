package appsmod

import (
	"fmt"
	"math/big"
	"sort"
	"time"

	"pgregory.net/rapid"

	"github.com/pokt-network/pocket-core/crypto"
	sdk "github.com/pokt-network/pocket-core/types"
	appsTypes "github.com/pokt-network/pocket-core/x/apps/types"
	nodesTypes "github.com/pokt-network/pocket-core/x/nodes/types"

	"verif/harness"
	"verif/harness/chain"
)

// Generator of application-module histories, shared by C20 (pool invariant) and C28 (admission / transfer).

const fee = chain.DefaultFee

var appChainIDs = []string{"0001", "0021", "0003", "0004", "0005"}

type appWorld struct {
	spec      chain.Spec
	dir       *keyDir
	genesis   []crypto.PrivateKey // applications staked at genesis
	cands     []crypto.PrivateKey // funded keys without an application at genesis
	fresh     []crypto.PrivateKey // keys without an account at genesis
	strangers []crypto.PrivateKey // funded keys that never own an application
	dao       crypto.PrivateKey
	appKeys   []crypto.PrivateKey // genesis + cands + fresh: every key that may ever own an application
	entropy   int64
	// hadApp: hex addresses that owned an application record at some point of the history (maintained by genTx from the
	// views it is given): a key whose application was paid out and removed is a legitimate transfer target again
	hadApp map[string]bool
}

type appWeights struct {
	stake, edit, transfer, unstake, param, send int
	unstakeSecs                                 []int
	maxAppsSlack                                []int                     // MaxApplications = genesis apps + one of these
	honestTransfer                              int                       // out of 10 transfers, this many are drawn as clean ones (staked app -> key without record, own signature)
	preferUnstake                               func(addrHex string) bool // optional: staked applications the begin-unstake generator picks half of the time
}

func genAppWorld(rt *rapid.T, wt appWeights) *appWorld {
	w := &appWorld{spec: chain.DefaultSpec(), dir: newKeyDir()}
	s := &w.spec
	fund := func(k crypto.PrivateKey, bal int64) {
		s.Accounts = append(s.Accounts, chain.AccountSpec{Key: k, Balance: bal})
	}
	for i := 0; i < 2; i++ {
		k := w.dir.add(fmt.Sprintf("node%d", i))
		fund(k, 1_000_000_000)
		s.Nodes = append(s.Nodes, chain.NodeSpec{Key: k, Stake: chain.StakeUnit * int64(i+1), Chains: []string{"0001"}})
	}
	s.AppParams.MaxChains = int64(1 + uniformN(rt, "maxChains", 3))
	s.AppParams.AppStakeMin = pickI64(rt, "stakeMin", 1_000_000, 1_000_000, 2_000_000)
	s.AppParams.BaseRelaysPerPOKT = pickI64(rt, "baseRelays", 1, 100, 100, 167, 99_999, 9_000_000_000_000_000_000)
	s.AppParams.StabilityAdjustment = pickI64(rt, "stabAdj", 0, 0, 3, 250)
	s.AppParams.ParticipationRateOn = uniformN(rt, "participation", 4) == 0
	us := time.Duration(wt.unstakeSecs[uniformN(rt, "unstakeSecs", len(wt.unstakeSecs))]) * time.Second
	s.AppParams.UnstakingTime = us
	s.NodeParams.UnstakingTime = us
	nApps := 1 + uniformN(rt, "nApps", 3)
	for i := 0; i < nApps; i++ {
		k := w.dir.add(fmt.Sprintf("app%d", i))
		fund(k, pickI64(rt, "appBal", 20_000, 1_010_000, 100_000_000, 5_000_000_000))
		stake := s.AppParams.AppStakeMin + pickI64(rt, "appStake", 1, 2, 1_500_000, 9_000_000, 48_999_999) // genesis validation demands stake > minimum
		nch := 1 + uniformN(rt, "appChains", int(s.AppParams.MaxChains))
		s.Apps = append(s.Apps, chain.AppSpec{Key: k, Stake: stake, Chains: append([]string{}, appChainIDs[:nch]...)})
		w.genesis = append(w.genesis, k)
	}
	s.AppParams.MaxApplications = int64(nApps + wt.maxAppsSlack[uniformN(rt, "maxAppsSlack", len(wt.maxAppsSlack))])
	min := s.AppParams.AppStakeMin
	for i := 0; i < 5; i++ {
		k := w.dir.add(fmt.Sprintf("cand%d", i))
		fund(k, pickI64(rt, "candBal", min+fee-1, min+fee, min+fee+1, 2*min+2*fee, 50_000_000, 5_000_000_000, 5_000_000_000, 9_999))
		w.cands = append(w.cands, k)
	}
	for i := 0; i < 3; i++ {
		w.fresh = append(w.fresh, w.dir.add(fmt.Sprintf("fresh%d", i)))
	}
	for i := 0; i < 2; i++ {
		k := w.dir.add(fmt.Sprintf("stranger%d", i))
		fund(k, 1_000_000_000)
		w.strangers = append(w.strangers, k)
	}
	w.dao = s.DAOOwner
	w.dir.names[hx(chain.Addr(w.dao))] = "dao"
	fund(w.dao, 1_000_000_000)
	w.appKeys = append(append(append([]crypto.PrivateKey{}, w.genesis...), w.cands...), w.fresh...)
	return w
}

func (w *appWorld) describe() string {
	p := w.spec.AppParams
	d := "world{apps=["
	for _, a := range w.spec.Apps {
		d += fmt.Sprintf("%d/%dch ", a.Stake, len(a.Chains))
	}
	return d + fmt.Sprintf("] maxApps=%d min=%d maxChains=%d base=%d adj=%d part=%v unstake=%s}", p.MaxApplications, p.AppStakeMin, p.MaxChains,
		p.BaseRelaysPerPOKT, p.StabilityAdjustment, p.ParticipationRateOn, p.UnstakingTime)
}

func (w *appWorld) nextEntropy() int64 { w.entropy++; return w.entropy }

// appView is the raw application-module state the oracles look at.
type appView struct {
	recs     map[string]appRec
	index    map[string]int
	pool     *big.Int
	nodePool *big.Int
	supply   *big.Int
	params   appsTypes.Params
	height   int64 // height of the block in execution (or next block)
}

func viewApps(n *chain.Node) appView {
	return appView{recs: readApps(n), index: readAppStakedIndex(n), pool: balance(n, appPoolAddr()), nodePool: balance(n, nodePoolAddr()),
		supply: totalSupply(n), params: n.App.VerifAppsKeeper().GetParams(n.Ctx()), height: n.Height + 1}
}

func (v appView) stakedCount() int64 {
	c := int64(0)
	for _, r := range v.recs {
		if r.app.Status == sdk.Staked {
			c++
		}
	}
	return c
}

func (v appView) keysWith(pool []crypto.PrivateKey, pred func(r appRec, found bool) bool) []crypto.PrivateKey {
	var out []crypto.PrivateKey
	for _, k := range pool {
		r, ok := v.recs[hx(chain.Addr(k))]
		if pred(r, ok) {
			out = append(out, k)
		}
	}
	return out
}

// appTx is one generated transaction together with what the oracle needs to know about how it was built.
type appTx struct {
	kind    string // stake | edit | transfer | unstake | param | send
	desc    string
	bytes   []byte
	msg     *appsTypes.MsgStake // application stake message (stake, edit, transfer kinds)
	signer  crypto.PrivateKey   // the key that really produced the signature
	claimed crypto.PrivateKey   // the key whose public key is placed in the signature (== signer unless forged)
	labels  []string
}

func (w *appWorld) signStake(msg *appsTypes.MsgStake, signer, claimed crypto.PrivateKey) []byte {
	o := chain.TxOpts{ChainID: w.spec.ChainID, Msg: msg, Fee: sdk.NewCoins(sdk.NewCoin(sdk.DefaultStakeDenom, sdk.NewInt(fee))),
		Entropy: w.nextEntropy(), Signer: signer, IncludePubKey: true}
	if !pubEq(signer.PublicKey(), claimed.PublicKey()) {
		o.PubKeyOverride = claimed.PublicKey()
	}
	return chain.SignTxOpts(o)
}

func drawChains(rt *rapid.T, max int64) []string {
	// counts around the maximum: max weight 3, max+1 weight 2, each smaller count weight 1
	ws := make([]int, 0, max+1)
	for i := int64(1); i <= max+1; i++ {
		switch i {
		case max:
			ws = append(ws, 3)
		case max + 1:
			ws = append(ws, 2)
		default:
			ws = append(ws, 1)
		}
	}
	n := 1 + pick(rt, "nChains", ws...)
	if n > len(appChainIDs) {
		n = len(appChainIDs)
	}
	off := uniformN(rt, "chainOff", 2)
	out := make([]string, 0, n)
	for i := 0; i < n; i++ {
		out = append(out, appChainIDs[(i+off)%len(appChainIDs)])
	}
	return out
}

func positive(vals ...int64) []int64 {
	var out []int64
	for _, v := range vals {
		if v > 0 {
			out = append(out, v)
		}
	}
	return out
}

func (w *appWorld) genTx(rt *rapid.T, n *chain.Node, v appView, wt appWeights) appTx {
	isStaked := func(r appRec, ok bool) bool { return ok && r.app.Status == sdk.Staked }
	isUnstaking := func(r appRec, ok bool) bool { return ok && r.app.Status == sdk.Unstaking }
	none := func(r appRec, ok bool) bool { return !ok }
	if w.hadApp == nil {
		w.hadApp = map[string]bool{}
	}
	for a := range v.recs {
		w.hadApp[a] = true
	}
	min := v.params.AppStakeMin
	switch pick(rt, "kind", wt.stake, wt.edit, wt.transfer, wt.unstake, wt.param, wt.send) {
	case 0: // new stake (mostly keys without a record)
		pool := v.keysWith(append(append([]crypto.PrivateKey{}, w.cands...), w.genesis...), none)
		if len(pool) == 0 || uniformN(rt, "anyKey", 8) == 0 {
			pool = append(append([]crypto.PrivateKey{}, w.cands...), w.genesis...)
		}
		k := pickKey(rt, "stakeKey", pool)
		b := n.Balance(chain.Addr(k)).Int64()
		amts := positive(min-1, min, min, min+1, b-fee-1, b-fee, b-fee, b-fee+1, b, 2*min+int64(uniformN(rt, "extra", 1000)))
		if b > 400*min {
			amts = append(amts, 300*min) // large enough to reach the 2^64-1 cap when BaseRelaysPerPOKT is huge
		}
		amt := amts[uniformN(rt, "amt", len(amts))]
		msg := &appsTypes.MsgStake{PubKey: k.PublicKey(), Chains: drawChains(rt, v.params.MaxChains), Value: sdk.NewInt(amt)}
		signer := k
		lab := []string{}
		if uniformN(rt, "foreignSigner", 12) == 0 {
			signer = pickKey(rt, "stranger", w.strangers)
			lab = append(lab, "stake-foreign-signer")
		}
		if amt >= min-1 && amt <= min+1 {
			lab = append(lab, "amount-at-minimum±1")
		}
		if amt >= b-fee-1 && amt <= b-fee+1 {
			lab = append(lab, "amount-at-balance±1")
		}
		if int64(len(msg.Chains)) > v.params.MaxChains {
			lab = append(lab, "chains-over-max")
		}
		return appTx{kind: "stake", msg: msg, signer: signer, claimed: signer, labels: lab, bytes: w.signStake(msg, signer, signer),
			desc: fmt.Sprintf("appStake %s amt=%d chains=%d (bal=%d) by %s", w.dir.name(chain.Addr(k)), amt, len(msg.Chains), b, w.dir.name(chain.Addr(signer)))}
	case 1: // edit stake of a staked application
		pool := v.keysWith(w.appKeys, isStaked)
		if len(pool) == 0 {
			pool = w.genesis
		}
		k := pickKey(rt, "editKey", pool)
		b := n.Balance(chain.Addr(k)).Int64()
		cur := int64(0)
		curChains := []string{"0001"}
		if r, ok := v.recs[hx(chain.Addr(k))]; ok {
			cur = r.app.StakedTokens.Int64()
			curChains = r.app.Chains
		}
		amts := positive(cur-1, cur, cur, cur+1, cur+1, cur+(b-fee)-1, cur+(b-fee), cur+(b-fee)+1, cur+1_000_000, cur+333_333)
		amt := amts[uniformN(rt, "amt", len(amts))]
		chains := curChains
		if uniformN(rt, "newChains", 2) == 0 {
			chains = drawChains(rt, v.params.MaxChains)
		}
		msg := &appsTypes.MsgStake{PubKey: k.PublicKey(), Chains: append([]string{}, chains...), Value: sdk.NewInt(amt)}
		lab := []string{}
		if amt > cur {
			lab = append(lab, "edit-bump-attempt")
		}
		return appTx{kind: "edit", msg: msg, signer: k, claimed: k, labels: lab, bytes: w.signStake(msg, k, k),
			desc: fmt.Sprintf("appEdit %s cur=%d amt=%d chains=%v (bal=%d)", w.dir.name(chain.Addr(k)), cur, amt, chains, b)}
	case 2: // transfer
		var from crypto.PrivateKey
		lab := []string{}
		honest := uniformN(rt, "honestTransfer", 10) < wt.honestTransfer
		fromW, toW, shapeW, signerW := []int{6, 2, 1}, []int{3, 3, 4, 1}, []int{10, 1, 1}, []int{7, 1, 1, 1}
		if honest {
			fromW, toW, shapeW, signerW = []int{1, 0, 0}, []int{1, 1, 0, 0}, []int{1, 0, 0}, []int{1, 0, 0, 0}
		}
		switch pick(rt, "fromClass", fromW...) {
		case 0:
			if p := v.keysWith(w.appKeys, isStaked); len(p) > 0 {
				from = pickKey(rt, "from", p)
			}
		case 1:
			if p := v.keysWith(w.appKeys, isUnstaking); len(p) > 0 {
				from = pickKey(rt, "from", p)
				lab = append(lab, "transfer-from-unstaking")
			}
		default:
			if p := v.keysWith(append(append([]crypto.PrivateKey{}, w.cands...), w.strangers...), none); len(p) > 0 {
				from = pickKey(rt, "from", p)
				lab = append(lab, "transfer-from-non-app")
			}
		}
		if from == nil {
			from = pickKey(rt, "from", w.genesis)
		}
		var to crypto.PrivateKey
		switch pick(rt, "toClass", toW...) {
		case 0:
			to = pickKey(rt, "to", w.fresh)
			lab = append(lab, "transfer-to-fresh-key")
		case 1:
			if p := v.keysWith(w.cands, none); len(p) > 0 {
				to = pickKey(rt, "to", p)
				// half of the time, when there is one: the key of an application that existed earlier and was removed
				if former := v.keysWith(w.appKeys, func(r appRec, ok bool) bool { return !ok }); len(former) > 0 {
					var f2 []crypto.PrivateKey
					for _, k := range former {
						if w.hadApp[hx(chain.Addr(k))] {
							f2 = append(f2, k)
						}
					}
					if len(f2) > 0 && uniformN(rt, "toFormerApp", 2) == 0 {
						to = pickKey(rt, "toFormer", f2)
						lab = append(lab, "transfer-to-key-of-removed-application")
					}
				}
				lab = append(lab, "transfer-to-funded-key")
			}
		case 2:
			if p := v.keysWith(w.appKeys, func(r appRec, ok bool) bool { return ok && r.app.Address.String() != chain.Addr(from).String() }); len(p) > 0 {
				to = pickKey(rt, "to", p)
				lab = append(lab, "transfer-onto-existing-"+statusName(v.recs[hx(chain.Addr(to))].app.Status))
				lab = append(lab, "transfer-onto-existing")
			}
		default:
			to = from
			lab = append(lab, "transfer-to-same-key")
		}
		if to == nil {
			to = pickKey(rt, "to", w.fresh)
			lab = append(lab, "transfer-to-fresh-key")
		}
		msg := &appsTypes.MsgStake{PubKey: to.PublicKey(), Chains: nil, Value: sdk.ZeroInt()}
		switch pick(rt, "shape", shapeW...) {
		case 1:
			msg.Chains = []string{"0001"}
			lab = append(lab, "transfer-shape-with-chains")
		case 2:
			msg.Value = sdk.NewInt(min)
			lab = append(lab, "transfer-shape-with-value")
		}
		signer, claimed := from, from
		switch pick(rt, "signerClass", signerW...) {
		case 1: // a stranger signs but presents the current application's public key
			signer = pickKey(rt, "stranger", w.strangers)
			lab = append(lab, "transfer-forged-pubkey", "transfer-wrong-signer")
		case 2: // a stranger signs as itself
			signer = pickKey(rt, "stranger", w.strangers)
			claimed = signer
			lab = append(lab, "transfer-signed-by-stranger", "transfer-wrong-signer")
		case 3: // the new key signs
			signer, claimed = to, to
			if !pubEq(to.PublicKey(), from.PublicKey()) {
				lab = append(lab, "transfer-signed-by-new-key", "transfer-wrong-signer")
			}
		}
		return appTx{kind: "transfer", msg: msg, signer: signer, claimed: claimed, labels: lab, bytes: w.signStake(msg, signer, claimed),
			desc: fmt.Sprintf("appTransfer %s->%s value=%s chains=%d signed by %s claiming %s", w.dir.name(chain.Addr(from)), w.dir.name(chain.Addr(to)),
				msg.Value, len(msg.Chains), w.dir.name(chain.Addr(signer)), w.dir.name(chain.Addr(claimed)))}
	case 3: // begin unstake
		pool := v.keysWith(w.appKeys, isStaked)
		if wt.preferUnstake != nil {
			if pref := v.keysWith(w.appKeys, func(r appRec, ok bool) bool { return isStaked(r, ok) && wt.preferUnstake(hx(r.app.Address)) }); len(pref) > 0 && uniformN(rt, "preferred", 2) == 0 {
				pool = pref
			}
		}
		if len(pool) == 0 || uniformN(rt, "anyKey", 8) == 0 {
			pool = w.appKeys
		}
		k := pickKey(rt, "unstakeKey", pool)
		signer := k
		if uniformN(rt, "foreignSigner", 10) == 0 {
			signer = pickKey(rt, "stranger", w.strangers)
		}
		msg := &appsTypes.MsgBeginUnstake{Address: chain.Addr(k)}
		return appTx{kind: "unstake", signer: signer, claimed: signer, bytes: chain.SignTx(w.spec.ChainID, msg, fee, "", w.nextEntropy(), signer),
			desc: fmt.Sprintf("appUnstake %s by %s", w.dir.name(chain.Addr(k)), w.dir.name(chain.Addr(signer)))}
	case 4: // parameter change
		signer := w.dao
		if uniformN(rt, "foreignSigner", 8) == 0 {
			signer = pickKey(rt, "stranger", w.strangers)
		}
		var key string
		var val interface{}
		switch pick(rt, "param", 5, 2, 2, 2, 1, 1) {
		case 0:
			key, val = "application/MaxApplications", int64(1+uniformN(rt, "v", 5))
		case 1:
			key, val = "application/ApplicationStakeMinimum", pickI64(rt, "v", 999_999, 1_000_000, 2_000_000, 3_000_000)
		case 2:
			key, val = "application/MaximumChains", int64(1+uniformN(rt, "v", 3))
		case 3:
			key, val = "application/BaseRelaysPerPOKT", pickI64(rt, "v", 0, 1, 99, 100, 167, 12_345)
		case 4:
			key, val = "application/StabilityAdjustment", pickI64(rt, "v", 0, 1, 77)
		default:
			key, val = "application/ParticipationRateOn", uniformN(rt, "v", 2) == 0
		}
		return appTx{kind: "param", signer: signer, claimed: signer, bytes: changeParamTx(w.spec.ChainID, key, val, signer, w.nextEntropy()),
			desc: fmt.Sprintf("changeParam %s=%v by %s", key, val, w.dir.name(chain.Addr(signer)))}
	default: // send (moves balances around the interesting amounts)
		from := pickKey(rt, "sendFrom", append(append([]crypto.PrivateKey{}, w.strangers...), w.dao))
		to := pickKey(rt, "sendTo", append(append([]crypto.PrivateKey{}, w.cands...), w.fresh...))
		amt := pickI64(rt, "sendAmt", min+fee, min+fee-1, 2*fee, 5_000_000, 9_999)
		msg := &nodesTypes.MsgSend{FromAddress: chain.Addr(from), ToAddress: chain.Addr(to), Amount: sdk.NewInt(amt)}
		return appTx{kind: "send", signer: from, claimed: from, bytes: chain.SignTx(w.spec.ChainID, msg, fee, "", w.nextEntropy(), from),
			desc: fmt.Sprintf("send %d %s->%s", amt, w.dir.name(chain.Addr(from)), w.dir.name(chain.Addr(to)))}
	}
}

func statusName(s sdk.StakeStatus) string {
	switch s {
	case sdk.Staked:
		return "staked"
	case sdk.Unstaking:
		return "unstaking"
	case sdk.Unstaked:
		return "unstaked"
	}
	return fmt.Sprintf("status%d", int(s))
}

func sortedKeys[T any](m map[string]T) []string {
	ks := make([]string, 0, len(m))
	for k := range m {
		ks = append(ks, k)
	}
	sort.Strings(ks)
	return ks
}

func renderApp(a appsTypes.Application) string {
	return fmt.Sprintf("{%s %s jailed=%v stake=%s relays=%s chains=%v until=%s}", hx(a.Address)[:8], statusName(a.Status), a.Jailed, a.StakedTokens, a.MaxRelays,
		a.Chains, a.UnstakingCompletionTime.UTC().Format(time.RFC3339))
}

// historicalAppLookup: the node also answers queries while the chain runs - now and then somebody looks an application up
// at a past height through the RPC query route (historical context). That must leave the live records, the pools and the
// outcome of every later transaction alone.
func historicalAppLookup(rt *rapid.T, c *harness.Case, n *chain.Node) {
	if n.Height <= 1 || !rapid.Bool().Draw(rt, "historicalLookup") {
		return
	}
	recs := readApps(n)
	addrs := sortedKeys(recs)
	if len(addrs) == 0 {
		return
	}
	a := addrs[rapid.IntRange(0, len(addrs)-1).Draw(rt, "lookupApp")]
	qh := int64(rapid.IntRange(1, int(n.Height)-1).Draw(rt, "lookupHeight"))
	pa := *n.App
	_, _ = pa.QueryApp(a, qh)
	c.Opf("  query application %s.. at past height %d", a[:8], qh)
	c.Label("historical-application-lookup")
}
