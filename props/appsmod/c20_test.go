package appsmod

import (
	"testing"
	"time"

	"pgregory.net/rapid"

	sdk "github.com/pokt-network/pocket-core/types"

	"verif/harness"
	"verif/harness/chain"
)

// C20: at every committed height, balance(application staked pool) == Σ StakedTokens over application records
// whose status is Staked or Unstaking — across stake, edit-stake, transfer to a new key, begin-unstake and
// maturity payout.

func TestC20(t *testing.T) {
	wt := appWeights{stake: 5, edit: 6, transfer: 6, unstake: 6, param: 1, send: 1, unstakeSecs: []int{0, 5, 5, 20}, maxAppsSlack: []int{1, 2, 4}, honestTransfer: 6}
	harness.Check(t, "C20",
		"chain-simulator histories (real txs through DeliverTx) of 8-20 blocks with 0-4 txs each over a generated world (1-3 genesis apps, 5 funded candidate keys with "+
			"balances around the stake amounts, fresh keys, strangers; unstaking time 0/5/20 s; block time steps 0-40 s): new stakes, edit-stakes (bump / same / lower), "+
			"transfers (to fresh, funded, existing, same key; by current app / stranger / forged pubkey / new key), begin-unstakes (half of them aimed at applications transferred or bumped earlier), gov param changes, sends. "+
			"between blocks the node sometimes answers an application lookup at a past height (RPC query route). Oracle after every Commit: balance of the application staked pool (auth store) == sum of StakedTokens over raw application records with status Staked or Unstaking. "+
			"non-trivial = an application that was the target of a successful transfer or a successful stake bump later completes unstaking (record removed at maturity) in the same history",
		map[string]float64{"transfer-ok": 0.4, "edit-bump-ok": 0.4, "unstake-completed": 0.6, "transfer-then-unstake-completed": 0.1, "bump-then-unstake-completed": 0.1, "historical-application-lookup": 0.5},
		func(rt *rapid.T, c *harness.Case) {
			w := genAppWorld(rt, wt)
			c.Opf("%s", w.describe())
			n := chain.NewNode(&w.spec)
			checkPool := func(where string) {
				recs := readApps(n)
				pool := balance(n, appPoolAddr())
				sum := sumAppStakes(recs)
				c.AddExtra("heights_checked", 1)
				if pool.Cmp(sum) != 0 {
					detail := ""
					for _, k := range sortedKeys(recs) {
						detail += renderApp(recs[k].app) + " "
					}
					sig := "C20/commit/pool-exceeds-staked-sum"
					if pool.Cmp(sum) < 0 {
						sig = "C20/commit/pool-below-staked-sum"
					}
					c.Violation(sig, "%s height %d: application staked pool holds %s but staked+unstaking records sum to %s; records: %s", where, n.Height, pool, sum, detail)
				}
			}
			checkPool("after warm-up")
			transferred := map[string]bool{} // hex addr -> was the target of a successful transfer (still alive)
			bumped := map[string]bool{}
			wt := wt
			wt.preferUnstake = func(a string) bool { return transferred[a] || bumped[a] }
			nb := 8 + uniformN(rt, "blocks", 13)
			for b := 0; b < nb; b++ {
				dt := time.Duration(pickI64(rt, "dtSecs", 0, 1, 1, 5, 15, 40)) * time.Second
				n.BeginBlock(chain.Block{DT: dt})
				ntx := uniformN(rt, "nTxs", 5)
				c.Opf("block h=%d dt=%s", n.Height+1, dt)
				for i := 0; i < ntx; i++ {
					v := viewApps(n)
					tx := w.genTx(rt, n, v, wt)
					res := n.DeliverTx(tx.bytes)
					c.Opf("  %s -> code %d %s", tx.desc, res.Code, res.Codespace)
					if res.Code != 0 {
						continue
					}
					switch tx.kind {
					case "transfer":
						to := hx(sdk.Address(tx.msg.PubKey.Address()))
						from := hx(chain.Addr(tx.signer))
						if _, had := v.recs[from]; had && from != to {
							c.Label("transfer-ok")
							transferred[to] = true
							if bumped[from] {
								bumped[to] = true
							}
							if transferred[from] {
								c.Label("transfer-chain")
							}
							delete(transferred, from)
							delete(bumped, from)
						}
					case "edit", "stake":
						a := hx(sdk.Address(tx.msg.PubKey.Address()))
						if r, ok := v.recs[a]; ok && r.app.Status == sdk.Staked && bi(tx.msg.Value).Cmp(bi(r.app.StakedTokens)) > 0 {
							c.Label("edit-bump-ok")
							bumped[a] = true
						} else if !ok {
							c.Label("new-stake-ok")
						}
					case "unstake":
						c.Label("begin-unstake-ok")
					}
				}
				before := readApps(n)
				eb := n.EndBlock()
				n.Commit(eb)
				after := readApps(n)
				for a, r := range before {
					if _, still := after[a]; !still && r.app.Status == sdk.Unstaking {
						c.Label("unstake-completed")
						if transferred[a] {
							c.Label("transfer-then-unstake-completed")
							c.NonTrivial()
						}
						if bumped[a] {
							c.Label("bump-then-unstake-completed")
							c.NonTrivial()
						}
						delete(transferred, a)
						delete(bumped, a)
					}
				}
				checkPool("after commit")
				// the node also answers queries while the chain runs: now and then somebody looks an application up at a past
				// height (RPC query route, historical context) - that must leave the live records and the pool alone
				if rapid.Bool().Draw(rt, "historicalLookup") {
					addrs := sortedKeys(before)
					if len(addrs) > 0 && n.Height > 1 {
						a := addrs[rapid.IntRange(0, len(addrs)-1).Draw(rt, "lookupApp")]
						qh := int64(rapid.IntRange(1, int(n.Height)-1).Draw(rt, "lookupHeight"))
						pa := *n.App
						_, _ = pa.QueryApp(a, qh)
						c.Opf("  query application %s.. at past height %d", a[:8], qh)
						c.Label("historical-application-lookup")
					}
				}
			}
		})
}
