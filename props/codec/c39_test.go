package codec

import (
	"bytes"
	"crypto/sha256"
	"encoding/hex"
	"encoding/json"
	"fmt"
	"reflect"
	"testing"

	"github.com/pokt-network/pocket-core/crypto"
	tmcrypto "github.com/tendermint/tendermint/crypto"
	"golang.org/x/crypto/ripemd160"
	"pgregory.net/rapid"

	"verif/harness"
	"verif/harness/gen"
)

// C39: a signature verifies under a public key iff it was produced by the matching private key over exactly
// that message (ed25519, secp256k1, multisig = every member's signature in member order); addresses and key
// encodings are stable across encode/decode.

// sameKey compares two public keys by dynamic type and raw bytes (crypto's Equals type-asserts its argument).
func sameKey(a, b crypto.PublicKey) bool {
	if a == nil || b == nil {
		return a == nil && b == nil
	}
	return reflect.TypeOf(a) == reflect.TypeOf(b) && bytes.Equal(a.RawBytes(), b.RawBytes())
}

// expectedAddress restates the address derivations independently.
func expectedAddress(pk crypto.PublicKey) []byte {
	switch k := pk.(type) {
	case crypto.Ed25519PublicKey:
		h := sha256.Sum256(k.RawBytes())
		return h[:20]
	case crypto.Secp256k1PublicKey:
		h := sha256.Sum256(k.RawBytes())
		r := ripemd160.New()
		r.Write(h[:])
		return r.Sum(nil)
	case crypto.PublicKeyMultiSignature:
		h := sha256.Sum256(k.Bytes())
		return h[:20]
	}
	return nil
}

func drawMessage(rt *rapid.T) []byte {
	switch rapid.IntRange(0, 5).Draw(rt, "msgClass") {
	case 0:
		return []byte{}
	case 1:
		return []byte{rapid.Byte().Draw(rt, "oneByte")}
	case 2:
		return rapid.SliceOfN(rapid.Byte(), 256, 256).Draw(rt, "msg256")
	default:
		return rapid.SliceOfN(rapid.Byte(), 2, 255).Draw(rt, "msg")
	}
}

// mutateBytes returns a copy of b with exactly one byte changed (b non-empty).
func mutateBytes(rt *rapid.T, b []byte, label string) ([]byte, string) {
	i := rapid.IntRange(0, len(b)-1).Draw(rt, label+"Pos")
	mask := byte(rapid.IntRange(1, 255).Draw(rt, label+"Mask"))
	out := append([]byte{}, b...)
	out[i] ^= mask
	return out, fmt.Sprintf("byte %d ^= %02x", i, mask)
}

func safeVerify(pk crypto.PublicKey, msg, sig []byte) (ok bool, panicked any) {
	defer func() {
		if r := recover(); r != nil {
			ok, panicked = false, r
		}
	}()
	return pk.VerifyBytes(msg, sig), nil
}

func c39Single(rt *rapid.T, c *harness.Case) {
	k := gen.AnyKey().Draw(rt, "key")
	msg := drawMessage(rt)
	c.Label(k.Algo)
	c.Opf("key %s msg %x", k.Describe(), msg)
	site := "C39/" + k.Algo
	sig, err := k.Priv.Sign(msg)
	if err != nil {
		c.Violation(site+"/sign-error", "Sign failed: %v", err)
		return
	}
	if !k.Pub.VerifyBytes(msg, sig) {
		c.Violation(site+"/own-signature-rejected", "signature by %s over %x does not verify under its own public key; sig %x", k.Describe(), msg, sig)
	}
	if len(msg) == 0 {
		c.Label("empty-message")
	}
	negatives := 0
	reject := func(what string, pk crypto.PublicKey, m, s []byte, sigName string) {
		negatives++
		c.AddExtra("negative_verifications", 1)
		ok, p := safeVerify(pk, m, s)
		if p != nil {
			c.Violation(site+"/verify-panics", "VerifyBytes panics on %s: %v", what, p)
			return
		}
		if ok {
			c.Violation(site+"/"+sigName, "%s: VerifyBytes accepted. key %s msg %x sig %x", what, k.Describe(), m, s)
		}
	}
	// another key of the same algorithm, and one of the other algorithm
	var other gen.Key
	if k.Algo == "ed25519" {
		other = gen.Ed25519Key().Draw(rt, "otherKey")
	} else {
		other = gen.Secp256k1Key().Draw(rt, "otherKey")
	}
	if !bytes.Equal(other.Seed, k.Seed) {
		c.Opf("other key %s", other.Describe())
		reject("signature checked under another key of the same algorithm", other.Pub, msg, sig, "other-key-accepted")
		osig := other.Sign(msg)
		reject("another key's signature checked under this key", k.Pub, msg, osig, "other-key-signature-accepted")
	}
	cross := gen.Secp256k1FromSeed(k.Seed)
	if k.Algo == "secp256k1" {
		cross = gen.Ed25519FromSeed(k.Seed)
	}
	reject("signature checked under the "+cross.Algo+" key derived from the same seed", cross.Pub, msg, sig, "other-algorithm-accepted")
	// message changes
	if len(msg) > 0 {
		m2, how := mutateBytes(rt, msg, "msgMut")
		c.Opf("message %s", how)
		reject("message with one byte changed ("+how+")", k.Pub, m2, sig, "mutated-message-accepted")
		reject("message truncated by one byte", k.Pub, msg[:len(msg)-1], sig, "mutated-message-accepted")
		c.NonTrivial()
	}
	reject("message extended by one byte", k.Pub, append(append([]byte{}, msg...), rapid.Byte().Draw(rt, "extraByte")), sig, "mutated-message-accepted")
	// signature changes
	s2, how := mutateBytes(rt, sig, "sigMut")
	c.Opf("signature %s", how)
	reject("signature with one byte changed ("+how+")", k.Pub, msg, s2, "mutated-signature-accepted")
	reject("signature truncated by one byte", k.Pub, msg, sig[:len(sig)-1], "truncated-signature-accepted")
	reject("signature extended by one byte", k.Pub, msg, append(append([]byte{}, sig...), 0), "extended-signature-accepted")
	reject("empty signature", k.Pub, msg, []byte{}, "empty-signature-accepted")
	reject("nil signature", k.Pub, msg, nil, "empty-signature-accepted")
	c39KeyEncodings(rt, c, k)
}

// c39KeyEncodings: raw bytes / hex / amino bytes / JSON of a key decode to an equal key with an equal,
// independently derived address; the private key encodings likewise.
func c39KeyEncodings(rt *rapid.T, c *harness.Case, k gen.Key) {
	site := "C39/" + k.Algo + "/encoding"
	pub := k.Pub
	if want := expectedAddress(pub); !bytes.Equal(want, pub.Address()) || !bytes.Equal(want, k.Priv.PublicKey().Address()) {
		c.Violation(site+"/address-derivation", "address of %s key %x is %x, the documented derivation gives %x", k.Algo, pub.RawBytes(), pub.Address(), want)
	}
	check := func(how string, got crypto.PublicKey, err error) {
		c.AddExtra("key_decodings", 1)
		if err != nil {
			c.Violation(site+"/decode-error", "%s of %s public key %x fails: %v", how, k.Algo, pub.RawBytes(), err)
			return
		}
		if !sameKey(got, pub) {
			c.Violation(site+"/key-differs", "%s of %s public key %x gives %T %x", how, k.Algo, pub.RawBytes(), got, got.RawBytes())
			return
		}
		if !bytes.Equal(got.Address(), pub.Address()) || !pub.Equals(got.(tmcrypto.PubKey)) {
			c.Violation(site+"/address-differs", "%s of %s public key %x: address/Equals differ", how, k.Algo, pub.RawBytes())
		}
	}
	g, err := crypto.NewPublicKeyBz(pub.RawBytes())
	check("NewPublicKeyBz(RawBytes)", g, err)
	g, err = crypto.NewPublicKey(pub.RawString())
	check("NewPublicKey(RawString)", g, err)
	g, err = crypto.PubKeyFromBytes(pub.Bytes())
	check("PubKeyFromBytes(Bytes)", g, err)
	if bz, err := hex.DecodeString(pub.String()); err != nil || !bytes.Equal(bz, pub.Bytes()) {
		c.Violation(site+"/string-differs", "String() of %s public key is not the hex of Bytes()", k.Algo)
	}
	// JSON, typed and through the interface-aware codec
	js, err := json.Marshal(pub)
	if err != nil {
		c.Violation(site+"/json-error", "json.Marshal(public key): %v", err)
	} else {
		switch k.Algo {
		case "ed25519":
			var p crypto.Ed25519PublicKey
			err = json.Unmarshal(js, &p)
			check("json round trip", p, err)
		default:
			var p crypto.Secp256k1PublicKey
			err = json.Unmarshal(js, &p)
			check("json round trip", p, err)
		}
	}
	cdc := gen.Codec()
	if js, err := cdc.MarshalJSON(pub); err != nil {
		c.Violation(site+"/json-error", "codec MarshalJSON(public key): %v", err)
	} else {
		var p crypto.PublicKey
		err = cdc.UnmarshalJSON(js, &p)
		check("codec JSON round trip", p, err)
	}
	// private key
	priv := k.Priv
	pcheck := func(how string, got crypto.PrivateKey, err error) {
		c.AddExtra("key_decodings", 1)
		if err != nil {
			c.Violation(site+"/decode-error", "%s of %s private key fails: %v", how, k.Algo, err)
			return
		}
		if reflect.TypeOf(got) != reflect.TypeOf(priv) || !bytes.Equal(got.RawBytes(), priv.RawBytes()) || !sameKey(got.PublicKey(), pub) {
			c.Violation(site+"/private-key-differs", "%s of %s private key gives a different key (type %T)", how, k.Algo, got)
		}
	}
	pg, err := crypto.NewPrivateKeyBz(priv.RawBytes())
	pcheck("NewPrivateKeyBz(RawBytes)", pg, err)
	pg, err = crypto.NewPrivateKey(priv.RawString())
	pcheck("NewPrivateKey(RawString)", pg, err)
	pg, err = crypto.PrivKeyFromBytes(priv.Bytes())
	pcheck("PrivKeyFromBytes(Bytes)", pg, err)
	// length dispatch: any other length is rejected, 32/33 pick the type by length alone
	n := rapid.SampledFrom([]int{0, 1, 20, 31, 34, 63, 64, 65, 66, 100}).Draw(rt, "badLen")
	junk := rapid.SliceOfN(rapid.Byte(), n, n).Draw(rt, "junkKey")
	if got, err := crypto.NewPublicKeyBz(junk); err == nil {
		if _, isMulti := got.(crypto.PublicKeyMultiSignature); !isMulti {
			c.Violation("C39/NewPublicKeyBz/length-dispatch", "NewPublicKeyBz accepts %d bytes %x as %T", n, junk, got)
		}
	}
	if n != 32 && n != 64 {
		if got, err := crypto.NewPrivateKeyBz(junk); err == nil {
			c.Violation("C39/NewPrivateKeyBz/length-dispatch", "NewPrivateKeyBz accepts %d bytes as %T", n, got)
		}
	}
	b32 := rapid.SliceOfN(rapid.Byte(), 32, 32).Draw(rt, "raw32")
	if got, err := crypto.NewPublicKeyBz(b32); err != nil || reflect.TypeOf(got) != reflect.TypeOf(crypto.Ed25519PublicKey{}) || !bytes.Equal(got.RawBytes(), b32) {
		c.Violation("C39/NewPublicKeyBz/length-dispatch", "NewPublicKeyBz(32 bytes) gives %T err %v", got, err)
	}
	b33 := append([]byte{2}, b32...)
	if got, err := crypto.NewPublicKeyBz(b33); err != nil || reflect.TypeOf(got) != reflect.TypeOf(crypto.Secp256k1PublicKey{}) || !bytes.Equal(got.RawBytes(), b33) {
		c.Violation("C39/NewPublicKeyBz/length-dispatch", "NewPublicKeyBz(33 bytes) gives %T err %v", got, err)
	}
}

func c39Multi(rt *rapid.T, c *harness.Case) {
	nested := rapid.IntRange(0, 3).Draw(rt, "allowNested") == 0
	mk := gen.MultiKeyOf(2, 6, nested).Draw(rt, "multikey")
	msg := drawMessage(rt)
	n := len(mk.Members)
	c.Label("multisig")
	c.Label(fmt.Sprintf("multisig-n=%d", n))
	algos := map[string]bool{}
	for _, m := range mk.Members {
		switch mm := m.(type) {
		case gen.Key:
			algos[mm.Algo] = true
		default:
			c.Label("multisig-nested")
		}
	}
	if len(algos) > 1 {
		c.Label("multisig-mixed")
	}
	c.Opf("multikey %s msg %x", mk.Describe(), msg)
	sigs := mk.MemberSigs(msg)
	site := "C39/multisig"

	// compositional oracle: the arrangement verifies iff it has exactly n slots and slot i verifies under member i
	expect := func(arr [][]byte, m []byte) bool {
		if len(arr) != n {
			return false
		}
		for i, mem := range mk.Members {
			if len(arr[i]) == 0 {
				return false
			}
			if ok, _ := safeVerify(mem.PublicKey(), m, arr[i]); !ok {
				return false
			}
		}
		return true
	}
	try := func(class, what string, arr [][]byte, m []byte) {
		c.AddExtra("multisig_arrangements", 1)
		want := expect(arr, m)
		got, p := safeVerify(mk.Pub, m, gen.MarshalMultiSig(arr))
		if p != nil {
			c.Violation(site+"/verify-panics", "multisig VerifyBytes panics on %s: %v", what, p)
			return
		}
		if !want {
			c.Label(class)
			c.NonTrivial()
			c.AddExtra("negative_verifications", 1)
		}
		if got != want {
			c.Violation(site+"/"+class, "%s: multisig VerifyBytes = %v, want %v (key %s, %d slots)", what, got, want, mk.Describe(), len(arr))
		}
	}
	cp := func() [][]byte { return append([][]byte{}, sigs...) }

	try("in-order-rejected", "every member's signature in member order", cp(), msg)
	if !mk.Pub.VerifyBytes(msg, mk.Sign(msg)) {
		c.Violation(site+"/in-order-rejected", "complete in-order multisignature rejected (key %s)", mk.Describe())
	}
	// permuted
	perm := rapid.Permutation(seq(n)).Draw(rt, "sigOrder")
	arr := make([][]byte, n)
	for i, j := range perm {
		arr[i] = sigs[j]
	}
	c.Opf("permutation %v", perm)
	try("permuted", fmt.Sprintf("signatures in order %v", perm), arr, msg)
	// missing
	j := rapid.IntRange(0, n-1).Draw(rt, "slot")
	c.Opf("slot %d", j)
	try("missing", fmt.Sprintf("signature %d removed", j), append(cp()[:j], sigs[j+1:]...), msg)
	// duplicated
	i := rapid.IntRange(0, n-1).Draw(rt, "dupFrom")
	arr = cp()
	arr[j] = sigs[i]
	try("duplicated", fmt.Sprintf("slot %d holds member %d's signature", j, i), arr, msg)
	// extra
	try("extra", "one extra signature appended", append(cp(), sigs[j]), msg)
	try("extra", "one extra signature prepended", append([][]byte{sigs[j]}, sigs...), msg)
	// one member signed another message
	other := append(append([]byte{}, msg...), 1)
	arr = cp()
	arr[j] = mk.Members[j].Sign(other)
	try("other-message", fmt.Sprintf("member %d signed a different message", j), arr, msg)
	try("other-message", "complete multisignature checked against a different message", cp(), other)
	// empty slot, mutated member signature
	arr = cp()
	arr[j] = []byte{}
	try("empty-slot", fmt.Sprintf("slot %d empty", j), arr, msg)
	arr = cp()
	arr[j], _ = mutateBytes(rt, sigs[j], "memberSigMut")
	try("mutated-member-signature", fmt.Sprintf("slot %d with one byte changed", j), arr, msg)
	// no signatures at all / arbitrary bytes instead of an encoded multisignature
	try("missing", "no signatures", [][]byte{}, msg)
	junk := rapid.SliceOfN(rapid.Byte(), 0, 80).Draw(rt, "junkSig")
	if ok, p := safeVerify(mk.Pub, msg, junk); ok || p != nil {
		c.Violation(site+"/junk-accepted", "multisig VerifyBytes on arbitrary bytes %x: ok=%v panic=%v", junk, ok, p)
	}
	// a single member's plain signature is not a multisignature
	if ok, p := safeVerify(mk.Pub, msg, sigs[0]); ok || p != nil {
		c.Violation(site+"/junk-accepted", "multisig VerifyBytes accepts a bare member signature: ok=%v panic=%v", ok, p)
	}
	// encodings
	if want := expectedAddress(mk.Pub); !bytes.Equal(want, mk.Pub.Address()) {
		c.Violation(site+"/encoding/address-derivation", "multisig address %x, documented derivation %x", mk.Pub.Address(), want)
	}
	dec := func(how string, got crypto.PublicKey, err error) {
		c.AddExtra("key_decodings", 1)
		if err != nil {
			c.Violation(site+"/encoding/decode-error", "%s of multisig key %s fails: %v", how, mk.Describe(), err)
			return
		}
		if !sameKey(got, mk.Pub) || !bytes.Equal(got.Address(), mk.Pub.Address()) || gen.Canon(got) != gen.Canon(mk.Pub) {
			c.Violation(site+"/encoding/key-differs", "%s of multisig key %s gives %s", how, mk.Describe(), gen.Canon(got))
			return
		}
		if !got.VerifyBytes(msg, mk.Sign(msg)) {
			c.Violation(site+"/encoding/decoded-key-rejects", "%s: the decoded multisig key rejects a valid multisignature", how)
		}
	}
	g, err := crypto.NewPublicKeyBz(mk.Pub.RawBytes())
	dec("NewPublicKeyBz(RawBytes)", g, err)
	g, err = crypto.NewPublicKey(mk.Pub.RawString())
	dec("NewPublicKey(RawString)", g, err)
	g, err = crypto.PubKeyFromBytes(mk.Pub.Bytes())
	dec("PubKeyFromBytes(Bytes)", g, err)
	if js, err := gen.Codec().MarshalJSON(crypto.PublicKey(mk.Pub)); err != nil {
		c.Violation(site+"/encoding/json-error", "codec MarshalJSON(multisig key): %v", err)
	} else {
		var p crypto.PublicKey
		err = gen.Codec().UnmarshalJSON(js, &p)
		dec("codec JSON round trip", p, err)
	}
}

func seq(n int) []int {
	s := make([]int, n)
	for i := range s {
		s[i] = i
	}
	return s
}

// c39Assemble: a multisignature assembled through the MultiSig API (AddSignature with the key list, in any
// signing order — app.SignMultisigOutOfOrder / `pocket accounts sign-ms-tx`; AddSignatureByIndex in member
// order — `sign-ms-next`) verifies once every member has signed.
func c39Assemble(rt *rapid.T, c *harness.Case) {
	n := rapid.IntRange(2, 6).Draw(rt, "members")
	base := rapid.SliceOfN(rapid.Byte(), 8, 8).Draw(rt, "memberBase")
	members := make([]gen.Signer, n)
	pubs := make([]crypto.PublicKey, n)
	for i := range members {
		k := gen.Ed25519FromSeed(append(append([]byte{}, base...), byte(i))) // distinct keys, one algorithm
		members[i], pubs[i] = k, k.Pub
	}
	mk := gen.NewMultiKey(members...)
	msg := drawMessage(rt)
	sigs := mk.MemberSigs(msg)
	order := rapid.Permutation(seq(n)).Draw(rt, "signingOrder")
	c.Label("multisig-assemble")
	c.Opf("assemble %d ed25519 members, signing order %v, msg %x", n, order, msg)
	inOrder := true
	for i, j := range order {
		if i != j {
			inOrder = false
		}
	}
	// sign-ms-next: each signer appends at index len(signatures)
	var ms crypto.MultiSig = crypto.MultiSignature{}
	ms = ms.NewMultiSignature()
	for i := 0; i < n; i++ {
		ms = ms.AddSignatureByIndex(sigs[i], len(ms.Signatures()))
	}
	if !mk.Pub.VerifyBytes(msg, ms.Marshal()) {
		c.Violation("C39/multisig/AddSignatureByIndex/in-order-assembly-rejected", "multisignature assembled with AddSignatureByIndex(sig, len(sigs)) in member order is rejected (%d members)", n)
	}
	// the encoded multisignature survives Unmarshal/Marshal between signers
	if re := (crypto.MultiSignature{}).Unmarshal(ms.Marshal()); !bytes.Equal(re.Marshal(), ms.Marshal()) {
		c.Violation("C39/multisig/encoding/multisignature-differs", "MultiSignature Unmarshal/Marshal changes the bytes")
	}
	// sign-ms-tx: signers come in any order, each passes the full key list
	ms = crypto.MultiSignature{}
	ms = ms.NewMultiSignature()
	for _, j := range order {
		// between signers the transaction travels encoded
		ms = crypto.MultiSignature{}.Unmarshal(ms.Marshal())
		var err error
		ms, err = ms.AddSignature(sigs[j], pubs[j], pubs)
		if err != nil {
			c.Violation("C39/multisig/AddSignature/error", "AddSignature for member %d: %v", j, err)
			return
		}
	}
	if !inOrder {
		c.Label("assemble-out-of-order")
		c.NonTrivial()
	}
	if !mk.Pub.VerifyBytes(msg, ms.Marshal()) {
		sig := "C39/multisig/AddSignature/out-of-order-assembly-rejected"
		if inOrder {
			sig = "C39/multisig/AddSignature/in-order-assembly-rejected"
		}
		c.Violation(sig, "every one of the %d members signed through AddSignature(sig, key, keys) in signing order %v, yet the multisignature is rejected: it holds %d signature slots",
			n, order, ms.NumOfSigs())
	}
}

func TestC39(t *testing.T) {
	harness.Check(t, "C39",
		"each case is one of: (single, 5 in 10) an ed25519 or secp256k1 key from a drawn seed, a message of 0-256 bytes, its signature, then another key of the same algorithm, the other-algorithm key of the same seed, "+
			"one-byte message changes / truncation / extension, one-byte signature changes / truncation / extension / empty, plus raw/hex/amino/JSON key encodings, independently derived addresses and the length dispatch of "+
			"NewPublicKeyBz/NewPrivateKeyBz; (multi, 4 in 10) a 2-6 member multisig key of mixed algorithms (nested members in a quarter of them) with the in-order, permuted, missing, duplicated, extra, other-message, empty-slot, "+
			"mutated-member and junk arrangements, compared with a compositional oracle (n slots and slot i verifies under member i), plus key encodings; (assemble, 1 in 10) a multisignature built through "+
			"AddSignatureByIndex in member order and AddSignature in a drawn signing order. non-trivial = at least one arrangement/mutation that must be rejected was evaluated on a non-empty message, or an out-of-order assembly",
		map[string]float64{"ed25519": 0.2, "secp256k1": 0.08, "multisig": 0.2, "multisig-mixed": 0.08, "multisig-nested": 0.02, "permuted": 0.1, "missing": 0.2, "duplicated": 0.1,
			"extra": 0.2, "other-message": 0.2, "empty-message": 0.03, "assemble-out-of-order": 0.03},
		func(rt *rapid.T, c *harness.Case) {
			gen.ResetCodecGlobals()
			switch k := rapid.IntRange(0, 9).Draw(rt, "scenario"); {
			case k < 5:
				c39Single(rt, c)
			case k < 9:
				c39Multi(rt, c)
			default:
				c39Assemble(rt, c)
			}
		})
}
