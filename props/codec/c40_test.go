package codec

import (
	"bytes"
	"encoding/json"
	"fmt"
	"os"
	"sort"
	"strings"
	"testing"

	"github.com/pokt-network/pocket-core/crypto"
	"github.com/pokt-network/pocket-core/crypto/keys"
	"github.com/pokt-network/pocket-core/crypto/keys/mintkey"
	sdk "github.com/pokt-network/pocket-core/types"
	"pgregory.net/rapid"

	"verif/harness"
	"verif/harness/gen"
)

// C40: an armored / stored private key decrypts to the identical key with the protecting passphrase and is
// never returned for any other passphrase; the keybase behaves like a map address -> key.
//
// Every scrypt derivation costs ~0.1 s, so cases are short: the statistics count "armor_ops".

func drawPassphrase(rt *rapid.T, label string) string {
	switch rapid.IntRange(0, 6).Draw(rt, label+"Class") {
	case 0:
		return ""
	case 1:
		return rapid.StringMatching(`[a-zA-Z0-9]{1,12}`).Draw(rt, label)
	case 2:
		return rapid.SampledFrom([]string{"pässwörd", "пароль", "密码🔑", "a b\tc", "\"quoted\\\"", " lead", "trail "}).Draw(rt, label)
	case 3:
		return strings.Repeat(rapid.StringMatching(`[a-z]{1,4}`).Draw(rt, label), rapid.IntRange(20, 60).Draw(rt, label+"Rep"))
	default:
		return rapid.SampledFrom([]string{"test", "Test", "test1", "passphrase", "hunter2"}).Draw(rt, label)
	}
}

// wrongPassphrase draws a passphrase different from right (near misses included).
func wrongPassphrase(rt *rapid.T, right string, label string) string {
	var w string
	switch rapid.IntRange(0, 5).Draw(rt, label+"WrongKind") {
	case 0:
		w = right + " "
	case 1:
		w = strings.ToUpper(right)
	case 2:
		if len(right) > 0 {
			w = right[:len(right)-1]
		}
	case 3:
		w = ""
	case 4:
		w = right + right
	default:
		w = drawPassphrase(rt, label+"Other")
	}
	if w == right {
		w = right + "x"
	}
	return w
}

func passClass(c *harness.Case, p string) {
	if p == "" {
		c.Label("empty-passphrase")
	}
	for _, r := range p {
		if r > 127 {
			c.Label("unicode-passphrase")
			break
		}
	}
	if len(p) > 64 {
		c.Label("long-passphrase")
	}
}

func samePriv(a, b crypto.PrivateKey) bool {
	return a != nil && b != nil && fmt.Sprintf("%T", a) == fmt.Sprintf("%T", b) && bytes.Equal(a.RawBytes(), b.RawBytes())
}

// c40Armor: EncryptArmorPrivKey / UnarmorDecryptPrivKey on a generated key.
func c40Armor(rt *rapid.T, c *harness.Case) {
	k := gen.AnyKey().Draw(rt, "key")
	pass := drawPassphrase(rt, "pass")
	hint := gen.Text(8).Draw(rt, "hint")
	passClass(c, pass)
	c.Label("armor")
	c.Label("armor-" + k.Algo)
	c.Opf("armor key %s passphrase %q hint %q", k.Describe(), pass, hint)
	armor, err := mintkey.EncryptArmorPrivKey(k.Priv, pass, hint)
	c.AddExtra("armor_ops", 1)
	if err != nil || armor == "" {
		c.Violation("C40/armor/encrypt-error", "EncryptArmorPrivKey: %v", err)
		return
	}
	var aj mintkey.ArmoredJson
	if err := json.Unmarshal([]byte(armor), &aj); err != nil {
		c.Violation("C40/armor/not-json", "armor is not the documented JSON object: %v: %s", err, armor)
		return
	}
	if aj.Hint != hint || aj.Kdf != "scrypt" || aj.Salt == "" || aj.Ciphertext == "" {
		c.Violation("C40/armor/fields", "armor fields: kdf %q hint %q (want %q) salt %q", aj.Kdf, aj.Hint, hint, aj.Salt)
	}
	if strings.Contains(armor, k.Priv.RawString()) || (len(pass) > 3 && strings.Contains(armor, pass) && !strings.Contains(hint, pass)) {
		c.Violation("C40/armor/leaks-secret", "armor text contains the raw private key or the passphrase")
	}
	got, err := mintkey.UnarmorDecryptPrivKey(armor, pass)
	c.AddExtra("armor_ops", 1)
	if err != nil {
		c.Violation("C40/armor/right-passphrase-rejected", "UnarmorDecryptPrivKey with the encrypting passphrase %q fails: %v", pass, err)
		return
	}
	if !samePriv(got, k.Priv) {
		c.Violation("C40/armor/key-differs", "decrypted key differs from the armored one (%s)", k.Describe())
	}
	// any other passphrase
	wrong := wrongPassphrase(rt, pass, "wrong")
	c.Opf("wrong passphrase %q", wrong)
	c.Label("wrong-passphrase")
	c.NonTrivial()
	got, err = mintkey.UnarmorDecryptPrivKey(armor, wrong)
	c.AddExtra("armor_ops", 1)
	if err == nil {
		c.Violation("C40/armor/wrong-passphrase-accepted", "UnarmorDecryptPrivKey succeeds with passphrase %q for a key armored with %q (same key returned: %v)", wrong, pass, samePriv(got, k.Priv))
	} else if got != nil {
		c.Violation("C40/armor/key-returned-with-error", "UnarmorDecryptPrivKey returns a key together with an error for a wrong passphrase")
	}
	// single-character corruption of one armor field: error, or (only when the decoded bytes are unchanged,
	// e.g. hex case / base64 padding bits) the identical key - never another key
	field := rapid.SampledFrom([]string{"salt", "ciphertext", "kdf"}).Draw(rt, "corruptField")
	mut := aj
	corrupt := func(s string) string {
		i := rapid.IntRange(0, len(s)-1).Draw(rt, "corruptPos")
		alphabet := "0123456789abcdefABCDEFzZ+/=_"
		ch := alphabet[rapid.IntRange(0, len(alphabet)-1).Draw(rt, "corruptChar")]
		if s[i] == ch {
			ch = 'g'
		}
		return s[:i] + string(ch) + s[i+1:]
	}
	switch field {
	case "salt":
		mut.Salt = corrupt(aj.Salt)
	case "ciphertext":
		mut.Ciphertext = corrupt(aj.Ciphertext)
	default:
		mut.Kdf = corrupt(aj.Kdf)
	}
	c.Label("armor-corrupt-" + field)
	mbz, _ := json.Marshal(mut)
	c.Opf("corrupt %s: %s", field, mbz)
	got, err = mintkey.UnarmorDecryptPrivKey(string(mbz), pass)
	c.AddExtra("armor_ops", 1)
	if err == nil && !samePriv(got, k.Priv) {
		c.Violation("C40/armor/corrupted-armor-yields-other-key", "armor with corrupted %s decrypts without error to a different key", field)
	}
	if err == nil && field == "kdf" {
		c.Violation("C40/armor/unknown-kdf-accepted", "armor with kdf %q accepted", mut.Kdf)
	}
}

// ---- keybase state machine ----

type kbEntry struct {
	pub  crypto.PublicKey
	priv crypto.PrivateKey // nil when the keybase generated the key itself (Create)
	pass string
	old  []string // passphrases that used to protect the key (must no longer work)
	// armor is the stored value of the map entry as the keybase last handed it out for this key (returned by
	// Create / Import*, re-read and verified after an Update): Get and List must keep returning exactly it
	armor string
}

type kbMachine struct {
	rt    *rapid.T
	c     *harness.Case
	kb    keys.Keybase
	model map[string]*kbEntry // address hex -> entry
	gone  []string            // deleted addresses
	n     int
	// coinbase model: the address the keybase instance has selected as coinbase ("" = none selected yet:
	// GetCoinbase then selects the first listed key). The selection lives in the instance, not in the database.
	coinbase    string
	coinbasePub crypto.PublicKey
	dir         string // directory of the lazy keybase ("" = in memory)
	forced      []string // operations the next steps must perform (scenario prefix of a case), then random ones
}

func (m *kbMachine) addrs() []string {
	as := make([]string, 0, len(m.model))
	for a := range m.model {
		as = append(as, a)
	}
	sort.Strings(as)
	return as
}

func addrOf(hexAddr string) sdk.Address {
	a, err := sdk.AddressFromHex(hexAddr)
	if err != nil {
		panic(err)
	}
	return a
}

// pick draws an existing address (by slot in sorted order) or, when absentOK, sometimes an address that is
// not in the keybase (deleted or never present).
func (m *kbMachine) pick(absentOK bool) (string, bool) {
	as := m.addrs()
	if len(as) == 0 || (absentOK && rapid.IntRange(0, 5).Draw(m.rt, "absent") == 0) {
		if len(m.gone) > 0 && rapid.Bool().Draw(m.rt, "deletedAddr") {
			g := m.gone[rapid.IntRange(0, len(m.gone)-1).Draw(m.rt, "goneSlot")]
			if _, back := m.model[g]; !back {
				return g, false
			}
		}
		return strings.ToLower(gen.PoolKey(200 + m.n).Addr.String()), false
	}
	// the key selected as coinbase is the one a node operator works with most: one pick in three goes to it
	if _, there := m.model[m.coinbase]; there && rapid.IntRange(0, 2).Draw(m.rt, "pickCoinbase") == 0 {
		m.c.Label("op-on-coinbase-key")
		return m.coinbase, true
	}
	return as[rapid.IntRange(0, len(as)-1).Draw(m.rt, "slot")], true
}

func (m *kbMachine) slotName(a string) string {
	for i, x := range m.addrs() {
		if x == a {
			return fmt.Sprintf("key#%d", i)
		}
	}
	return "absent-key"
}

// passFor draws the right passphrase (2 in 3) or a wrong one for an existing entry.
func (m *kbMachine) passFor(e *kbEntry) (string, bool) {
	if rapid.IntRange(0, 2).Draw(m.rt, "useWrong") == 0 {
		m.c.Label("wrong-passphrase")
		m.c.NonTrivial()
		if len(e.old) > 0 && rapid.Bool().Draw(m.rt, "useOld") {
			m.c.Label("stale-passphrase")
			return e.old[len(e.old)-1], false
		}
		return wrongPassphrase(m.rt, e.pass, "wrong"), false
	}
	return e.pass, true
}

func (m *kbMachine) checkListing(where string) {
	lst, err := m.kb.List()
	if err != nil {
		m.c.Violation("C40/keybase/list-error", "%s: List: %v", where, err)
		return
	}
	var got []string
	for _, kp := range lst {
		got = append(got, strings.ToLower(kp.GetAddress().String()))
	}
	want := m.addrs()
	if !sort.StringsAreSorted(got) {
		m.c.Violation("C40/keybase/list-unsorted", "%s: List is not in address order: %v", where, got)
	}
	g2 := append([]string{}, got...)
	sort.Strings(g2)
	if strings.Join(g2, ",") != strings.Join(want, ",") {
		m.c.Violation("C40/keybase/list-differs-from-model", "%s: List has %d keys %v, the model has %d keys %v", where, len(got), got, len(want), want)
	}
	for _, kp := range lst {
		a := strings.ToLower(kp.GetAddress().String())
		if e := m.model[a]; e != nil && !sameKey(kp.PublicKey, e.pub) {
			m.c.Violation("C40/keybase/list-wrong-pubkey", "%s: List entry %s carries another public key", where, m.slotName(a))
		}
		if e := m.model[a]; e != nil && e.armor != "" && kp.PrivKeyArmor != e.armor {
			m.c.Violation("C40/keybase/list-stale-armor", "%s: List entry %s carries another armor than the one last stored for the key", where, m.slotName(a))
		}
	}
	for _, a := range want {
		kp, err := m.kb.Get(addrOf(a))
		if err != nil {
			m.c.Violation("C40/keybase/get-misses-listed-key", "%s: Get(%s) fails although the key is in the model: %v", where, m.slotName(a), err)
			continue
		}
		if !sameKey(kp.PublicKey, m.model[a].pub) || strings.ToLower(kp.GetAddress().String()) != a {
			m.c.Violation("C40/keybase/get-wrong-key", "%s: Get(%s) returns another key", where, m.slotName(a))
		}
		if e := m.model[a]; e.armor != "" && kp.PrivKeyArmor != e.armor {
			m.c.Violation("C40/keybase/get-stale-armor", "%s: Get(%s) returns another armor than the one last stored for the key (coinbase=%v)", where, m.slotName(a), a == m.coinbase)
		}
	}
	for _, a := range m.gone {
		if _, back := m.model[a]; back {
			continue
		}
		if _, err := m.kb.Get(addrOf(a)); err == nil {
			m.c.Violation("C40/keybase/deleted-key-still-there", "%s: Get of a deleted key succeeds", where)
		}
	}
}

func (m *kbMachine) add(pub crypto.PublicKey, priv crypto.PrivateKey, pass string, armor string) {
	a := strings.ToLower(sdk.Address(pub.Address()).String())
	m.model[a] = &kbEntry{pub: pub, priv: priv, pass: pass, armor: armor}
}

// remove takes a key out of the model (Delete / UnsafeDelete succeeded).
func (m *kbMachine) remove(a string) {
	m.c.Label("deleted")
	if a == m.coinbase {
		m.c.Label("coinbase-key-deleted")
	}
	delete(m.model, a)
	m.gone = append(m.gone, a)
}

// keyForImport draws the key of an import: one time in three (when possible) a key that is already stored
// (imports must not overwrite), otherwise a fresh generated key.
func (m *kbMachine) keyForImport(edOnly bool) gen.Key {
	var known []string
	for _, a := range m.addrs() {
		if e := m.model[a]; e.priv != nil && (!edOnly || len(e.priv.RawBytes()) == 64) {
			known = append(known, a)
		}
	}
	if len(known) > 0 && rapid.IntRange(0, 2).Draw(m.rt, "reimport") == 0 {
		e := m.model[known[rapid.IntRange(0, len(known)-1).Draw(m.rt, "reimportSlot")]]
		if len(e.priv.RawBytes()) == 64 {
			return gen.Ed25519FromSeed(e.priv.RawBytes()[:32])
		}
		return gen.Key{Priv: e.priv, Pub: e.pub, Addr: sdk.Address(e.pub.Address()), Algo: "secp256k1", Seed: e.priv.RawBytes()}
	}
	if edOnly {
		return gen.Ed25519Key().Draw(m.rt, "key")
	}
	return gen.AnyKey().Draw(m.rt, "key")
}

func (m *kbMachine) step() {
	rt, c := m.rt, m.c
	m.n++
	ops := []string{"create", "importRaw", "importArmor", "importArmor", "sign", "sign", "update", "update", "update", "exportArmor", "exportObject", "exportObject",
		"delete", "delete", "delete", "get", "unsafeDelete", "setCoinbase", "setCoinbase", "getCoinbase", "getCoinbase", "closeDB"}
	if len(m.model) == 0 {
		ops = []string{"create", "create", "importRaw", "importRaw", "importArmor", "importArmor", "getCoinbase"}
	}
	op := rapid.SampledFrom(ops).Draw(rt, "op")
	if len(m.forced) > 0 {
		op, m.forced = m.forced[0], m.forced[1:]
	}
	c.Label("op:" + op)
	switch op {
	case "create":
		pass := drawPassphrase(rt, "pass")
		passClass(c, pass)
		c.Opf("create pass=%q", pass)
		kp, err := m.kb.Create(pass)
		c.AddExtra("armor_ops", 1)
		if err != nil || kp.PublicKey == nil || kp.PrivKeyArmor == "" {
			c.Violation("C40/keybase/create-error", "Create: %v", err)
			return
		}
		m.add(kp.PublicKey, nil, pass, kp.PrivKeyArmor)
	case "importRaw":
		k := m.keyForImport(true)
		pass := drawPassphrase(rt, "pass")
		passClass(c, pass)
		a := strings.ToLower(k.Addr.String())
		_, exists := m.model[a]
		c.Opf("importRaw %s pass=%q (exists=%v)", k.Describe(), pass, exists)
		kp, err := m.kb.ImportPrivateKeyObject(k.Raw64(), pass)
		if exists {
			c.Label("import-existing")
			if err == nil {
				c.Violation("C40/keybase/import-overwrites", "ImportPrivateKeyObject silently overwrote an existing key")
				m.add(k.Pub, k.Priv, pass, kp.PrivKeyArmor)
			}
			return
		}
		c.AddExtra("armor_ops", 1)
		if err != nil || !sameKey(kp.PublicKey, k.Pub) {
			c.Violation("C40/keybase/import-error", "ImportPrivateKeyObject of a fresh key: err=%v", err)
			return
		}
		m.add(k.Pub, k.Priv, pass, kp.PrivKeyArmor)
	case "importArmor":
		k := m.keyForImport(false)
		armorPass, encPass := drawPassphrase(rt, "armorPass"), drawPassphrase(rt, "encPass")
		armor, err := mintkey.EncryptArmorPrivKey(k.Priv, armorPass, "")
		c.AddExtra("armor_ops", 1)
		if err != nil {
			c.Violation("C40/armor/encrypt-error", "EncryptArmorPrivKey: %v", err)
			return
		}
		a := strings.ToLower(k.Addr.String())
		_, exists := m.model[a]
		dec, right := armorPass, true
		if rapid.IntRange(0, 2).Draw(rt, "wrongDecrypt") == 0 {
			dec, right = wrongPassphrase(rt, armorPass, "wrongDec"), false
			c.Label("wrong-passphrase")
			c.NonTrivial()
		}
		c.Opf("importArmor %s armored with %q, decrypt %q (right=%v), store %q (exists=%v)", k.Describe(), armorPass, dec, right, encPass, exists)
		kp, err := m.kb.ImportPrivKey(armor, dec, encPass)
		c.AddExtra("armor_ops", 1)
		switch {
		case !right:
			if err == nil {
				c.Violation("C40/keybase/import-wrong-passphrase-accepted", "ImportPrivKey decrypts an armor with the wrong passphrase")
				m.add(k.Pub, k.Priv, encPass, kp.PrivKeyArmor)
			}
		case exists:
			c.Label("import-existing")
			if err == nil {
				c.Violation("C40/keybase/import-overwrites", "ImportPrivKey silently overwrote an existing key")
				m.add(k.Pub, k.Priv, encPass, kp.PrivKeyArmor)
			}
		default:
			c.AddExtra("armor_ops", 1)
			if err != nil || !sameKey(kp.PublicKey, k.Pub) {
				c.Violation("C40/keybase/import-error", "ImportPrivKey with the right passphrase: err=%v", err)
				return
			}
			m.add(k.Pub, k.Priv, encPass, kp.PrivKeyArmor)
		}
	case "get":
		a, present := m.pick(true)
		c.Opf("get %s", m.slotName(a))
		_, err := m.kb.Get(addrOf(a))
		if present != (err == nil) {
			c.Violation("C40/keybase/get-differs-from-model", "Get(%s): err=%v, model says present=%v", m.slotName(a), err, present)
		}
	case "sign":
		a, present := m.pick(true)
		msg := drawMessage(rt)
		if !present {
			c.Opf("sign absent key")
			if _, _, err := m.kb.Sign(addrOf(a), "x", msg); err == nil {
				c.Violation("C40/keybase/absent-key-usable", "Sign with an address that is not in the keybase succeeds")
			}
			return
		}
		e := m.model[a]
		pass, right := m.passFor(e)
		c.Opf("sign %s pass=%q (right=%v) msg %x", m.slotName(a), pass, right, msg)
		sig, pub, err := m.kb.Sign(addrOf(a), pass, msg)
		c.AddExtra("armor_ops", 1)
		if right {
			if err != nil {
				c.Violation("C40/keybase/right-passphrase-rejected", "Sign with the current passphrase fails: %v", err)
			} else if !sameKey(pub, e.pub) || !e.pub.VerifyBytes(msg, sig) {
				c.Violation("C40/keybase/sign-wrong-key", "Sign returns a signature/public key that is not the stored key's")
			}
		} else if err == nil {
			c.Violation("C40/keybase/wrong-passphrase-signs", "Sign succeeds with passphrase %q, the key is protected by %q", pass, e.pass)
		}
	case "update":
		a, present := m.pick(true)
		newPass := drawPassphrase(rt, "newPass")
		if !present {
			c.Opf("update absent key")
			if err := m.kb.Update(addrOf(a), "x", newPass); err == nil {
				c.Violation("C40/keybase/absent-key-usable", "Update of an address that is not in the keybase succeeds")
			}
			return
		}
		e := m.model[a]
		pass, right := m.passFor(e)
		c.Opf("update %s old=%q (right=%v) new=%q", m.slotName(a), pass, right, newPass)
		err := m.kb.Update(addrOf(a), pass, newPass)
		c.AddExtra("armor_ops", 1)
		if right {
			c.AddExtra("armor_ops", 1)
			if err != nil {
				c.Violation("C40/keybase/right-passphrase-rejected", "Update with the current passphrase fails: %v", err)
				return
			}
			// the stored value was replaced: what Get hands out now is a new armor (fresh salt) that opens with the
			// new passphrase to the same key
			if kp, err := m.kb.Get(addrOf(a)); err != nil {
				c.Violation("C40/keybase/get-misses-listed-key", "Get(%s) after Update: %v", m.slotName(a), err)
			} else {
				if e.armor != "" && kp.PrivKeyArmor == e.armor {
					c.Violation("C40/keybase/get-stale-armor", "after a successful Update(%q -> %q) Get(%s) still returns the armor stored before the update (coinbase=%v)", e.pass, newPass, m.slotName(a), a == m.coinbase)
				}
				priv, err := mintkey.UnarmorDecryptPrivKey(kp.PrivKeyArmor, newPass)
				c.AddExtra("armor_ops", 1)
				if err != nil {
					c.Violation("C40/keybase/updated-armor-rejects-new-passphrase", "after Update(%q -> %q) the armor returned by Get(%s) does not open with the new passphrase: %v (coinbase=%v)", e.pass, newPass, m.slotName(a), err, a == m.coinbase)
				} else if !sameKey(priv.PublicKey(), e.pub) || (e.priv != nil && !samePriv(priv, e.priv)) {
					c.Violation("C40/keybase/update-changed-key", "after Update the armor returned by Get(%s) decrypts to another key", m.slotName(a))
				}
				e.armor = kp.PrivKeyArmor
			}
			if a == m.coinbase {
				c.Label("coinbase-key-updated")
			}
			if newPass != e.pass {
				e.old = append(e.old, e.pass)
				c.Label("passphrase-changed")
				c.Label("stale-passphrase")
				c.NonTrivial()
				// the key must have been re-encrypted: the replaced passphrase no longer opens it
				if _, err := m.kb.ExportPrivateKeyObject(addrOf(a), e.pass); err == nil {
					c.Violation("C40/keybase/stale-passphrase-still-works", "after Update(%q -> %q) the key still opens with the replaced passphrase", e.pass, newPass)
				}
				c.AddExtra("armor_ops", 1)
			}
			e.pass = newPass
		} else if err == nil {
			c.Violation("C40/keybase/wrong-passphrase-updates", "Update succeeds with old passphrase %q, the key is protected by %q", pass, e.pass)
			e.pass = newPass
		}
	case "exportObject":
		a, present := m.pick(true)
		if !present {
			c.Opf("exportObject absent key")
			if _, err := m.kb.ExportPrivateKeyObject(addrOf(a), "x"); err == nil {
				c.Violation("C40/keybase/absent-key-usable", "ExportPrivateKeyObject of an address that is not in the keybase succeeds")
			}
			return
		}
		e := m.model[a]
		pass, right := m.passFor(e)
		c.Opf("exportObject %s pass=%q (right=%v)", m.slotName(a), pass, right)
		priv, err := m.kb.ExportPrivateKeyObject(addrOf(a), pass)
		c.AddExtra("armor_ops", 1)
		if right {
			if err != nil {
				c.Violation("C40/keybase/right-passphrase-rejected", "ExportPrivateKeyObject with the current passphrase fails: %v", err)
			} else if !sameKey(priv.PublicKey(), e.pub) || (e.priv != nil && !samePriv(priv, e.priv)) {
				c.Violation("C40/keybase/export-wrong-key", "ExportPrivateKeyObject returns another key than the stored one")
			}
		} else if err == nil {
			c.Violation("C40/keybase/wrong-passphrase-exports", "ExportPrivateKeyObject succeeds with passphrase %q, the key is protected by %q", pass, e.pass)
		}
	case "exportArmor":
		a, present := m.pick(false)
		if !present {
			return
		}
		e := m.model[a]
		pass, right := m.passFor(e)
		enc := drawPassphrase(rt, "exportPass")
		c.Opf("exportArmor %s pass=%q (right=%v) armorPass=%q", m.slotName(a), pass, right, enc)
		armor, err := m.kb.ExportPrivKeyEncryptedArmor(addrOf(a), pass, enc, "hint")
		c.AddExtra("armor_ops", 1)
		if !right {
			if err == nil {
				c.Violation("C40/keybase/wrong-passphrase-exports", "ExportPrivKeyEncryptedArmor succeeds with passphrase %q, the key is protected by %q", pass, e.pass)
			}
			return
		}
		c.AddExtra("armor_ops", 2)
		if err != nil {
			c.Violation("C40/keybase/right-passphrase-rejected", "ExportPrivKeyEncryptedArmor with the current passphrase fails: %v", err)
			return
		}
		priv, err := mintkey.UnarmorDecryptPrivKey(armor, enc)
		if err != nil || !sameKey(priv.PublicKey(), e.pub) || (e.priv != nil && !samePriv(priv, e.priv)) {
			c.Violation("C40/keybase/export-wrong-key", "exported armor does not decrypt (err=%v) to the stored key with the export passphrase", err)
		}
	case "delete":
		a, present := m.pick(true)
		if !present {
			c.Opf("delete absent key")
			if err := m.kb.Delete(addrOf(a), "x"); err == nil {
				c.Violation("C40/keybase/absent-key-usable", "Delete of an address that is not in the keybase succeeds")
			}
			return
		}
		e := m.model[a]
		pass, right := m.passFor(e)
		c.Opf("delete %s pass=%q (right=%v)", m.slotName(a), pass, right)
		err := m.kb.Delete(addrOf(a), pass)
		c.AddExtra("armor_ops", 1)
		if right {
			if err != nil {
				c.Violation("C40/keybase/right-passphrase-rejected", "Delete with the current passphrase fails: %v", err)
				return
			}
			m.remove(a)
		} else if err == nil {
			c.Violation("C40/keybase/wrong-passphrase-deletes", "Delete succeeds with passphrase %q, the key is protected by %q", pass, e.pass)
			m.remove(a)
		}
	case "unsafeDelete":
		if rapid.IntRange(0, 2).Draw(rt, "doUnsafe") != 0 {
			return
		}
		a, present := m.pick(true)
		c.Opf("unsafeDelete %s", m.slotName(a))
		err := m.kb.UnsafeDelete(addrOf(a))
		if present != (err == nil) {
			c.Violation("C40/keybase/unsafe-delete-differs-from-model", "UnsafeDelete: err=%v, model says present=%v", err, present)
		}
		if present {
			m.remove(a)
		}
	case "setCoinbase":
		// SetCoinbase(address): selects a stored key as the coinbase; an address that is not stored is refused and
		// leaves the selection alone
		a, present := m.pick(true)
		c.Opf("setCoinbase %s", m.slotName(a))
		c.Label("coinbase")
		err := m.kb.SetCoinbase(addrOf(a))
		if present != (err == nil) {
			c.Violation("C40/keybase/set-coinbase-differs-from-model", "SetCoinbase(%s): err=%v, model says present=%v", m.slotName(a), err, present)
		}
		if present {
			m.coinbase, m.coinbasePub = a, m.model[a].pub
		}
		m.checkCoinbase("after SetCoinbase")
	case "getCoinbase":
		c.Opf("getCoinbase (selected: %s)", m.coinbaseName())
		c.Label("coinbase")
		m.checkCoinbase("getCoinbase")
	case "closeDB":
		// CloseDB: a no-op for the lazy keybase (every call opens and closes the database) - the keys must be
		// found again by a new keybase instance over the same directory, which has no coinbase selected yet;
		// the in-memory database documents Close as a no-op that loses nothing
		c.Label("close-db")
		m.kb.CloseDB()
		if m.dir != "" {
			c.Opf("closeDB and reopen the keybase directory")
			m.kb = keys.New("keybase", m.dir)
			m.coinbase, m.coinbasePub = "", nil
		} else {
			c.Opf("closeDB (in memory)")
		}
	}
}

func (m *kbMachine) coinbaseName() string {
	if m.coinbase == "" {
		return "none"
	}
	return m.slotName(m.coinbase)
}

// checkCoinbase calls GetCoinbase and compares with the model: no selection and no keys -> error; no selection ->
// the first listed key (lowest address) becomes the selection; otherwise the selected address with its public key.
// What GetCoinbase returns for a selected key that was deleted afterwards is not specified (the code keeps handing
// out the key pair it cached) - nothing is asserted then; likewise the armor inside the returned pair is not compared.
func (m *kbMachine) checkCoinbase(where string) {
	c := m.c
	kp, err := m.kb.GetCoinbase()
	if m.coinbase == "" {
		as := m.addrs()
		if len(as) == 0 {
			c.Label("coinbase-of-empty-keybase")
			if err == nil {
				c.Violation("C40/keybase/coinbase-of-empty-keybase", "%s: GetCoinbase on an empty keybase without a selection returns a key", where)
			}
			return
		}
		c.Label("coinbase-default")
		if err != nil {
			c.Violation("C40/keybase/get-coinbase-error", "%s: GetCoinbase with %d stored keys: %v", where, len(as), err)
			return
		}
		got := strings.ToLower(kp.GetAddress().String())
		e := m.model[got]
		if e == nil {
			c.Violation("C40/keybase/coinbase-not-a-stored-key", "%s: GetCoinbase returns address %s which is not in the keybase", where, got)
			return
		}
		if got != as[0] {
			c.Violation("C40/keybase/coinbase-default-not-first-listed", "%s: GetCoinbase without a selection returns %s, the first listed key is %s", where, m.slotName(got), m.slotName(as[0]))
		}
		if !sameKey(kp.PublicKey, e.pub) {
			c.Violation("C40/keybase/coinbase-wrong-key", "%s: GetCoinbase returns another public key than the stored one", where)
		}
		m.coinbase, m.coinbasePub = got, e.pub
		return
	}
	if _, there := m.model[m.coinbase]; !there {
		c.Label("coinbase-key-deleted")
		return
	}
	if err != nil {
		c.Violation("C40/keybase/get-coinbase-error", "%s: GetCoinbase with %s selected: %v", where, m.coinbaseName(), err)
		return
	}
	if got := strings.ToLower(kp.GetAddress().String()); got != m.coinbase || !sameKey(kp.PublicKey, m.coinbasePub) {
		c.Violation("C40/keybase/coinbase-wrong-key", "%s: GetCoinbase returns %s, selected was %s", where, m.slotName(got), m.coinbaseName())
	}
}

func c40Keybase(rt *rapid.T, c *harness.Case) {
	m := &kbMachine{rt: rt, c: c, model: map[string]*kbEntry{}}
	if rapid.Bool().Draw(rt, "lazy") {
		base := os.Getenv("VERIF_WORK")
		dir, err := os.MkdirTemp(base, "c40-kb-")
		if err != nil {
			panic(err)
		}
		defer os.RemoveAll(dir)
		m.dir = dir
		m.kb = keys.New("keybase", dir)
		c.Label("lazy-keybase")
		c.Opf("keybase on disk (lazy)")
	} else {
		m.kb = keys.NewInMemory()
		c.Opf("keybase in memory")
	}
	c.Label("keybase")
	n := rapid.IntRange(4, 9).Draw(rt, "steps")
	// half of the cases start with the life of a node's own key: created, selected / read as the coinbase (every node does
	// that at start-up), then re-encrypted under a new passphrase or deleted, then looked up again
	if rapid.Bool().Draw(rt, "coinbaseScenario") {
		m.forced = []string{"create", rapid.SampledFrom([]string{"setCoinbase", "getCoinbase"}).Draw(rt, "selectHow"),
			rapid.SampledFrom([]string{"update", "update", "delete"}).Draw(rt, "thenWhat"), "get"}
		c.Label("coinbase-then-update-or-delete")
	}
	m.checkListing("initial")
	for i := 0; i < n; i++ {
		m.step()
		m.checkListing(fmt.Sprintf("after step %d", i+1))
	}
	// closing audit of one remaining key: the current passphrase opens it, a replaced one does not
	if as := m.addrs(); len(as) > 0 {
		a := as[rapid.IntRange(0, len(as)-1).Draw(rt, "auditSlot")]
		e := m.model[a]
		priv, err := m.kb.ExportPrivateKeyObject(addrOf(a), e.pass)
		c.AddExtra("armor_ops", 1)
		if err != nil || !sameKey(priv.PublicKey(), e.pub) {
			c.Violation("C40/keybase/right-passphrase-rejected", "closing audit: %s does not open with its current passphrase %q: %v", m.slotName(a), e.pass, err)
		}
		if len(e.old) > 0 {
			old := e.old[len(e.old)-1]
			c.Label("stale-passphrase")
			c.NonTrivial()
			if _, err := m.kb.ExportPrivateKeyObject(addrOf(a), old); err == nil {
				c.Violation("C40/keybase/stale-passphrase-still-works", "closing audit: %s still opens with the replaced passphrase %q (current %q)", m.slotName(a), old, e.pass)
			}
			c.AddExtra("armor_ops", 1)
		}
	}
}

func TestC40(t *testing.T) {
	// the code under test prints decryption failures to stdout; keep the test log readable
	if devnull, err := os.OpenFile(os.DevNull, os.O_WRONLY, 0); err == nil {
		saved := os.Stdout
		os.Stdout = devnull
		defer func() { os.Stdout = saved; devnull.Close() }()
	}
	harness.Check(t, "C40",
		"each case is (1 in 3) an armor case: generated ed25519/secp256k1 key, passphrase (empty, ASCII, unicode, long) and hint through EncryptArmorPrivKey/UnarmorDecryptPrivKey with the right passphrase, a different "+
			"passphrase (near misses included) and a one-character corruption of salt, ciphertext or kdf; or (2 in 3) a keybase history of 4-9 operations (create, import raw, import armored with right/wrong decrypt "+
			"passphrase, get, sign, update, export armored, export object, delete, unsafe delete, SetCoinbase, GetCoinbase, CloseDB (lazy: + reopen the directory with a new instance); on existing keys with the right "+
			"passphrase 2 in 3 and a wrong or replaced one 1 in 3; on absent/deleted addresses 1 in 6; one pick in three goes to the key selected as coinbase) on "+
			"NewInMemory() (3 in 4) or the on-disk lazy keybase, checked after every step against a map address -> (public key, passphrase, stored armor) plus the selected coinbase address: List/Get agree with the map "+
			"(same keys, same armor as last stored; after Update a new armor that opens with the new passphrase), deleted keys are gone, GetCoinbase = the selected key or the first listed one. "+
			"non-trivial = the case presents a wrong or replaced passphrase to an existing key/armor. Bounded by scrypt cost (~0.1 s per derivation; see armor_ops)",
		map[string]float64{"armor": 0.15, "keybase": 0.4, "wrong-passphrase": 0.5, "lazy-keybase": 0.05, "coinbase": 0.12},
		func(rt *rapid.T, c *harness.Case) {
			gen.ResetCodecGlobals()
			if rapid.IntRange(0, 2).Draw(rt, "scenario") == 0 {
				c40Armor(rt, c)
			} else {
				c40Keybase(rt, c)
			}
		})
}
