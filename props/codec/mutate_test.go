package codec

import (
	"fmt"
	"reflect"
	"sort"
	"time"

	"github.com/pokt-network/pocket-core/crypto"
	sdk "github.com/pokt-network/pocket-core/types"
	"pgregory.net/rapid"

	"verif/harness/gen"
)

var (
	rtBigInt = reflect.TypeOf(sdk.BigInt{})
	rtTime   = reflect.TypeOf(time.Time{})
	rtPubKey = reflect.TypeOf((*crypto.PublicKey)(nil)).Elem()
)

// deepCopy returns an independent copy of v (maps, slices, pointers and interface contents are copied;
// sdk.BigInt is immutable and shared).
func deepCopy(v reflect.Value) reflect.Value {
	if !v.IsValid() {
		return v
	}
	if v.Type() == rtBigInt || v.Type() == rtTime {
		return v
	}
	switch v.Kind() {
	case reflect.Ptr:
		if v.IsNil() {
			return v
		}
		n := reflect.New(v.Type().Elem())
		n.Elem().Set(deepCopy(v.Elem()))
		return n
	case reflect.Interface:
		if v.IsNil() {
			return v
		}
		n := reflect.New(v.Type()).Elem()
		n.Set(deepCopy(v.Elem()))
		return n
	case reflect.Struct:
		n := reflect.New(v.Type()).Elem()
		n.Set(v) // copies unexported fields too
		for i := 0; i < v.NumField(); i++ {
			if v.Type().Field(i).PkgPath != "" {
				continue
			}
			n.Field(i).Set(deepCopy(v.Field(i)))
		}
		return n
	case reflect.Slice:
		if v.IsNil() {
			return v
		}
		n := reflect.MakeSlice(v.Type(), v.Len(), v.Len())
		for i := 0; i < v.Len(); i++ {
			n.Index(i).Set(deepCopy(v.Index(i)))
		}
		return n
	case reflect.Map:
		if v.IsNil() {
			return v
		}
		n := reflect.MakeMapWithSize(v.Type(), v.Len())
		it := v.MapRange()
		for it.Next() {
			n.SetMapIndex(it.Key(), deepCopy(it.Value()))
		}
		return n
	}
	return v
}

// leaf is one mutable position inside a value: a description and a function that changes the value there
// to a semantically different one.
type leaf struct {
	path   string
	mutate func()
}

func otherKey(cur crypto.PublicKey) crypto.PublicKey {
	k := gen.PoolKey(100).Pub
	if cur != nil && gen.Canon(cur) == gen.Canon(k) {
		k = gen.PoolKey(101).Pub
	}
	return k
}

// collectLeaves lists every position of the (addressable) value v where a single-field change can be made.
func collectLeaves(v reflect.Value, path string, out *[]leaf) {
	switch v.Type() {
	case rtBigInt:
		*out = append(*out, leaf{path, func() {
			cur := v.Interface().(sdk.BigInt)
			if gen.Canon(cur) == "0" {
				v.Set(reflect.ValueOf(sdk.NewInt(1)))
			} else {
				v.Set(reflect.ValueOf(cur.Sub(sdk.NewInt(1))))
			}
		}})
		return
	case rtTime:
		*out = append(*out, leaf{path, func() { v.Set(reflect.ValueOf(v.Interface().(time.Time).Add(time.Second))) }})
		return
	}
	if v.Type() == rtPubKey {
		*out = append(*out, leaf{path, func() {
			var cur crypto.PublicKey
			if !v.IsNil() {
				cur = v.Interface().(crypto.PublicKey)
			}
			v.Set(reflect.ValueOf(otherKey(cur)))
		}})
		return
	}
	switch v.Kind() {
	case reflect.Ptr:
		if !v.IsNil() {
			collectLeaves(v.Elem(), path, out)
		}
	case reflect.Interface:
		if v.IsNil() {
			return
		}
		// copy the dynamic value out, collect inside the copy, write back on mutation
		inner := reflect.New(v.Elem().Type()).Elem()
		inner.Set(v.Elem())
		var sub []leaf
		collectLeaves(inner, path, &sub)
		for _, l := range sub {
			l := l
			*out = append(*out, leaf{l.path, func() { l.mutate(); v.Set(inner) }})
		}
	case reflect.Struct:
		for i := 0; i < v.NumField(); i++ {
			f := v.Type().Field(i)
			if f.PkgPath != "" {
				continue
			}
			collectLeaves(v.Field(i), path+"."+f.Name, out)
		}
	case reflect.Slice:
		if v.Type().Elem().Kind() == reflect.Uint8 {
			*out = append(*out, leaf{path, func() {
				if v.Len() == 0 {
					v.Set(reflect.ValueOf([]byte{1}).Convert(v.Type()))
					return
				}
				n := reflect.MakeSlice(v.Type(), v.Len(), v.Len())
				reflect.Copy(n, v)
				e := n.Index(v.Len() - 1)
				e.SetUint(e.Uint() ^ 1)
				v.Set(n)
			}})
			return
		}
		*out = append(*out, leaf{path + "[+]", func() {
			v.Set(reflect.Append(v, nonZero(v.Type().Elem())))
		}})
		for i := 0; i < v.Len(); i++ {
			collectLeaves(v.Index(i), fmt.Sprintf("%s[%d]", path, i), out)
		}
	case reflect.Map:
		if v.Type().Key().Kind() != reflect.String {
			return
		}
		*out = append(*out, leaf{path + "{+}", func() {
			if v.IsNil() {
				v.Set(reflect.MakeMap(v.Type()))
			}
			k := "ffffffffffffffffffffffffffffffffffffffff"
			for v.MapIndex(reflect.ValueOf(k)).IsValid() {
				k += "00"
			}
			v.SetMapIndex(reflect.ValueOf(k), nonZero(v.Type().Elem()))
		}})
		keys := make([]string, 0, v.Len())
		for _, k := range v.MapKeys() {
			keys = append(keys, k.String())
		}
		sort.Strings(keys)
		for _, k := range keys {
			k := k
			*out = append(*out, leaf{fmt.Sprintf("%s{%s}", path, k), func() {
				cur := v.MapIndex(reflect.ValueOf(k))
				n := reflect.New(cur.Type()).Elem()
				n.Set(cur)
				bump(n)
				v.SetMapIndex(reflect.ValueOf(k), n)
			}})
		}
	case reflect.String, reflect.Bool, reflect.Int, reflect.Int8, reflect.Int16, reflect.Int32, reflect.Int64,
		reflect.Uint, reflect.Uint8, reflect.Uint16, reflect.Uint32, reflect.Uint64:
		*out = append(*out, leaf{path, func() { bump(v) }})
	case reflect.Array:
		if v.Type().Elem().Kind() == reflect.Uint8 && v.Len() > 0 {
			*out = append(*out, leaf{path, func() { e := v.Index(v.Len() - 1); e.SetUint(e.Uint() ^ 1) }})
		}
	}
}

func bump(v reflect.Value) {
	switch v.Kind() {
	case reflect.String:
		v.SetString(v.String() + "0")
	case reflect.Bool:
		v.SetBool(!v.Bool())
	case reflect.Int, reflect.Int8, reflect.Int16, reflect.Int32, reflect.Int64:
		if v.Int() > 0 {
			v.SetInt(v.Int() - 1)
		} else {
			v.SetInt(v.Int() + 1)
		}
	case reflect.Uint, reflect.Uint8, reflect.Uint16, reflect.Uint32, reflect.Uint64:
		if v.Uint() > 0 {
			v.SetUint(v.Uint() - 1)
		} else {
			v.SetUint(1)
		}
	}
}

func nonZero(t reflect.Type) reflect.Value {
	n := reflect.New(t).Elem()
	var ls []leaf
	collectLeaves(n, "", &ls)
	for _, l := range ls {
		if len(l.path) > 0 && (l.path[len(l.path)-1] == ']' || l.path[len(l.path)-1] == '}') {
			continue // do not grow nested collections
		}
		l.mutate()
	}
	return n
}

// mutateOneField returns a deep copy of the value ptr points to with exactly one rapid-chosen field
// changed, and the path of the change.
func mutateOneField(rt *rapid.T, ptr any) (any, string) {
	cp := deepCopy(reflect.ValueOf(ptr))
	var ls []leaf
	collectLeaves(cp.Elem(), reflect.TypeOf(ptr).Elem().Name(), &ls)
	if len(ls) == 0 {
		return nil, ""
	}
	i := rapid.IntRange(0, len(ls)-1).Draw(rt, "mutatedField")
	ls[i].mutate()
	return cp.Interface(), ls[i].path
}
