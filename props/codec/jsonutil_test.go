package codec

import (
	"bytes"
	"encoding/json"
	"fmt"
	"io"
	"strings"

	"pgregory.net/rapid"
)

// jnode is an order-preserving JSON tree (numbers kept as literals).
type jnode struct {
	kind  byte // 'o' object, 'a' array, 's' string, 'n' number, 'b' bool, 'z' null
	keys  []string
	vals  []*jnode
	str   string
	num   string
	boolv bool
}

func parseJSON(bz []byte) (*jnode, error) {
	dec := json.NewDecoder(bytes.NewReader(bz))
	dec.UseNumber()
	n, err := parseNode(dec)
	if err != nil {
		return nil, err
	}
	if _, err := dec.Token(); err != io.EOF {
		return nil, fmt.Errorf("trailing data after JSON value")
	}
	return n, nil
}

func parseNode(dec *json.Decoder) (*jnode, error) {
	tok, err := dec.Token()
	if err != nil {
		return nil, err
	}
	switch t := tok.(type) {
	case json.Delim:
		switch t {
		case '{':
			n := &jnode{kind: 'o'}
			for dec.More() {
				kt, err := dec.Token()
				if err != nil {
					return nil, err
				}
				k, ok := kt.(string)
				if !ok {
					return nil, fmt.Errorf("non-string key")
				}
				v, err := parseNode(dec)
				if err != nil {
					return nil, err
				}
				n.keys = append(n.keys, k)
				n.vals = append(n.vals, v)
			}
			if _, err := dec.Token(); err != nil {
				return nil, err
			}
			return n, nil
		case '[':
			n := &jnode{kind: 'a'}
			for dec.More() {
				v, err := parseNode(dec)
				if err != nil {
					return nil, err
				}
				n.vals = append(n.vals, v)
			}
			if _, err := dec.Token(); err != nil {
				return nil, err
			}
			return n, nil
		}
		return nil, fmt.Errorf("unexpected delimiter %v", t)
	case string:
		return &jnode{kind: 's', str: t}, nil
	case json.Number:
		return &jnode{kind: 'n', num: string(t)}, nil
	case bool:
		return &jnode{kind: 'b', boolv: t}, nil
	case nil:
		return &jnode{kind: 'z'}, nil
	}
	return nil, fmt.Errorf("unexpected token %T", tok)
}

func jstr(s string) string {
	b, _ := json.Marshal(s)
	return string(b)
}

// render writes the tree compactly in stored key order.
func (n *jnode) render(sb *strings.Builder) {
	switch n.kind {
	case 'o':
		sb.WriteByte('{')
		for i, k := range n.keys {
			if i > 0 {
				sb.WriteByte(',')
			}
			sb.WriteString(jstr(k))
			sb.WriteByte(':')
			n.vals[i].render(sb)
		}
		sb.WriteByte('}')
	case 'a':
		sb.WriteByte('[')
		for i, v := range n.vals {
			if i > 0 {
				sb.WriteByte(',')
			}
			v.render(sb)
		}
		sb.WriteByte(']')
	case 's':
		sb.WriteString(jstr(n.str))
	case 'n':
		sb.WriteString(n.num)
	case 'b':
		if n.boolv {
			sb.WriteString("true")
		} else {
			sb.WriteString("false")
		}
	default:
		sb.WriteString("null")
	}
}

func (n *jnode) String() string {
	var sb strings.Builder
	n.render(&sb)
	return sb.String()
}

// renderShuffled writes the tree with every object's members in a rapid-drawn order and optional
// insignificant whitespace. It reports whether some object really had its member order changed.
func (n *jnode) renderShuffled(rt *rapid.T, sb *strings.Builder, ws bool, changed *bool) {
	sp := func() {
		if ws {
			sb.WriteString([]string{"", " ", "\n", "\t "}[rapid.IntRange(0, 3).Draw(rt, "ws")])
		}
	}
	switch n.kind {
	case 'o':
		idx := make([]int, len(n.keys))
		for i := range idx {
			idx[i] = i
		}
		if len(idx) > 1 {
			idx = rapid.Permutation(idx).Draw(rt, "memberOrder")
			for i, j := range idx {
				if i != j {
					*changed = true
				}
			}
		}
		sb.WriteByte('{')
		sp()
		for i, j := range idx {
			if i > 0 {
				sb.WriteByte(',')
				sp()
			}
			sb.WriteString(jstr(n.keys[j]))
			sp()
			sb.WriteByte(':')
			sp()
			n.vals[j].renderShuffled(rt, sb, ws, changed)
		}
		sp()
		sb.WriteByte('}')
	case 'a':
		sb.WriteByte('[')
		for i, v := range n.vals {
			if i > 0 {
				sb.WriteByte(',')
				sp()
			}
			v.renderShuffled(rt, sb, ws, changed)
		}
		sb.WriteByte(']')
	default:
		n.render(sb)
	}
}

// equalContent compares two trees ignoring object member order (numbers by literal).
func (n *jnode) equalContent(m *jnode) bool {
	if n.kind != m.kind {
		return false
	}
	switch n.kind {
	case 'o':
		if len(n.keys) != len(m.keys) {
			return false
		}
		for i, k := range n.keys {
			found := false
			for j, k2 := range m.keys {
				if k == k2 {
					if !n.vals[i].equalContent(m.vals[j]) {
						return false
					}
					found = true
					break
				}
			}
			if !found {
				return false
			}
		}
		return true
	case 'a':
		if len(n.vals) != len(m.vals) {
			return false
		}
		for i := range n.vals {
			if !n.vals[i].equalContent(m.vals[i]) {
				return false
			}
		}
		return true
	case 's':
		return n.str == m.str
	case 'n':
		return n.num == m.num
	case 'b':
		return n.boolv == m.boolv
	}
	return true
}

// canonicalProblem restates "canonical JSON" independently of SortJSON: every object's keys strictly
// ascending (byte order) at every depth, and the compact re-rendering equal to the input bytes (no
// whitespace, Go's standard string escaping). It returns "" when bz is canonical.
func canonicalProblem(bz []byte) string {
	n, err := parseJSON(bz)
	if err != nil {
		return "not valid JSON: " + err.Error()
	}
	var walk func(n *jnode, path string) string
	walk = func(n *jnode, path string) string {
		if n.kind == 'o' {
			for i := 1; i < len(n.keys); i++ {
				if !(n.keys[i-1] < n.keys[i]) {
					return fmt.Sprintf("object %s: key %q not after %q", path, n.keys[i], n.keys[i-1])
				}
			}
			for i, v := range n.vals {
				if p := walk(v, path+"."+n.keys[i]); p != "" {
					return p
				}
			}
		}
		if n.kind == 'a' {
			for i, v := range n.vals {
				if p := walk(v, fmt.Sprintf("%s[%d]", path, i)); p != "" {
					return p
				}
			}
		}
		return ""
	}
	if p := walk(n, "$"); p != "" {
		return p
	}
	if s := n.String(); s != string(bz) {
		return "not in compact form: " + string(bz)
	}
	return ""
}

func (n *jnode) get(key string) *jnode {
	if n == nil || n.kind != 'o' {
		return nil
	}
	for i, k := range n.keys {
		if k == key {
			return n.vals[i]
		}
	}
	return nil
}

// genJSON draws a JSON tree: objects with 0-4 members (keys from a small alphabet so that order matters,
// including keys that need escaping), arrays, strings, integers below 2^53, booleans and null.
func genJSON(rt *rapid.T, depth int) *jnode {
	max := 5
	if depth <= 0 {
		max = 3
	}
	switch rapid.IntRange(0, max).Draw(rt, "jkind") {
	case 0:
		return &jnode{kind: 's', str: rapid.SampledFrom([]string{"", "a", "b\"q", "<x>", "é世", "line\nbreak", "0"}).Draw(rt, "jstr")}
	case 1:
		return &jnode{kind: 'n', num: fmt.Sprintf("%d", rapid.Int64Range(-(1<<53)+1, (1<<53)-1).Draw(rt, "jnum"))}
	case 2:
		return &jnode{kind: 'b', boolv: rapid.Bool().Draw(rt, "jbool")}
	case 3:
		return &jnode{kind: 'z'}
	case 4:
		n := &jnode{kind: 'a'}
		for i, k := 0, rapid.IntRange(0, 3).Draw(rt, "alen"); i < k; i++ {
			n.vals = append(n.vals, genJSON(rt, depth-1))
		}
		return n
	default:
		n := &jnode{kind: 'o'}
		seen := map[string]bool{}
		for i, k := 0, rapid.IntRange(0, 4).Draw(rt, "olen"); i < k; i++ {
			key := rapid.SampledFrom([]string{"a", "b", "B", "aa", "z", "_", "é", "k\"", "10", "9", ""}).Draw(rt, "jkey")
			if seen[key] {
				continue
			}
			seen[key] = true
			n.keys = append(n.keys, key)
			n.vals = append(n.vals, genJSON(rt, depth-1))
		}
		return n
	}
}

// genJSONObject draws a JSON object with at least two members at the top level (so that member order exists).
func genJSONObject(rt *rapid.T, depth int) *jnode {
	n := &jnode{kind: 'o'}
	keys := rapid.SliceOfNDistinct(rapid.SampledFrom([]string{"a", "b", "B", "aa", "z", "_", "é", "k\"", "10", "9", ""}), 2, 5, rapid.ID[string]).Draw(rt, "topKeys")
	for _, k := range keys {
		n.keys = append(n.keys, k)
		n.vals = append(n.vals, genJSON(rt, depth-1))
	}
	return n
}
