package codec

import (
	"bytes"
	"fmt"
	"math"
	"reflect"
	"strconv"
	"strings"
	"testing"

	pcodec "github.com/pokt-network/pocket-core/codec"
	ctypes "github.com/pokt-network/pocket-core/codec/types"
	sdk "github.com/pokt-network/pocket-core/types"
	appsTypes "github.com/pokt-network/pocket-core/x/apps/types"
	authTypes "github.com/pokt-network/pocket-core/x/auth/types"
	govTypes "github.com/pokt-network/pocket-core/x/gov/types"
	nodesTypes "github.com/pokt-network/pocket-core/x/nodes/types"
	pcTypes "github.com/pokt-network/pocket-core/x/pocketcore/types"
	"pgregory.net/rapid"

	"verif/harness"
	"verif/harness/gen"
)

// C38: every stored or transmitted object round-trips through the legacy amino codec, the protobuf codec
// and JSON; sign bytes are canonical.

// ---------------------------------------------------------------------------------------------------------
// process-global configuration deciding which binary codec a height selects

type codecCfg struct {
	upgradeHeight, oldUpgradeHeight, testMode int64
	ncust                                     int64 // UpgradeFeatureMap[NCUST] (0 = unset)
	override                                  int   // -1 none, 0 force amino, 1 force proto
}

func (g codecCfg) String() string {
	uh := strconv.FormatInt(g.upgradeHeight, 10)
	if g.upgradeHeight == math.MaxInt64 {
		uh = "max"
	}
	return fmt.Sprintf("UpgradeHeight=%s Old=%d TestMode=%d NCUST=%d override=%d", uh, g.oldUpgradeHeight, g.testMode, g.ncust, g.override)
}

func (g codecCfg) apply() {
	gen.ResetCodecGlobals()
	pcodec.UpgradeHeight = g.upgradeHeight
	pcodec.OldUpgradeHeight = g.oldUpgradeHeight
	pcodec.TestMode = g.testMode
	if g.ncust != 0 {
		pcodec.UpgradeFeatureMap[pcodec.NonCustodialUpdateKey] = g.ncust
	}
	switch g.override {
	case 0:
		gen.Codec().SetUpgradeOverride(false)
	case 1:
		gen.Codec().SetUpgradeOverride(true)
	}
}

// switchHeight restates the documented rule for the first protobuf height: the hard-coded mainnet height
// 30024 unless the governance upgrade height is below it, in which case the (older, if set and smaller)
// governance upgrade height.
func (g codecCfg) switchHeight() int64 {
	if g.upgradeHeight >= 30024 {
		return 30024
	}
	if g.oldUpgradeHeight != 0 && g.oldUpgradeHeight < g.upgradeHeight {
		return g.oldUpgradeHeight
	}
	return g.upgradeHeight
}

// protoEra restates which binary codec height h must use under g.
func (g codecCfg) protoEra(h int64) bool {
	if g.override >= 0 {
		return g.override == 1
	}
	return g.testMode <= -1 || h == -1 || h >= g.switchHeight()
}

// ncustActive restates IsAfterNonCustodialUpgrade.
func (g codecCfg) ncustActive(h int64) bool {
	return g.testMode <= -3 || (g.ncust != 0 && h >= g.ncust)
}

func drawCfg(rt *rapid.T) codecCfg {
	g := codecCfg{upgradeHeight: math.MaxInt64, override: -1}
	switch rapid.IntRange(0, 9).Draw(rt, "cfgKind") {
	case 0, 1, 2, 3: // mainnet defaults
	case 4, 5: // a network whose governance upgrade height lies below the mainnet constant
		g.upgradeHeight = rapid.Int64Range(1, 30023).Draw(rt, "upgradeHeight")
		switch rapid.IntRange(0, 2).Draw(rt, "oldKind") {
		case 1:
			g.oldUpgradeHeight = rapid.Int64Range(1, g.upgradeHeight).Draw(rt, "oldBelow")
		case 2:
			g.oldUpgradeHeight = g.upgradeHeight + rapid.Int64Range(0, 1000).Draw(rt, "oldAbove")
		}
	case 6: // governance upgrade height above the constant: the constant wins
		g.upgradeHeight = rapid.Int64Range(30024, 200000).Draw(rt, "upgradeHeightHigh")
		g.oldUpgradeHeight = rapid.SampledFrom([]int64{0, 100, 30024, 50000}).Draw(rt, "oldAny")
	case 7, 8:
		g.testMode = int64(-rapid.IntRange(1, 4).Draw(rt, "testMode"))
	default:
		g.override = rapid.IntRange(0, 1).Draw(rt, "override")
	}
	if rapid.Bool().Draw(rt, "ncustSet") {
		g.ncust = rapid.SampledFrom([]int64{1, 100, 30024, 69232}).Draw(rt, "ncust")
	}
	return g
}

func drawHeight(rt *rapid.T, g codecCfg) int64 {
	s := g.switchHeight()
	cands := []int64{-1, 0, 1, s - 1, s, s + 1, 30023, 30024, 30025, pcodec.CodecChainHaltHeight, 69232, 1 << 40}
	if rapid.IntRange(0, 3).Draw(rt, "randomHeight") == 0 {
		return rapid.Int64Range(0, 200000).Draw(rt, "height")
	}
	h := rapid.SampledFrom(cands).Draw(rt, "height")
	if h < -1 {
		h = 0
	}
	return h
}

// ---------------------------------------------------------------------------------------------------------

type c38 struct {
	rt  *rapid.T
	c   *harness.Case
	cdc *pcodec.Codec
	cfg codecCfg
}

func eraName(proto bool) string {
	if proto {
		return "proto"
	}
	return "amino"
}

func newLike(ptr any) any { return reflect.New(reflect.TypeOf(ptr).Elem()).Interface() }

// binary checks one height-selected binary round trip of *ptr (bare or length prefixed):
//  1. the bytes are the ones of the codec the height must select (decodable by that explicit codec to an
//     equal value; byte-identical to the explicit encoder when the encoder is deterministic),
//  2. decode(encode(x)) is semantically x,
//  3. encode(decode(encode(x))) == encode(x) byte for byte (when the encoder is deterministic).
func (k *c38) binary(typ string, ptr any, h int64, lenPrefixed, deterministic bool) {
	era := k.cfg.protoEra(h)
	site := fmt.Sprintf("C38/%s/%s", typ, eraName(era))
	mode := "bare"
	if lenPrefixed {
		mode = "length-prefixed"
	}
	k.c.Label("codec:" + eraName(era))
	k.c.AddExtra("binary_roundtrips", 1)
	enc := func(o any) ([]byte, error) {
		if lenPrefixed {
			return k.cdc.MarshalBinaryLengthPrefixed(o, h)
		}
		return k.cdc.MarshalBinaryBare(o, h)
	}
	dec := func(bz []byte, o any) error {
		if lenPrefixed {
			return k.cdc.UnmarshalBinaryLengthPrefixed(bz, o, h)
		}
		return k.cdc.UnmarshalBinaryBare(bz, o, h)
	}
	want := gen.Canon(ptr)
	bz, err := enc(ptr)
	if err != nil {
		k.c.Violation(site+"/encode-error", "%s %s at height %d (%s): encode failed: %v; value %s", typ, mode, h, k.cfg, err, want)
		return
	}
	// (2) semantic round trip through the height-selected decoder
	got := newLike(ptr)
	if err := dec(bz, got); err != nil {
		k.c.Violation(site+"/decode-error", "%s %s at height %d (%s): decode of own encoding failed: %v; value %s bytes %x", typ, mode, h, k.cfg, err, want, bz)
		return
	}
	if g := gen.Canon(got); g != want {
		k.c.Violation(site+"/value-differs", "%s %s at height %d (%s): decode(encode(x)) != x\n got  %s\n want %s", typ, mode, h, k.cfg, g, want)
		return
	}
	// (1) which codec produced the bytes
	viaEra := newLike(ptr)
	var eerr error
	pm, isPM := viaEra.(pcodec.ProtoMarshaler)
	switch {
	case era && lenPrefixed && isPM:
		eerr = k.cdc.ProtoUnmarshalBinaryLengthPrefixed(bz, pm)
	case era && isPM:
		eerr = k.cdc.ProtoUnmarshalBinaryBare(bz, pm)
	case !era && lenPrefixed:
		eerr = k.cdc.LegacyUnmarshalBinaryLengthPrefixed(bz, viaEra)
	default:
		eerr = k.cdc.LegacyUnmarshalBinaryBare(bz, viaEra)
	}
	if eerr != nil || gen.Canon(viaEra) != want {
		if !k.c.Violation(site+"/height-selects-wrong-codec", "%s %s at height %d under %s must be %s-encoded, but the %s decoder gives err=%v value=%s (want %s); bytes %x",
			typ, mode, h, k.cfg, eraName(era), eraName(era), eerr, gen.Canon(viaEra), want, bz) {
			return
		}
	}
	if deterministic {
		var ref []byte
		var rerr error
		p, ok := ptr.(pcodec.ProtoMarshaler)
		switch {
		case era && lenPrefixed && ok:
			ref, rerr = k.cdc.ProtoMarshalBinaryLengthPrefixed(p)
		case era && ok:
			ref, rerr = k.cdc.ProtoMarshalBinaryBare(p)
		case !era && lenPrefixed:
			ref, rerr = k.cdc.LegacyMarshalBinaryLengthPrefixed(ptr)
		case !era:
			ref, rerr = k.cdc.LegacyMarshalBinaryBare(ptr)
		}
		if rerr == nil && ref != nil && !bytes.Equal(ref, bz) {
			k.c.Violation(site+"/height-selects-wrong-codec", "%s %s at height %d under %s: bytes differ from the explicit %s encoder: got %x want %x",
				typ, mode, h, k.cfg, eraName(era), bz, ref)
		}
	}
	// (3) byte-level fixpoint
	bz2, err := enc(got)
	if err != nil {
		k.c.Violation(site+"/reencode-error", "%s %s at height %d (%s): re-encoding the decoded value failed: %v; value %s", typ, mode, h, k.cfg, err, want)
		return
	}
	if deterministic && !bytes.Equal(bz, bz2) {
		k.c.Violation(site+"/fixpoint-differs", "%s %s at height %d (%s): encode(decode(encode(x))) != encode(x): %x vs %x; value %s", typ, mode, h, k.cfg, bz2, bz, want)
	}
	if !deterministic {
		// the encoder iterates a Go map: bytes may legitimately differ in entry order; the value must not
		again := newLike(ptr)
		if err := dec(bz2, again); err != nil || gen.Canon(again) != want {
			k.c.Violation(site+"/fixpoint-differs", "%s %s at height %d (%s): second round trip changed the value: err=%v got %s want %s", typ, mode, h, k.cfg, err, gen.Canon(again), want)
		}
	}
}

// jsonRT checks the JSON (amino-JSON) round trip of *ptr: decode(encode(x)) semantically x, stable second
// encoding, and decoding from a rendering with permuted member order and extra whitespace gives x as well.
func (k *c38) jsonRT(typ string, ptr any) {
	site := "C38/" + typ + "/json"
	k.c.Label("codec:json")
	k.c.AddExtra("json_roundtrips", 1)
	want := gen.Canon(ptr)
	js, err := k.cdc.MarshalJSON(ptr)
	if err != nil {
		k.c.Violation(site+"/encode-error", "%s: MarshalJSON failed: %v; value %s", typ, err, want)
		return
	}
	got := newLike(ptr)
	if err := k.cdc.UnmarshalJSON(js, got); err != nil {
		k.c.Violation(site+"/decode-error", "%s: UnmarshalJSON of own encoding failed: %v; json %s", typ, err, js)
		return
	}
	if g := gen.Canon(got); g != want {
		k.c.Violation(site+"/value-differs", "%s: JSON decode(encode(x)) != x\n got  %s\n want %s\n json %s", typ, g, want, js)
		return
	}
	js2, err := k.cdc.MarshalJSON(got)
	if err != nil {
		k.c.Violation(site+"/reencode-error", "%s: MarshalJSON of the decoded value failed: %v", typ, err)
		return
	}
	s1, e1 := sdk.SortJSON(js)
	s2, e2 := sdk.SortJSON(js2)
	if e1 != nil || e2 != nil || !bytes.Equal(s1, s2) {
		// nil vs empty collections render as null vs [] / {}: compare through the decoder instead of bytes
		again := newLike(ptr)
		if err := k.cdc.UnmarshalJSON(js2, again); err != nil || gen.Canon(again) != want {
			k.c.Violation(site+"/fixpoint-differs", "%s: second JSON round trip changed the value: err=%v\n first  %s\n second %s", typ, err, js, js2)
		}
	}
	// member order / whitespace must not matter to the decoder
	tree, err := parseJSON(js)
	if err != nil {
		k.c.Violation(site+"/invalid-json", "%s: MarshalJSON output does not parse: %v: %s", typ, err, js)
		return
	}
	var sb strings.Builder
	changed := false
	tree.renderShuffled(k.rt, &sb, rapid.Bool().Draw(k.rt, "whitespace"), &changed)
	if changed {
		k.c.Label("json-members-permuted")
	}
	perm := newLike(ptr)
	if err := k.cdc.UnmarshalJSON([]byte(sb.String()), perm); err != nil {
		k.c.Violation(site+"/permuted-decode-error", "%s: UnmarshalJSON fails on the same JSON with permuted member order: %v\n json %s", typ, err, sb.String())
		return
	}
	if g := gen.Canon(perm); g != want {
		k.c.Violation(site+"/permuted-value-differs", "%s: JSON with permuted member order decodes to another value\n got  %s\n want %s\n json %s", typ, g, want, sb.String())
	}
}

// signBytes checks the canonical-form and invariance claims for msg.GetSignBytes() and StdSignBytes.
func (k *c38) signBytes(kind gen.MsgKind, msg sdk.ProtoMsg, rebuilt sdk.ProtoMsg) {
	typ := string(kind)
	site := "C38/" + typ + "/signbytes"
	k.c.AddExtra("signbytes_checked", 1)
	sb := msg.GetSignBytes()
	if p := canonicalProblem(sb); p != "" {
		k.c.Violation(site+"/not-canonical", "%s.GetSignBytes() is not canonical JSON: %s\n %s", typ, p, sb)
	}
	// the same message rebuilt with another map insertion order
	if rebuilt != nil {
		if gen.Canon(rebuilt) != gen.Canon(msg) {
			panic("harness bug: rebuilt message differs")
		}
		for i := 0; i < 3; i++ { // Go randomises iteration per range statement: sample a few
			if sb2 := rebuilt.GetSignBytes(); !bytes.Equal(sb, sb2) {
				k.c.Violation(site+"/map-order-leaks", "%s.GetSignBytes() depends on map insertion/iteration order:\n %s\n %s", typ, sb, sb2)
				break
			}
			if sb2 := msg.GetSignBytes(); !bytes.Equal(sb, sb2) {
				k.c.Violation(site+"/map-order-leaks", "%s.GetSignBytes() differs between two calls on the same value:\n %s\n %s", typ, sb, sb2)
				break
			}
		}
	}
	// the same message decoded from its JSON and from that JSON with permuted member order must sign alike
	// (both go through the same nil/empty normalisation of the JSON decoder, so only member order differs)
	js, err := k.cdc.MarshalJSON(msg)
	if err == nil {
		if tree, perr := parseJSON(js); perr == nil {
			var out strings.Builder
			changed := false
			tree.renderShuffled(k.rt, &out, false, &changed)
			m1, m2 := newLike(msg), newLike(msg)
			e1 := k.cdc.UnmarshalJSON(js, m1)
			e2 := k.cdc.UnmarshalJSON([]byte(out.String()), m2)
			if e1 == nil && e2 == nil {
				if sb1, sb2 := m1.(sdk.Msg).GetSignBytes(), m2.(sdk.Msg).GetSignBytes(); !bytes.Equal(sb1, sb2) {
					k.c.Violation(site+"/field-order-leaks", "%s: sign bytes differ between the message decoded from its JSON and from the same JSON with permuted members:\n %s\n %s\n json %s", typ, sb1, sb2, out.String())
				}
				// and, unless the message holds an empty-but-non-nil collection (which JSON decoding turns into
				// nil and amino-JSON renders differently), they are the bytes of the original message
				if !hasEmptyNonNil(reflect.ValueOf(msg)) {
					if sb1 := m1.(sdk.Msg).GetSignBytes(); !bytes.Equal(sb, sb1) {
						k.c.Violation(site+"/json-roundtrip-changes-signbytes", "%s: GetSignBytes changes across a JSON round trip:\n %s\n %s", typ, sb, sb1)
					}
				}
			}
		}
	}
	// sensitivity: a single-field change must change the sign bytes
	if mut, path := mutateOneField(k.rt, msg); mut != nil {
		mm := mut.(sdk.Msg)
		if gen.Canon(mut) != gen.Canon(msg) {
			k.c.Opf("mutate %s", path)
			if bytes.Equal(mm.GetSignBytes(), sb) {
				k.c.Violation(site+"/field-not-signed", "%s: changing %s does not change GetSignBytes(): %s\n mutated value %s", typ, path, sb, gen.Canon(mut))
			}
		}
	}
}

// hasEmptyNonNil reports whether v contains an empty but non-nil slice or map anywhere.
func hasEmptyNonNil(v reflect.Value) bool {
	if !v.IsValid() {
		return false
	}
	switch v.Kind() {
	case reflect.Ptr, reflect.Interface:
		return !v.IsNil() && hasEmptyNonNil(v.Elem())
	case reflect.Struct:
		for i := 0; i < v.NumField(); i++ {
			if v.Type().Field(i).PkgPath == "" && hasEmptyNonNil(v.Field(i)) {
				return true
			}
		}
	case reflect.Slice:
		if !v.IsNil() && v.Len() == 0 {
			return true
		}
		if v.Type().Elem().Kind() != reflect.Uint8 {
			for i := 0; i < v.Len(); i++ {
				if hasEmptyNonNil(v.Index(i)) {
					return true
				}
			}
		}
	case reflect.Map:
		if !v.IsNil() && v.Len() == 0 {
			return true
		}
	}
	return false
}

func (k *c38) stdSignBytes(tx gen.Tx) {
	site := "C38/StdSignBytes"
	t := tx.StdTx
	sb, err := authTypes.StdSignBytes(tx.ChainID, t.Entropy, t.Fee, t.Msg, t.Memo)
	if err != nil {
		k.c.Violation(site+"/error", "StdSignBytes failed: %v", err)
		return
	}
	if p := canonicalProblem(sb); p != "" {
		k.c.Violation(site+"/not-canonical", "StdSignBytes is not canonical JSON: %s\n %s", p, sb)
		return
	}
	// content: every input is present, under the documented names
	doc, _ := parseJSON(sb)
	msgTree, _ := parseJSON(t.Msg.GetSignBytes())
	okContent := doc != nil && doc.kind == 'o' && len(doc.keys) == 5 &&
		doc.get("chain_id") != nil && doc.get("chain_id").kind == 's' && doc.get("chain_id").str == tx.ChainID &&
		doc.get("memo") != nil && doc.get("memo").kind == 's' && doc.get("memo").str == t.Memo &&
		doc.get("entropy") != nil && doc.get("entropy").kind == 's' && doc.get("entropy").str == strconv.FormatInt(t.Entropy, 10) &&
		doc.get("msg") != nil && msgTree != nil && doc.get("msg").equalContent(msgTree) &&
		doc.get("fee") != nil && doc.get("fee").kind == 'a' && len(doc.get("fee").vals) == len(t.Fee)
	if okContent {
		for i, coin := range t.Fee {
			f := doc.get("fee").vals[i]
			if f.get("denom") == nil || f.get("denom").str != coin.Denom || f.get("amount") == nil || f.get("amount").str != coin.Amount.String() {
				okContent = false
			}
		}
	}
	if !okContent {
		k.c.Violation(site+"/content-differs", "StdSignBytes does not carry exactly (chain_id, entropy, fee, memo, msg) of the inputs: chain=%q entropy=%d fee=%s memo=%q msg=%s\n got %s",
			tx.ChainID, t.Entropy, gen.Canon(t.Fee), t.Memo, t.Msg.GetSignBytes(), sb)
		return
	}
	// sensitivity to each signed input
	type variant struct {
		name string
		sb   func() ([]byte, error)
	}
	otherFee := sdk.NewCoins(sdk.NewCoin(sdk.DefaultStakeDenom, sdk.OneInt()))
	if len(t.Fee) > 0 {
		otherFee = t.Fee[:len(t.Fee)-1]
	}
	vs := []variant{
		{"chain_id", func() ([]byte, error) { return authTypes.StdSignBytes(tx.ChainID+"x", t.Entropy, t.Fee, t.Msg, t.Memo) }},
		{"entropy", func() ([]byte, error) { return authTypes.StdSignBytes(tx.ChainID, t.Entropy^1, t.Fee, t.Msg, t.Memo) }},
		{"fee", func() ([]byte, error) { return authTypes.StdSignBytes(tx.ChainID, t.Entropy, otherFee, t.Msg, t.Memo) }},
		{"memo", func() ([]byte, error) { return authTypes.StdSignBytes(tx.ChainID, t.Entropy, t.Fee, t.Msg, t.Memo+" ") }},
	}
	v := vs[rapid.IntRange(0, len(vs)-1).Draw(k.rt, "signedInput")]
	if sb2, err := v.sb(); err != nil || bytes.Equal(sb, sb2) {
		k.c.Violation(site+"/input-not-signed", "StdSignBytes unchanged (err=%v) after changing %s: %s", err, v.name, sb)
	}
	// the signature of the generated transaction verifies over exactly these bytes
	if !t.Signature.PublicKey.VerifyBytes(sb, t.Signature.Signature) {
		k.c.Violation(site+"/signature-does-not-verify", "signature made over StdSignBytes does not verify under the signer's key %s", tx.Signer.Describe())
	}
}

// ---------------------------------------------------------------------------------------------------------

type objClass struct {
	name string
	run  func(k *c38)
}

func hasInterfaceOrMap(labels ...bool) bool {
	for _, l := range labels {
		if l {
			return true
		}
	}
	return false
}

// txCase: a signed StdTx around one message kind, through the real tx encoder/decoder and JSON.
func txCase(kind gen.MsgKind) func(k *c38) {
	return func(k *c38) {
		rt, c := k.rt, k.c
		var msg, rebuilt sdk.ProtoMsg
		if kind == gen.KindNodesStake {
			// build the message twice with different map insertion orders
			m := gen.NodesMsgStake().Draw(rt, "msg")
			om := gen.RewardDelegatorsOrdered(5).Draw(rt, "delegators")
			m.RewardDelegators = om.M
			if len(om.Keys) > 1 {
				c.Label("map>=2")
			}
			if len(om.Keys) > 0 {
				c.Label("nonempty-map")
				cp := *m
				cp.RewardDelegators = om.Rebuild(rapid.Permutation(om.Keys).Draw(rt, "insertionOrder"))
				rebuilt = &cp
			}
			msg = m
		} else {
			msg = gen.MsgOf(kind).Draw(rt, "msg")
		}
		tx := gen.StdTxOf(kind, msg).Draw(rt, "tx")
		c.Opf("StdTx %s", gen.Canon(tx.StdTx))
		c.Opf("chainID %q signer %s", tx.ChainID, tx.Signer.Describe())
		c.NonTrivial() // StdTx always carries interface-typed fields (msg as Any, signer public key)
		c.Label("interface-field")
		if gen.IsMultiSig(tx.StdTx.Signature.PublicKey) {
			c.Label("multisig-pubkey")
		}
		if strings.Contains(gen.Canon(msg), gen.MaxBigInt().String()) {
			c.Label("max-amount")
		}
		stdtx := tx.StdTx
		typ := "StdTx/" + string(kind)
		isNewNodesMsg := kind == gen.KindNodesStake || kind == gen.KindNodesBeginUnstake || kind == gen.KindNodesUnjail
		deterministic := !(kind == gen.KindNodesStake && len(msg.(*nodesTypes.MsgStake).RewardDelegators) > 1)
		// two heights per case
		for i := 0; i < 2; i++ {
			h := drawHeight(rt, k.cfg)
			era := k.cfg.protoEra(h)
			c.Opf("height %d (%s)", h, eraName(era))
			if !era && !gen.AminoBinaryEncodable(kind) {
				continue // go-amino cannot encode Go maps: the type has no legacy binary form
			}
			if isNewNodesMsg && !k.cfg.ncustActive(h) {
				// DefaultTxDecoder deliberately rejects the non-custodial node messages before the NCUST
				// upgrade (compatibility with block 56550); the codec itself must still round-trip them
				c.Label("pre-ncust-new-node-msg")
				if era {
					k.binary(typ, &stdtx, h, true, deterministic)
				}
				continue
			}
			if h == k.cfg.switchHeight() || h == k.cfg.switchHeight()-1 {
				c.Label("boundary-height")
			}
			k.binary(typ, &stdtx, h, true, deterministic)
			// and through the real tx encoder / decoder pair
			bz, err := authTypes.DefaultTxEncoder(k.cdc)(stdtx, h)
			if err != nil {
				c.Violation("C38/"+typ+"/"+eraName(era)+"/encode-error", "DefaultTxEncoder at %d: %v", h, err)
				continue
			}
			dtx, derr := authTypes.DefaultTxDecoder(k.cdc)(bz, h)
			if derr != nil {
				c.Violation("C38/"+typ+"/"+eraName(era)+"/decode-error", "DefaultTxDecoder at %d (%s) rejects the encoder's output: %v; tx %s", h, k.cfg, derr, gen.Canon(stdtx))
				continue
			}
			if g, w := gen.Canon(dtx), gen.Canon(stdtx); g != w {
				c.Violation("C38/"+typ+"/"+eraName(era)+"/value-differs", "DefaultTxDecoder(DefaultTxEncoder(tx)) != tx at %d (%s)\n got  %s\n want %s", h, k.cfg, g, w)
			}
		}
		// a transaction whose signature omits the (optional) public key, as a foreign client may send it:
		// built from the wire structs because the Go encoder dereferences the key
		if rapid.IntRange(0, 4).Draw(rt, "nilSigPubKey") == 0 {
			c.Label("nil-sig-pubkey")
			anyMsg, err := ctypes.NewAnyWithValue(msg)
			if err == nil {
				wire := authTypes.ProtoStdTx{Msg: *anyMsg, Fee: stdtx.Fee, Signature: authTypes.ProtoStdSignature{PublicKey: nil, Signature: stdtx.Signature.Signature},
					Memo: stdtx.Memo, Entropy: stdtx.Entropy}
				bz, err := wire.Marshal()
				if err == nil {
					var got authTypes.StdTx
					want := stdtx
					want.Signature.PublicKey = nil
					if err := k.cdc.ProtoUnmarshalBinaryBare(bz, &got); err != nil {
						c.Violation("C38/"+typ+"/proto/nil-sig-pubkey-decode-error", "a proto StdTx without signature public key does not decode: %v", err)
					} else if g, w := gen.Canon(got), gen.Canon(want); g != w {
						c.Violation("C38/"+typ+"/proto/nil-sig-pubkey-value-differs", "proto StdTx without signature public key decodes to\n got  %s\n want %s", g, w)
					}
					// amino binary and JSON handle the nil key on both sides
					k.jsonRT(typ, &want)
					if gen.AminoBinaryEncodable(kind) {
						gen.ResetCodecGlobals()
						k.cfgBinaryAmino(typ, &want)
						k.cfg.apply()
					}
				}
			}
		}
		k.jsonRT(typ, &stdtx)
		k.signBytes(kind, msg, rebuilt)
		k.stdSignBytes(tx)
		if rebuilt != nil {
			a, _ := authTypes.StdSignBytes(tx.ChainID, stdtx.Entropy, stdtx.Fee, msg, stdtx.Memo)
			b, _ := authTypes.StdSignBytes(tx.ChainID, stdtx.Entropy, stdtx.Fee, rebuilt, stdtx.Memo)
			if !bytes.Equal(a, b) {
				c.Violation("C38/StdSignBytes/map-order-leaks", "StdSignBytes depends on map insertion order:\n %s\n %s", a, b)
			}
		}
	}
}

// cfgBinaryAmino round-trips through the legacy codec under default globals at height 0.
func (k *c38) cfgBinaryAmino(typ string, ptr any) {
	saved := k.cfg
	k.cfg = codecCfg{upgradeHeight: math.MaxInt64, override: -1}
	k.binary(typ, ptr, gen.AminoHeight, true, true)
	k.cfg = saved
}

// stateCase: a stored object through the height-switched codec the way its keeper stores it.
func stateCase(typ string, lenPrefixed bool, aminoOK bool, draw func(k *c38) (ptr any, nontrivial bool, deterministic bool)) func(k *c38) {
	return func(k *c38) {
		ptr, nt, det := draw(k)
		k.c.Opf("%s %s", typ, gen.Canon(ptr))
		if nt {
			k.c.NonTrivial()
			k.c.Label("interface-field-or-map")
		}
		for i := 0; i < 2; i++ {
			h := drawHeight(k.rt, k.cfg)
			era := k.cfg.protoEra(h)
			k.c.Opf("height %d (%s)", h, eraName(era))
			if !era && !aminoOK {
				continue
			}
			if h == k.cfg.switchHeight() || h == k.cfg.switchHeight()-1 {
				k.c.Label("boundary-height")
			}
			k.binary(typ, ptr, h, lenPrefixed, det)
		}
		// state written by the legacy codec just before the mainnet switch must be readable at the switch height
		if aminoOK && k.cfg.override < 0 && k.cfg.testMode == 0 && k.cfg.upgradeHeight >= pcodec.UpgradeCodecHeight {
			var bz []byte
			var err error
			if lenPrefixed {
				bz, err = k.cdc.MarshalBinaryLengthPrefixed(ptr, pcodec.UpgradeCodecHeight-1)
			} else {
				bz, err = k.cdc.MarshalBinaryBare(ptr, pcodec.UpgradeCodecHeight-1)
			}
			if err == nil {
				got := newLike(ptr)
				if lenPrefixed {
					err = k.cdc.UnmarshalBinaryLengthPrefixed(bz, got, pcodec.UpgradeCodecHeight)
				} else {
					err = k.cdc.UnmarshalBinaryBare(bz, got, pcodec.UpgradeCodecHeight)
				}
				k.c.Label("legacy-state-read-at-switch")
				if err != nil || gen.Canon(got) != gen.Canon(ptr) {
					k.c.Violation("C38/"+typ+"/upgrade-boundary/legacy-state-unreadable", "%s written at height %d (amino) read at the switch height %d: err=%v got %s want %s",
						typ, pcodec.UpgradeCodecHeight-1, pcodec.UpgradeCodecHeight, err, gen.Canon(got), gen.Canon(ptr))
				}
			}
		}
		k.jsonRT(typ, ptr)
	}
}

// paramsCase: a module's Params struct through JSON (genesis form) and every single parameter through the
// Subspace storage form: SortJSON(MarshalJSON(v)) read back with UnmarshalJSON into a fresh value.
func paramsCase(typ string, draw func(rt *rapid.T) (sdk.ParamSet, bool)) func(k *c38) {
	return func(k *c38) {
		ps, nt := draw(k.rt)
		k.c.Opf("%s %s", typ, gen.Canon(ps))
		if nt {
			k.c.NonTrivial()
			k.c.Label("nonempty-map")
			k.c.Label("interface-field-or-map")
		}
		k.jsonRT(typ, ps)
		for _, pair := range ps.ParamSetPairs() {
			v := reflect.Indirect(reflect.ValueOf(pair.Value)).Interface()
			site := fmt.Sprintf("C38/%s/param-store", typ)
			k.c.AddExtra("param_values", 1)
			raw, err := k.cdc.MarshalJSON(v)
			if err != nil {
				k.c.Violation(site+"/encode-error", "param %s: MarshalJSON(%T) failed: %v", pair.Key, v, err)
				continue
			}
			stored, err := sdk.SortJSON(raw)
			if err != nil {
				k.c.Violation(site+"/sort-error", "param %s: SortJSON failed on %s: %v", pair.Key, raw, err)
				continue
			}
			if p := canonicalProblem(stored); p != "" {
				k.c.Violation(site+"/not-canonical", "param %s stored form is not canonical: %s: %s", pair.Key, p, stored)
			}
			dest := reflect.New(reflect.TypeOf(v))
			if err := k.cdc.UnmarshalJSON(stored, dest.Interface()); err != nil {
				k.c.Violation(site+"/decode-error", "param %s: stored form %s does not decode into %T: %v", pair.Key, stored, v, err)
				continue
			}
			if g, w := gen.Canon(dest.Elem().Interface()), gen.Canon(v); g != w {
				k.c.Violation(site+"/value-differs", "param %s: read back %s, stored %s (bytes %s)", pair.Key, g, w, stored)
			}
		}
	}
}

func sortJSONCase(k *c38) {
	rt, c := k.rt, k.c
	tree := genJSONObject(rt, 3)
	var a, b strings.Builder
	ch1, ch2 := false, false
	tree.renderShuffled(rt, &a, true, &ch1)
	tree.renderShuffled(rt, &b, false, &ch2)
	c.Opf("SortJSON %s", tree.String())
	if (ch1 || ch2) && a.String() != b.String() {
		c.NonTrivial()
		c.Label("sortjson-permuted")
	}
	sa, err := sdk.SortJSON([]byte(a.String()))
	if err != nil {
		c.Violation("C38/SortJSON/error", "SortJSON rejects valid JSON %q: %v", a.String(), err)
		return
	}
	sb, err := sdk.SortJSON([]byte(b.String()))
	if err != nil {
		c.Violation("C38/SortJSON/error", "SortJSON rejects valid JSON %q: %v", b.String(), err)
		return
	}
	if !bytes.Equal(sa, sb) {
		c.Violation("C38/SortJSON/order-sensitive", "two renderings of the same JSON value sort differently:\n %s -> %s\n %s -> %s", a.String(), sa, b.String(), sb)
	}
	if p := canonicalProblem(sa); p != "" {
		c.Violation("C38/SortJSON/not-canonical", "SortJSON output is not canonical: %s: %s", p, sa)
	}
	again, err := sdk.SortJSON(sa)
	if err != nil || !bytes.Equal(again, sa) {
		c.Violation("C38/SortJSON/not-idempotent", "SortJSON(SortJSON(x)) != SortJSON(x): %s vs %s (err %v)", again, sa, err)
	}
	out, err := parseJSON(sa)
	if err != nil || !out.equalContent(tree) {
		c.Violation("C38/SortJSON/content-changed", "SortJSON changed the content: in %s out %s", tree.String(), sa)
	}
	if !bytes.Equal(sdk.MustSortJSON([]byte(b.String())), sa) {
		c.Violation("C38/SortJSON/must-differs", "MustSortJSON differs from SortJSON")
	}
}

// wireMutationCase: bytes that are *almost* a valid transaction (one byte changed, zeroed, or a truncation)
// must be rejected or decoded without a panic, and whatever decodes must be stable: encoding the decoded
// transaction and decoding it again gives the same value.
func wireMutationCase(k *c38) {
	rt, c := k.rt, k.c
	tx := gen.AnyStdTx().Draw(rt, "tx")
	h := rapid.SampledFrom([]int64{-1, 0, 30024, 1 << 40}).Draw(rt, "height")
	era := k.cfg.protoEra(h)
	if !era && !gen.AminoBinaryEncodable(tx.Kind) {
		return // no legacy binary form of this message kind
	}
	c.Opf("wire mutation of StdTx %s at height %d (%s)", gen.Canon(tx.StdTx), h, eraName(era))
	bz, err := authTypes.DefaultTxEncoder(k.cdc)(tx.StdTx, h)
	if err != nil {
		return
	}
	decoded := 0
	for i := 0; i < 8; i++ {
		m := append([]byte{}, bz...)
		var how string
		switch rapid.IntRange(0, 2).Draw(rt, "mutKind") {
		case 0:
			p := rapid.IntRange(0, len(m)-1).Draw(rt, "pos")
			x := byte(rapid.IntRange(1, 255).Draw(rt, "xor"))
			m[p] ^= x
			how = fmt.Sprintf("byte %d ^= %02x", p, x)
		case 1:
			n := rapid.IntRange(0, len(m)-1).Draw(rt, "cut")
			m = m[:n]
			how = fmt.Sprintf("truncated to %d of %d bytes", n, len(bz))
		default:
			p := rapid.IntRange(0, len(m)-1).Draw(rt, "pos")
			m[p] = 0
			how = fmt.Sprintf("byte %d = 0", p)
		}
		c.Opf("%s", how)
		c.AddExtra("wire_mutations", 1)
		var d sdk.Tx
		var derr sdk.Error
		if p := catch(func() { d, derr = authTypes.DefaultTxDecoder(k.cdc)(m, h) }); p != nil {
			c.Violation("C38/StdTx/"+eraName(era)+"/decoder-panics-on-corrupt-bytes", "DefaultTxDecoder panics (%v) at height %d on a %s transaction with %s: %x", p, h, tx.Kind, how, m)
			continue
		}
		if derr != nil {
			continue
		}
		st, ok := d.(authTypes.StdTx)
		if !ok || st.Msg == nil || st.Signature.PublicKey == nil {
			continue // nothing the Go encoder accepts
		}
		decoded++
		var bz2 []byte
		var eerr error
		if p := catch(func() { bz2, eerr = authTypes.DefaultTxEncoder(k.cdc)(st, h) }); p != nil || eerr != nil {
			continue // values the encoder refuses are outside the round-trip domain
		}
		var d2 sdk.Tx
		var derr2 sdk.Error
		if p := catch(func() { d2, derr2 = authTypes.DefaultTxDecoder(k.cdc)(bz2, h) }); p != nil || derr2 != nil {
			c.Violation("C38/StdTx/"+eraName(era)+"/corrupt-bytes-decode-unstable", "a transaction decoded from corrupt bytes (%s) re-encodes to bytes the decoder rejects: panic=%v err=%v; value %s", how, p, derr2, gen.Canon(st))
			continue
		}
		if g, w := gen.Canon(d2), gen.Canon(st); g != w {
			c.Violation("C38/StdTx/"+eraName(era)+"/corrupt-bytes-decode-unstable", "a transaction decoded from corrupt bytes (%s) changes across encode/decode\n first  %s\n second %s", how, w, g)
		}
	}
	if decoded > 0 {
		c.NonTrivial()
		c.Label("corrupt-bytes-decoded")
	}
}

func catch(f func()) (p any) {
	defer func() { p = recover() }()
	f()
	return nil
}

func c38Classes() []objClass {
	var cs []objClass
	for _, kind := range gen.MsgKinds() {
		cs = append(cs, objClass{"StdTx/" + string(kind), txCase(kind)})
	}
	cs = append(cs,
		objClass{"BaseAccount", stateCase("BaseAccount", false, true, func(k *c38) (any, bool, bool) {
			a := gen.BaseAccount().Draw(k.rt, "account")
			if a.PubKey == nil {
				k.c.Label("nil-pubkey")
			} else if gen.IsMultiSig(a.PubKey) {
				k.c.Label("multisig-pubkey")
			}
			return a, a.PubKey != nil, true
		})},
		objClass{"ModuleAccount", stateCase("ModuleAccount", false, true, func(k *c38) (any, bool, bool) {
			return gen.ModuleAccount().Draw(k.rt, "account"), false, true
		})},
		objClass{"Validator", stateCase("Validator", true, false, func(k *c38) (any, bool, bool) {
			v := gen.Validator().Draw(k.rt, "validator")
			if len(v.RewardDelegators) > 0 {
				k.c.Label("nonempty-map")
			}
			return &v, true, true
		})},
		objClass{"LegacyValidator", stateCase("LegacyValidator", true, true, func(k *c38) (any, bool, bool) {
			v := gen.LegacyValidator().Draw(k.rt, "validator")
			return &v, true, true
		})},
		objClass{"Application", stateCase("Application", true, true, func(k *c38) (any, bool, bool) {
			a := gen.Application().Draw(k.rt, "application")
			if gen.IsMultiSig(a.PublicKey) {
				k.c.Label("multisig-pubkey")
			}
			return &a, true, true
		})},
		objClass{"MsgClaim(stored)", stateCase("MsgClaim(stored)", false, true, func(k *c38) (any, bool, bool) {
			m := gen.MsgClaim(true).Draw(k.rt, "claim")
			return &m, false, true
		})},
		objClass{"ValidatorSigningInfo", stateCase("ValidatorSigningInfo", true, true, func(k *c38) (any, bool, bool) {
			s := gen.SigningInfo().Draw(k.rt, "signingInfo")
			return &s, false, true
		})},
		objClass{"Supply", stateCase("Supply", true, true, func(k *c38) (any, bool, bool) {
			s := gen.Supply().Draw(k.rt, "supply")
			return &s, false, true
		})},
		objClass{"Evidence", evidenceCase},
		objClass{"Params/pos", paramsCase("Params/pos", func(rt *rapid.T) (sdk.ParamSet, bool) {
			p := gen.NodesParams().Draw(rt, "params")
			return &p, len(p.RelaysToTokensMultiplierMap) > 0
		})},
		objClass{"Params/application", paramsCase("Params/application", func(rt *rapid.T) (sdk.ParamSet, bool) {
			p := gen.AppsParams().Draw(rt, "params")
			return &p, false
		})},
		objClass{"Params/pocketcore", paramsCase("Params/pocketcore", func(rt *rapid.T) (sdk.ParamSet, bool) {
			p := gen.PocketParams().Draw(rt, "params")
			return &p, false
		})},
		objClass{"Params/auth", paramsCase("Params/auth", func(rt *rapid.T) (sdk.ParamSet, bool) {
			p := gen.AuthParams().Draw(rt, "params")
			return &p, false
		})},
		objClass{"Params/gov", paramsCase("Params/gov", func(rt *rapid.T) (sdk.ParamSet, bool) {
			p := gen.GovParams().Draw(rt, "params")
			return &p, false
		})},
		objClass{"SortJSON", sortJSONCase},
		objClass{"WireMutation", wireMutationCase},
	)
	return cs
}

// evidenceCase: pocketcore evidence through its three storage encoders (cache object proto form, legacy
// amino form, ProtoMarshaler through the codec).
func evidenceCase(k *c38) {
	e := gen.Evidence().Draw(k.rt, "evidence")
	k.c.Opf("Evidence %s", gen.Canon(e))
	if len(e.Proofs) > 0 {
		k.c.NonTrivial() // proof leaves are interface typed
		k.c.Label("interface-field-or-map")
	}
	want := gen.Canon(e)
	bz, err := e.MarshalObject()
	if err != nil {
		k.c.Violation("C38/Evidence/proto/encode-error", "Evidence.MarshalObject: %v", err)
		return
	}
	k.c.Label("codec:proto")
	obj, err := pcTypes.Evidence{}.UnmarshalObject(bz)
	if err != nil {
		k.c.Violation("C38/Evidence/proto/decode-error", "Evidence.UnmarshalObject of own encoding: %v; value %s", err, want)
		return
	}
	got := obj.(pcTypes.Evidence)
	if g := gen.Canon(got); g != want {
		k.c.Violation("C38/Evidence/proto/value-differs", "Evidence cache round trip\n got  %s\n want %s", g, want)
		return
	}
	if bz2, err := got.MarshalObject(); err != nil || !bytes.Equal(bz, bz2) {
		k.c.Violation("C38/Evidence/proto/fixpoint-differs", "Evidence re-encoding differs (err %v): %x vs %x", err, bz2, bz)
	}
	// the decoded filter still answers membership for every proof
	for i, p := range got.Proofs {
		if !got.Bloom.Test(p.Hash()) {
			k.c.Violation("C38/Evidence/proto/bloom-lost-proof", "decoded evidence bloom filter does not contain proof %d", i)
		}
	}
	gen.ResetCodecGlobals()
	lbz, err := e.LegacyAminoMarshal()
	if err != nil {
		k.c.Violation("C38/Evidence/amino/encode-error", "Evidence.LegacyAminoMarshal: %v", err)
	} else {
		k.c.Label("codec:amino")
		lobj, err := pcTypes.Evidence{}.LegacyAminoUnmarshal(lbz)
		if err != nil {
			k.c.Violation("C38/Evidence/amino/decode-error", "Evidence.LegacyAminoUnmarshal of own encoding: %v; value %s", err, want)
		} else if g := gen.Canon(lobj.(pcTypes.Evidence)); g != want {
			k.c.Violation("C38/Evidence/amino/value-differs", "Evidence legacy round trip\n got  %s\n want %s", g, want)
		}
	}
	k.cfg.apply()
	h := drawHeight(k.rt, k.cfg)
	if k.cfg.protoEra(h) {
		k.c.Opf("height %d (proto)", h)
		k.binary("Evidence", &e, h, false, true)
	}
}

func TestC38(t *testing.T) {
	classes := c38Classes()
	names := make([]string, len(classes))
	for i, cl := range classes {
		names[i] = cl.name
	}
	harness.Check(t, "C38",
		"one object per case, class drawn uniformly from: a signed StdTx (single-key or multisig signer) around each of the 16 message kinds of x/nodes, x/apps, x/gov, x/pocketcore "+
			"(through codec length-prefixed encoding, DefaultTxEncoder/DefaultTxDecoder, JSON, GetSignBytes and StdSignBytes), BaseAccount, ModuleAccount, Validator, LegacyValidator, "+
			"Application, stored MsgClaim, ValidatorSigningInfo, Supply, Evidence (cache/legacy/codec forms), the Params of the five modules (JSON + per-parameter Subspace form), raw SortJSON inputs, and corrupted transaction bytes (8 one-byte/truncation mutations: no decoder panic, decoded values stable). "+
			"Each binary round trip runs at two heights drawn around the codec switch under generated process globals (UpgradeHeight/OldUpgradeHeight/TestMode/NCUST/override), with an independent "+
			"restatement of which codec the height must select. Oracle: codec-independent structural rendering (nil==empty) of decode(encode(x)) equals that of x; encode(decode(encode(x)))==encode(x); "+
			"sign bytes canonical (sorted keys, compact), invariant under map insertion order and JSON member order, sensitive to a single-field change. "+
			"non-trivial = the value carries an interface-typed field (Any message, public key, proof leaf) or a non-empty map, or (SortJSON) two different renderings of one JSON value, or (corrupt bytes) at least one mutation still decoded",
		map[string]float64{"codec:amino": 0.2, "codec:proto": 0.4, "codec:json": 0.8, "interface-field": 0.4, "nonempty-map": 0.03, "multisig-pubkey": 0.08,
			"nil-pubkey": 0.003, "nil-sig-pubkey": 0.05, "boundary-height": 0.15, "json-members-permuted": 0.5, "legacy-state-read-at-switch": 0.05, "max-amount": 0.01, "sortjson-permuted": 0.008},
		func(rt *rapid.T, c *harness.Case) {
			gen.ResetCodecGlobals()
			defer gen.ResetCodecGlobals()
			k := &c38{rt: rt, c: c, cdc: gen.Codec()}
			k.cfg = drawCfg(rt)
			k.cfg.apply()
			c.Opf("globals %s", k.cfg)
			i := rapid.IntRange(0, len(classes)-1).Draw(rt, "class")
			c.Label("type:" + names[i])
			classes[i].run(k)
		})
}

var _ = appsTypes.ModuleName
var _ = govTypes.ModuleName
