package codec

import (
	"crypto/ed25519"
	"fmt"
	"testing"
	"time"

	"github.com/pokt-network/pocket-core/app"
	pcodec "github.com/pokt-network/pocket-core/codec"
	"github.com/pokt-network/pocket-core/crypto"
	sdk "github.com/pokt-network/pocket-core/types"
	authTypes "github.com/pokt-network/pocket-core/x/auth/types"
	nodesTypes "github.com/pokt-network/pocket-core/x/nodes/types"
)

func TestProbe(t *testing.T) {
	cdc := app.Codec()
	_ = pcodec.UpgradeHeight
	pk, _ := crypto.NewPrivateKeyBz(ed25519.NewKeyFromSeed(make([]byte, 32)))
	m := &nodesTypes.MsgStake{PublicKey: pk.PublicKey(), Chains: []string{"0001"}, Value: sdk.NewInt(5), ServiceUrl: "https://a.b:1", RewardDelegators: map[string]uint32{"aa": 1, "bb": 2}}
	func() {
		defer func() { fmt.Println("recover:", recover()) }()
		bz, err := cdc.MarshalBinaryBare(m, 0)
		fmt.Printf("amino MsgStake: %x %v\n", bz, err)
	}()
	bz, err := cdc.MarshalBinaryBare(m, -1)
	fmt.Printf("proto MsgStake: %x %v\n", bz, err)
	js, err := cdc.MarshalJSON(m)
	fmt.Printf("json MsgStake: %s %v\n", js, err)
	tx := authTypes.StdTx{Msg: m, Fee: sdk.NewCoins(sdk.NewCoin("upokt", sdk.NewInt(3))), Signature: authTypes.StdSignature{PublicKey: pk.PublicKey(), Signature: []byte{1}}, Memo: "x", Entropy: 5}
	func() {
		defer func() { fmt.Println("recover:", recover()) }()
		bz, err := cdc.MarshalBinaryLengthPrefixed(&tx, 0)
		fmt.Printf("amino tx: %x %v\n", bz, err)
	}()
	bz, err = cdc.MarshalBinaryLengthPrefixed(&tx, -1)
	fmt.Printf("proto tx: %x %v\n", bz, err)
	js, err = cdc.MarshalJSON(tx)
	fmt.Printf("json tx: %s %v\n", js, err)
	v := nodesTypes.Validator{Address: sdk.Address(pk.PublicKey().Address()), PublicKey: pk.PublicKey(), StakedTokens: sdk.NewInt(1), UnstakingCompletionTime: time.Time{}}
	js, err = cdc.MarshalJSON(v)
	fmt.Printf("json val: %s %v\n", js, err)
}
