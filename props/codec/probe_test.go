package codec

import (
	"fmt"
	"testing"

	authTypes "github.com/pokt-network/pocket-core/x/auth/types"
	"pgregory.net/rapid"

	"verif/harness/gen"
)

func TestProbeFuzz(t *testing.T) {
	seen := map[string]int{}
	rapid.Check(t, func(rt *rapid.T) {
		gen.ResetCodecGlobals()
		cdc := gen.Codec()
		tx := gen.AnyStdTx().Draw(rt, "tx")
		h := rapid.SampledFrom([]int64{-1, 0}).Draw(rt, "h")
		if h == 0 && !gen.AminoBinaryEncodable(tx.Kind) {
			return
		}
		bz, err := authTypes.DefaultTxEncoder(cdc)(tx.StdTx, h)
		if err != nil {
			return
		}
		for i := 0; i < 20; i++ {
			m := append([]byte{}, bz...)
			switch rapid.IntRange(0, 2).Draw(rt, "k") {
			case 0:
				p := rapid.IntRange(0, len(m)-1).Draw(rt, "p")
				m[p] ^= byte(rapid.IntRange(1, 255).Draw(rt, "x"))
			case 1:
				m = m[:rapid.IntRange(0, len(m)-1).Draw(rt, "cut")]
			default:
				p := rapid.IntRange(0, len(m)-1).Draw(rt, "p")
				m[p] = 0
			}
			func() {
				defer func() {
					if r := recover(); r != nil {
						k := fmt.Sprintf("%s h=%d: %v", tx.Kind, h, r)
						if len(k) > 160 {
							k = k[:160]
						}
						seen[k]++
					}
				}()
				d, derr := authTypes.DefaultTxDecoder(cdc)(m, h)
				if derr == nil {
					_ = d.(authTypes.StdTx).GetMsg().GetSignBytes()
					_, _ = authTypes.DefaultTxEncoder(cdc)(d, h)
				}
			}()
		}
	})
	for k, v := range seen {
		fmt.Println(v, k)
	}
}
