package pos

import (
	"fmt"
	"sort"
	"testing"
	"time"

	abci "github.com/tendermint/tendermint/abci/types"
	"pgregory.net/rapid"

	sdk "github.com/pokt-network/pocket-core/types"
	nodesTypes "github.com/pokt-network/pocket-core/x/nodes/types"

	"verif/harness"
	"verif/harness/chain"
	"verif/harness/posview"
)

// C25: a slash burns exactly what it removes from the node, never more than its stake; a node slashed below the
// minimum is jailed and queued to unstake; jailed nodes are outside the consensus set and new sessions; a node is
// unjailed only by an authorized signer, with at least the minimum stake, once the jail period has passed in BLOCK time.

func c25Knobs() knobs {
	return knobs{eras: eraBoth, minBlocks: 16, maxBlocks: 36, wStake: 2, wEdit: 2, wUnstake: 2, wUnjail: 9, wParam: 1, wNoise: 1, maxTxs: 3,
		pEvidence: 25, pBurn: 25, pReward: 0, pVictimAbsent: 90, params: []string{"pos/StakeMinimum", "pos/MaxJailedBlocks"}, bigSlash: true, dispatch: true,
		slashDT: []int{1, 1, 1, 25, 100}, slashDS: []int{5, 5, 50, 100}, stakeMins: []int64{1_000_000, 1_000_000, 1_000_000, 15_000_000_000},
		burns: []int64{1, 5000, 1_000_000, 1_000_000, 3_000_000, 16_000_000, 40_000_000}, pUnjailNearDeadline: 60,
		windows: []int64{10, 10, 12}, minSignedPct: []int{60, 60, 60, 80, 90, 100}, pLatePlan: 50, pUnjailFresh: 60, pSmallDTFresh: 60}
}

type unjailAttempt struct {
	step        int
	jailedUntil time.Time
}

type c25Monitor struct {
	c        *harness.Case
	d        *director
	doomed   map[string]bool // slashed below the minimum: must stay queued (waiting) until it leaves the staked state
	attempts []unjailAttempt
	wantDiff bool
	// The monitor's own memory of jail periods. deadline[a] is derived when a is jailed for downtime (block time of the
	// jailing block + DowntimeJailDuration, both taken from the block, not from the signing info) and kept until a is
	// seen unjailed or its record disappears: later unjails are judged against it, whatever the state says by then.
	deadline map[string]time.Time
	jailH    map[string]int64 // height of the block that started the remembered jail period
	lateJail map[string]bool  // that block was one of the last two of a signing window, or the first of the next
	edited   map[string]bool  // an edit-stake of the node was accepted during the remembered jail period
}

func newC25Monitor(c *harness.Case, d *director) *c25Monitor {
	return &c25Monitor{c: c, d: d, doomed: map[string]bool{}, deadline: map[string]time.Time{}, jailH: map[string]int64{}, lateJail: map[string]bool{}, edited: map[string]bool{}}
}

func (m *c25Monitor) forget(a string) {
	delete(m.deadline, a)
	delete(m.jailH, a)
	delete(m.lateJail, a)
	delete(m.edited, a)
}

// observeJailing derives the jail periods that start (or restart) in the BeginBlock of st. Nothing but the vote handling
// and duplicate-vote evidence can jail during BeginBlock, and only the former starts a jail period.
func (m *c25Monitor) observeJailing(st *stepRec, where string) {
	c := m.c
	inEvidence := map[string]bool{}
	for _, ev := range st.Blk.Evidence {
		inEvidence[posview.Hex(ev.Validator.Address)] = true
	}
	window := st.Pre.Params.SignedBlocksWindow
	want := st.Time.Add(st.Pre.Params.DowntimeJailDuration) // the parameters BeginBlock works with are those committed before the block
	for _, r := range st.Pre.Validators {
		a := posview.Hex(r.Address)
		ab, ok := st.AfterBegin.ByAddr[a]
		if !ok || !ab.Jailed || !st.Blk.Absent[a] {
			continue
		}
		before, after := st.Pre.SignInfos[a], st.AfterBegin.SignInfos[a]
		changed := !after.JailedUntil.Equal(before.JailedUntil)
		downtime := false
		switch {
		case !r.Jailed && !inEvidence[a]:
			downtime = true // jailed during BeginBlock, missed the vote, no evidence against it: downtime
		case !r.Jailed:
			downtime = changed // missed the vote AND named in evidence: either may have jailed it
		default:
			// already jailed but still in the commit info (2-block delay): a further downtime punishment restarts the period
			downtime = changed && after.JailedUntil.Equal(want)
		}
		if !downtime {
			continue
		}
		if !r.Jailed {
			c.Label("downtime-jail")
		}
		// the jail period is counted in block time: JailedUntil = time of the jailing block + DowntimeJailDuration
		if !after.JailedUntil.Equal(want) {
			c.Violation("C25/jail/jailed-until-not-block-time-plus-duration", "%s: node %s was jailed for downtime in a block with time %s and jail duration %s, but JailedUntil is %s",
				where, a[:8], st.Time, st.Pre.Params.DowntimeJailDuration, after.JailedUntil)
		}
		m.deadline[a] = want
		m.jailH[a] = st.H
		delete(m.edited, a)
		m.lateJail[a] = false
		if ph := st.H % window; ph >= window-2 || ph == 0 {
			m.lateJail[a] = true
			c.Label("downtime-jail-at-window-end")
		}
	}
}

func authorized(t txRec, views ...*posview.View) bool {
	a := posview.Hex(t.Target)
	if posview.Hex(t.Signer) == a {
		return true
	}
	for _, v := range views {
		if r, ok := v.ByAddr[a]; ok && posview.Hex(posview.Output(r)) == posview.Hex(t.Signer) {
			return true
		}
	}
	return false
}

// slashPhase judges one phase (A -> B) in which only slashing may change stakes. offenders: nodes that may be slashed.
func (m *c25Monitor) slashPhase(st *stepRec, name string, A, B *posview.View, offenders map[string]bool) {
	c := m.c
	where := fmt.Sprintf("height %d %s (%s)", st.H, name, st.Desc)
	removed := sdk.ZeroInt()
	for a, p := range A.ByAddr {
		q, ok := B.ByAddr[a]
		if !ok {
			c.Violation("C25/slash/record-removed", "%s: record of %s disappeared while slashing", where, a[:8])
			continue
		}
		if q.StakedTokens.IsNegative() || q.StakedTokens.GT(p.StakedTokens) {
			c.Violation("C25/slash/stake-negative-or-increased", "%s: stake of %s went from %s to %s", where, a[:8], p.StakedTokens, q.StakedTokens)
			continue
		}
		d := p.StakedTokens.Sub(q.StakedTokens)
		if !d.IsPositive() {
			continue
		}
		removed = removed.Add(d)
		if !offenders[a] {
			c.Violation("C25/slash/node-slashed-without-offense", "%s: %s lost %s although it neither missed a vote, nor was named in evidence or a challenge burn", where, a[:8], d)
		}
		if d.Equal(p.StakedTokens) {
			c.Label("slash-capped-at-whole-stake")
		}
		minStake := sdk.NewInt(B.Params.StakeMinimum)
		if q.StakedTokens.LT(minStake) {
			if !p.StakedTokens.LT(minStake) {
				c.Label("slash-crosses-minimum")
				c.NonTrivial()
			}
			if p.Status != sdk.Staked {
				c.Label("slash-below-minimum-while-unstaking")
			}
			if !q.Jailed || !B.IsWaiting(q.Address) {
				c.Violation("C25/slash/below-minimum-not-jailed-and-queued", "%s: %s was slashed from %s to %s, below the minimum stake %s, but jailed=%v queued-to-unstake=%v; %s",
					where, a[:8], p.StakedTokens, q.StakedTokens, minStake, q.Jailed, B.IsWaiting(q.Address), B.Describe())
			}
			if q.Status == sdk.Staked {
				m.doomed[a] = true
			}
		}
	}
	burnedSupply := A.Supply.Sub(B.Supply)
	burnedPool := A.StakedPool.Sub(B.StakedPool)
	if !burnedSupply.Equal(removed) || !burnedPool.Equal(removed) {
		c.Violation("C25/slash/burn-differs-from-stake-removed", "%s: stake removed from node records %s, but total supply fell by %s and the staking pool by %s; before: %s; after: %s",
			where, removed, burnedSupply, burnedPool, A.Describe(), B.Describe())
	}
	if removed.IsPositive() {
		c.AddExtra("slash_phases_checked", 1)
	}
}

func (m *c25Monitor) observe(i int, st *stepRec, e *events) {
	c := m.c
	where := fmt.Sprintf("height %d (%s)", st.H, st.Desc)
	// 1. slashing phases: BeginBlock (votes + evidence), then each challenge burn
	off := map[string]bool{}
	for a := range st.Blk.Absent {
		off[a] = true
	}
	for _, ev := range st.Blk.Evidence {
		off[posview.Hex(ev.Validator.Address)] = true
	}
	m.slashPhase(st, "BeginBlock", st.Pre, st.AfterBegin, off)
	prev := st.AfterBegin
	for j, in := range st.Injects {
		m.slashPhase(st, fmt.Sprintf("challenge burn #%d", j), prev, st.AfterInj[j], map[string]bool{posview.Hex(in.Addr): true})
		prev = st.AfterInj[j]
	}
	// nothing but slashing burns node stake: between the first transaction and the commit no stake may shrink
	for a, p := range st.Mid.ByAddr {
		if q, ok := st.Post.ByAddr[a]; ok && q.StakedTokens.LT(p.StakedTokens) {
			c.Violation("C25/slash/stake-shrank-outside-slashing", "%s: stake of %s fell from %s to %s in the transaction/EndBlock phase", where, a[:8], p.StakedTokens, q.StakedTokens)
		}
	}
	// 2. nodes slashed below the minimum stay queued until they leave the staked state
	for a := range m.doomed {
		r, ok := st.Post.ByAddr[a]
		if !ok || r.Status != sdk.Staked {
			delete(m.doomed, a)
			c.Label("below-minimum-node-left-staked-state")
			continue
		}
		if !st.Post.IsWaiting(r.Address) {
			c.Violation("C25/forced-unstake/below-minimum-node-dropped-from-queue", "%s: %s was slashed below the minimum and is still staked, but is no longer queued to unstake; %s", where, a[:8], st.Post.Describe())
		}
	}
	// 3. jailed nodes are outside the consensus set and outside newly generated sessions
	jailedOnChain := map[string]bool{}
	for _, r := range st.Post.Validators {
		if !r.Jailed {
			continue
		}
		if p, in := st.TPost[posview.Hex(r.Address)]; in {
			c.Violation("C25/jailed/in-consensus-set", "%s: jailed node %s is in the reported consensus set with power %d; updates=%v; %s", where, posview.Hex(r.Address)[:8], p, describeUpdates(st), st.Post.Describe())
		}
		if r.Status == sdk.Staked {
			for _, ch := range r.Chains {
				jailedOnChain[ch] = true
			}
		}
	}
	for _, s := range st.Sessions {
		c.AddExtra("sessions_checked", 1)
		if jailedOnChain[s.Chain] {
			c.Label("session-generated-while-jailed-node-on-chain")
		}
		for _, a := range s.Nodes {
			r, ok := st.Post.ByAddr[posview.Hex(a)]
			if ok && r.Jailed {
				c.Violation("C25/jailed/in-new-session", "%s: session for chain %s dispatched after the commit contains jailed node %s; %s", where, s.Chain, posview.Hex(a)[:8], st.Post.Describe())
			}
		}
	}
	// 4. unjail
	m.observeJailing(st, where)
	perNode := map[string]int{}
	paramTx := false
	for _, t := range st.Txs {
		if t.Target != nil {
			perNode[posview.Hex(t.Target)]++
		}
		if t.Kind == "param" {
			paramTx = true
		}
	}
	minLo := sdk.NewInt(minI(st.Pre.Params.StakeMinimum, st.Post.Params.StakeMinimum))
	minHi := sdk.NewInt(maxI(st.Pre.Params.StakeMinimum, st.Post.Params.StakeMinimum))
	okRequest := map[string]bool{}
	for _, t := range st.Txs {
		if t.Kind != "unjail" {
			continue
		}
		a := posview.Hex(t.Target)
		mid, inMid := st.Mid.ByAddr[a]
		post, inPost := st.Post.ByAddr[a]
		si, hasInfo := st.Mid.SignInfos[a]
		auth := authorized(t, st.Pre, st.Mid, st.Post)
		// the end of the jail period: the deadline remembered from the jailing block; the stored one is only consulted
		// in addition (it must not be later either) or when the monitor did not see the node jailed for downtime
		dl, hasDL := m.deadline[a]
		storedEarly := hasInfo && st.Time.Before(si.JailedUntil)
		early := storedEarly || (hasDL && st.Time.Before(dl))
		until := si.JailedUntil
		if hasDL && dl.After(until) {
			until = dl
		}
		if inMid && mid.Jailed && (hasInfo || hasDL) && auth {
			m.attempts = append(m.attempts, unjailAttempt{step: i, jailedUntil: until})
			if st.Time.Equal(until) {
				c.Label("unjail-at-exact-deadline")
			}
			if hasDL && m.lateJail[a] && st.H-m.jailH[a] <= 3 && st.Time.Before(dl) {
				c.Label("early-unjail-attempt-within-3-blocks-of-window-end-jailing")
				c.NonTrivial()
			}
		}
		if t.Code == 0 {
			c.Label("unjail-accepted")
			if !auth {
				c.Violation("C25/unjail/accepted-from-unauthorized-signer", "%s: unjail of %s signed by %s (neither operator nor output address) returned code 0", where, a[:8], m.d.name(t.Signer))
			}
			best := sdk.ZeroInt()
			if inMid {
				best = mid.StakedTokens
			}
			if inPost && post.StakedTokens.GT(best) {
				best = post.StakedTokens
			}
			if best.LT(minLo) {
				c.Violation("C25/unjail/accepted-below-minimum-stake", "%s: unjail of %s returned code 0 with stake %s below the minimum %s", where, a[:8], best, minLo)
			}
			if early {
				sig := "C25/unjail/accepted-before-jail-period-ended"
				if !storedEarly && m.edited[a] {
					// narrower signature: the stored deadline is gone after an accepted edit-stake of the jailed node
					sig = "C25/unjail/accepted-before-jail-period-ended/after-edit-stake-while-jailed"
				}
				if c.Violation(sig, "%s: unjail of %s returned code 0 at block time %s, before the end of its jail period %s (jailed for downtime at height %d; JailedUntil stored now: %s, signing info present=%v, edit-stake accepted while jailed=%v)",
					where, a[:8], st.Time, until, m.jailH[a], si.JailedUntil, hasInfo, m.edited[a]) {
					early = false // known finding: continue past this one comparison
				}
			}
			if auth && !best.LT(minLo) && !early {
				okRequest[a] = true
			}
			continue
		}
		// rejected
		if inMid && mid.Jailed && early && auth {
			c.Label("unjail-rejected-before-deadline")
		}
		if inMid && mid.Jailed && !auth {
			c.Label("unjail-by-stranger-rejected")
		}
		if inMid && mid.Jailed && auth && mid.StakedTokens.LT(minLo) {
			c.Label("unjail-below-minimum-rejected")
		}
		// the time clause is an "if and only if": with every other condition met, block time >= JailedUntil must suffice,
		// whatever the local clock says
		if inMid && mid.Jailed && hasInfo && authorized(t, st.Mid) && !mid.StakedTokens.LT(minHi) && !early && perNode[a] == 1 && !paramTx &&
			t.Space == string(nodesTypes.DefaultCodespace) { // rejections by the ante handler (e.g. the signer cannot pay the fee) are not the unjail rules

			sig := "C25/unjail/rejected-although-all-conditions-hold"
			if t.Space == string(nodesTypes.DefaultCodespace) && t.Code == uint32(nodesTypes.CodeValidatorJailed) {
				sig = "C25/unjail/outcome-depends-on-wall-clock"
			}
			c.Violation(sig, "%s: unjail of %s by an authorized signer with stake %s >= minimum %s at block time %s >= JailedUntil %s was rejected with %s/%d (genesis year %d)",
				where, a[:8], mid.StakedTokens, minHi, st.Time, until, t.Space, t.Code, m.d.w.Spec.GenesisTime.Year())
		}
	}
	// accepted edit-stakes of nodes whose jail period the monitor remembers (recorded after the unjails of this block were
	// judged: within a block an edit-stake before an unjail leaves no signing info, and that unjail is refused)
	for _, t := range st.Txs {
		if (t.Kind == "edit" || t.Kind == "stake") && t.Code == 0 && t.Target != nil { // a MsgStake for an existing staked record is an edit-stake
			if _, ok := m.deadline[posview.Hex(t.Target)]; ok {
				m.edited[posview.Hex(t.Target)] = true
				c.Label("edit-stake-accepted-during-jail-period")
			}
		}
	}
	for a := range e.unjailed {
		if !okRequest[a] {
			c.Violation("C25/unjail/unjailed-without-valid-request", "%s: node %s went from jailed to unjailed without an accepted unjail by operator/output with sufficient stake after its jail period; txs=%v",
				where, a[:8], st.Desc)
		}
	}
	// jail periods end with the unjail (or with the record)
	for _, a := range sortedTimes(m.deadline) {
		if r, ok := st.Post.ByAddr[a]; !ok || !r.Jailed {
			m.forget(a)
		}
	}
}

func sortedTimes(m map[string]time.Time) []string {
	ks := make([]string, 0, len(m))
	for k := range m {
		ks = append(ks, k)
	}
	sort.Strings(ks)
	return ks
}

// finish labels the attempts that were within one block of the deadline.
func (m *c25Monitor) finish() {
	h := m.d.hist
	for _, at := range m.attempts {
		t := h[at.step].Time
		var prevT time.Time
		if at.step > 0 {
			prevT = h[at.step-1].Time
		} else {
			prevT = h[0].Pre.Time
		}
		if !t.Before(at.jailedUntil) && prevT.Before(at.jailedUntil) {
			m.c.Label("unjail-in-first-block-at-or-after-deadline")
			m.c.NonTrivial()
		}
		if t.Before(at.jailedUntil) && at.step+1 < len(h) && !h[at.step+1].Time.Before(at.jailedUntil) {
			m.c.Label("unjail-in-last-block-before-deadline")
			m.c.NonTrivial()
		}
		if !t.Before(at.jailedUntil) {
			m.wantDiff = true
		}
	}
}

// replayShifted replays the recorded history on a fresh node whose genesis time is `to` and compares the transcript.
func (m *c25Monitor) replayShifted(to time.Time) {
	c := m.c
	d := m.d
	from := d.w.Spec.GenesisTime
	shift := to.Sub(from)
	spec2 := d.w.Spec
	spec2.GenesisTime = to
	n2 := chain.NewNode(&spec2) // resets the process globals: the first node must not be used any more
	for _, st := range d.hist {
		b := st.Blk
		b.Evidence = nil
		for _, ev := range st.Blk.Evidence {
			ev.Time = ev.Time.Add(shift)
			b.Evidence = append(b.Evidence, ev)
		}
		st2 := runStep(n2, nil, nil, b, st.Txs, st.Injects, nil)
		for j := range st.Txs {
			a, bb := st.Txs[j], st2.Txs[j]
			if a.Code != bb.Code || a.Space != bb.Space {
				sig := "C25/time-shift/transcript-differs"
				if a.Kind == "unjail" {
					sig = "C25/unjail/outcome-depends-on-wall-clock"
				}
				c.Violation(sig, "the same history with every block time shifted from year %d to year %d gives a different result for tx %d of height %d (%s): %s/%d vs %s/%d",
					from.Year(), to.Year(), j, st.H, a.Desc, a.Space, a.Code, bb.Space, bb.Code)
				return // known finding: the two runs diverge from here on
			}
		}
		if fmt.Sprint(updList(st.Res.ValUpdates)) != fmt.Sprint(updList(st2.Res.ValUpdates)) {
			c.Violation("C25/time-shift/transcript-differs", "the same history shifted from year %d to year %d gives different validator updates at height %d: %v vs %v",
				from.Year(), to.Year(), st.H, updList(st.Res.ValUpdates), updList(st2.Res.ValUpdates))
			return
		}
		if !st.Post.Supply.Equal(st2.Post.Supply) || !st.Post.StakedPool.Equal(st2.Post.StakedPool) {
			c.Violation("C25/time-shift/transcript-differs", "the same history shifted from year %d to year %d gives different supply/pool at height %d: %s/%s vs %s/%s",
				from.Year(), to.Year(), st.H, st.Post.Supply, st.Post.StakedPool, st2.Post.Supply, st2.Post.StakedPool)
			return
		}
	}
	c.AddExtra("shifted_replays_compared", 1)
}

func updList(us []abci.ValidatorUpdate) []string {
	var out []string
	for _, u := range us {
		out = append(out, fmt.Sprintf("%s:%d", updAddr(u)[:8], u.Power))
	}
	return out
}

func TestC25(t *testing.T) {
	harness.Check(t, "C25",
		"real app in the chain simulator, 16-36 generated blocks per history, genesis time drawn from year 2001 or 2101 (both sides of any wall clock); signing window 10 or 12 with min signed 60/80/90/100% "+
			"(1 to 6 missed votes within a window jail); 1-2 victim validators either miss 90% of their votes or follow a plan that crosses the downtime threshold exactly in one of the last two blocks of a signing window "+
			"(or its first block), so that the jailed node is still in the commit info of the next window's first block (2-block update delay); after a jailing the next blocks take 0-5 s steps with 60% and carry "+
			"authorized unjail txs (60% per block for 3 blocks, then aimed at the deadline -1s/exact/+1s); duplicate-vote evidence with generated height/age/power, BurnForChallenge inside blocks as the proof handler calls it, "+
			"slash fractions 1-100%, StakeMinimum 1e6 or 15e9 (also raised by gov), unjail txs by operator / output / stranger, edit-stake (also of jailed nodes), begin-unstake, sessions dispatched after every commit; "+
			"trace monitor over raw snapshots taken before the block, after BeginBlock, after every burn and after commit: per slashing phase Σ stake removed == supply decrease == pool decrease, "+
			"0 <= stake' <= stake, only offenders lose stake; slashed below minimum ⇒ jailed and in the waiting set (and stays queued while staked); jailed ⇒ not in the consensus set built from the updates and "+
			"in no session returned by HandleDispatch; the monitor REMEMBERS each jail period when it starts (node jailed in BeginBlock after a missed vote: deadline = time of that block + DowntimeJailDuration, "+
			"which the stored JailedUntil must equal at that moment) and judges every later unjail against the remembered deadline as well as the stored one: unjailed ⇒ accepted unjail by operator/output with "+
			"stake >= minimum at block time >= deadline, and conversely such an unjail must be accepted; "+
			"the whole history replayed with all times shifted by ±100 years must give the same tx codes, validator updates, supply and pool. "+
			"non-trivial = history with a slash that crosses the minimum stake, or an authorized unjail attempt in the last block before / first block at-or-after the deadline, or an authorized unjail attempt "+
			"before the deadline within 3 blocks of a jailing at a signing-window end",
		map[string]float64{"downtime-jail": 0.6, "slash-crosses-minimum": 0.4, "unjail-accepted": 0.3, "unjail-rejected-before-deadline": 0.25, "unjail-in-first-block-at-or-after-deadline": 0.3,
			"unjail-in-last-block-before-deadline": 0.2, "unjail-at-exact-deadline": 0.1, "unjail-by-stranger-rejected": 0.1, "unjail-below-minimum-rejected": 0.25, "era-2101": 0.3, "era-2001": 0.3,
			"shifted-replay": 0.4, "session-generated-while-jailed-node-on-chain": 0.5, "evidence-slash": 0.4, "challenge-burn": 0.4, "slash-capped-at-whole-stake": 0.2,
			"downtime-jail-at-window-end": 0.3, "early-unjail-attempt-within-3-blocks-of-window-end-jailing": 0.25, "edit-stake-accepted-during-jail-period": 0.05},
		func(rt *rapid.T, c *harness.Case) {
			d := newDirector(rt, c, c25Knobs())
			m := newC25Monitor(c, d)
			c.Label(fmt.Sprintf("era-%d", d.w.Spec.GenesisTime.Year()))
			nb := rapid.IntRange(d.k.minBlocks, d.k.maxBlocks).Draw(rt, "blocks")
			sample := rapid.IntRange(0, 3).Draw(rt, "replayAnyway") == 0
			var f histFlags
			for i := 0; i < nb; i++ {
				st := d.step()
				e := extract(st)
				f.add(st, e)
				m.observe(i, st, e)
				c.AddExtra("blocks_checked", 1)
			}
			label(c, f.evidenceSlash > 0, "evidence-slash")
			label(c, f.burnSlash > 0, "challenge-burn")
			label(c, f.forceWait > 0, "forced-unstake")
			m.finish()
			if m.wantDiff || sample {
				c.Label("shifted-replay")
				to := eraFuture
				if d.w.Spec.GenesisTime.Equal(eraFuture) {
					to = eraPast
				}
				m.replayShifted(to)
			}
		})
}
