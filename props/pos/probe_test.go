package pos

import (
	"testing"
	"time"

	"verif/harness/chain"
	"verif/harness/posview"
)

func TestProbe(t *testing.T) {
	spec := chain.DefaultSpec()
	for i := 0; i < 3; i++ {
		k := chain.Key("n" + string(rune('a'+i)))
		spec.Accounts = append(spec.Accounts, chain.AccountSpec{Key: k, Balance: 1e9})
		spec.Nodes = append(spec.Nodes, chain.NodeSpec{Key: k, Output: k, Stake: chain.StakeUnit * int64(i+1), Chains: []string{"0001"}})
	}
	spec.Accounts = append(spec.Accounts, chain.AccountSpec{Key: spec.DAOOwner, Balance: 1e9})
	n := chain.NewNode(&spec)
	t0 := time.Now()
	v := posview.Read(n)
	t.Logf("read took %s", time.Since(t0))
	t.Logf("%s", v.Describe())
	t.Logf("params %+v", v.Params)
	t.Logf("signinfos %v", v.SignInfos)
	a := posview.ReadApps(n)
	t.Logf("apps %d", len(a.Apps))
}
