package pos

import (
	"fmt"
	"testing"
	"time"

	"pgregory.net/rapid"

	sdk "github.com/pokt-network/pocket-core/types"
	appsTypes "github.com/pokt-network/pocket-core/x/apps/types"
	nodesTypes "github.com/pokt-network/pocket-core/x/nodes/types"

	"verif/harness"
	"verif/harness/chain"
	"verif/harness/posview"
)

// C24 (applications): an application leaves the staked state only through its own begin-unstake request (or the
// transfer of the stake to a new key, which moves the record); the stake is returned exactly once to the
// application's address in the first block whose time is at or after the completion time; the record is then gone.

func TestC24Apps(t *testing.T) {
	harness.Check(t, "C24",
		"APPLICATIONS part. real app in the chain simulator, 6-14 generated blocks: app stake / edit-stake / begin-unstake (own, repeated, or a stranger signing for another app) / transfer txs, "+
			"sends as noise, app unstaking time in {0,5,20,90}s, time steps {0,1,5,15,40,100}s or aimed at the completion time -1s/exact/+1s/+3min; monitor over raw application records: "+
			"Staked is left only in a block with an accepted begin-unstake signed by the application itself (or an accepted transfer by it); completion time = block time + AppUnstakingTime; "+
			"no Unstaking record survives a block with time >= completion, no record is removed before it; in the removal block the application's address gains exactly the stake. "+
			"(the non-trivial rule of the nodes part applies to the nodes cases; an application case is non-trivial when a maturity is crossed by a time jump >= 40s strictly past the completion time)",
		map[string]float64{"apps-part": 0.45, "app-unstake-complete": 0.3, "app-payout-checked-exactly": 0.15, "app-begin-unstake-by-stranger-rejected": 0.15, "app-maturity-at-exact-time": 0.15, "app-maturity-by-time-jump": 0.1},
		func(rt *rapid.T, c *harness.Case) {
			w := chain.GenWorld(rt)
			w.Spec.GenesisTime = eraPast
			c.Opf("apps: %s", w.Describe())
			n := chain.NewNode(&w.Spec)
			nb := rapid.IntRange(6, 14).Draw(rt, "blocks")
			pre := posview.Read(n)
			preA := posview.ReadApps(n)
			c.Label("apps-part")
			for i := 0; i < nb; i++ {
				// time step, aimed at completion times two times out of three
				opts := []time.Duration{0, time.Second, time.Second, 5 * time.Second, 15 * time.Second, 40 * time.Second, 100 * time.Second}
				var targeted []time.Duration
				for _, a := range preA.Apps {
					if a.Status == sdk.Unstaking && a.UnstakingCompletionTime.After(n.Time) {
						for _, off := range []time.Duration{-time.Second, 0, 0, time.Second, 3 * time.Minute} {
							if dt := a.UnstakingCompletionTime.Sub(n.Time) + off; dt >= 0 {
								targeted = append(targeted, dt)
							}
						}
					}
				}
				dt := opts[rapid.IntRange(0, len(opts)-1).Draw(rt, "dt")]
				if len(targeted) > 0 && rapid.IntRange(0, 2).Draw(rt, "dtTargeted") > 0 {
					dt = targeted[rapid.IntRange(0, len(targeted)-1).Draw(rt, "dtT")]
				}
				b := chain.Block{DT: dt}
				var txs []txRec
				desc := fmt.Sprintf("h%d dt=%s", n.Height+1, dt)
				for j, ntx := 0, rapid.IntRange(0, 3).Draw(rt, "nTxs"); j < ntx; j++ {
					var g chain.GenTx
					target := sdk.Address(nil)
					switch rapid.SampledFrom([]string{"stake", "unstake", "unstake", "unstake", "transfer", "send", "strangerUnstake"}).Draw(rt, "kind") {
					case "stake":
						g = w.GenAppStake(rt)
					case "unstake":
						g = w.GenAppUnstake(rt)
					case "transfer":
						g = w.GenAppTransfer(rt)
					case "send":
						g = w.GenSend(rt)
					default: // begin-unstake of some application, signed by somebody else
						victim := w.Apps[rapid.IntRange(0, len(w.Apps)-1).Draw(rt, "victim")]
						stranger := w.Spare[rapid.IntRange(0, len(w.Spare)-1).Draw(rt, "stranger")]
						msg := &appsTypes.MsgBeginUnstake{Address: chain.Addr(victim)}
						g = chain.GenTx{Desc: fmt.Sprintf("appUnstake %s signed by stranger %s", w.KeyName(victim), w.KeyName(stranger)), Kind: "strangerUnstake", Msg: msg, Signer: stranger,
							Bytes: chain.SignTx(w.Spec.ChainID, msg, chain.DefaultFee, "", w.NextEntropy(), stranger)}
					}
					if m, ok := g.Msg.(*appsTypes.MsgBeginUnstake); ok {
						target = m.Address
					}
					txs = append(txs, txRec{GenTx: g, Target: target, Signer: chain.Addr(g.Signer)})
					b.Txs = append(b.Txs, g.Bytes)
					desc += " | " + g.Desc
				}
				st := runStep(n, pre, nil, b, txs, nil, nil)
				postA := posview.ReadApps(n)
				var codes []string
				for _, t := range st.Txs {
					codes = append(codes, fmt.Sprint(t.Code))
				}
				c.Opf("%s => codes%v", desc, codes)
				where := fmt.Sprintf("height %d (%s)", st.H, desc)
				// judge
				signedBy := map[string]bool{}
				sentTo := map[string]bool{}
				for _, t := range st.Txs {
					signedBy[posview.Hex(t.Signer)] = true
					if ms, ok := t.Msg.(*nodesTypes.MsgSend); ok {
						sentTo[posview.Hex(ms.ToAddress)] = true
					}
					if t.Kind == "strangerUnstake" {
						if t.Code == 0 {
							c.Violation("C24/app-begin-unstake/accepted-from-other-signer", "%s: begin-unstake of application %x signed by %s returned code 0", where, t.Target, w.KeyName(t.GenTx.Signer))
						} else if a, ok := preA.ByAddr[posview.Hex(t.Target)]; ok && a.Status == sdk.Staked {
							c.Label("app-begin-unstake-by-stranger-rejected")
						}
					}
				}
				for a, p := range preA.ByAddr {
					q, ok := postA.ByAddr[a]
					if p.Status == sdk.Staked && (!ok || q.Status != sdk.Staked) {
						cause := ""
						for _, t := range st.Txs {
							if t.Code != 0 || posview.Hex(t.Signer) != a {
								continue
							}
							if t.Kind == "appUnstake" && posview.Hex(t.Target) == a {
								cause = "begin-unstake"
							}
							if t.Kind == "appTransfer" && cause == "" {
								cause = "transfer"
							}
						}
						if cause == "" {
							c.Violation("C24/app-leave-staked/without-own-begin-unstake", "%s: application %s left the staked state without an accepted begin-unstake (or transfer) signed by itself", where, a[:8])
						}
						c.Label("app-left-staked-by-" + cause)
						if cause == "begin-unstake" && ok && q.Status == sdk.Unstaking {
							want := st.Time.Add(postA.Params.UnstakingTime)
							if !q.UnstakingCompletionTime.Equal(want) {
								c.Violation("C24/app-begin-unstaking/wrong-completion-time", "%s: application %s got completion time %s, expected %s + %s", where, a[:8], q.UnstakingCompletionTime, st.Time, postA.Params.UnstakingTime)
							}
						}
					}
					if p.Status == sdk.Unstaking && ok && q.Status == sdk.Unstaking && !q.UnstakingCompletionTime.Equal(p.UnstakingCompletionTime) {
						c.Violation("C24/app-unstaking/completion-time-changed", "%s: application %s completion time moved from %s to %s", where, a[:8], p.UnstakingCompletionTime, q.UnstakingCompletionTime)
					}
					if !ok { // record removed
						transferred := false
						for _, t := range st.Txs {
							if t.Kind == "appTransfer" && t.Code == 0 && posview.Hex(t.Signer) == a {
								transferred = true
							}
						}
						if transferred && p.Status == sdk.Staked {
							continue // moved to the new key, nothing is paid out
						}
						due := p.UnstakingCompletionTime
						if p.Status == sdk.Staked {
							due = st.Time.Add(preA.Params.UnstakingTime) // unstaked and matured inside this block
						}
						if due.After(st.Time) {
							c.Violation("C24/app-maturity/paid-before-due", "%s: application %s (status %d) was removed at block time %s before its completion time %s", where, a[:8], p.Status, st.Time, due)
						}
						c.Label("app-unstake-complete")
						if dt >= 40*time.Second && due.Before(st.Time) {
							c.Label("app-maturity-by-time-jump")
							c.NonTrivial()
						}
						if due.Equal(st.Time) {
							c.Label("app-maturity-at-exact-time")
						}
						if signedBy[a] || sentTo[a] {
							c.Label("app-payout-not-isolated")
							continue
						}
						if _, isNode := st.Pre.ByAddr[a]; isNode {
							continue
						}
						addr := sdk.Address(mustHex(a))
						got := st.Post.Balance(addr).Sub(st.Mid.Balance(addr))
						if !got.Equal(p.StakedTokens) {
							c.Violation("C24/app-payout/balance-delta-differs", "%s: application %s completed unstaking with stake %s but its balance changed by %s", where, a[:8], p.StakedTokens, got)
						}
						c.Label("app-payout-checked-exactly")
					}
				}
				for a, q := range postA.ByAddr {
					if q.Status == sdk.Unstaking && !q.UnstakingCompletionTime.After(st.Time) {
						c.Violation("C24/app-maturity/overdue-record-not-paid", "%s: application %s is still unstaking after a block with time %s >= its completion time %s", where, a[:8], st.Time, q.UnstakingCompletionTime)
					}
					if q.Status == sdk.Unstaked {
						c.Violation("C24/app-record/kept-after-unstake", "%s: application %s has an unstaked record left in the store", where, a[:8])
					}
				}
				pre, preA = st.Post, postA
			}
		})
}
