package pos

import (
	"fmt"
	"testing"
	"time"

	"pgregory.net/rapid"

	sdk "github.com/pokt-network/pocket-core/types"
	nodesTypes "github.com/pokt-network/pocket-core/x/nodes/types"

	"verif/harness"
	"verif/harness/chain"
	"verif/harness/posview"
)

// C24 (nodes): a node leaves the staked state only through a begin-unstake request by an allowed signer or a forced
// unstake, at a session end; its stake is returned exactly once, to the output address, in the first block whose
// time is at or after the completion time, after which the record no longer exists.

func c24Knobs() knobs {
	return knobs{eras: eraPastOnly, minBlocks: 14, maxBlocks: 34, wStake: 4, wEdit: 2, wUnstake: 7, wUnjail: 2, wParam: 1, wNoise: 2, maxTxs: 3,
		pEvidence: 15, pBurn: 15, pReward: 10, pVictimAbsent: 85, params: []string{"pos/MaxJailedBlocks", "pos/StakeMinimum", "pos/MaxValidators"}, bigSlash: true}
}

type c24Monitor struct {
	c       *harness.Case
	d       *director
	armed   map[string]string // node -> legitimate cause observed (begin-unstake by allowed signer / forced unstake)
	hurt    map[string]bool   // node was slashed or jailed while waiting or unstaking
	stale   map[string]bool   // node whose record was (re)created while a waiting entry of a removed record still existed
	appKeys map[string]bool   // addresses that may receive application payouts (excluded from exact balance checks)
}

func minI(a, b int64) int64 {
	if a < b {
		return a
	}
	return b
}
func maxI(a, b int64) int64 {
	if a > b {
		return a
	}
	return b
}

// forcedEvidence: was the node (observably) subject to a forced unstake in this block: jailed, and either below
// the minimum stake or at/over the maximum number of jailed blocks.
func forcedEvidence(st *stepRec, a string) bool {
	jailed, low, cnt := false, false, false
	minStake := sdk.NewInt(maxI(st.Pre.Params.StakeMinimum, st.Post.Params.StakeMinimum))
	maxJ := minI(st.Pre.Params.MaxJailedBlocks, st.Post.Params.MaxJailedBlocks)
	for _, v := range []*posview.View{st.Pre, st.Mid, st.Post} {
		if r, ok := v.ByAddr[a]; ok {
			if r.Jailed {
				jailed = true
			}
			if v != st.Pre && r.StakedTokens.LT(minStake) {
				low = true
			}
		}
		if si, ok := v.SignInfos[a]; ok && si.JailedBlocksCounter >= maxJ {
			cnt = true
		}
	}
	return jailed && (low || cnt)
}

func (m *c24Monitor) observe(st *stepRec, e *events) {
	c := m.c
	where := fmt.Sprintf("height %d (%s)", st.H, st.Desc)
	bps := st.Pre.Params.SessionBlockFrequency
	// causes observed in this block
	for _, t := range st.Txs {
		if t.Kind != "unstake" || t.Code != 0 {
			continue
		}
		a := posview.Hex(t.Target)
		allowed := posview.Hex(t.Signer) == a
		for _, v := range []*posview.View{st.Pre, st.Mid, st.Post} {
			if r, ok := v.ByAddr[a]; ok && posview.Hex(posview.Output(r)) == posview.Hex(t.Signer) {
				allowed = true
			}
		}
		if !allowed {
			c.Violation("C24/begin-unstake/accepted-from-unauthorized-signer", "%s: begin-unstake of %s signed by %s (neither operator nor output) returned code 0", where, a[:8], m.d.name(t.Signer))
			continue
		}
		_, inMid := st.Mid.ByAddr[a]
		_, inPost := st.Post.ByAddr[a]
		if inMid || inPost {
			m.armed[a] = "begin-unstake"
			if posview.Hex(t.Signer) != a {
				c.Label("begin-unstake-by-output")
			}
			if st.Pre.IsWaiting(t.Target) {
				c.Label("repeat-begin-unstake")
			}
			if st.H%bps != 0 {
				c.Label("begin-unstake-inside-session")
			}
		}
	}
	for _, t := range st.Txs {
		if t.Kind == "unstake" && t.Code != 0 {
			if r, ok := st.Mid.ByAddr[posview.Hex(t.Target)]; ok && r.Status == sdk.Staked && posview.Hex(t.Signer) != posview.Hex(r.Address) && posview.Hex(t.Signer) != posview.Hex(posview.Output(r)) {
				c.Label("begin-unstake-by-stranger-rejected")
			}
		}
	}
	// an unjail message by operator/output for a node below the minimum stake queues it to unstake as well
	// (ValidateUnjailMessage, "defensive against stuck in jail") whatever the code of the transaction
	for _, t := range st.Txs {
		if t.Kind != "unjail" {
			continue
		}
		a := posview.Hex(t.Target)
		minStake := sdk.NewInt(maxI(st.Pre.Params.StakeMinimum, st.Post.Params.StakeMinimum))
		for _, v := range []*posview.View{st.Mid, st.Post} {
			if r, ok := v.ByAddr[a]; ok && r.StakedTokens.LT(minStake) &&
				(posview.Hex(t.Signer) == a || posview.Hex(t.Signer) == posview.Hex(posview.Output(r))) && m.armed[a] == "" {
				m.armed[a] = "forced"
				c.Label("queued-by-unjail-below-minimum")
			}
		}
	}
	for a := range st.Post.ByAddr {
		if forcedEvidence(st, a) {
			if m.armed[a] == "" {
				m.armed[a] = "forced"
			}
		}
	}
	for a := range st.Pre.ByAddr {
		if _, ok := st.Post.ByAddr[a]; !ok && forcedEvidence(st, a) && m.armed[a] == "" {
			m.armed[a] = "forced"
		}
	}
	// 1. leaving the staked state
	for a := range e.leftStaked {
		if st.H%bps != 0 {
			c.Violation("C24/leave-staked/not-at-session-end", "%s: node %s left the staked state at height %d which is not a session end (blocks per session %d); %s", where, a[:8], st.H, bps, st.Post.Describe())
		}
		if m.armed[a] == "" && m.stale[a] {
			// narrow signature for one specific mechanism: the waiting-set entry of a record that was paid out and removed
			// (left behind by ForceValidatorUnstake on a jailed unstaking node in the block it matured) outlives the record
			// and begins the unstake of the node's NEW stake at the next session end.
			c.Violation("C24/leave-staked/stale-waiting-entry-of-removed-record", "%s: node %s, staked anew after its previous record was paid out and removed, left the staked state without any begin-unstake "+
				"or forced unstake: a waiting-to-unstake entry that survived the removal of the old record was applied to the new stake; pre: %s; post: %s", where, a[:8], st.Pre.Describe(), st.Post.Describe())
		} else if m.armed[a] == "" {
			c.Violation("C24/leave-staked/without-unstake-request-or-forced-unstake", "%s: node %s left the staked state without an accepted begin-unstake by operator/output and without a forced unstake (pre waiting=%v); pre: %s; post: %s",
				where, a[:8], st.Pre.IsWaiting(st.Pre.ByAddr[a].Address), st.Pre.Describe(), st.Post.Describe())
		}
		if m.armed[a] == "forced" {
			c.Label("forced-unstake")
		}
		delete(m.armed, a)
		delete(m.stale, a)
	}
	for a := range e.newRecord {
		if st.Pre.IsWaiting(sdk.Address(mustHex(a))) {
			m.stale[a] = true
			c.Label("restake-over-stale-waiting-entry")
		}
	}
	for a := range m.stale {
		if !st.Post.IsWaiting(sdk.Address(mustHex(a))) {
			delete(m.stale, a)
		}
	}
	// a cause expires when the waiting entry was consumed at a session end without effect
	for a := range m.armed {
		if r, ok := st.Post.ByAddr[a]; ok && r.Status == sdk.Staked && !st.Post.IsWaiting(r.Address) {
			delete(m.armed, a)
		}
	}
	// 2. completion time
	for a, q := range st.Post.ByAddr {
		p, had := st.Pre.ByAddr[a]
		if q.Status == sdk.Unstaking {
			if !had || p.Status != sdk.Unstaking {
				want := st.Time.Add(st.Post.Params.UnstakingTime)
				if !q.UnstakingCompletionTime.Equal(want) {
					c.Violation("C24/begin-unstaking/wrong-completion-time", "%s: node %s began unstaking with completion time %s, expected block time %s + unstaking time %s", where, a[:8],
						q.UnstakingCompletionTime, st.Time, st.Post.Params.UnstakingTime)
				}
			} else if !q.UnstakingCompletionTime.Equal(p.UnstakingCompletionTime) {
				c.Violation("C24/unstaking/completion-time-changed", "%s: node %s completion time moved from %s to %s", where, a[:8], p.UnstakingCompletionTime, q.UnstakingCompletionTime)
			}
			// 3. overdue
			if !q.UnstakingCompletionTime.After(st.Time) {
				c.Violation("C24/maturity/overdue-record-not-paid", "%s: node %s is still unstaking after a block with time %s >= its completion time %s; %s", where, a[:8], st.Time, q.UnstakingCompletionTime, st.Post.Describe())
			}
			if p, ok := st.Pre.ByAddr[a]; ok && (e.isSlashed(a) || (!p.Jailed && q.Jailed)) {
				m.hurt[a] = true
			}
		}
		if q.Status == sdk.Staked && st.Post.IsWaiting(q.Address) && (e.isSlashed(a) || (had && !p.Jailed && q.Jailed)) {
			m.hurt[a] = true
		}
		if q.Status == sdk.Unstaked {
			c.Violation("C24/record/kept-after-unstake", "%s: node %s has an unstaked record left in the store (tokens %s); %s", where, a[:8], q.StakedTokens, st.Post.Describe())
		}
	}
	// 4. completion: only when due, and paid exactly, to the output address
	expected := map[string]sdk.BigInt{}
	unclean := map[string]bool{}
	for a := range e.completed {
		p := st.Pre.ByAddr[a]
		var due time.Time
		switch p.Status {
		case sdk.Unstaking:
			due = p.UnstakingCompletionTime
		default: // released and matured inside this block
			due = st.Time.Add(st.Pre.Params.UnstakingTime)
			c.Label("released-and-paid-in-one-block")
		}
		if due.After(st.Time) {
			c.Violation("C24/maturity/paid-before-due", "%s: record of node %s (status %d) was removed in a block with time %s, before its completion time %s; pre: %s", where, a[:8], p.Status, st.Time, due, st.Pre.Describe())
		}
		if due.Equal(st.Time) {
			c.Label("maturity-at-exact-time")
		}
		if m.hurt[a] || e.isSlashed(a) {
			c.Label("slash-or-jail-between-begin-and-maturity")
			c.NonTrivial()
		}
		if st.Blk.DT >= 40*time.Second && due.Before(st.Time) {
			c.Label("maturity-by-time-jump")
			c.NonTrivial()
		}
		delete(m.hurt, a)
		delete(m.armed, a)
		mid, ok := st.Mid.ByAddr[a]
		if !ok {
			continue
		}
		out := posview.Hex(posview.Output(mid))
		if out != a {
			c.Label("payout-to-separate-output")
		}
		if cur, ok := expected[out]; ok {
			expected[out] = cur.Add(mid.StakedTokens)
			c.Label("two-payouts-to-one-output")
		} else {
			expected[out] = mid.StakedTokens
		}
		for _, t := range st.Txs {
			if (t.Kind == "stake" || t.Kind == "edit") && t.Code == 0 && posview.Hex(t.Target) == a {
				unclean[out] = true // stake or output may have changed after the mid snapshot
			}
		}
	}
	for out, want := range expected {
		if m.appKeys[out] {
			unclean[out] = true
		}
		for _, t := range st.Txs {
			if posview.Hex(t.Signer) == out {
				unclean[out] = true
			}
			if ms, ok := t.Msg.(*nodesTypes.MsgSend); ok && posview.Hex(ms.ToAddress) == out {
				unclean[out] = true
			}
			// another node staked in this very block with the same output address may be released and paid out in the same
			// EndBlock (unstaking time 0): its stake never shows in a snapshot
			if ms, ok := t.Msg.(*nodesTypes.MsgStake); ok && t.Code == 0 && ms.Output != nil && posview.Hex(ms.Output) == out {
				unclean[out] = true
			}
		}
		if unclean[out] {
			c.Label("payout-not-isolated")
			continue
		}
		outAddr := sdk.Address(mustHex(out))
		got := st.Post.Balance(outAddr).Sub(st.Mid.Balance(outAddr))
		if !got.Equal(want) {
			c.Violation("C24/payout/output-balance-delta-differs", "%s: the stake(s) %s of the node(s) completing unstake should be returned to output address %s exactly once, but its balance changed by %s between the first transaction and the commit; pre: %s; post: %s",
				where, want, out[:8], got, st.Pre.Describe(), st.Post.Describe())
		}
		c.Label("payout-checked-exactly")
		c.AddExtra("payouts_checked", 1)
	}
}

func TestC24(t *testing.T) {
	harness.Check(t, "C24",
		"NODES part. real app in the chain simulator, 14-34 generated blocks per history (director biased to begin-unstake by operator / output / stranger at arbitrary heights inside sessions, "+
			"repeated begin-unstake, re-stake after completion, unstaking time in {0,5,20,90}s, block time steps {0,1,5,15,40,100}s or aimed at completion time -1s/exact/+1s/+3min, "+
			"downtime/evidence/challenge slashes and jailing while waiting or unstaking, forced unstake through MaxJailedBlocks and slash below StakeMinimum); trace monitor over raw per-block snapshots: "+
			"Staked is left only at height%blocksPerSession==0 and only after an accepted begin-unstake by operator/output or an observable forced unstake; completion time == block time + UnstakingTime and never moves; "+
			"no Unstaking record survives a block with time >= completion; a record disappears only when due; in that block the output address gains exactly the stake (exact when no other generated flow touches it). "+
			"non-trivial = a completed unstake whose maturity was crossed by a time jump (>=40s, strictly past) or whose node was slashed/jailed between begin-unstake and maturity",
		// floors are fractions of ALL C24 cases; the driver runs TestC24 and TestC24Apps with the same case count, so a class that
		// every nodes case reaches shows up as 0.5
		map[string]float64{"nodes-part": 0.45, "payout-checked-exactly": 0.3, "maturity-by-time-jump": 0.1, "slash-or-jail-between-begin-and-maturity": 0.1, "forced-unstake": 0.2, "begin-unstake-by-output": 0.05,
			"begin-unstake-by-stranger-rejected": 0.15, "maturity-at-exact-time": 0.15, "payout-to-separate-output": 0.1, "begin-unstake-inside-session": 0.3, "repeat-begin-unstake": 0.05},
		func(rt *rapid.T, c *harness.Case) {
			d := newDirector(rt, c, c24Knobs())
			c.Label("nodes-part")
			m := &c24Monitor{c: c, d: d, armed: map[string]string{}, hurt: map[string]bool{}, stale: map[string]bool{}, appKeys: map[string]bool{}}
			for _, k := range d.w.Apps {
				m.appKeys[posview.Hex(chain.Addr(k))] = true
			}
			for _, k := range d.w.Spare {
				m.appKeys[posview.Hex(chain.Addr(k))] = true // spares may stake as applications through the noise txs
			}
			nb := rapid.IntRange(d.k.minBlocks, d.k.maxBlocks).Draw(rt, "blocks")
			for i := 0; i < nb; i++ {
				st := d.step()
				m.observe(st, extract(st))
				c.AddExtra("blocks_checked", 1)
			}
		})
}

func mustHex(s string) []byte {
	b := make([]byte, len(s)/2)
	for i := range b {
		fmt.Sscanf(s[2*i:2*i+2], "%02x", &b[i])
	}
	return b
}
