package pos

import (
	"fmt"
	"sort"
	"strings"
	"testing"

	"pgregory.net/rapid"

	sdk "github.com/pokt-network/pocket-core/types"

	"verif/harness"
	"verif/harness/posview"
)

// C21: the staked-by-power index, the per-chain index and the unstaking queue agree exactly with the node records.

func c21Knobs() knobs {
	return knobs{eras: eraPastOnly, minBlocks: 16, maxBlocks: 34, wStake: 3, wEdit: 6, wUnstake: 3, wUnjail: 4, wParam: 1, wNoise: 1, maxTxs: 4,
		pEvidence: 20, pBurn: 25, pReward: 0, pVictimAbsent: 85, params: []string{"pos/MaxValidators", "pos/StakeMinimum", "pos/MaxJailedBlocks"}, bigSlash: true,
		slashDT: []int{1, 1, 25, 100}, stakeMins: []int64{1_000_000, 1_000_000, 15_000_000_000}, pUnjailNearDeadline: 50}
}

func setDiff(a, b map[string]bool) (onlyA, onlyB []string) {
	for k := range a {
		if !b[k] {
			onlyA = append(onlyA, k)
		}
	}
	for k := range b {
		if !a[k] {
			onlyB = append(onlyB, k)
		}
	}
	sort.Strings(onlyA)
	sort.Strings(onlyB)
	return
}

// checkIndexes compares the three indexes of v with what the records of v demand. It returns false if a known
// finding was hit (the caller stops judging the history, the state is off from there on).
func checkIndexes(c *harness.Case, v *posview.View, where string) bool {
	if len(v.Undecodable) > 0 {
		if !c.Violation("C21/records/undecodable", "%s: undecodable records %v", where, v.Undecodable) {
			return false
		}
	}
	// (a) staked-by-power index
	wantStaked, gotStaked := map[string]bool{}, map[string]bool{}
	for _, r := range v.Validators {
		if r.Status == sdk.Staked && !r.Jailed {
			wantStaked[fmt.Sprintf("%d/%s", posview.Power(r), posview.Hex(r.Address))] = true
		}
	}
	for _, e := range v.StakedSet {
		if e.KeyAddr == nil || posview.Hex(e.KeyAddr) != posview.Hex(e.ValAddr) {
			if !c.Violation("C21/staked-set/malformed-entry", "%s: staked-set entry key %x carries address %x but value %x", where, e.Key, e.KeyAddr, e.ValAddr) {
				return false
			}
			continue
		}
		if _, ok := v.ByAddr[posview.Hex(e.ValAddr)]; !ok {
			if !c.Violation("C21/staked-set/entry-without-record", "%s: staked-set entry power=%d addr=%x names a node without record; %s", where, e.Power, e.ValAddr, v.Describe()) {
				return false
			}
			continue
		}
		gotStaked[fmt.Sprintf("%d/%s", e.Power, posview.Hex(e.ValAddr))] = true
	}
	if stale, missing := setDiff(gotStaked, wantStaked); len(stale)+len(missing) > 0 {
		sig := "C21/staked-set/stale-entry"
		if len(stale) == 0 {
			sig = "C21/staked-set/missing-entry"
		}
		if !c.Violation(sig, "%s: staked-by-power index (power/address) has entries not backed by a staked unjailed record with that power: %v; lacks entries for: %v; %s",
			where, stale, missing, v.Describe()) {
			return false
		}
	}
	// (b) per-chain index
	wantChain, gotChain := map[string]bool{}, map[string]bool{}
	for _, r := range v.Validators {
		if r.Status == sdk.Staked {
			for _, ch := range r.Chains {
				wantChain[strings.ToLower(ch)+"/"+posview.Hex(r.Address)] = true
			}
		}
	}
	for _, e := range v.ByChain {
		if _, ok := v.ByAddr[posview.Hex(e.Addr)]; !ok {
			if !c.Violation("C21/chain-index/entry-without-record", "%s: per-chain entry %s/%x names a node without record; %s", where, e.Chain, e.Addr, v.Describe()) {
				return false
			}
			continue
		}
		gotChain[e.Chain+"/"+posview.Hex(e.Addr)] = true
	}
	if stale, missing := setDiff(gotChain, wantChain); len(stale)+len(missing) > 0 {
		sig := "C21/chain-index/stale-entry"
		if len(stale) == 0 {
			sig = "C21/chain-index/missing-entry"
		}
		if !c.Violation(sig, "%s: per-chain index (chain/address) has entries not backed by a staked record declaring that chain: %v; lacks: %v; %s", where, stale, missing, v.Describe()) {
			return false
		}
	}
	// (c) unstaking queue, as sets per completion time (duplicates inside one entry tolerated)
	wantQ, gotQ := map[string]bool{}, map[string]bool{}
	for _, r := range v.Validators {
		if r.Status == sdk.Unstaking {
			wantQ[r.UnstakingCompletionTime.UTC().Format("2006-01-02T15:04:05.000000000")+"/"+posview.Hex(r.Address)] = true
		}
	}
	for _, e := range v.Unstaking {
		if e.Err != "" {
			if !c.Violation("C21/unstaking-queue/undecodable-entry", "%s: queue entry %x: %s", where, e.Key, e.Err) {
				return false
			}
			continue
		}
		for _, a := range e.Addrs {
			if _, ok := v.ByAddr[posview.Hex(a)]; !ok {
				if !c.Violation("C21/unstaking-queue/entry-without-record", "%s: queue entry %s names %x which has no record; %s", where, e.Time, a, v.Describe()) {
					return false
				}
				continue
			}
			gotQ[e.Time.UTC().Format("2006-01-02T15:04:05.000000000")+"/"+posview.Hex(a)] = true
		}
	}
	if stale, missing := setDiff(gotQ, wantQ); len(stale)+len(missing) > 0 {
		sig := "C21/unstaking-queue/stale-entry"
		if len(stale) == 0 {
			sig = "C21/unstaking-queue/missing-entry"
		}
		if !c.Violation(sig, "%s: unstaking queue (completion time/address) has entries not backed by an unstaking record with that completion time: %v; lacks: %v; %s",
			where, stale, missing, v.Describe()) {
			return false
		}
	}
	return true
}

func TestC21(t *testing.T) {
	harness.Check(t, "C21",
		"real app in the chain simulator, 16-34 generated blocks per history (director biased to edit-stakes that change stake and/or chains, also after slashes; "+
			"downtime slash + jail of victim validators, double-sign evidence, challenge burns inside blocks, unjail around JailedUntil, begin-unstake, forced unstake, maturity); "+
			"oracle after every commit from RAW prefix scans: staked-set index == {(tokens/10^6, addr): Staked and not jailed} with key address == value address, "+
			"per-chain index == {(chain, addr): Staked, chain declared}, unstaking queue == {(completion time, addr): Unstaking} as sets per time, no entry without record. "+
			"non-trivial = history with an edit-stake (stake or chains changed) or a slash on a node that was slashed, jailed or edited earlier in the same history",
		map[string]float64{"edit-after-slash": 0.2, "slash-after-edit-or-slash": 0.3, "jail": 0.5, "unjail": 0.12, "chains-edited": 0.4, "slash-while-unstaking": 0.05,
			"jail-while-waiting-or-unstaking": 0.05, "unstake-complete": 0.4},
		func(rt *rapid.T, c *harness.Case) {
			d := newDirector(rt, c, c21Knobs())
			nb := rapid.IntRange(d.k.minBlocks, d.k.maxBlocks).Draw(rt, "blocks")
			var f histFlags
			touched := map[string]string{} // node -> earlier events
			for i := 0; i < nb; i++ {
				st := d.step()
				e := extract(st)
				f.add(st, e)
				// class bookkeeping
				for a := range e.slashed {
					if strings.Contains(touched[a], "S") || strings.Contains(touched[a], "E") || strings.Contains(touched[a], "J") {
						c.Label("slash-after-edit-or-slash")
						c.NonTrivial()
					}
					if r := st.Pre.ByAddr[a]; r.Status != sdk.Staked {
						c.Label("slash-while-unstaking")
					}
				}
				for a := range e.jailed {
					if r := st.Pre.ByAddr[a]; r.Status == sdk.Unstaking || st.Pre.IsWaiting(r.Address) {
						c.Label("jail-while-waiting-or-unstaking")
					}
				}
				edited := map[string]bool{}
				for a := range e.bumped {
					edited[a] = true
				}
				for a := range e.chainsEdited {
					edited[a] = true
					c.Label("chains-edited")
				}
				for a := range edited {
					if strings.Contains(touched[a], "S") {
						c.Label("edit-after-slash")
					}
					if touched[a] != "" {
						c.NonTrivial()
					}
				}
				for a := range e.slashed {
					touched[a] += "S"
				}
				for a := range e.jailed {
					touched[a] += "J"
				}
				for a := range edited {
					touched[a] += "E"
				}
				if !checkIndexes(c, st.Post, fmt.Sprintf("after commit of height %d (%s)", st.H, st.Desc)) {
					return
				}
				c.AddExtra("commits_checked", 1)
			}
			label(c, f.downtimeJail+0 > 0 || len(touched) > 0 && strings.Contains(fmt.Sprint(touched), "J"), "jail")
			label(c, f.unjail > 0, "unjail")
			label(c, f.completion > 0, "unstake-complete")
			label(c, f.forceWait > 0, "forced-unstake")
		})
}
