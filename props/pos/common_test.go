package pos

// Shared machinery of the node-staking properties C19/C21/C22/C24/C25: a state-aware history generator
// ("director") that drives the chain simulator so that slashes, jailing, unjail attempts, begin-unstake,
// maturity, forced unstake, edit-stake and max-validator changes actually happen, and that records per
// block the raw posview snapshots the trace monitors judge. No oracle lives in this file.

import (
	"encoding/hex"
	"fmt"
	"sort"
	"strings"
	"time"

	abci "github.com/tendermint/tendermint/abci/types"
	dbm "github.com/tendermint/tm-db"
	"pgregory.net/rapid"

	"github.com/pokt-network/pocket-core/app"
	"github.com/pokt-network/pocket-core/crypto"
	sdk "github.com/pokt-network/pocket-core/types"
	govTypes "github.com/pokt-network/pocket-core/x/gov/types"
	nodesTypes "github.com/pokt-network/pocket-core/x/nodes/types"
	pocketTypes "github.com/pokt-network/pocket-core/x/pocketcore/types"

	"verif/harness"
	"verif/harness/chain"
	"verif/harness/posview"
)

var (
	eraPast   = time.Date(2001, 3, 4, 5, 6, 7, 0, time.UTC) // before any wall clock this can run under
	eraFuture = time.Date(2101, 3, 4, 5, 6, 7, 0, time.UTC) // after it

	eraPastOnly = []time.Time{eraPast}
	eraBoth     = []time.Time{eraPast, eraFuture}
)

// knobs bias the director per property.
type knobs struct {
	eras                                             []time.Time
	minBlocks, maxBlocks                             int
	wStake, wEdit, wUnstake, wUnjail, wParam, wNoise int // tx kind weights
	maxTxs                                           int
	pEvidence, pBurn, pReward                        int // percent of blocks
	pVictimAbsent                                    int // percent, per block, for a victim in the consensus set
	params                                           []string
	sessionNodeCounts                                []int   // pocketcore SessionNodeCount choices (nil: the spec default, 1)
	dispatch                                         bool    // query sessions (HandleDispatch) after every commit
	bigSlash                                         bool    // draw large slash fractions / a high minimum stake
	slashDT, slashDS                                 []int   // percent choices (nil: defaults of bigSlash)
	stakeMins                                        []int64 // minimum stake choices (nil: defaults of bigSlash)
	burns                                            []int64 // challenge counts of injected burns (nil: default list)
	pUnjailNearDeadline                              int     // percent: add an authorized unjail tx when a jailed node's deadline is within 100 s of the block time
	// signing-window geometry (zero values: the spec defaults window 10 / min signed 60%, random absences only)
	windows       []int64 // SignedBlocksWindow choices
	minSignedPct  []int   // MinSignedPerWindow choices in percent (100: a single missed block jails)
	pLatePlan     int     // percent per drawn victim: absences planned so that the downtime threshold is crossed in one of the last two blocks of a signing window (or its first block)
	pUnjailFresh  int     // percent: add an authorized unjail tx for a node jailed within the last 3 blocks, whatever its deadline
	pSmallDTFresh int     // percent: small time step (0-5 s) while a node jailed within the last 3 blocks exists
}

// sessRec is one successfully dispatched session.
type sessRec struct {
	Chain string
	Nodes []sdk.Address
}

type inject struct {
	Kind   string // "burn" (BurnForChallenge) | "reward" (RewardForRelaysPerChain), called as the proof handler calls them
	Addr   sdk.Address
	Amount int64
	Chain  string
}

type txRec struct {
	chain.GenTx
	Target sdk.Address // operator address the message is about (nil for noise)
	Signer sdk.Address
	Code   uint32
	Space  string
}

// stepRec is everything recorded about one block.
type stepRec struct {
	H          int64
	Time       time.Time
	Blk        chain.Block
	Txs        []txRec
	Injects    []inject
	Res        chain.BlockResult
	Pre        *posview.View   // committed state before the block
	AfterBegin *posview.View   // after BeginBlock (votes, evidence, fee distribution)
	AfterInj   []*posview.View // after each inject
	Mid        *posview.View   // state right before the first transaction (last of the two above)
	Post       *posview.View   // committed state after the block
	TPre       map[string]int64
	TPost      map[string]int64 // consensus set as Tendermint holds it after applying this block's updates
	Sessions   []sessRec        // every session successfully dispatched after the commit
	Desc       string
}

type director struct {
	rt      *rapid.T
	c       *harness.Case
	k       knobs
	w       *chain.World
	n       *chain.Node
	keys    map[string]crypto.PrivateKey // hex address -> key (every funded key)
	cands   []crypto.PrivateKey          // keys that are or may become node operators
	cur     *posview.View
	T       map[string]int64
	victims map[string]bool
	hist    []*stepRec
	// generator-side memory (never used by an oracle): planned jailing phase per victim (-1: random absences), and for every
	// currently jailed node the height at which the director saw it jailed and the deadline it saw then
	plan         map[string]int64
	jailedAtH    map[string]int64
	jailDeadline map[string]time.Time
}

func newDirector(rt *rapid.T, c *harness.Case, k knobs) *director {
	w := chain.GenWorld(rt)
	s := &w.Spec
	s.GenesisTime = k.eras[rapid.IntRange(0, len(k.eras)-1).Draw(rt, "era")]
	np := &s.NodeParams
	if k.bigSlash {
		dt, ds, mins := []int{1, 25, 60, 100}, []int{5, 50, 100}, []int64{1_000_000, 15_000_000_000, 15_000_000_000}
		if k.slashDT != nil {
			dt = k.slashDT
		}
		if k.slashDS != nil {
			ds = k.slashDS
		}
		if k.stakeMins != nil {
			mins = k.stakeMins
		}
		np.SlashFractionDowntime = sdk.NewDecWithPrec(int64(rapid.SampledFrom(dt).Draw(rt, "slashDowntime%")), 2)
		np.SlashFractionDoubleSign = sdk.NewDecWithPrec(int64(rapid.SampledFrom(ds).Draw(rt, "slashDouble%")), 2)
		np.StakeMinimum = rapid.SampledFrom(mins).Draw(rt, "stakeMin")
	}
	np.MaxJailedBlocks = int64(rapid.SampledFrom([]int{2, 3, 5, 12}).Draw(rt, "maxJailedBlocks"))
	np.DowntimeJailDuration = time.Duration(rapid.SampledFrom([]int{60, 120}).Draw(rt, "jailSecs")) * time.Second
	np.MaxEvidenceAge = time.Duration(rapid.SampledFrom([]int{30, 150}).Draw(rt, "evidenceAgeMin")) * time.Minute
	if k.windows != nil {
		np.SignedBlocksWindow = rapid.SampledFrom(k.windows).Draw(rt, "signedBlocksWindow")
	}
	if k.minSignedPct != nil {
		np.MinSignedPerWindow = sdk.NewDecWithPrec(int64(rapid.SampledFrom(k.minSignedPct).Draw(rt, "minSigned%")), 2)
	}
	if k.sessionNodeCounts != nil {
		s.PocketParams.SessionNodeCount = int64(rapid.SampledFrom(k.sessionNodeCounts).Draw(rt, "sessionNodeCount"))
	}
	d := &director{rt: rt, c: c, k: k, w: w, keys: map[string]crypto.PrivateKey{}, victims: map[string]bool{},
		plan: map[string]int64{}, jailedAtH: map[string]int64{}, jailDeadline: map[string]time.Time{}}
	for _, key := range w.AllFunded() {
		d.keys[hex.EncodeToString(chain.Addr(key))] = key
	}
	d.cands = append(append([]crypto.PrivateKey{}, w.Nodes...), w.Spare...)
	c.Opf("%s era=%d slashDT=%s slashDS=%s min=%d maxJailed=%d jail=%s evAge=%s window=%d minSigned=%s", w.Describe(), s.GenesisTime.Year(), np.SlashFractionDowntime,
		np.SlashFractionDoubleSign, np.StakeMinimum, np.MaxJailedBlocks, np.DowntimeJailDuration, np.MaxEvidenceAge, np.SignedBlocksWindow, np.MinSignedPerWindow)
	d.n = chain.NewNode(s)
	if k.dispatch {
		// the real session cache, so that dispatch behaves as on a running node (cleared on jail/unjail/edit)
		pocketTypes.GlobalSessionCache = &pocketTypes.CacheStorage{Cache: sdk.NewCache(64), DB: dbm.NewMemDB()}
	}
	d.T = map[string]int64{}
	for a, p := range d.n.Current {
		d.T[a] = p
	}
	d.cur = posview.Read(d.n)
	d.redrawVictims()
	return d
}

func (d *director) redrawVictims() {
	d.victims = map[string]bool{}
	d.plan = map[string]int64{}
	nv := rapid.IntRange(1, 2).Draw(d.rt, "nVictims")
	for i := 0; i < nv; i++ {
		k := d.cands[rapid.IntRange(0, len(d.w.Nodes)-1).Draw(d.rt, "victim")]
		a := hex.EncodeToString(chain.Addr(k))
		d.victims[a] = true
		if d.k.pLatePlan > 0 {
			d.plan[a] = -1
			if pct(d.rt, "latePlan", d.k.pLatePlan) {
				// phase (height mod window) of the block in which the planned absences cross the downtime threshold
				d.plan[a] = rapid.SampledFrom([]int64{-2, -2, -1, -1, -1, 0}).Draw(d.rt, "jailPhase")
			}
		}
	}
}

// signingGeometry returns the signing window and the number of blocks a validator may miss per window without punishment.
func (d *director) signingGeometry() (window, maxMissed int64) {
	p := d.cur.Params
	window = p.SignedBlocksWindow
	return window, window - p.MinSignedPerWindow.MulInt64(window).RoundInt64()
}

// plannedAbsence: for a victim on a late-window plan, whether it misses the vote counted in block h (ok=false: no plan).
// It signs from the window start, then misses exactly maxMissed+1 blocks ending at the planned phase: the threshold is
// crossed at heights h with h mod window in {window-2, window-1} (or 0 when a single miss suffices).
func (d *director) plannedAbsence(a string, h int64) (absent, ok bool) {
	ph, has := d.plan[a]
	if !has || ph == -1 {
		return false, false
	}
	w, mm := d.signingGeometry()
	if w <= 0 || mm < 0 || mm+2 > w {
		return false, false
	}
	at := w + ph // -2 -> w-2, -1 -> w-1
	if ph == 0 {
		if mm > 0 {
			at = w - 1 // the counter is reset in the first block of a window: only a single-miss threshold can be crossed there
		} else {
			at = 0
		}
	}
	pos := h % w
	if at == 0 {
		return pos == 0, true
	}
	return pos >= at-mm && pos <= at, true
}

// freshlyJailed reports whether some node was jailed within the last 3 blocks (as the director saw it).
func (d *director) freshlyJailed(a string, h int64) bool {
	jh, ok := d.jailedAtH[a]
	return ok && h-jh >= 0 && h-jh <= 3
}

// deadlineOf is the jail deadline the generator aims at: the one it saw when the node was jailed, else the stored one.
func (d *director) deadlineOf(a string) (time.Time, bool) {
	if t, ok := d.jailDeadline[a]; ok {
		return t, true
	}
	if si, ok := d.cur.SignInfos[a]; ok {
		return si.JailedUntil, true
	}
	return time.Time{}, false
}

func (d *director) name(a sdk.Address) string {
	if k, ok := d.keys[posview.Hex(a)]; ok {
		return d.w.KeyName(k)
	}
	return posview.Hex(a)[:8]
}

func weighted(rt *rapid.T, label string, items []string, weights []int) string {
	var pool []string
	for i, it := range items {
		for j := 0; j < weights[i]; j++ {
			pool = append(pool, it)
		}
	}
	return pool[rapid.IntRange(0, len(pool)-1).Draw(rt, label)]
}

func pct(rt *rapid.T, label string, p int) bool {
	if p <= 0 {
		return false
	}
	return rapid.IntRange(0, 99).Draw(rt, label) < p
}

// pickOp picks an operator key; three times out of four one whose current record satisfies pref (if any does).
func (d *director) pickOp(label string, pref func(r nodesTypes.Validator, ok bool) bool) crypto.PrivateKey {
	var good []crypto.PrivateKey
	for _, k := range d.cands {
		r, ok := d.cur.Val(chain.Addr(k))
		if pref(r, ok) {
			good = append(good, k)
		}
	}
	if len(good) > 0 && rapid.IntRange(0, 3).Draw(d.rt, label+"Pref") > 0 {
		return good[rapid.IntRange(0, len(good)-1).Draw(d.rt, label)]
	}
	return d.cands[rapid.IntRange(0, len(d.cands)-1).Draw(d.rt, label+"Any")]
}

// signerFor picks who signs a node message about op: operator, current output, or a stranger.
func (d *director) signerFor(op crypto.PrivateKey, avoid map[string]bool) (crypto.PrivateKey, string) {
	who := weighted(d.rt, "signer", []string{"operator", "output", "stranger"}, []int{5, 3, 2})
	switch who {
	case "output":
		if r, ok := d.cur.Val(chain.Addr(op)); ok {
			if k, ok := d.keys[posview.Hex(posview.Output(r))]; ok {
				return k, who
			}
		}
		return op, "operator"
	case "stranger":
		pool := append(append([]crypto.PrivateKey{}, d.w.Accounts...), d.w.Spare...)
		k := pool[rapid.IntRange(0, len(pool)-1).Draw(d.rt, "stranger")]
		if avoid[posview.Hex(chain.Addr(k))] {
			return op, "operator"
		}
		return k, who
	}
	return op, who
}

func (d *director) sign(msg sdk.ProtoMsg, signer crypto.PrivateKey, kind, desc string, target sdk.Address) txRec {
	e := d.w.NextEntropy()
	g := chain.GenTx{Desc: fmt.Sprintf("%s by %s", desc, d.w.KeyName(signer)), Kind: kind, Msg: msg, Signer: signer,
		Bytes: chain.SignTx(d.w.Spec.ChainID, msg, chain.DefaultFee, "", e, signer)}
	return txRec{GenTx: g, Target: target, Signer: chain.Addr(signer)}
}

var chainSets = [][]string{{"0001"}, {"0021"}, {"0001", "0021"}}

func (d *director) genTx(avoid map[string]bool) (txRec, bool) {
	k := d.k
	kind := weighted(d.rt, "kind", []string{"stake", "edit", "unstake", "unjail", "param", "noise"},
		[]int{k.wStake, k.wEdit, k.wUnstake, k.wUnjail, k.wParam, k.wNoise})
	rt := d.rt
	bad := func(keys ...crypto.PrivateKey) bool {
		for _, key := range keys {
			if avoid[posview.Hex(chain.Addr(key))] {
				return true
			}
		}
		return false
	}
	switch kind {
	case "stake": // first stake of a key that has no record
		op := d.pickOp("stakeOp", func(r nodesTypes.Validator, ok bool) bool { return !ok })
		out := op
		if rapid.IntRange(0, 2).Draw(rt, "otherOutput") == 0 {
			f := d.w.AllFunded()
			out = f[rapid.IntRange(0, len(f)-1).Draw(rt, "out")]
		}
		amt := chain.StakeUnit*int64(rapid.IntRange(1, 4).Draw(rt, "bins")) + rapid.SampledFrom([]int64{0, 0, 1_000_000, 7_000_000_000}).Draw(rt, "extra")
		if rapid.IntRange(0, 9).Draw(rt, "tiny") == 0 {
			amt = 1_000_000
		}
		signer := op
		if rapid.IntRange(0, 3).Draw(rt, "byOutput") == 0 {
			signer = out
		}
		if bad(op, out, signer) {
			return txRec{}, false
		}
		msg := &nodesTypes.MsgStake{PublicKey: op.PublicKey(), Chains: chainSets[rapid.IntRange(0, 2).Draw(rt, "chains")], Value: sdk.NewInt(amt),
			ServiceUrl: "https://node.example:443", Output: chain.Addr(out)}
		return d.sign(msg, signer, "stake", fmt.Sprintf("stake %s amt=%d chains=%v out=%s", d.w.KeyName(op), amt, msg.Chains, d.w.KeyName(out)), chain.Addr(op)), true
	case "edit": // edit-stake of a staked node (any jail state), preferring nodes that were slashed (stake off the bin grid)
		op := d.pickOp("editOp", func(r nodesTypes.Validator, ok bool) bool { return ok && r.Status == sdk.Staked })
		r, ok := d.cur.Val(chain.Addr(op))
		cur := int64(chain.StakeUnit)
		outAddr := chain.Addr(op)
		chains := chainSets[rapid.IntRange(0, 2).Draw(rt, "chains")]
		if ok {
			cur = r.StakedTokens.Int64()
			outAddr = posview.Output(r)
			if rapid.IntRange(0, 2).Draw(rt, "keepChains") > 0 {
				chains = r.Chains
			}
		}
		amt := cur + rapid.SampledFrom([]int64{0, 0, 1, 1_000_000, chain.StakeUnit, chain.StakeUnit, 2 * chain.StakeUnit, -1}).Draw(rt, "delta")
		if rapid.IntRange(0, 4).Draw(rt, "toGrid") == 0 {
			amt = (cur/chain.StakeUnit + 1) * chain.StakeUnit
		}
		if amt <= 0 {
			amt = 1_000_000
		}
		signer, who := d.signerFor(op, avoid)
		if rapid.IntRange(0, 7).Draw(rt, "newOutput") == 0 {
			f := d.w.AllFunded()
			outAddr = chain.Addr(f[rapid.IntRange(0, len(f)-1).Draw(rt, "out")])
		}
		if bad(op, signer) || avoid[posview.Hex(outAddr)] {
			return txRec{}, false
		}
		msg := &nodesTypes.MsgStake{PublicKey: op.PublicKey(), Chains: chains, Value: sdk.NewInt(amt), ServiceUrl: "https://node.example:443", Output: outAddr}
		if ok && r.RewardDelegators != nil {
			msg.RewardDelegators = r.RewardDelegators
		}
		return d.sign(msg, signer, "edit", fmt.Sprintf("edit %s amt=%d(cur %d) chains=%v out=%s signer=%s", d.w.KeyName(op), amt, cur, chains, d.name(outAddr), who), chain.Addr(op)), true
	case "unstake":
		op := d.pickOp("unstakeOp", func(r nodesTypes.Validator, ok bool) bool { return ok && r.Status == sdk.Staked })
		signer, who := d.signerFor(op, avoid)
		if bad(op, signer) {
			return txRec{}, false
		}
		msg := &nodesTypes.MsgBeginUnstake{Address: chain.Addr(op), Signer: chain.Addr(signer)}
		return d.sign(msg, signer, "unstake", fmt.Sprintf("unstake %s signer=%s", d.w.KeyName(op), who), chain.Addr(op)), true
	case "unjail":
		op := d.pickOp("unjailOp", func(r nodesTypes.Validator, ok bool) bool { return ok && r.Jailed })
		signer, who := d.signerFor(op, avoid)
		if bad(op, signer) {
			return txRec{}, false
		}
		msg := &nodesTypes.MsgUnjail{ValidatorAddr: chain.Addr(op), Signer: chain.Addr(signer)}
		return d.sign(msg, signer, "unjail", fmt.Sprintf("unjail %s signer=%s", d.w.KeyName(op), who), chain.Addr(op)), true
	case "param":
		key := k.params[rapid.IntRange(0, len(k.params)-1).Draw(rt, "paramKey")]
		var val interface{}
		switch key {
		case "pos/MaxValidators":
			val = int64(rapid.IntRange(1, 6).Draw(rt, "v"))
		case "pos/StakeMinimum":
			val = rapid.SampledFrom([]int64{1_000_000, 15_000_000_000, 15_000_000_001, 29_000_000_000, 46_000_000_000}).Draw(rt, "v")
		case "pos/MaxJailedBlocks":
			val = int64(rapid.IntRange(2, 6).Draw(rt, "v"))
		case "pocketcore/SessionNodeCount":
			val = int64(rapid.IntRange(1, 4).Draw(rt, "v"))
		default:
			panic("unknown param " + key)
		}
		signer := d.w.Spec.DAOOwner
		if rapid.IntRange(0, 7).Draw(rt, "strangerParam") == 0 {
			signer = d.w.Accounts[0]
		}
		bz, err := app.Codec().MarshalJSON(val)
		if err != nil {
			panic(err)
		}
		msg := &govTypes.MsgChangeParam{FromAddress: chain.Addr(signer), ParamKey: key, ParamVal: bz}
		return d.sign(msg, signer, "param", fmt.Sprintf("param %s=%v", key, val), nil), true
	default: // noise from the shared generators (sends, app txs, DAO transfers)
		var g chain.GenTx
		switch rapid.IntRange(0, 3).Draw(rt, "noise") {
		case 0, 1:
			g = d.w.GenSend(rt)
		case 2:
			g = d.w.GenAppStake(rt)
		default:
			g = d.w.GenAppUnstake(rt)
		}
		if bad(g.Signer) {
			return txRec{}, false
		}
		if ms, ok := g.Msg.(*nodesTypes.MsgSend); ok && avoid[posview.Hex(ms.ToAddress)] {
			return txRec{}, false
		}
		return txRec{GenTx: g, Signer: chain.Addr(g.Signer)}, true
	}
}

// sortedT lists the members of the tracked consensus set in address order.
func sortedKeys(m map[string]int64) []string {
	ks := make([]string, 0, len(m))
	for k := range m {
		ks = append(ks, k)
	}
	sort.Strings(ks)
	return ks
}

func (d *director) genDT() time.Duration {
	now := d.n.Time
	if d.k.pSmallDTFresh > 0 {
		fresh := false
		for _, a := range sortedKeys(d.jailedAtH) {
			if d.freshlyJailed(a, d.n.Height+1) {
				fresh = true
			}
		}
		if fresh && pct(d.rt, "dtSmallFresh", d.k.pSmallDTFresh) {
			return rapid.SampledFrom([]time.Duration{0, time.Second, time.Second, 2 * time.Second, 5 * time.Second}).Draw(d.rt, "dtSmall")
		}
	}
	opts := []time.Duration{0, time.Second, time.Second, 5 * time.Second, 15 * time.Second, 40 * time.Second, 100 * time.Second}
	var targeted []time.Duration
	add := func(t time.Time, offs []time.Duration) {
		if !t.After(now) {
			return
		}
		for _, off := range offs {
			if dt := t.Sub(now) + off; dt >= 0 {
				targeted = append(targeted, dt)
			}
		}
	}
	for _, r := range d.cur.Validators {
		if r.Jailed {
			if dl, ok := d.deadlineOf(posview.Hex(r.Address)); ok {
				add(dl, []time.Duration{-time.Second, -time.Second, 0, 0, time.Second, time.Second})
			}
		}
		if r.Status == sdk.Unstaking {
			add(r.UnstakingCompletionTime, []time.Duration{-time.Second, 0, 0, time.Second, 3 * time.Minute})
		}
	}
	if len(targeted) > 0 && rapid.IntRange(0, 2).Draw(d.rt, "dtTargeted") > 0 {
		return targeted[rapid.IntRange(0, len(targeted)-1).Draw(d.rt, "dtT")]
	}
	return opts[rapid.IntRange(0, len(opts)-1).Draw(d.rt, "dt")]
}

// genBlock draws the next block from the current state.
func (d *director) genBlock() (chain.Block, []txRec, []inject, string) {
	rt := d.rt
	h := d.n.Height + 1
	b := chain.Block{DT: d.genDT(), Absent: map[string]bool{}}
	newTime := d.n.Time.Add(b.DT)
	if rapid.IntRange(0, 19).Draw(rt, "redrawVictims") == 0 {
		d.redrawVictims()
	}
	var absent []string
	for _, a := range sortedKeys(d.n.ValidatorsAt(h - 1)) {
		p := 4
		if d.victims[a] {
			p = d.k.pVictimAbsent
			if miss, ok := d.plannedAbsence(a, h); ok {
				p = 0
				if miss {
					p = 100
				}
			}
		}
		if pct(rt, "absent", p) {
			b.Absent[a] = true
			absent = append(absent, a[:6])
		}
	}
	if members := sortedKeys(d.n.ValidatorsAt(h)); len(members) > 0 && rapid.Bool().Draw(rt, "pickProposer") {
		pa, _ := hex.DecodeString(members[rapid.IntRange(0, len(members)-1).Draw(rt, "proposer")])
		b.Proposer = pa
	}
	desc := fmt.Sprintf("h%d dt=%s absent=%v", h, b.DT, absent)
	// double-sign evidence
	if pct(rt, "evidence", d.k.pEvidence) && len(d.cur.Validators) > 0 {
		r := d.cur.Validators[rapid.IntRange(0, len(d.cur.Validators)-1).Draw(rt, "evWho")]
		eh := h - int64(rapid.IntRange(0, 4).Draw(rt, "evBack"))
		if eh < 1 {
			eh = 1
		}
		age := rapid.SampledFrom([]time.Duration{0, 10 * time.Second, 29 * time.Minute, 31 * time.Minute, 151 * time.Minute}).Draw(rt, "evAge")
		power := d.n.ValidatorsAt(eh)[posview.Hex(r.Address)]
		if power == 0 {
			power = posview.Power(r)
		}
		b.Evidence = append(b.Evidence, abci.Evidence{Type: "duplicate/vote", Validator: abci.Validator{Address: r.Address, Power: power},
			Height: eh, Time: newTime.Add(-age), TotalVotingPower: 0})
		desc += fmt.Sprintf(" evidence(%s h=%d age=%s power=%d)", d.name(r.Address), eh, age, power)
	}
	// keeper calls the proof handler makes (challenge burn / relay reward), applied after BeginBlock
	var injects []inject
	if pct(rt, "burn", d.k.pBurn) {
		op := d.pickOp("burnOp", func(r nodesTypes.Validator, ok bool) bool { return ok })
		burns := []int64{1, 5000, 1_000_000, 14_000_000, 16_000_000, 40_000_000, 100_000_000}
		if d.k.burns != nil {
			burns = d.k.burns
		}
		amt := rapid.SampledFrom(burns).Draw(rt, "challenges")
		injects = append(injects, inject{Kind: "burn", Addr: chain.Addr(op), Amount: amt})
		desc += fmt.Sprintf(" burn(%s x%d)", d.w.KeyName(op), amt)
	}
	if pct(rt, "reward", d.k.pReward) {
		op := d.pickOp("rewardOp", func(r nodesTypes.Validator, ok bool) bool { return ok })
		amt := rapid.SampledFrom([]int64{1, 7, 1000, 123_457}).Draw(rt, "relays")
		injects = append(injects, inject{Kind: "reward", Addr: chain.Addr(op), Amount: amt, Chain: chain.Chains[rapid.IntRange(0, 1).Draw(rt, "rewardChain")]})
		desc += fmt.Sprintf(" reward(%s x%d)", d.w.KeyName(op), amt)
	}
	// addresses whose stake may be paid out in this block: keep them out of the other flows most of the time,
	// so that the payout can be read off their balance exactly
	avoid := map[string]bool{}
	if rapid.IntRange(0, 5).Draw(rt, "keepPayoutClean") > 0 {
		sessionEnd := h%d.cur.Params.SessionBlockFrequency == 0
		for _, r := range d.cur.Validators {
			due := r.Status == sdk.Unstaking && !r.UnstakingCompletionTime.After(newTime)
			if sessionEnd && r.Status == sdk.Staked && d.cur.Params.UnstakingTime == 0 {
				due = true // may be released and paid within this block
			}
			if due {
				avoid[posview.Hex(r.Address)] = true
				avoid[posview.Hex(posview.Output(r))] = true
			}
		}
	}
	ntx := rapid.IntRange(0, d.k.maxTxs).Draw(rt, "nTxs")
	var txs []txRec
	if d.k.pUnjailNearDeadline > 0 || d.k.pUnjailFresh > 0 {
		for _, r := range d.cur.Validators {
			dl, ok := d.deadlineOf(posview.Hex(r.Address))
			if !r.Jailed || !ok {
				continue
			}
			op, ok := d.keys[posview.Hex(r.Address)]
			if !ok {
				continue
			}
			if gap := dl.Sub(newTime); gap > 100*time.Second || gap < -100*time.Second {
				// far from the deadline: only a node jailed in the last 3 blocks is worth an (early) attempt
				if !d.freshlyJailed(posview.Hex(r.Address), h) || !pct(rt, "unjailFresh", d.k.pUnjailFresh) {
					continue
				}
			} else if !pct(rt, "unjailNear", d.k.pUnjailNearDeadline) {
				if !d.freshlyJailed(posview.Hex(r.Address), h) || !pct(rt, "unjailFresh", d.k.pUnjailFresh) {
					continue
				}
			}
			signer := op
			if k2, ok := d.keys[posview.Hex(posview.Output(r))]; ok && rapid.IntRange(0, 2).Draw(rt, "nearByOutput") == 0 {
				signer = k2
			}
			msg := &nodesTypes.MsgUnjail{ValidatorAddr: chain.Addr(op), Signer: chain.Addr(signer)}
			t := d.sign(msg, signer, "unjail", fmt.Sprintf("unjail %s (deadline %+ds)", d.w.KeyName(op), int(dl.Sub(newTime)/time.Second)), chain.Addr(op))
			txs = append(txs, t)
			b.Txs = append(b.Txs, t.Bytes)
			desc += " | " + t.Desc
		}
	}
	for i := 0; i < ntx; i++ {
		if t, ok := d.genTx(avoid); ok {
			txs = append(txs, t)
			b.Txs = append(b.Txs, t.Bytes)
			desc += " | " + t.Desc
		}
	}
	return b, txs, injects, desc
}

func applyInject(n *chain.Node, in inject) {
	k := n.App.VerifNodesKeeper()
	ctx := n.Ctx()
	switch in.Kind {
	case "burn":
		k.BurnForChallenge(ctx, sdk.NewInt(in.Amount), in.Addr)
	case "reward":
		k.RewardForRelaysPerChain(ctx, in.Chain, sdk.NewInt(in.Amount), in.Addr)
	}
}

func applyUpdates(T map[string]int64, us []abci.ValidatorUpdate) map[string]int64 {
	out := map[string]int64{}
	for k, v := range T {
		out[k] = v
	}
	for _, u := range us {
		a := updAddr(u)
		if u.Power == 0 {
			delete(out, a)
		} else {
			out[a] = u.Power
		}
	}
	return out
}

func updAddr(u abci.ValidatorUpdate) string {
	pk, err := crypto.NewPublicKeyBz(u.PubKey.Data)
	if err != nil {
		return "badkey:" + hex.EncodeToString(u.PubKey.Data)
	}
	return hex.EncodeToString(pk.Address())
}

// runStep executes one block on n step by step, taking the snapshots.
func runStep(n *chain.Node, pre *posview.View, T map[string]int64, b chain.Block, txs []txRec, injects []inject, dispatch func() []sessRec) *stepRec {
	st := &stepRec{H: n.Height + 1, Blk: b, Injects: injects, Pre: pre, TPre: T}
	n.BeginBlock(b)
	st.Time = n.Time
	st.AfterBegin = posview.Read(n)
	st.Mid = st.AfterBegin
	for _, in := range injects {
		applyInject(n, in)
		v := posview.Read(n)
		st.AfterInj = append(st.AfterInj, v)
		st.Mid = v
	}
	for _, t := range txs {
		r := n.DeliverTx(t.Bytes)
		t.Code, t.Space = r.Code, r.Codespace
		st.Txs = append(st.Txs, t)
	}
	eb := n.EndBlock()
	st.Res = n.Commit(eb)
	st.Post = posview.Read(n)
	st.TPost = applyUpdates(T, st.Res.ValUpdates)
	if dispatch != nil {
		st.Sessions = dispatch()
	}
	return st
}

// dispatchAll asks the real dispatch entry point for the session of every genesis application on every chain.
func (d *director) dispatchAll() []sessRec {
	var out []sessRec
	for _, ak := range d.w.Apps {
		for _, ch := range chain.Chains {
			nodes := func() (ns []sdk.Address) {
				defer func() {
					if r := recover(); r != nil {
						ns = nil
					}
				}()
				res, err := d.n.App.HandleDispatch(pocketTypes.SessionHeader{ApplicationPubKey: ak.PublicKey().RawString(), Chain: ch, SessionBlockHeight: 1})
				if err != nil || res == nil {
					return nil
				}
				for _, sn := range res.Session.SessionNodes {
					if sn != nil {
						ns = append(ns, sn.GetAddress())
					}
				}
				return ns
			}()
			if nodes != nil {
				out = append(out, sessRec{Chain: ch, Nodes: nodes})
			}
		}
	}
	return out
}

// step generates and runs the next block.
func (d *director) step() *stepRec {
	b, txs, injects, desc := d.genBlock()
	var disp func() []sessRec
	if d.k.dispatch {
		disp = d.dispatchAll
	}
	st := runStep(d.n, d.cur, d.T, b, txs, injects, disp)
	st.Desc = desc
	var codes []string
	for _, t := range st.Txs {
		codes = append(codes, fmt.Sprintf("%d", t.Code))
	}
	d.c.Opf("%s => codes[%s] updates=%d", desc, strings.Join(codes, ","), len(st.Res.ValUpdates))
	d.cur = st.Post
	d.T = st.TPost
	d.hist = append(d.hist, st)
	d.rememberJails(st)
	return st
}

// rememberJails keeps the generator's memory of who was jailed when, and of the deadline visible at that moment.
func (d *director) rememberJails(st *stepRec) {
	for a, q := range st.Post.ByAddr {
		if !q.Jailed {
			delete(d.jailedAtH, a)
			delete(d.jailDeadline, a)
			continue
		}
		if p, was := st.Pre.ByAddr[a]; was && p.Jailed {
			if _, ok := d.jailedAtH[a]; ok {
				continue
			}
		}
		d.jailedAtH[a] = st.H
		dl := st.AfterBegin.SignInfos[a].JailedUntil
		if x := st.Post.SignInfos[a].JailedUntil; x.After(dl) {
			dl = x
		}
		d.jailDeadline[a] = dl
	}
	for _, a := range sortedKeys(d.jailedAtH) {
		if _, ok := st.Post.ByAddr[a]; !ok {
			delete(d.jailedAtH, a)
			delete(d.jailDeadline, a)
		}
	}
}

// ---------------------------------------------------------------------------------------------
// event extraction from snapshots (used for class labels and non-trivial rules, and by the monitors)

type events struct {
	slashed      map[string]sdk.BigInt // stake removed in the BeginBlock/inject phase
	downtimeJail map[string]bool       // jailed during BeginBlock
	jailed       map[string]bool       // jailed anywhere in the block
	unjailed     map[string]bool
	newRecord    map[string]bool
	bumped       map[string]bool // stake increased in the tx phase
	chainsEdited map[string]bool
	leftStaked   map[string]bool // was Staked before the block, is not any more (or is gone)
	completed    map[string]bool // record disappeared
	belowMin     map[string]bool // slashed and below the minimum stake afterwards
	enteredWait  map[string]bool
}

func extract(st *stepRec) *events {
	e := &events{slashed: map[string]sdk.BigInt{}, downtimeJail: map[string]bool{}, jailed: map[string]bool{}, unjailed: map[string]bool{},
		newRecord: map[string]bool{}, bumped: map[string]bool{}, chainsEdited: map[string]bool{}, leftStaked: map[string]bool{},
		completed: map[string]bool{}, belowMin: map[string]bool{}, enteredWait: map[string]bool{}}
	for a, p := range st.Pre.ByAddr {
		m, okM := st.Mid.ByAddr[a]
		if okM && m.StakedTokens.LT(p.StakedTokens) {
			e.slashed[a] = p.StakedTokens.Sub(m.StakedTokens)
			if m.StakedTokens.LT(sdk.NewInt(st.Mid.Params.StakeMinimum)) {
				e.belowMin[a] = true
			}
		}
		if ab, ok := st.AfterBegin.ByAddr[a]; ok && ab.Jailed && !p.Jailed {
			e.downtimeJail[a] = true
		}
		q, okQ := st.Post.ByAddr[a]
		if !okQ {
			e.completed[a] = true
		}
		if p.Status == sdk.Staked && (!okQ || q.Status != sdk.Staked) {
			e.leftStaked[a] = true
		}
		if okQ && !p.Jailed && (q.Jailed || (okM && m.Jailed)) {
			e.jailed[a] = true
		}
		if okQ && okM && m.Jailed && !q.Jailed {
			e.unjailed[a] = true
		}
		if okQ && okM && q.StakedTokens.GT(m.StakedTokens) {
			e.bumped[a] = true
		}
		if okQ && strings.Join(q.Chains, ",") != strings.Join(p.Chains, ",") {
			e.chainsEdited[a] = true
		}
	}
	for a := range st.Post.ByAddr {
		if _, ok := st.Pre.ByAddr[a]; !ok {
			e.newRecord[a] = true
		}
	}
	for _, w := range st.Post.Waiting {
		if !st.Pre.IsWaiting(w.KeyAddr) {
			e.enteredWait[posview.Hex(w.KeyAddr)] = true
		}
	}
	return e
}

// histFlags accumulates what happened in a history (for labels).
type histFlags struct {
	slash, downtimeJail, unjail, completion, bump, forceWait, belowMin, leftStaked, newStake, evidenceSlash, burnSlash int
}

func (f *histFlags) add(st *stepRec, e *events) {
	f.slash += len(e.slashed)
	f.downtimeJail += len(e.downtimeJail)
	f.unjail += len(e.unjailed)
	f.completion += len(e.completed)
	f.bump += len(e.bumped)
	f.belowMin += len(e.belowMin)
	f.leftStaked += len(e.leftStaked)
	f.newStake += len(e.newRecord)
	for a := range e.enteredWait {
		ok := false
		for _, t := range st.Txs {
			if t.Kind == "unstake" && t.Code == 0 && posview.Hex(t.Target) == a {
				ok = true
			}
		}
		if !ok {
			f.forceWait++
		}
	}
	for a, p := range st.Pre.ByAddr {
		if ab, ok := st.AfterBegin.ByAddr[a]; ok && ab.StakedTokens.LT(p.StakedTokens) && !e.downtimeJail[a] {
			f.evidenceSlash++
		}
	}
	for i, v := range st.AfterInj {
		prev := st.AfterBegin
		if i > 0 {
			prev = st.AfterInj[i-1]
		}
		if v.Supply.LT(prev.Supply) {
			f.burnSlash++
		}
	}
}

func label(c *harness.Case, cond bool, l string) {
	if cond {
		c.Label(l)
	}
}

func (e *events) isSlashed(a string) bool { _, ok := e.slashed[a]; return ok }
