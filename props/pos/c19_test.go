package pos

import (
	"testing"

	"pgregory.net/rapid"

	"verif/harness"
)

// C19: balance(node staking pool) == sum of StakedTokens over records that are Staked or Unstaking, at every
// committed height.

func c19Knobs() knobs {
	return knobs{eras: eraPastOnly, minBlocks: 14, maxBlocks: 34, wStake: 3, wEdit: 4, wUnstake: 4, wUnjail: 3, wParam: 2, wNoise: 2, maxTxs: 4,
		pEvidence: 15, pBurn: 20, pReward: 15, pVictimAbsent: 85, params: []string{"pos/MaxValidators", "pos/StakeMinimum", "pos/MaxJailedBlocks"}, bigSlash: true}
}

func TestC19(t *testing.T) {
	harness.Check(t, "C19",
		"real app in the chain simulator, 14-34 generated blocks per history from a state-aware director: node stake / edit-stake (bump) / begin-unstake / unjail "+
			"txs by operator, output or stranger, gov changes of StakeMinimum / MaxValidators / MaxJailedBlocks, absent votes of 1-2 victim validators (downtime slash + jail), "+
			"duplicate-vote evidence, BurnForChallenge and RewardForRelaysPerChain called inside blocks as the proof handler calls them, time steps aimed at maturities; "+
			"oracle: after every commit the raw pool account balance equals the sum over raw records (Staked or Unstaking) of StakedTokens. "+
			"non-trivial = history with at least one slash or burn AND at least one completed unstake (record paid out and removed)",
		map[string]float64{"slash": 0.5, "unstake-complete": 0.4, "edit-bump": 0.3, "challenge-burn": 0.3, "reward-mint": 0.5, "downtime-jail": 0.3, "forced-unstake": 0.15, "slash-while-unstaking": 0.05},
		func(rt *rapid.T, c *harness.Case) {
			d := newDirector(rt, c, c19Knobs())
			nb := rapid.IntRange(d.k.minBlocks, d.k.maxBlocks).Draw(rt, "blocks")
			var f histFlags
			slashUnstaking := false
			rewards := 0
			for i := 0; i < nb; i++ {
				st := d.step()
				e := extract(st)
				f.add(st, e)
				for a := range e.slashed {
					if r, ok := st.Pre.ByAddr[a]; ok && r.Status != 2 {
						slashUnstaking = true
					}
				}
				for _, in := range st.Injects {
					if in.Kind == "reward" {
						rewards++
					}
				}
				sum := st.Post.SumStaked()
				if !st.Post.StakedPool.Equal(sum) {
					if !c.Violation("C19/commit/pool-differs-from-sum-of-stakes", "height %d: node staking pool holds %s but staked+unstaking records sum to %s (diff %s); block: %s; state: %s",
						st.H, st.Post.StakedPool, sum, st.Post.StakedPool.Sub(sum), st.Desc, st.Post.Describe()) {
						return
					}
				}
				c.AddExtra("commits_checked", 1)
			}
			label(c, f.slash > 0, "slash")
			label(c, f.completion > 0, "unstake-complete")
			label(c, f.bump > 0, "edit-bump")
			label(c, f.burnSlash > 0, "challenge-burn")
			label(c, rewards > 0, "reward-mint")
			label(c, f.downtimeJail > 0, "downtime-jail")
			label(c, f.evidenceSlash > 0, "evidence-slash")
			label(c, f.forceWait > 0, "forced-unstake")
			label(c, f.belowMin > 0, "slash-below-minimum")
			label(c, slashUnstaking, "slash-while-unstaking")
			label(c, f.unjail > 0, "unjail")
			label(c, f.newStake > 0, "new-stake")
			if f.slash > 0 && f.completion > 0 {
				c.NonTrivial()
			}
		})
}
