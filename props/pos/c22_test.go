package pos

import (
	"fmt"
	"testing"

	"pgregory.net/rapid"

	sdk "github.com/pokt-network/pocket-core/types"

	"verif/harness"
	"verif/harness/posview"
)

// C22: applying every block's validator updates to the previously reported consensus set yields exactly the
// top staked, unjailed nodes (at most MaxValidators), each with its current power; leavers are reported with power 0.

func c22Knobs() knobs {
	return knobs{eras: eraPastOnly, minBlocks: 14, maxBlocks: 34, wStake: 5, wEdit: 5, wUnstake: 3, wUnjail: 3, wParam: 4, wNoise: 1, maxTxs: 4,
		pEvidence: 20, pBurn: 20, pReward: 0, pVictimAbsent: 85, params: []string{"pos/MaxValidators", "pos/MaxValidators", "pos/MaxValidators", "pos/StakeMinimum", "pos/MaxJailedBlocks"},
		bigSlash: true}
}

// checkConsensusSet judges one block. prevT/newT: the consensus set before/after applying the block's updates.
func checkConsensusSet(c *harness.Case, st *stepRec) {
	v := st.Post
	where := fmt.Sprintf("height %d (%s)", st.H, st.Desc)
	// the updates themselves must be applicable to the previous set
	seen := map[string]bool{}
	for _, u := range st.Res.ValUpdates {
		a := updAddr(u)
		if seen[a] {
			c.Violation("C22/updates/duplicate-validator", "%s: validator %s appears twice in the updates %v", where, a[:8], st.Res.ValUpdates)
		}
		seen[a] = true
		if _, member := st.TPre[a]; u.Power == 0 && !member {
			c.Violation("C22/updates/removal-of-non-member", "%s: update removes %s which is not in the reported set %v", where, a[:8], st.TPre)
		}
		if u.Power < 0 {
			c.Violation("C22/updates/negative-power", "%s: update for %s has power %d", where, a[:8], u.Power)
		}
	}
	// S = staked, unjailed nodes with positive power
	S := map[string]int64{}
	for _, r := range v.Validators {
		if r.Status == sdk.Staked && !r.Jailed && posview.Power(r) > 0 {
			S[posview.Hex(r.Address)] = posview.Power(r)
		}
	}
	N := v.Params.MaxValidators
	T := st.TPost
	minT := int64(-1)
	for _, a := range sortedKeys(T) {
		p, ok := S[a]
		if !ok {
			r, found := v.ByAddr[a]
			c.Violation("C22/set/member-not-staked-unjailed", "%s: %s stays in the reported consensus set with power %d but is not a staked unjailed node (record found=%v status=%d jailed=%v tokens=%s); updates=%v; %s",
				where, a[:8], T[a], found, r.Status, r.Jailed, r.StakedTokens, describeUpdates(st), v.Describe())
			continue
		}
		if p != T[a] {
			c.Violation("C22/set/stale-power", "%s: %s is reported with power %d but its current power is %d; updates=%v; %s", where, a[:8], T[a], p, describeUpdates(st), v.Describe())
		}
		if minT < 0 || T[a] < minT {
			minT = T[a]
		}
	}
	want := int64(len(S))
	if N < want {
		want = N
	}
	if int64(len(T)) != want {
		sig := "C22/set/more-than-max-validators"
		if int64(len(T)) < want {
			sig = "C22/set/fewer-than-available"
		}
		c.Violation(sig, "%s: reported consensus set has %d members, expected min(MaxValidators=%d, staked unjailed=%d); set=%v updates=%v; %s", where, len(T), N, len(S), T, describeUpdates(st), v.Describe())
	}
	for a, p := range S {
		if _, in := T[a]; !in && minT >= 0 && p > minT {
			c.Violation("C22/set/not-the-top", "%s: %s (power %d) is outside the reported set although a member has only power %d; set=%v; %s", where, a[:8], p, minT, T, v.Describe())
		}
	}
	// the module's own record of what it reported must be the reported set
	if fmt.Sprint(mapStr(v.PrevPower)) != fmt.Sprint(mapStr(T)) {
		c.Violation("C22/prevstate/differs-from-reported-set", "%s: stored previous-state powers %v differ from the set reported through the updates %v", where, mapStr(v.PrevPower), mapStr(T))
	}
}

func mapStr(m map[string]int64) []string {
	var out []string
	for _, k := range sortedKeys(m) {
		out = append(out, fmt.Sprintf("%s:%d", k[:8], m[k]))
	}
	return out
}

func describeUpdates(st *stepRec) []string {
	var out []string
	for _, u := range st.Res.ValUpdates {
		out = append(out, fmt.Sprintf("%s:%d", updAddr(u)[:8], u.Power))
	}
	return out
}

func TestC22(t *testing.T) {
	harness.Check(t, "C22",
		"real app in the chain simulator, 14-34 generated blocks per history (director biased to new stakes that displace members, edit-stake bumps, slashes that reorder, "+
			"jailing/unjailing, unstaking, gov changes of pos/MaxValidators 1..6 up and down); the harness applies every ResponseEndBlock.ValidatorUpdates to the set reported so far (T) and "+
			"requires after every block: T ⊆ staked∧unjailed∧power>0 nodes with their CURRENT power (raw records), |T| = min(MaxValidators, |S|), min power in T ≥ max power outside "+
			"(ties either way), no duplicate / non-member removal in the updates, stored prev-state powers == T. "+
			"non-trivial = history with a block where membership of T changes for a reason other than a node's first stake (jail, unjail, unstake, displacement, MaxValidators change)",
		map[string]float64{"member-left": 0.6, "displaced-by-max-validators": 0.25, "max-validators-lowered": 0.3, "max-validators-raised": 0.25, "power-changed-in-place": 0.5,
			"member-joined-not-first-stake": 0.3, "tie-at-boundary": 0.02},
		func(rt *rapid.T, c *harness.Case) {
			d := newDirector(rt, c, c22Knobs())
			nb := rapid.IntRange(d.k.minBlocks, d.k.maxBlocks).Draw(rt, "blocks")
			for i := 0; i < nb; i++ {
				st := d.step()
				e := extract(st)
				checkConsensusSet(c, st)
				c.AddExtra("blocks_checked", 1)
				// classes
				if st.Post.Params.MaxValidators < st.Pre.Params.MaxValidators {
					c.Label("max-validators-lowered")
				}
				if st.Post.Params.MaxValidators > st.Pre.Params.MaxValidators {
					c.Label("max-validators-raised")
				}
				for a, p := range st.TPre {
					q, in := st.TPost[a]
					if !in {
						c.Label("member-left")
						c.NonTrivial()
						if r, ok := st.Post.ByAddr[a]; ok && r.Status == sdk.Staked && !r.Jailed {
							c.Label("displaced-by-max-validators")
						}
					} else if p != q {
						c.Label("power-changed-in-place")
					}
				}
				for a := range st.TPost {
					if _, in := st.TPre[a]; !in && !e.newRecord[a] {
						c.Label("member-joined-not-first-stake")
						c.NonTrivial()
					}
				}
				// tie at the boundary: an outsider with the same power as the weakest member
				minT := int64(-1)
				for _, p := range st.TPost {
					if minT < 0 || p < minT {
						minT = p
					}
				}
				for _, r := range st.Post.Validators {
					if _, in := st.TPost[posview.Hex(r.Address)]; !in && r.Status == sdk.Staked && !r.Jailed && posview.Power(r) == minT {
						c.Label("tie-at-boundary")
					}
				}
			}
		})
}
