package store

import (
	"bytes"
	"fmt"
	"testing"

	"github.com/pokt-network/pocket-core/store/cachekv"
	"github.com/pokt-network/pocket-core/store/dbadapter"
	stypes "github.com/pokt-network/pocket-core/store/types"
	dbm "github.com/tendermint/tm-db"
	"pgregory.net/rapid"

	"verif/harness"
	"verif/harness/kv"
)

// C01: a cache-wrapped KV store is an exact overlay of its parent.

type c01Entry struct {
	val     []byte
	deleted bool
}

type c01OpenIter struct {
	level    int
	it       stypes.Iterator
	expect   []kv.Pair
	pos      int
	desc     string
	writesAt int // number of writes performed when opened
}

type c01Machine struct {
	c        *harness.Case
	base     stypes.KVStore
	baseM    kv.Model
	levels   []*cachekv.Store
	overlays []map[string]c01Entry
	iters    []*c01OpenIter
	writes   int
	// tracking for the non-trivial rule
	shadowed map[string]bool // keys deleted or overwritten in some cache level
}

func (m *c01Machine) view(level int) kv.Model {
	v := m.baseM.Clone()
	for i := 0; i < level; i++ {
		for k, e := range m.overlays[i] {
			if e.deleted {
				delete(v, k)
			} else {
				v[k] = e.val
			}
		}
	}
	return v
}

func (m *c01Machine) store(level int) stypes.KVStore {
	if level == 0 {
		return m.base
	}
	return m.levels[level-1]
}

func (m *c01Machine) top() int { return len(m.levels) }

func (m *c01Machine) checkScan(level int, start, end []byte, reverse bool, where string) {
	st := m.store(level)
	var it stypes.Iterator
	if reverse {
		it, _ = st.ReverseIterator(start, end)
	} else {
		it, _ = st.Iterator(start, end)
	}
	got := kv.Drain(it, 10000)
	want := m.view(level).Range(start, end, reverse)
	if !kv.EqualPairs(got, want) {
		m.c.Violation("C01/iterate/listing-differs-from-overlay",
			"%s: level %d range [%x,%x) reverse=%v: got %s want %s", where, level, start, end, reverse, kv.Render(got), kv.Render(want))
	}
}

func TestC01(t *testing.T) {
	harness.Check(t, "C01",
		"rapid state machine over a stack of 1-3 nested cachekv stores on a dbadapter/MemDB base (keys 1-3 bytes from {a,b,c,d,00,ff}); "+
			"ops get/has/set/delete/iterate/reverse-iterate/open-iterator-then-write-then-step/write/discard/push; oracle = map overlay per level. "+
			"non-trivial = history with an iteration (full or stepped) whose range contains a key deleted or overwritten in a cache level",
		map[string]float64{"iterate-with-open-writes": 0.2, "delete-then-reset": 0.1, "nested>=2": 0.3, "write": 0.3, "discard": 0.15},
		func(rt *rapid.T, c *harness.Case) {
			db := dbm.NewMemDB()
			m := &c01Machine{c: c, base: dbadapter.Store{DB: db}, baseM: kv.Model{}, shadowed: map[string]bool{}}
			n := rapid.IntRange(0, 12).Draw(rt, "preload")
			for i := 0; i < n; i++ {
				k, v := kv.SmallKey().Draw(rt, "pk"), kv.Value().Draw(rt, "pv")
				_ = db.Set(k, v)
				m.baseM[string(k)] = v
				c.Opf("preload %x=%x", k, v)
			}
			m.push()
			deleted := map[string]bool{}
			defer func() {
				for _, oi := range m.iters {
					oi.it.Close()
				}
			}()
			rt.Repeat(map[string]func(*rapid.T){
				"set": func(rt *rapid.T) {
					k, v := kv.SmallKey().Draw(rt, "k"), kv.Value().Draw(rt, "v")
					c.Opf("set L%d %x=%x", m.top(), k, v)
					_ = m.levels[m.top()-1].Set(k, v)
					m.overlays[m.top()-1][string(k)] = c01Entry{val: v}
					m.writes++
					if deleted[string(k)] {
						c.Label("delete-then-reset")
					}
					if _, ok := m.view(m.top() - 1)[string(k)]; ok {
						m.shadowed[string(k)] = true
					}
					m.noteOpenWrites()
				},
				"delete": func(rt *rapid.T) {
					k := m.drawKeyBiased(rt)
					c.Opf("delete L%d %x", m.top(), k)
					_ = m.levels[m.top()-1].Delete(k)
					m.overlays[m.top()-1][string(k)] = c01Entry{deleted: true}
					m.writes++
					deleted[string(k)] = true
					m.shadowed[string(k)] = true
					m.noteOpenWrites()
				},
				"get": func(rt *rapid.T) {
					lvl := rapid.IntRange(0, m.top()).Draw(rt, "lvl")
					k := m.drawKeyBiased(rt)
					c.Opf("get L%d %x", lvl, k)
					got, _ := m.store(lvl).Get(k)
					want, ok := m.view(lvl)[string(k)]
					if ok != (got != nil) || !bytes.Equal(got, want) {
						c.Violation("C01/get/value-differs-from-overlay", "get level %d key %x: got %x (nil=%v) want %x (present=%v)", lvl, k, got, got == nil, want, ok)
					}
					has, _ := m.store(lvl).Has(k)
					if has != ok {
						c.Violation("C01/has/differs-from-overlay", "has level %d key %x: got %v want %v", lvl, k, has, ok)
					}
				},
				"iterate": func(rt *rapid.T) {
					lvl := rapid.IntRange(0, m.top()).Draw(rt, "lvl")
					b := kv.Bounds(kv.SmallKey()).Draw(rt, "bounds")
					rev := rapid.Bool().Draw(rt, "rev")
					c.Opf("iterate L%d [%x,%x) rev=%v", lvl, b[0], b[1], rev)
					if rev {
						c.Label("reverse")
					}
					if b[0] != nil || b[1] != nil {
						c.Label("bounded-range")
					}
					m.noteRange(lvl, b[0], b[1])
					m.checkScan(lvl, b[0], b[1], rev, "iterate")
				},
				"openIter": func(rt *rapid.T) {
					if len(m.iters) >= 3 {
						rt.Skip("too many open iterators")
					}
					lvl := rapid.IntRange(1, m.top()).Draw(rt, "lvl")
					b := kv.Bounds(kv.SmallKey()).Draw(rt, "bounds")
					rev := rapid.Bool().Draw(rt, "rev")
					c.Opf("openIter L%d [%x,%x) rev=%v", lvl, b[0], b[1], rev)
					var it stypes.Iterator
					if rev {
						it, _ = m.store(lvl).ReverseIterator(b[0], b[1])
					} else {
						it, _ = m.store(lvl).Iterator(b[0], b[1])
					}
					m.noteRange(lvl, b[0], b[1])
					m.iters = append(m.iters, &c01OpenIter{level: lvl, it: it, expect: m.view(lvl).Range(b[0], b[1], rev),
						desc: fmt.Sprintf("L%d [%x,%x) rev=%v", lvl, b[0], b[1], rev), writesAt: m.writes})
				},
				"stepIter": func(rt *rapid.T) {
					if len(m.iters) == 0 {
						rt.Skip("no open iterator")
					}
					i := rapid.IntRange(0, len(m.iters)-1).Draw(rt, "which")
					steps := rapid.IntRange(1, 6).Draw(rt, "steps")
					c.Opf("stepIter #%d x%d", i, steps)
					m.step(i, steps)
				},
				"closeIter": func(rt *rapid.T) {
					if len(m.iters) == 0 {
						rt.Skip("no open iterator")
					}
					i := rapid.IntRange(0, len(m.iters)-1).Draw(rt, "which")
					c.Opf("drainIter #%d", i)
					m.step(i, 1<<20)
				},
				"write": func(rt *rapid.T) {
					if len(m.iters) > 0 {
						rt.Skip("iterator open")
					}
					c.Opf("write L%d", m.top())
					c.Label("write")
					t := m.top()
					ov := m.overlays[t-1]
					m.levels[t-1].Write()
					if t == 1 {
						for k, e := range ov {
							if e.deleted {
								delete(m.baseM, k)
							} else {
								m.baseM[k] = e.val
							}
						}
					} else {
						for k, e := range ov {
							m.overlays[t-2][k] = e
						}
					}
					m.overlays[t-1] = map[string]c01Entry{}
					// the parent must now hold exactly the net changes
					m.checkScan(t-1, nil, nil, false, "after-write parent scan")
				},
				"discard": func(rt *rapid.T) {
					c.Opf("discard L%d", m.top())
					c.Label("discard")
					t := m.top()
					kept := m.iters[:0]
					for _, oi := range m.iters {
						if oi.level >= t {
							oi.it.Close()
						} else {
							kept = append(kept, oi)
						}
					}
					m.iters = kept
					m.levels = m.levels[:t-1]
					m.overlays = m.overlays[:t-1]
					m.checkScan(t-1, nil, nil, false, "after-discard parent scan")
					if m.top() == 0 {
						m.push()
					}
				},
				"push": func(rt *rapid.T) {
					if m.top() >= 3 {
						rt.Skip("max depth")
					}
					c.Opf("push")
					m.push()
				},
				"": func(rt *rapid.T) {
					for lvl := 0; lvl <= m.top(); lvl++ {
						m.checkScan(lvl, nil, nil, false, "invariant")
						m.checkScan(lvl, nil, nil, true, "invariant")
					}
				},
			})
		})
}

func (m *c01Machine) push() {
	var parent stypes.KVStore = m.base
	if m.top() > 0 {
		parent = m.levels[m.top()-1]
	}
	m.levels = append(m.levels, cachekv.NewStore(parent))
	m.overlays = append(m.overlays, map[string]c01Entry{})
	if m.top() >= 2 {
		m.c.Label("nested>=2")
	}
}

func (m *c01Machine) noteOpenWrites() {
	if len(m.iters) > 0 {
		m.c.Label("iterate-with-open-writes")
	}
}

// noteRange applies the non-trivial rule: the iterated range contains a key shadowed in a cache level.
func (m *c01Machine) noteRange(lvl int, start, end []byte) {
	if lvl == 0 {
		return
	}
	for k := range m.shadowed {
		if kv.InDomain([]byte(k), start, end) {
			m.c.NonTrivial()
			return
		}
	}
}

func (m *c01Machine) drawKeyBiased(rt *rapid.T) []byte {
	// prefer keys that exist somewhere, so deletes and gets hit
	all := m.view(m.top()).SortedKeys()
	if len(all) > 0 && rapid.IntRange(0, 3).Draw(rt, "existing") > 0 {
		return []byte(rapid.SampledFrom(all).Draw(rt, "ek"))
	}
	return kv.SmallKey().Draw(rt, "k")
}

func (m *c01Machine) step(i, steps int) {
	oi := m.iters[i]
	for s := 0; s < steps; s++ {
		valid := oi.it.Valid()
		if oi.pos >= len(oi.expect) {
			if valid {
				m.c.Violation("C01/open-iterator/extra-item", "iterator %s opened at write #%d yields extra key %x after %d expected items (now %d writes)",
					oi.desc, oi.writesAt, oi.it.Key(), len(oi.expect), m.writes)
			}
			break
		}
		if !valid {
			m.c.Violation("C01/open-iterator/ends-early", "iterator %s ended after %d of %d items: want next %s", oi.desc, oi.pos, len(oi.expect), oi.expect[oi.pos])
			break
		}
		k, v := oi.it.Key(), oi.it.Value()
		w := oi.expect[oi.pos]
		if !bytes.Equal(k, w.K) || !bytes.Equal(v, w.V) {
			m.c.Violation("C01/open-iterator/item-differs", "iterator %s item %d: got %x=%x want %s (opened at write #%d, now %d)", oi.desc, oi.pos, k, v, w, oi.writesAt, m.writes)
		}
		oi.it.Next()
		oi.pos++
	}
	if oi.pos >= len(oi.expect) && !oi.it.Valid() {
		oi.it.Close()
		m.iters = append(m.iters[:i], m.iters[i+1:]...)
	}
}
