// Package storeb holds the multistore-level (rootmulti) checks C04, C06, C07, C08, C09, C10.
// They share one block-history generator and one per-version map model (this file).
package storeb

import (
	"bytes"
	"fmt"
	"io"
	"log"
	"os"
	"path/filepath"
	"sort"
	"strings"
	"sync/atomic"
	"testing"

	"github.com/pokt-network/pocket-core/store"
	"github.com/pokt-network/pocket-core/store/rootmulti"
	stypes "github.com/pokt-network/pocket-core/store/types"
	dbm "github.com/tendermint/tm-db"
	"pgregory.net/rapid"

	"verif/harness"
	"verif/harness/kv"
)

const scanLimit = 5000

// ---------------------------------------------------------------- generated block histories

// wr is one generated write of a block.
type wr struct {
	st   int  // index into the persistent (or, when tr, the transient) store list
	tr   bool // write goes to a transient store
	del  bool
	k, v []byte
}

func (w wr) String() string {
	p := "s"
	if w.tr {
		p = "t"
	}
	if w.del {
		return fmt.Sprintf("%s%d del %x", p, w.st, w.k)
	}
	return fmt.Sprintf("%s%d set %x=%x", p, w.st, w.k, w.v)
}

// blk is one block: its writes are applied, then the multistore is committed.
type blk struct {
	ws []wr
	// viaCache: the writes go through CacheMultiStore()+Write() (the path a transaction takes) instead of
	// straight into the root stores (the path BeginBlock/EndBlock take).
	viaCache bool
}

func (b blk) String() string {
	s := make([]string, len(b.ws))
	for i, w := range b.ws {
		s[i] = w.String()
	}
	m := ""
	if b.viaCache {
		m = " via-cachemulti"
	}
	return fmt.Sprintf("{%s}%s", strings.Join(s, ", "), m)
}

// hist is a generated history together with its reference model: one map per substore per version.
type hist struct {
	names, tnames []string
	blocks        []blk        // blocks[i] produces version i+1
	snaps         [][]kv.Model // snaps[v][store] = contents committed at version v; snaps[0] is empty
	delIn         []bool       // delIn[v]: block v removed a key that existed
	changed       []map[string]bool
	uni           []map[string]bool // every key ever written or deleted, per store
}

func newHist(nStores, nTransient int) *hist {
	h := &hist{}
	for i := 0; i < nStores; i++ {
		h.names = append(h.names, fmt.Sprintf("st%d", i))
		h.uni = append(h.uni, map[string]bool{})
	}
	for i := 0; i < nTransient; i++ {
		h.tnames = append(h.tnames, fmt.Sprintf("tr%d", i))
	}
	h.snaps = [][]kv.Model{emptyModels(nStores)}
	h.delIn = []bool{false}
	h.changed = []map[string]bool{{}}
	return h
}

func emptyModels(n int) []kv.Model {
	m := make([]kv.Model, n)
	for i := range m {
		m[i] = kv.Model{}
	}
	return m
}

func cloneModels(ms []kv.Model) []kv.Model {
	out := make([]kv.Model, len(ms))
	for i, m := range ms {
		out[i] = m.Clone()
	}
	return out
}

func (h *hist) latest() int64 { return int64(len(h.blocks)) }

func ckey(st int, k []byte) string { return fmt.Sprintf("%d/%s", st, k) }

// key alphabet: 1-2 bytes out of 6 symbols = 42 possible keys per substore (substores stay small, and
// overwrites, deletes of present keys, adjacent keys and prefix-related keys are frequent).
var keyAlphabet = []byte{'a', 'b', 'c', 'd', 0x00, 0xff}

func keyGen() *rapid.Generator[[]byte] {
	return rapid.Custom(func(t *rapid.T) []byte {
		n := rapid.IntRange(1, 2).Draw(t, "klen")
		b := make([]byte, n)
		for i := range b {
			b[i] = rapid.SampledFrom(keyAlphabet).Draw(t, "kb")
		}
		return b
	})
}

// apply applies one write to the model; reports whether an existing key was removed and whether the
// store content changed.
func applyModel(ms []kv.Model, w wr) (removedExisting, changed bool) {
	if w.tr {
		return false, false
	}
	m := ms[w.st]
	old, had := m[string(w.k)]
	if w.del {
		if had {
			delete(m, string(w.k))
			return true, true
		}
		return false, false
	}
	m[string(w.k)] = append([]byte{}, w.v...)
	return false, !had || !bytes.Equal(old, w.v)
}

// genBlock draws the next block (biased towards keys that exist so that deletes and overwrites hit),
// appends it to the history and snapshots the model.
func (h *hist) genBlock(rt *rapid.T, maxWrites int) blk {
	b := h.drawBlock(rt, maxWrites)
	h.push(b, nil)
	return b
}

// drawBlock draws a block against the latest snapshot without appending it to the history.
func (h *hist) drawBlock(rt *rapid.T, maxWrites int) blk {
	cur := cloneModels(h.snaps[len(h.snaps)-1])
	n := rapid.IntRange(0, maxWrites).Draw(rt, "nwrites")
	b := blk{viaCache: rapid.IntRange(0, 3).Draw(rt, "viaCache") == 0}
	for i := 0; i < n; i++ {
		if len(h.tnames) > 0 && rapid.IntRange(0, 2).Draw(rt, "transient") == 0 {
			w := wr{tr: true, st: rapid.IntRange(0, len(h.tnames)-1).Draw(rt, "tst"), k: keyGen().Draw(rt, "tk")}
			if rapid.IntRange(0, 4).Draw(rt, "tdel") == 0 {
				w.del = true
			} else {
				w.v = kv.Value().Draw(rt, "tv")
			}
			b.ws = append(b.ws, w)
			continue
		}
		st := rapid.IntRange(0, len(h.names)-1).Draw(rt, "st")
		keys := cur[st].SortedKeys()
		kind := rapid.IntRange(0, 9).Draw(rt, "kind")
		var w wr
		switch {
		case kind < 3 && len(keys) > 0:
			w = wr{st: st, del: true, k: []byte(rapid.SampledFrom(keys).Draw(rt, "dk"))}
		case kind == 3:
			w = wr{st: st, del: true, k: keyGen().Draw(rt, "dk")}
		case kind < 6 && len(keys) > 0:
			w = wr{st: st, k: []byte(rapid.SampledFrom(keys).Draw(rt, "ok")), v: kv.Value().Draw(rt, "ov")}
		default:
			w = wr{st: st, k: keyGen().Draw(rt, "k"), v: kv.Value().Draw(rt, "v")}
		}
		b.ws = append(b.ws, w)
		applyModel(cur, w)
	}
	return b
}

// push appends a block whose effect on the model is computed here (cur = clone of the previous snapshot).
func (h *hist) push(b blk, cur []kv.Model) {
	if cur == nil {
		cur = cloneModels(h.snaps[len(h.snaps)-1])
	}
	del := false
	ch := map[string]bool{}
	for _, w := range b.ws {
		if !w.tr {
			h.uni[w.st][string(w.k)] = true
		}
		r, c := applyModel(cur, w)
		del = del || r
		if c {
			ch[ckey(w.st, w.k)] = true
		}
	}
	h.blocks = append(h.blocks, b)
	h.snaps = append(h.snaps, cur)
	h.delIn = append(h.delIn, del)
	h.changed = append(h.changed, ch)
}

// universe lists every key ever touched in a store plus keys never written (sorted).
func (h *hist) universe(st int) [][]byte {
	set := map[string]bool{"zz": true, "\x01": true, "a\x00\x00": true}
	for k := range h.uni[st] {
		set[k] = true
	}
	ks := make([]string, 0, len(set))
	for k := range set {
		ks = append(ks, k)
	}
	sort.Strings(ks)
	out := make([][]byte, len(ks))
	for i, k := range ks {
		out[i] = []byte(k)
	}
	return out
}

// changedAfter reports whether a key of store st inside [start,end) changed in a version in (from, to].
func (h *hist) changedAfter(st int, from, to int64, start, end []byte) bool {
	for v := from + 1; v <= to && v < int64(len(h.changed)); v++ {
		for ck := range h.changed[v] {
			var s int
			var k string
			i := strings.IndexByte(ck, '/')
			fmt.Sscanf(ck[:i], "%d", &s)
			k = ck[i+1:]
			if s == st && kv.InDomain([]byte(k), start, end) {
				return true
			}
		}
	}
	return false
}

// ---------------------------------------------------------------- a node = one rootmulti.Store on a DB

type nodeOpts struct {
	cache     bool  // the in-memory height cache (pocket-core --useCache)
	iavlCache int64 // IAVL node cache size (config IavlCacheSize; <=0 means the default)
}

type node struct {
	db    dbm.DB
	ms    *rootmulti.Store
	keys  []*stypes.KVStoreKey
	tkeys []*stypes.TransientStoreKey
}

// mountNode builds the multistore exactly as baseapp.NewBaseApp + MountKVStores/MountTransientStores do
// (NewCommitMultiStore, SetPruning(PruneNothing) as app/config.go passes it, MountStoreWithDB(key, typ, nil))
// without loading it.
func mountNode(db dbm.DB, o nodeOpts, names, tnames []string) *node {
	cms := store.NewCommitMultiStore(db, o.cache, o.iavlCache)
	cms.SetPruning(store.PruneNothing)
	n := &node{db: db, ms: cms.(*rootmulti.Store)}
	for _, name := range names {
		k := stypes.NewKVStoreKey(name)
		n.keys = append(n.keys, k)
		cms.MountStoreWithDB(k, stypes.StoreTypeIAVL, nil)
	}
	for _, name := range tnames {
		k := stypes.NewTransientStoreKey(name)
		n.tkeys = append(n.tkeys, k)
		cms.MountStoreWithDB(k, stypes.StoreTypeTransient, nil)
	}
	return n
}

// openNode = mount + LoadLatestVersion (what every start of the application does). Panics of the code
// under test are returned as errors.
func openNode(db dbm.DB, o nodeOpts, names, tnames []string) (n *node, err error) {
	n = mountNode(db, o, names, tnames)
	if p := try(func() { err = n.ms.LoadLatestVersion() }); p != nil {
		return nil, fmt.Errorf("panic: %v", p)
	}
	return n, err
}

// apply performs the writes of a block (not the commit).
func (n *node) apply(b blk) {
	var ms stypes.MultiStore = n.ms
	var cms stypes.CacheMultiStore
	if b.viaCache {
		cms = n.ms.CacheMultiStore()
		ms = cms
	}
	for _, w := range b.ws {
		var key stypes.StoreKey
		if w.tr {
			if w.st >= len(n.tkeys) {
				continue // this node has no transient stores mounted
			}
			key = n.tkeys[w.st]
		} else {
			key = n.keys[w.st]
		}
		s := ms.GetKVStore(key)
		if w.del {
			_ = s.Delete(w.k)
		} else {
			_ = s.Set(w.k, w.v)
		}
	}
	if cms != nil {
		cms.Write()
	}
}

func (n *node) commit() stypes.CommitID { return n.ms.Commit() }

func (n *node) run(b blk) stypes.CommitID {
	n.apply(b)
	return n.commit()
}

// kvOf returns the working substore st of the node.
func (n *node) kvOf(st int) stypes.KVStore { return n.ms.GetKVStore(n.keys[st]) }

// lazyView opens the multistore at a past height the way ctx.PrevCtx and baseapp.handleQueryCustom do.
func (n *node) lazyView(h int64) (v *rootmulti.Store, err error) {
	if p := try(func() {
		var s *stypes.Store
		s, err = n.ms.LoadLazyVersion(h)
		if err == nil {
			v = (*s).(*rootmulti.Store)
		}
	}); p != nil {
		return nil, fmt.Errorf("panic: %v", p)
	}
	return v, err
}

func idStr(id stypes.CommitID) string { return fmt.Sprintf("{v%d %X}", id.Version, id.Hash) }

func sameID(a, b stypes.CommitID) bool { return a.Version == b.Version && bytes.Equal(a.Hash, b.Hash) }

// refRun executes the whole history on a fresh in-memory node that is never reopened and returns the
// commit id of every version (index 0 = zero id).
func refRun(h *hist, o nodeOpts) []stypes.CommitID {
	n, err := openNode(dbm.NewMemDB(), o, h.names, h.tnames)
	if err != nil {
		panic(err)
	}
	ids := []stypes.CommitID{{}}
	for _, b := range h.blocks {
		ids = append(ids, n.run(b))
	}
	return ids
}

// ---------------------------------------------------------------- guarded reads and model comparison

// try runs f (code under test only, never harness/rapid calls) and returns a recovered panic value.
func try(f func()) (p any) {
	defer func() {
		if r := recover(); r != nil {
			p = r
		}
	}()
	f()
	return nil
}

func scan(s stypes.KVStore, start, end []byte, rev bool) (out []kv.Pair, p any) {
	p = try(func() {
		var it stypes.Iterator
		if rev {
			it, _ = s.ReverseIterator(start, end)
		} else {
			it, _ = s.Iterator(start, end)
		}
		out = kv.Drain(it, scanLimit)
	})
	return
}

func get(s stypes.KVStore, k []byte) (v []byte, has bool, p any) {
	p = try(func() {
		v, _ = s.Get(k)
		has, _ = s.Has(k)
	})
	return
}

// checker compares substores with the map model; every mismatch is a violation "<prop>/<site>/<what>".
type checker struct {
	c     *harness.Case
	prop  string
	reads int
}

func (ck *checker) sig(site, what string) string { return ck.prop + "/" + site + "/" + what }

// contents checks one substore completely: forward scan, reverse scan, Get and Has of every key of the
// universe (present and absent). A panic of the code under test on such a read is a violation because the
// model says the read must succeed.
func (ck *checker) contents(site, where string, s stypes.KVStore, m kv.Model, universe [][]byte) {
	// Point reads first: they run on this goroutine, so a panic of the code under test (e.g. "Value missing for
	// hash") is recovered and reported. The IAVL iterator walks the tree on its own goroutine, where such a panic
	// would kill the process; the Gets of all present keys visit every node of the tree beforehand.
	for _, k := range universe {
		got, has, p := get(s, k)
		ck.reads++
		if p != nil {
			ck.c.Violation(ck.sig(site, "read-panics"), "%s: get/has %x panicked: %v", where, k, p)
			return
		}
		want, ok := m[string(k)]
		if ok != (got != nil) || !bytes.Equal(got, want) {
			ck.c.Violation(ck.sig(site, "get-differs-from-model"), "%s: get %x: got %x (nil=%v) want %x (present=%v)", where, k, got, got == nil, want, ok)
		}
		if has != ok {
			ck.c.Violation(ck.sig(site, "has-differs-from-model"), "%s: has %x: got %v want %v", where, k, has, ok)
		}
	}
	for _, rev := range []bool{false, true} {
		got, p := scan(s, nil, nil, rev)
		ck.reads++
		if p != nil {
			ck.c.Violation(ck.sig(site, "read-panics"), "%s: full scan rev=%v panicked: %v", where, rev, p)
			continue
		}
		want := m.Range(nil, nil, rev)
		if !kv.EqualPairs(got, want) {
			ck.c.Violation(ck.sig(site, "scan-differs-from-model"), "%s: full scan rev=%v: got %s want %s", where, rev, kv.Render(got), kv.Render(want))
		}
	}
}

// multistore checks every persistent substore obtained through getKV against models[st].
func (ck *checker) multistore(site, where string, h *hist, getKV func(st int) stypes.KVStore, models []kv.Model) {
	for st := range h.names {
		var s stypes.KVStore
		if p := try(func() { s = getKV(st) }); p != nil || s == nil {
			ck.c.Violation(ck.sig(site, "read-panics"), "%s: substore %s not available: %v", where, h.names[st], p)
			continue
		}
		ck.contents(site, fmt.Sprintf("%s store %s", where, h.names[st]), s, models[st], h.universe(st))
	}
}

// ---------------------------------------------------------------- on-disk databases

var dirSeq int64

// newLevelDB opens a GoLevelDB in a fresh directory under $VERIF_WORK; reopen closes and opens it again.
type diskDB struct {
	dir string
	db  dbm.DB
}

func newDiskDB() (*diskDB, error) {
	base := os.Getenv("VERIF_WORK")
	if base == "" {
		base = os.TempDir()
	}
	dir := filepath.Join(base, fmt.Sprintf("ldb-%d-%d", os.Getpid(), atomic.AddInt64(&dirSeq, 1)))
	if err := os.MkdirAll(dir, 0o755); err != nil {
		return nil, err
	}
	db, err := dbm.NewGoLevelDB("app", dir)
	if err != nil {
		return nil, err
	}
	return &diskDB{dir: dir, db: db}, nil
}

func (d *diskDB) reopen() error {
	_ = d.db.Close()
	db, err := dbm.NewGoLevelDB("app", d.dir)
	if err != nil {
		return err
	}
	d.db = db
	return nil
}

func (d *diskDB) destroy() {
	_ = d.db.Close()
	_ = os.RemoveAll(d.dir)
}

// drawOpts draws node options. The IAVL node cache size is a configuration value; tiny sizes force node
// reads from the database (decode path), the default keeps everything in memory.
func drawOpts(rt *rapid.T, label string, cache bool) nodeOpts {
	return nodeOpts{cache: cache, iavlCache: rapid.SampledFrom([]int64{0, 1, 3, 50, 5000000}).Draw(rt, label)}
}

// TestMain silences the standard logger: rootmulti prints "Warming up cache ..." on every load with the height
// cache enabled, which would flood the shard logs.
func TestMain(m *testing.M) {
	log.SetOutput(io.Discard)
	os.Exit(m.Run())
}
