package storeb

import (
	"fmt"
	"testing"

	"github.com/pokt-network/pocket-core/store/iavl"
	stypes "github.com/pokt-network/pocket-core/store/types"
	dbm "github.com/tendermint/tm-db"
	"pgregory.net/rapid"

	"verif/harness"
)

// C04: the contents and root hash of every saved version are reproduced exactly after closing and reopening
// the database; two nodes applying the same writes and commits obtain identical root hashes.
func TestC04(t *testing.T) {
	harness.Check(t, "C04",
		"block histories (2-14 blocks of 0-8 set/delete on 2-4 IAVL substores of a rootmulti.Store built as baseapp builds it, "+
			"writes direct or through CacheMultiStore().Write(), keys 1-2 bytes from {a,b,c,d,00,ff}); after generated blocks the node is "+
			"closed and reopened (new rootmulti.Store + new IAVL node caches over the same DB, LoadLatestVersion; also LoadVersion(v) of a "+
			"retained v on a separate instance); DB = MemDB, or GoLevelDB with a real close/open for ~6% of cases; IAVL node cache size "+
			"drawn from {default,1,3,50}. Oracle: a never-reopened replica on another MemDB fed the same blocks (CommitIDs and per-substore "+
			"commit ids equal after every commit = the two-nodes clause) and the per-version map model (LastCommitID, full scans both "+
			"directions, Get/Has of every key ever used, at the latest version and at lazily loaded past versions after reopening). "+
			"non-trivial = at least one reopen after a version whose block deleted an existing key, followed by at least one further commit",
		map[string]float64{"reopen-latest": 0.5, "reopen-after-delete": 0.3, "load-older-version": 0.2, "empty-block": 0.15, "via-cachemulti": 0.3},
		func(rt *rapid.T, c *harness.Case) {
			nStores := rapid.IntRange(2, 4).Draw(rt, "nStores")
			h := newHist(nStores, 0)
			o := drawOpts(rt, "iavlCache", false)
			onDisk := rapid.IntRange(0, 15).Draw(rt, "onDisk") == 7
			c.Opf("stores=%d iavlCache=%d disk=%v", nStores, o.iavlCache, onDisk)
			ck := &checker{c: c, prop: "C04"}

			var disk *diskDB
			var db dbm.DB = dbm.NewMemDB()
			if onDisk {
				var err error
				if disk, err = newDiskDB(); err != nil {
					rt.Fatalf("harness: cannot create leveldb: %v", err)
				}
				defer disk.destroy()
				db = disk.db
				c.Label("goleveldb")
			}
			nd, err := openNode(db, o, h.names, nil)
			if err != nil {
				rt.Fatalf("harness: first open failed: %v", err)
			}
			replica, err := openNode(dbm.NewMemDB(), nodeOpts{iavlCache: 0}, h.names, nil)
			if err != nil {
				rt.Fatalf("harness: replica open failed: %v", err)
			}
			ids := []stypes.CommitID{{}}
			reopenedAfterDelete := false // a reopen happened after a deleting version (waiting for a further commit)
			deleteSeen := false

			nBlocks := rapid.IntRange(2, 14).Draw(rt, "nBlocks")
			for bi := 0; bi < nBlocks; bi++ {
				b := h.genBlock(rt, 8)
				v := h.latest()
				c.Opf("block %d %s", v, b)
				if len(b.ws) == 0 {
					c.Label("empty-block")
				}
				if b.viaCache && len(b.ws) > 0 {
					c.Label("via-cachemulti")
				}
				var id, rid stypes.CommitID
				if p := try(func() { id = nd.run(b) }); p != nil {
					c.Violation("C04/commit/panics-after-reopen", "commit of version %d panicked: %v", v, p)
					return
				}
				rid = replica.run(b)
				ids = append(ids, rid)
				if !sameID(id, rid) {
					c.Violation("C04/replica/commit-id-differs", "version %d: reopened node %s, never-reopened replica %s", v, idStr(id), idStr(rid))
				}
				for st := range h.names {
					a := nd.ms.GetCommitStore(nd.keys[st]).LastCommitID()
					r := replica.ms.GetCommitStore(replica.keys[st]).LastCommitID()
					if !sameID(a, r) {
						c.Violation("C04/replica/substore-commit-id-differs", "version %d store %s: node %s replica %s", v, h.names[st], idStr(a), idStr(r))
					}
				}
				if reopenedAfterDelete {
					c.NonTrivial()
				}
				deleteSeen = deleteSeen || h.delIn[v]

				// reopen?
				if rapid.IntRange(0, 2).Draw(rt, "reopen") != 0 && bi != nBlocks-1 {
					continue
				}
				c.Opf("reopen at %d", v)
				c.Label("reopen-latest")
				if deleteSeen {
					c.Label("reopen-after-delete")
					reopenedAfterDelete = true
				}
				if disk != nil {
					if err := disk.reopen(); err != nil {
						rt.Fatalf("harness: leveldb reopen: %v", err)
					}
					db = disk.db
				}
				nd, err = openNode(db, o, h.names, nil)
				if err != nil {
					c.Violation("C04/reopen/load-latest-fails", "LoadLatestVersion after version %d: %v", v, err)
					return
				}
				if got := nd.ms.LastCommitID(); !sameID(got, ids[v]) {
					c.Violation("C04/reopen/last-commit-id-differs", "after reopen at %d: LastCommitID %s, committed %s", v, idStr(got), idStr(ids[v]))
				}
				for st := range h.names {
					a := nd.ms.GetCommitStore(nd.keys[st]).LastCommitID()
					r := replica.ms.GetCommitStore(replica.keys[st]).LastCommitID()
					if !sameID(a, r) {
						c.Violation("C04/reopen/substore-commit-id-differs", "after reopen at %d store %s: node %s replica %s", v, h.names[st], idStr(a), idStr(r))
					}
					if is, ok := nd.ms.GetCommitStore(nd.keys[st]).(*iavl.Store); ok {
						for pv := int64(1); pv <= v; pv++ {
							if !is.VersionExists(pv) {
								c.Violation("C04/reopen/saved-version-missing", "after reopen at %d store %s: VersionExists(%d)=false", v, h.names[st], pv)
							}
						}
					}
				}
				ck.multistore("reopen", fmt.Sprintf("after reopen at %d", v), h, nd.kvOf, h.snaps[v])

				// every retained version through a lazily loaded view of the reopened node
				if v > 1 {
					pv := rapid.Int64Range(1, v-1).Draw(rt, "pastView")
					c.Opf("lazy view %d", pv)
					view, err := nd.lazyView(pv)
					if err != nil {
						c.Violation("C04/reopen/past-version-not-loadable", "after reopen at %d: LoadLazyVersion(%d): %v", v, pv, err)
					} else {
						ck.multistore("reopen-past", fmt.Sprintf("after reopen at %d, lazy view %d", v, pv), h,
							func(st int) stypes.KVStore { return view.GetKVStore(nd.keys[st]) }, h.snaps[pv])
					}
					// the same past version read on the long-running, never-reopened replica: a saved version must read the same
					// before and after a restart (both equal to the model of that version)
					if rview, rerr := replica.lazyView(pv); rerr != nil {
						c.Violation("C04/replica/past-version-not-loadable", "never-reopened replica at %d: LoadLazyVersion(%d): %v", v, pv, rerr)
					} else {
						ck.multistore("replica-past", fmt.Sprintf("never-reopened replica at %d, lazy view %d", v, pv), h,
							func(st int) stypes.KVStore { return rview.GetKVStore(replica.keys[st]) }, h.snaps[pv])
					}
					// and LoadVersion(v') on a separate instance (reopening at a retained version)
					if rapid.Bool().Draw(rt, "loadOlder") {
						ov := rapid.Int64Range(1, v-1).Draw(rt, "olderVersion")
						c.Opf("LoadVersion %d", ov)
						c.Label("load-older-version")
						on := mountNode(db, o, h.names, nil)
						var lerr error
						if p := try(func() { lerr = on.ms.LoadVersion(ov) }); p != nil {
							lerr = fmt.Errorf("panic: %v", p)
						}
						if lerr != nil {
							c.Violation("C04/reopen/load-version-fails", "LoadVersion(%d) with latest %d: %v", ov, v, lerr)
						} else {
							if got := on.ms.LastCommitID(); !sameID(got, ids[ov]) {
								c.Violation("C04/reopen/load-version-commit-id-differs", "LoadVersion(%d): LastCommitID %s, committed %s", ov, idStr(got), idStr(ids[ov]))
							}
							ck.multistore("load-version", fmt.Sprintf("LoadVersion(%d) with latest %d", ov, v), h, on.kvOf, h.snaps[ov])
							// a node reopened at a retained version re-applies the following blocks (documented: "the next commit
							// after loading must be idempotent"): it must reproduce the original commit IDs, block after block
							if rapid.Bool().Draw(rt, "replayAfterLoadOlder") {
								c.Label("replay-after-load-older")
								for rv := ov + 1; rv <= v; rv++ {
									var rid stypes.CommitID
									if p := try(func() { rid = on.run(h.blocks[rv-1]) }); p != nil {
										c.Violation("C04/load-version/replay-panics", "LoadVersion(%d) with latest %d, re-applying block %d: panic %v", ov, v, rv, p)
										break
									}
									if !sameID(rid, ids[rv]) {
										c.Violation("C04/load-version/replay-commit-id-differs", "LoadVersion(%d) with latest %d, re-applied block %d: commit %s, originally %s", ov, v, rv, idStr(rid), idStr(ids[rv]))
										break
									}
								}
								ck.multistore("load-version-replayed", fmt.Sprintf("LoadVersion(%d) + replay to %d", ov, v), h, on.kvOf, h.snaps[v])
							}
						}
					}
				}
			}
			// epilogue (a third of the histories with >= 3 versions): an operator rolls the node back by one or more versions;
			// every version that is still saved afterwards must read back from disk exactly as it was committed
			if v := h.latest(); v >= 3 && rapid.SampledFrom([]int{0, 0, 1}).Draw(rt, "rollbackEpilogue") == 1 {
				target := rapid.Int64Range(1, v-1).Draw(rt, "rollbackTo")
				c.Opf("rollback to %d (latest %d), reopen, read every saved version", target, v)
				c.Label("rollback-then-reopen")
				if v-target >= 2 {
					c.Label("rollback-over-two-or-more-versions")
				}
				if disk != nil {
					if err := disk.reopen(); err != nil {
						rt.Fatalf("harness: leveldb reopen: %v", err)
					}
					db = disk.db
				}
				rb := mountNode(db, o, h.names, nil)
				var rerr error
				if p := try(func() { rerr = rb.ms.RollbackVersion(target) }); p != nil || rerr != nil {
					c.Violation("C04/rollback/fails", "RollbackVersion(%d) with latest %d: err=%v panic=%v", target, v, rerr, p)
					return
				}
				if disk != nil {
					if err := disk.reopen(); err != nil {
						rt.Fatalf("harness: leveldb reopen: %v", err)
					}
					db = disk.db
				}
				nd, err = openNode(db, o, h.names, nil)
				if err != nil {
					c.Violation("C04/rollback/load-latest-fails", "LoadLatestVersion after RollbackVersion(%d): %v", target, err)
					return
				}
				if got := nd.ms.LastCommitID(); !sameID(got, ids[target]) {
					c.Violation("C04/rollback/last-commit-id-differs", "after RollbackVersion(%d) and reopen: LastCommitID %s, committed %s", target, idStr(got), idStr(ids[target]))
				}
				ck.multistore("rollback-reopen", fmt.Sprintf("after RollbackVersion(%d) of %d and reopen", target, v), h, nd.kvOf, h.snaps[target])
				for pv := int64(1); pv <= target; pv++ {
					view, verr := nd.lazyView(pv)
					if verr != nil {
						c.Violation("C04/rollback/saved-version-not-loadable", "after RollbackVersion(%d) of %d and reopen: LoadLazyVersion(%d): %v", target, v, pv, verr)
						continue
					}
					ck.multistore("rollback-reopen-past", fmt.Sprintf("after RollbackVersion(%d) of %d and reopen, lazy view %d", target, v, pv), h,
						func(st int) stypes.KVStore { return view.GetKVStore(nd.keys[st]) }, h.snaps[pv])
				}
			}
			c.AddExtra("reads_compared", ck.reads)
		})
}
