package storeb

import (
	"bytes"
	"fmt"
	"strings"
	"testing"

	"github.com/pokt-network/pocket-core/store/rootmulti"
	stypes "github.com/pokt-network/pocket-core/store/types"
	dbm "github.com/tendermint/tm-db"
	"pgregory.net/rapid"

	"verif/harness"
	"verif/harness/kv"
)

type c10Range struct {
	start, end []byte
	rev        bool
}

type c10StaleView struct {
	h    int64
	a, b *rootmulti.Store
	at   int64
}

type c10 struct {
	c     *harness.Case
	h     *hist
	a, b  *node
	reads int
}

// served asks the cache object itself whether it answers for (store, height).
func (x *c10) served(st int, hv int64) bool {
	_, err := x.a.ms.Cache.GetSingleStoreCache(x.a.keys[st]).Get(hv, []byte("probe"))
	return err == nil
}

func stripEmptyKeys(ps []kv.Pair) (out []kv.Pair, n int) {
	for _, p := range ps {
		if len(p.K) == 0 {
			n++
			continue
		}
		out = append(out, p)
	}
	return
}

// compareGet: cache-on vs cache-off vs model for one key.
func (x *c10) compareGet(where string, sa, sb stypes.KVStore, m kv.Model, k []byte, served bool) {
	x.reads++
	ga, ha, pa := get(sa, k)
	gb, hb, pb := get(sb, k)
	want, present := m[string(k)]
	if pb != nil {
		x.c.Violation("C10/get/cache-off-read-panics", "%s get %x with the cache DISABLED panicked: %v", where, k, pb)
		return
	}
	if present != (gb != nil) || !bytes.Equal(gb, want) || hb != present {
		x.c.Violation("C10/get/cache-off-differs-from-model", "%s get %x with the cache disabled: got %x (nil=%v) has=%v, model %x (present=%v)", where, k, gb, gb == nil, hb, want, present)
		return
	}
	if pa != nil {
		x.c.Violation("C10/get/panics-with-cache-on", "%s get %x (cache serves height: %v) panicked: %v", where, k, served, pa)
		return
	}
	if ha != hb {
		x.c.Violation("C10/has/differs-with-cache-on", "%s has %x: cache on %v, cache off %v (cache serves height: %v)", where, k, ha, hb, served)
	}
	if (ga == nil) == (gb == nil) && bytes.Equal(ga, gb) {
		return
	}
	if !present && gb == nil && ga != nil && len(ga) == 0 {
		x.c.Violation("C10/get/absent-key-returns-empty-nonnil", "%s get of ABSENT key %x: cache on returns empty non-nil []byte{}, cache off returns nil (cache serves height: %v)", where, k, served)
		return
	}
	x.c.Violation("C10/get/value-differs-with-cache-on", "%s get %x: cache on %x (nil=%v), cache off %x (nil=%v), model present=%v (cache serves height: %v)", where, k, ga, ga == nil, gb, gb == nil, present, served)
}

// compareRange: cache-on vs cache-off vs model for one range iteration.
func (x *c10) compareRange(where string, sa, sb stypes.KVStore, m kv.Model, r c10Range, served bool) {
	x.reads++
	site := "iterate"
	if r.rev {
		site = "reverse-iterate"
	}
	desc := fmt.Sprintf("%s [%x,%x) rev=%v (start nil=%v, end nil=%v; cache serves height: %v)", where, r.start, r.end, r.rev, r.start == nil, r.end == nil, served)
	want := m.Range(r.start, r.end, r.rev)
	gb, pb := scan(sb, r.start, r.end, r.rev)
	if pb != nil {
		x.c.Violation("C10/"+site+"/cache-off-read-panics", "%s with the cache DISABLED panicked: %v", desc, pb)
		return
	}
	if !kv.EqualPairs(gb, want) {
		x.c.Violation("C10/"+site+"/cache-off-differs-from-model", "%s with the cache disabled: got %s model %s", desc, kv.Render(gb), kv.Render(want))
		return
	}
	ga, pa := scan(sa, r.start, r.end, r.rev)
	if pa != nil {
		sig := "C10/" + site + "/panics-with-cache-on"
		if r.rev && strings.Contains(fmt.Sprint(pa), "index out of range [-1]") {
			sig = "C10/reverse-iterate/panics-index-out-of-range-below-first-key"
		}
		x.c.Violation(sig, "%s: cache on panicked: %v; cache off returns %s", desc, pa, kv.Render(gb))
		return
	}
	if kv.EqualPairs(ga, gb) {
		return
	}
	// classify the manifestation (narrow signatures; each is compared only after the previous one is set aside)
	stripped, nEmpty := stripEmptyKeys(ga)
	if nEmpty > 0 {
		if !x.c.Violation("C10/iterate/spurious-empty-keys", "%s: cache on yields %d pairs with an EMPTY key that no store contains: %s; cache off: %s", desc, nEmpty, kv.Render(ga), kv.Render(gb)) {
			return
		}
		if kv.EqualPairs(stripped, gb) {
			return
		}
	}
	// The manifestations compose: a start-only range is first turned into an end-only range, and a reverse
	// range whose (effective) end is a present key then yields nothing.
	swapped := r.start != nil && r.end == nil
	effEnd := r.end
	if swapped {
		effEnd = r.start
	}
	_, effEndPresent := m[string(effEnd)]
	const sigSwap = "C10/iterate/start-only-range-served-as-end-only"
	const sigEnd = "C10/reverse-iterate/end-equal-to-present-key-yields-nothing"
	switch {
	case swapped && kv.EqualPairs(stripped, m.Range(nil, r.start, r.rev)):
		x.c.Violation(sigSwap, "%s: cache on returns the keys BELOW start %s; cache off: %s", desc, kv.Render(stripped), kv.Render(gb))
		return
	case !swapped && r.rev && effEnd != nil && effEndPresent && len(stripped) == 0:
		x.c.Violation(sigEnd, "%s: end is a present key; cache on returns nothing, cache off: %s", desc, kv.Render(gb))
		return
	case swapped && r.rev && effEndPresent && len(stripped) == 0:
		if x.c.Violation(sigSwap, "%s: start-only range served as [nil,start) (and then empty because start is a present key); cache on %s, cache off %s", desc, kv.Render(stripped), kv.Render(gb)) {
			x.c.Violation(sigEnd, "%s: start-only range served as [nil,start) whose end is a present key; cache on returns nothing, cache off: %s", desc, kv.Render(gb))
		}
		return
	}
	x.c.Violation("C10/"+site+"/listing-differs-with-cache-on", "%s: cache on %s, cache off %s", desc, kv.Render(ga), kv.Render(gb))
}

// C10: with the height cache enabled every read returns exactly what the same node returns with it disabled.
func TestC10(t *testing.T) {
	harness.Check(t, "C10",
		"the same generated block history (3-30 blocks, 2-3 IAVL substores) applied to two rootmulti.Stores built as baseapp builds them, "+
			"cache=true (capacity 12 heights) and cache=false; optional restart of both mid-history (warms the cache through LoadStore). "+
			"Read sweeps (once before the commit of a generated block, with that block's writes applied but uncommitted, and once at the end): "+
			"for every height in the last 15 plus two older ones and every substore, LoadLazyVersion(h) on both nodes and compare Get+Has of every "+
			"key ever used plus never-used keys (present, absent, present-with-empty-value), full Iterator/ReverseIterator and 5 generated bounded "+
			"ranges (bounds drawn from keys used in the history, so bounds equal to present keys are common); views opened at the first sweep are "+
			"re-read at the last; the working stores (current height) are compared too. Oracle: differential cache-on == cache-off (nil-ness and "+
			"bytes) AND the map model of that height. non-trivial = a read at a height the cache object itself answers for, of an absent key or "+
			"a bounded or reverse range",
		map[string]float64{"served-height-read": 0.8, "evicted-height-read": 0.2, "restart": 0.2, "absent-key-at-served-height": 0.8,
			"bounded-range-at-served-height": 0.7, "bound-equals-present-key": 0.5, "empty-value-at-served-height": 0.3},
		func(rt *rapid.T, c *harness.Case) {
			nStores := rapid.IntRange(2, 3).Draw(rt, "nStores")
			h := newHist(nStores, 0)
			iavlCache := rapid.SampledFrom([]int64{0, 3, 5000000}).Draw(rt, "iavlCache")
			oa, ob := nodeOpts{cache: true, iavlCache: iavlCache}, nodeOpts{cache: false, iavlCache: iavlCache}
			nBlocks := rapid.IntRange(3, 30).Draw(rt, "nBlocks")
			restartAt := 0
			if rapid.IntRange(0, 2).Draw(rt, "restart") == 0 {
				restartAt = rapid.IntRange(1, nBlocks-1).Draw(rt, "restartAt")
			}
			midSweepAt := rapid.IntRange(2, nBlocks).Draw(rt, "midSweepAt")
			c.Opf("stores=%d iavlCache=%d blocks=%d restartAt=%d midSweepBeforeCommitOf=%d", nStores, iavlCache, nBlocks, restartAt, midSweepAt)
			dba, dbb := dbm.NewMemDB(), dbm.NewMemDB()
			a, err := openNode(dba, oa, h.names, nil)
			if err != nil {
				rt.Fatalf("harness: open A: %v", err)
			}
			b, err := openNode(dbb, ob, h.names, nil)
			if err != nil {
				rt.Fatalf("harness: open B: %v", err)
			}
			x := &c10{c: c, h: h, a: a, b: b}
			var stale []c10StaleView

			sweep := func(name string, pending bool, keepViews bool) {
				committed := h.latest()
				if pending {
					committed--
				}
				// heights: the last 15 and two older ones
				var heights []int64
				lo := committed - 14
				if lo < 1 {
					lo = 1
				}
				for v := lo; v <= committed; v++ {
					heights = append(heights, v)
				}
				if lo > 1 {
					for i := 0; i < 2; i++ {
						heights = append(heights, rapid.Int64Range(1, lo-1).Draw(rt, "olderHeight"))
					}
				}
				// ranges: per store, drawn from the keys used so far
				ranges := make([][]c10Range, nStores)
				for st := 0; st < nStores; st++ {
					uni := h.universe(st)
					ranges[st] = []c10Range{{nil, nil, false}, {nil, nil, true}}
					for i := 0; i < 5; i++ {
						var r c10Range
						switch rapid.IntRange(0, 2).Draw(rt, "boundKind") {
						case 0:
							r.start = rapid.SampledFrom(uni).Draw(rt, "start")
						case 1:
							r.end = rapid.SampledFrom(uni).Draw(rt, "end")
						default:
							r.start = rapid.SampledFrom(uni).Draw(rt, "start")
							r.end = rapid.SampledFrom(uni).Draw(rt, "end")
							if bytes.Compare(r.start, r.end) > 0 {
								r.start, r.end = r.end, r.start
							}
						}
						r.rev = rapid.Bool().Draw(rt, "rev")
						ranges[st] = append(ranges[st], r)
						c.Opf("%s: range s%d [%x,%x) rev=%v", name, st, r.start, r.end, r.rev)
					}
				}
				c.Opf("%s: heights %v (committed %d, pending writes %v)", name, heights, committed, pending)

				readView := func(where string, hv int64, va, vb *rootmulti.Store) {
					for st := 0; st < nStores; st++ {
						m := h.snaps[hv][st]
						srv := x.served(st, hv)
						w := fmt.Sprintf("%s height %d store %s", where, hv, h.names[st])
						var sa, sb stypes.KVStore
						if p := try(func() { sa, sb = va.GetKVStore(x.a.keys[st]), vb.GetKVStore(x.b.keys[st]) }); p != nil {
							c.Violation("C10/view/substore-missing", "%s: %v", w, p)
							continue
						}
						if srv {
							c.Label("served-height-read")
						} else if hv < committed {
							c.Label("evicted-height-read")
						}
						for _, k := range h.universe(st) {
							if v, ok := m[string(k)]; srv && !ok {
								c.Label("absent-key-at-served-height")
								c.NonTrivial()
							} else if srv && len(v) == 0 {
								c.Label("empty-value-at-served-height")
							}
							x.compareGet(w, sa, sb, m, k, srv)
						}
						for _, r := range ranges[st] {
							if srv && (r.start != nil || r.end != nil) {
								c.Label("bounded-range-at-served-height")
								c.NonTrivial()
								_, sp := m[string(r.start)]
								_, ep := m[string(r.end)]
								if (r.start != nil && sp) || (r.end != nil && ep) {
									c.Label("bound-equals-present-key")
								}
							}
							if srv && r.rev {
								c.NonTrivial()
							}
							x.compareRange(w, sa, sb, m, r, srv)
						}
					}
				}

				for _, hv := range heights {
					va, erra := x.a.lazyView(hv)
					vb, errb := x.b.lazyView(hv)
					if erra != nil || errb != nil {
						c.Violation("C10/view/retained-height-not-loadable", "%s: LoadLazyVersion(%d): cache on: %v, cache off: %v", name, hv, erra, errb)
						continue
					}
					readView(name, hv, va, vb)
					if keepViews && len(stale) < 4 && hv%3 == 0 {
						stale = append(stale, c10StaleView{h: hv, a: va, b: vb, at: committed})
					}
				}
				if !keepViews {
					for _, sv := range stale {
						if sv.a == nil {
							continue
						}
						c.Label("stale-view-reread")
						readView(fmt.Sprintf("%s: view opened at %d re-read", name, sv.at), sv.h, sv.a, sv.b)
					}
				}
				// working stores at the current height (including uncommitted writes)
				for st := 0; st < nStores; st++ {
					m := h.snaps[h.latest()][st]
					w := fmt.Sprintf("%s working store %s (current height, pending writes %v)", name, h.names[st], pending)
					sa, sb := x.a.kvOf(st), x.b.kvOf(st)
					for _, k := range h.universe(st) {
						x.compareGet(w, sa, sb, m, k, false)
					}
					for _, r := range ranges[st] {
						x.compareRange(w, sa, sb, m, r, false)
					}
				}
			}

			for bi := 1; bi <= nBlocks; bi++ {
				blk := h.genBlock(rt, 6)
				c.Opf("block %d %s", h.latest(), blk)
				x.a.apply(blk)
				x.b.apply(blk)
				if bi == midSweepAt {
					c.Label("mid-block-sweep")
					sweep("mid-sweep", true, true)
				}
				ida, idb := x.a.commit(), x.b.commit()
				if !sameID(ida, idb) {
					// the cache must not influence the state itself either
					c.Violation("C10/commit/commit-id-differs-with-cache-on", "block %d: cache on %s, cache off %s", h.latest(), idStr(ida), idStr(idb))
				}
				if bi == restartAt {
					c.Opf("restart both nodes at %d", h.latest())
					c.Label("restart")
					stale = nil // views of the old process die with it
					na, err := openNode(dba, oa, h.names, nil)
					if err != nil {
						rt.Fatalf("harness: restart A (C04 territory): %v", err)
					}
					nb, err := openNode(dbb, ob, h.names, nil)
					if err != nil {
						rt.Fatalf("harness: restart B (C04 territory): %v", err)
					}
					x.a, x.b = na, nb
				}
			}
			sweep("final-sweep", false, false)
			c.AddExtra("reads_compared", x.reads)
		})
}
