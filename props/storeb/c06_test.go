package storeb

import (
	"bytes"
	"testing"

	stypes "github.com/pokt-network/pocket-core/store/types"
	dbm "github.com/tendermint/tm-db"
	"pgregory.net/rapid"

	"verif/harness"
	"verif/harness/kv"
)

// C06: each commit advances the version by exactly one; the app hash depends only on the persistent
// substores' contents and history; transient stores are empty at the start of every block and never
// influence the hash.
func TestC06(t *testing.T) {
	harness.Check(t, "C06",
		"block histories (2-10 blocks) on a rootmulti.Store with 2-3 IAVL and 1-2 transient substores, writes to both kinds. "+
			"Metamorphic twins run the same persistent writes: twin B gets different transient writes / no transient writes / no transient "+
			"stores mounted at all, a different IAVL node cache size and possibly the height cache switched on; twin C (non-vacuity guard) "+
			"gets one extra effective persistent write in one block. Oracle: version(after commit) = version(before)+1 and = block number; "+
			"hash(A,v) == hash(B,v) for every v; hash(A,v) != hash(C,v) at the block with the extra write; every transient store read back "+
			"what was written during the block (so the writes were real) and scans empty immediately after Commit and after a restart. "+
			"non-trivial = at least one block with transient writes whose twin has different (or no) transient writes",
		map[string]float64{"twin-other-transient-writes": 0.2, "twin-no-transient-writes": 0.2, "twin-no-transient-stores": 0.2, "transient-delete": 0.1},
		func(rt *rapid.T, c *harness.Case) {
			nStores := rapid.IntRange(2, 3).Draw(rt, "nStores")
			nTr := rapid.IntRange(1, 2).Draw(rt, "nTransient")
			h := newHist(nStores, nTr)
			oa := drawOpts(rt, "iavlCacheA", false)
			ob := drawOpts(rt, "iavlCacheB", rapid.IntRange(0, 3).Draw(rt, "heightCacheB") == 0)
			mode := rapid.SampledFrom([]string{"other-transient-writes", "no-transient-writes", "no-transient-stores"}).Draw(rt, "twinMode")
			c.Opf("iavl=%d transient=%d twinB=%s iavlCacheA=%d iavlCacheB=%d heightCacheB=%v", nStores, nTr, mode, oa.iavlCache, ob.iavlCache, ob.cache)
			c.Label("twin-" + mode)

			tnamesB := h.tnames
			if mode == "no-transient-stores" {
				tnamesB = nil
			}
			a, err := openNode(dbm.NewMemDB(), oa, h.names, h.tnames)
			if err != nil {
				rt.Fatalf("harness: open A: %v", err)
			}
			b, err := openNode(dbm.NewMemDB(), ob, h.names, tnamesB)
			if err != nil {
				rt.Fatalf("harness: open B: %v", err)
			}
			cdb := dbm.NewMemDB()
			cn, err := openNode(cdb, oa, h.names, h.tnames)
			if err != nil {
				rt.Fatalf("harness: open C: %v", err)
			}

			nBlocks := rapid.IntRange(2, 10).Draw(rt, "nBlocks")
			extraAt := rapid.IntRange(1, nBlocks).Draw(rt, "extraAt")
			restartAt := rapid.IntRange(0, nBlocks).Draw(rt, "restartAt") // 0 = never
			twinDiffers := false
			idsA := map[int64]stypes.CommitID{}

			checkTransientEmpty := func(n *node, who string, v int64, when string) {
				for i, tk := range n.tkeys {
					got, p := scan(n.ms.GetKVStore(tk), nil, nil, false)
					if p != nil {
						c.Violation("C06/transient/scan-panics", "node %s transient %s %s version %d: %v", who, h.tnames[i], when, v, p)
						continue
					}
					if len(got) != 0 {
						c.Violation("C06/transient/not-empty-at-block-start", "node %s transient store %s holds %s %s version %d", who, h.tnames[i], kv.Render(got), when, v)
					}
				}
			}

			for bi := 1; bi <= nBlocks; bi++ {
				blkA := h.genBlock(rt, 8)
				v := h.latest()
				// twin B: same persistent writes in the same order, transient writes replaced
				blkB := blk{viaCache: blkA.viaCache}
				hasTr := false
				for _, w := range blkA.ws {
					if !w.tr {
						blkB.ws = append(blkB.ws, w)
						continue
					}
					hasTr = true
					if w.del {
						c.Label("transient-delete")
					}
					if mode == "other-transient-writes" {
						w2 := wr{tr: true, st: rapid.IntRange(0, nTr-1).Draw(rt, "tstB"), k: keyGen().Draw(rt, "tkB"), v: kv.Value().Draw(rt, "tvB")}
						blkB.ws = append(blkB.ws, w2)
						if rapid.Bool().Draw(rt, "twice") {
							blkB.ws = append(blkB.ws, wr{tr: true, st: w2.st, k: keyGen().Draw(rt, "tkB2"), v: kv.Value().Draw(rt, "tvB2")})
						}
					}
				}
				if hasTr {
					twinDiffers = true
				}
				// twin C: one extra write that certainly changes the content of store 0 in block extraAt
				blkC := blkA
				if bi == extraAt {
					cur := h.snaps[v][0]
					k := []byte("zz")
					val := []byte{0x01}
					if old, ok := cur[string(k)]; ok && bytes.Equal(old, val) {
						val = []byte{0x02}
					}
					blkC = blk{viaCache: blkA.viaCache, ws: append(append([]wr{}, blkA.ws...), wr{st: 0, k: k, v: val})}
				}
				c.Opf("block %d A=%s B=%s%s", v, blkA, blkB, map[bool]string{true: " C=+extra s0 set zz", false: ""}[bi == extraAt])

				// transient model of this block for node A (read-back before commit)
				trModel := make([]kv.Model, nTr)
				for i := range trModel {
					trModel[i] = kv.Model{}
				}
				for _, w := range blkA.ws {
					if w.tr {
						if w.del {
							delete(trModel[w.st], string(w.k))
						} else {
							trModel[w.st][string(w.k)] = w.v
						}
					}
				}

				before := a.ms.LastCommitID().Version
				a.apply(blkA)
				for i, tk := range a.tkeys {
					got, p := scan(a.ms.GetKVStore(tk), nil, nil, false)
					if p == nil && !kv.EqualPairs(got, trModel[i].Range(nil, nil, false)) {
						c.Violation("C06/transient/in-block-content-differs", "block %d transient %s before commit: got %s want %s", v, h.tnames[i], kv.Render(got), kv.Render(trModel[i].Range(nil, nil, false)))
					}
				}
				ida := a.commit()
				idsA[v] = ida
				// every persistent substore advanced by exactly one as well (its own commit id carries the block's version)
				for i, k := range a.keys {
					if sv := a.ms.GetCommitKVStore(k).LastCommitID().Version; sv != v {
						c.Violation("C06/commit/substore-version-not-block-version", "block %d: substore %s reports version %d after the commit", v, h.names[i], sv)
					}
				}
				idb := b.run(blkB)
				idc := cn.run(blkC)

				if ida.Version != before+1 || ida.Version != v {
					c.Violation("C06/commit/version-not-previous-plus-one", "block %d: version before %d, commit returned %d", v, before, ida.Version)
				}
				if got := a.ms.LastCommitID(); !sameID(got, ida) {
					c.Violation("C06/commit/last-commit-id-differs-from-returned", "block %d: Commit returned %s, LastCommitID %s", v, idStr(ida), idStr(got))
				}
				if len(ida.Hash) == 0 {
					c.Violation("C06/commit/empty-hash", "block %d: commit id %s has no hash", v, idStr(ida))
				}
				if idb.Version != v {
					c.Violation("C06/commit/version-not-previous-plus-one", "twin B block %d: commit returned version %d", v, idb.Version)
				}
				if !bytes.Equal(ida.Hash, idb.Hash) {
					c.Violation("C06/twin/hash-depends-on-non-persistent-input", "block %d (twin mode %s): A %s, B %s", v, mode, idStr(ida), idStr(idb))
				}
				if bi == extraAt && bytes.Equal(ida.Hash, idc.Hash) {
					c.Violation("C06/twin/hash-ignores-persistent-write", "block %d: A %s equals C %s although C additionally wrote zz to %s", v, idStr(ida), idStr(idc), h.names[0])
				}
				checkTransientEmpty(a, "A", v, "right after commit of")
				checkTransientEmpty(b, "B", v, "right after commit of")

				if bi == restartAt {
					c.Opf("restart C after %d", v)
					c.Label("restart")
					cn2, err := openNode(cdb, oa, h.names, h.tnames)
					if err != nil {
						c.Violation("C06/restart/load-fails", "restart after block %d: %v", v, err)
						return
					}
					if got := cn2.ms.LastCommitID(); !sameID(got, idc) {
						c.Violation("C06/restart/last-commit-id-differs", "restart after block %d: %s, committed %s", v, idStr(got), idStr(idc))
					}
					checkTransientEmpty(cn2, "C", v, "after restart at")
					cn = cn2
				}
			}
			// history twin D: "the app hash depends only on the persistent substores' contents and history" - a node that
			// reopens A's database at an older version k and executes blocks k+1..n again must report, for every one of
			// them, the same commit id as A did, each advancing the multistore and every substore by exactly one, whatever
			// already lies on disk beyond k (substores that were still empty at k included)
			if n := h.latest(); n >= 2 && rapid.Bool().Draw(rt, "historyTwin") {
				k := int64(rapid.IntRange(1, int(n)-1).Draw(rt, "reloadAt"))
				c.Opf("history twin: reload A's database at version %d, re-execute %d..%d", k, k+1, n)
				c.Label("history-twin")
				for st := range h.names {
					if len(h.snaps[k][st]) == 0 && len(h.snaps[n][st]) != 0 {
						c.Label("history-twin-substore-empty-at-reload-version")
					}
				}
				d := mountNode(a.db, oa, h.names, h.tnames)
				var lerr error
				if p := try(func() { lerr = d.ms.LoadVersion(k) }); p != nil || lerr != nil {
					c.Violation("C06/history-twin/load-version-fails", "LoadVersion(%d) with latest %d: err=%v panic=%v", k, n, lerr, p)
					return
				}
				for rv := k + 1; rv <= n; rv++ {
					var rid stypes.CommitID
					if p := try(func() { rid = d.run(h.blocks[rv-1]) }); p != nil {
						c.Violation("C06/history-twin/re-execution-panics", "LoadVersion(%d) with latest %d, re-executing block %d: %v", k, n, rv, p)
						return
					}
					if !sameID(rid, idsA[rv]) {
						c.Violation("C06/history-twin/commit-id-depends-on-more-than-history", "LoadVersion(%d) with latest %d, re-executed block %d: commit %s, first execution %s", k, n, rv, idStr(rid), idStr(idsA[rv]))
					}
					for i, key := range d.keys {
						if sv := d.ms.GetCommitKVStore(key).LastCommitID().Version; sv != rv {
							c.Violation("C06/history-twin/substore-version-not-block-version", "LoadVersion(%d), re-executed block %d: substore %s reports version %d", k, rv, h.names[i], sv)
						}
					}
					checkTransientEmpty(d, "D", rv, "right after re-executed commit of")
				}
			}
			if twinDiffers {
				c.NonTrivial()
			}
		})
}
