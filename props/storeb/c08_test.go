package storeb

import (
	"fmt"
	"github.com/pokt-network/pocket-core/store/rootmulti"
	"testing"

	"github.com/pokt-network/pocket-core/store/iavl"
	stypes "github.com/pokt-network/pocket-core/store/types"
	dbm "github.com/tendermint/tm-db"
	"pgregory.net/rapid"

	"verif/harness"
)

// C08: rolling back to an earlier committed height restores exactly that height (height, app hash, all
// contents), no later version stays readable, and re-applying blocks reproduces the original hashes.
func TestC08(t *testing.T) {
	harness.Check(t, "C08",
		"block histories (3-12 blocks, 2-3 IAVL substores + optional transient store) on a rootmulti.Store over MemDB (GoLevelDB with real "+
			"close/open for ~6%); then RollbackVersion(t) for a generated t in [1,latest-1] (t=1 and t=latest-1 forced often), called either on a "+
			"freshly mounted store (offline tool) or on the running store; the DB is reopened with LoadLatestVersion; then either the SAME "+
			"blocks t+1..n or freshly generated DIFFERENT blocks are applied. Oracle = reference CommitIDs of an undisturbed run + per-version "+
			"map model: LastCommitID==CommitID(t), contents==model(t), every past version <=t still reads as its model, LoadVersion / "+
			"LoadLazyVersion / VersionExists of every version >t fail, same blocks reproduce CommitID(t+1..n), different blocks equal a fresh "+
			"replica fed history[:t]+new, and a final reopen reproduces the last commit. "+
			"non-trivial = t <= latest-2 and some key changed between t and latest",
		map[string]float64{"target=1": 0.1, "target=latest-1": 0.1, "deep-rollback": 0.3, "replay-same": 0.3, "replay-different": 0.3, "rollback-on-live-store": 0.3, "rollback-across-delete": 0.2},
		func(rt *rapid.T, c *harness.Case) {
			nStores := rapid.IntRange(2, 3).Draw(rt, "nStores")
			nTr := rapid.IntRange(0, 1).Draw(rt, "nTransient")
			h := newHist(nStores, nTr)
			o := drawOpts(rt, "iavlCache", false)
			onDisk := rapid.IntRange(0, 15).Draw(rt, "onDisk") == 7
			nBlocks := rapid.IntRange(3, 12).Draw(rt, "nBlocks")
			for i := 0; i < nBlocks; i++ {
				b := h.genBlock(rt, 6)
				c.Opf("block %d %s", h.latest(), b)
			}
			latest := h.latest()
			var target int64
			switch rapid.IntRange(0, 5).Draw(rt, "targetKind") {
			case 0:
				target = 1
			case 1:
				target = latest - 1
			default:
				target = rapid.Int64Range(1, latest-1).Draw(rt, "target")
			}
			live := rapid.Bool().Draw(rt, "onLiveStore")
			same := rapid.Bool().Draw(rt, "replaySame")
			c.Opf("stores=%d transient=%d iavlCache=%d disk=%v latest=%d rollback to %d live=%v replaySame=%v", nStores, nTr, o.iavlCache, onDisk, latest, target, live, same)
			if target == 1 {
				c.Label("target=1")
			}
			if target == latest-1 {
				c.Label("target=latest-1")
			}
			if target <= latest-2 {
				c.Label("deep-rollback")
				for st := range h.names {
					if h.changedAfter(st, target, latest, nil, nil) {
						c.NonTrivial()
					}
				}
			}
			for v := target + 1; v <= latest; v++ {
				if h.delIn[v] {
					c.Label("rollback-across-delete")
				}
			}
			if live {
				c.Label("rollback-on-live-store")
			}
			ids := refRun(h, o)
			ck := &checker{c: c, prop: "C08"}

			var disk *diskDB
			var db dbm.DB = dbm.NewMemDB()
			if onDisk {
				var err error
				if disk, err = newDiskDB(); err != nil {
					rt.Fatalf("harness: leveldb: %v", err)
				}
				defer disk.destroy()
				db = disk.db
				c.Label("goleveldb")
			}
			nd, err := openNode(db, o, h.names, h.tnames)
			if err != nil {
				rt.Fatalf("harness: open: %v", err)
			}
			for v := int64(1); v <= latest; v++ {
				if id := nd.run(h.blocks[v-1]); !sameID(id, ids[v]) {
					rt.Fatalf("harness: two identical runs differ at %d", v)
				}
			}

			// ---- rollback
			rb := nd
			if !live {
				if disk != nil {
					if err := disk.reopen(); err != nil {
						rt.Fatalf("harness: leveldb reopen: %v", err)
					}
					db = disk.db
				}
				rb = mountNode(db, o, h.names, h.tnames)
			}
			var rerr error
			if p := try(func() { rerr = rb.ms.RollbackVersion(target) }); p != nil {
				c.Violation("C08/rollback/panics", "RollbackVersion(%d) with latest %d panicked: %v", target, latest, p)
				return
			}
			if rerr != nil {
				c.Violation("C08/rollback/returns-error", "RollbackVersion(%d) with latest %d: %v", target, latest, rerr)
				return
			}

			// ---- the store object that performed the rollback, used on without a restart (half of the cases): its working
			// substores and its versioned reads at the target height show the target's contents, the target version exists in
			// every substore and no later one does
			if rapid.Bool().Draw(rt, "useWithoutReopen") {
				c.Label("used-without-reopen")
				where0 := fmt.Sprintf("after RollbackVersion(%d) of latest %d, same store object (no reopen)", target, latest)
				ck.multistore("in-process", where0, h, rb.kvOf, h.snaps[target])
				for st := range h.names {
					is, ok := rb.ms.GetCommitStore(rb.keys[st]).(*iavl.Store)
					if !ok {
						continue
					}
					if !is.VersionExists(target) {
						c.Violation("C08/in-process/target-version-missing-in-substore", "%s: substore %s VersionExists(%d)=false", where0, h.names[st], target)
					}
					for v := target + 1; v <= latest; v++ {
						if is.VersionExists(v) {
							c.Violation("C08/in-process/later-version-still-exists-in-substore", "%s: substore %s VersionExists(%d)=true", where0, h.names[st], v)
						}
					}
				}
				for v := int64(1); v <= target; v++ {
					var view *rootmulti.Store
					var verr error
					if p := try(func() { view, verr = rb.lazyView(v) }); p != nil {
						verr = fmt.Errorf("panic: %v", p)
					}
					if verr != nil || view == nil {
						c.Violation("C08/in-process/retained-version-not-loadable", "%s: LoadLazyVersion(%d): %v", where0, v, verr)
						continue
					}
					ck.multistore("in-process-versioned", fmt.Sprintf("%s, lazy view %d", where0, v), h,
						func(st int) stypes.KVStore { return view.GetKVStore(rb.keys[st]) }, h.snaps[v])
				}
			}

			// ---- reopen
			if disk != nil {
				if err := disk.reopen(); err != nil {
					rt.Fatalf("harness: leveldb reopen: %v", err)
				}
				db = disk.db
			}
			nd, err = openNode(db, o, h.names, h.tnames)
			if err != nil {
				c.Violation("C08/reopen/load-latest-fails", "LoadLatestVersion after RollbackVersion(%d): %v", target, err)
				return
			}
			where := fmt.Sprintf("after RollbackVersion(%d) of latest %d and reopen", target, latest)
			if got := nd.ms.LastCommitID(); !sameID(got, ids[target]) {
				c.Violation("C08/reopen/last-commit-id-differs", "%s: LastCommitID %s, committed at %d: %s", where, idStr(got), target, idStr(ids[target]))
			}
			ck.multistore("reopen", where, h, nd.kvOf, h.snaps[target])
			for st := range h.names {
				if got := nd.ms.GetCommitStore(nd.keys[st]).LastCommitID(); got.Version != target {
					c.Violation("C08/reopen/substore-version-differs", "%s: substore %s at version %d", where, h.names[st], got.Version)
				}
			}
			// no later version remains readable
			for v := target + 1; v <= latest; v++ {
				for st := range h.names {
					if is, ok := nd.ms.GetCommitStore(nd.keys[st]).(*iavl.Store); ok && is.VersionExists(v) {
						c.Violation("C08/later-version/still-exists-in-substore", "%s: substore %s VersionExists(%d)=true", where, h.names[st], v)
					}
				}
				if view, err := nd.lazyView(v); err == nil && view != nil {
					c.Violation("C08/later-version/lazy-load-succeeds", "%s: LoadLazyVersion(%d) succeeded", where, v)
				}
				on := mountNode(db, o, h.names, h.tnames)
				var lerr error
				if p := try(func() { lerr = on.ms.LoadVersion(v) }); p != nil {
					lerr = fmt.Errorf("panic: %v", p)
				}
				if lerr == nil {
					c.Violation("C08/later-version/load-version-succeeds", "%s: LoadVersion(%d) succeeded with LastCommitID %s", where, v, idStr(on.ms.LastCommitID()))
				}
			}
			// retained versions are intact
			for v := int64(1); v <= target; v++ {
				view, err := nd.lazyView(v)
				if err != nil {
					c.Violation("C08/earlier-version/not-loadable", "%s: LoadLazyVersion(%d): %v", where, v, err)
					continue
				}
				ck.multistore("earlier-version", fmt.Sprintf("%s, lazy view %d", where, v), h,
					func(st int) stypes.KVStore { return view.GetKVStore(nd.keys[st]) }, h.snaps[v])
			}

			// ---- continue
			if same {
				c.Label("replay-same")
				for v := target + 1; v <= latest; v++ {
					var id stypes.CommitID
					if p := try(func() { id = nd.run(h.blocks[v-1]) }); p != nil {
						c.Violation("C08/replay-same/commit-panics", "%s: re-applying block %d panicked: %v", where, v, p)
						return
					}
					if !sameID(id, ids[v]) {
						c.Violation("C08/replay-same/commit-id-differs-from-original", "%s: re-applied block %d gives %s, original %s", where, v, idStr(id), idStr(ids[v]))
						return
					}
				}
				ck.multistore("replay-same", where+" + same blocks", h, nd.kvOf, h.snaps[latest])
			} else {
				c.Label("replay-different")
				// truncate the model to the target and generate new blocks; the oracle is a fresh replica fed history[:t]+new
				h2 := newHist(nStores, nTr)
				for v := int64(1); v <= target; v++ {
					h2.push(h.blocks[v-1], nil)
				}
				for st := range h.names { // keep the universe of the original history (keys of removed versions must read absent)
					for k := range h.uni[st] {
						h2.uni[st][k] = true
					}
				}
				replica, err := openNode(dbm.NewMemDB(), o, h.names, h.tnames)
				if err != nil {
					rt.Fatalf("harness: replica: %v", err)
				}
				for v := int64(1); v <= target; v++ {
					replica.run(h2.blocks[v-1])
				}
				nNew := rapid.IntRange(1, 4).Draw(rt, "nNewBlocks")
				for i := 0; i < nNew; i++ {
					b := h2.genBlock(rt, 6)
					v := h2.latest()
					c.Opf("new block %d %s", v, b)
					want := replica.run(b)
					var id stypes.CommitID
					if p := try(func() { id = nd.run(b) }); p != nil {
						c.Violation("C08/replay-different/commit-panics", "%s: new block %d panicked: %v", where, v, p)
						return
					}
					if !sameID(id, want) {
						c.Violation("C08/replay-different/commit-id-differs-from-fresh-replica", "%s: new block %d gives %s, replica %s", where, v, idStr(id), idStr(want))
						return
					}
				}
				ck.multistore("replay-different", where+" + new blocks", h2, nd.kvOf, h2.snaps[h2.latest()])
				h, ids = h2, nil
			}
			// final reopen: what was built on top of the rollback is itself persistent
			last := nd.ms.LastCommitID()
			if disk != nil {
				if err := disk.reopen(); err != nil {
					rt.Fatalf("harness: leveldb reopen: %v", err)
				}
				db = disk.db
			}
			fin, err := openNode(db, o, h.names, h.tnames)
			if err != nil {
				c.Violation("C08/final-reopen/load-latest-fails", "%s: %v", where, err)
				return
			}
			if got := fin.ms.LastCommitID(); !sameID(got, last) {
				c.Violation("C08/final-reopen/last-commit-id-differs", "%s: final reopen %s, last commit %s", where, idStr(got), idStr(last))
			}
			ck.multistore("final-reopen", where+" final reopen", h, fin.kvOf, h.snaps[h.latest()])
			c.AddExtra("reads_compared", ck.reads)
		})
}
