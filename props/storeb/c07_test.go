package storeb

import (
	"fmt"
	"sort"
	"strings"
	"testing"

	stypes "github.com/pokt-network/pocket-core/store/types"
	"pgregory.net/rapid"

	"verif/harness"
	"verif/harness/faultdb"
)

// classify names the multistore record an event belongs to: the substore name for "s/k:<name>/..." keys,
// "commit-info" for the s/<version> + s/latest batch.
func eventOwner(e faultdb.Event) string {
	if len(e.Keys) == 0 {
		return "empty"
	}
	k := string(e.Keys[0])
	if strings.HasPrefix(k, "s/k:") {
		rest := k[len("s/k:"):]
		if i := strings.IndexByte(rest, '/'); i >= 0 {
			return rest[:i]
		}
	}
	if strings.HasPrefix(k, "s/") {
		return "commit-info"
	}
	return "other"
}

// C07: a crash after any individual database write of a commit is recoverable: reopening yields the last
// fully committed block, and re-executing the interrupted block reproduces the uninterrupted hashes.
func TestC07(t *testing.T) {
	const repeats = 3 // runs per crash point (the substore commit order is Go map order and varies between runs)
	harness.Check(t, "C07",
		"block histories (2-7 blocks on 2-4 IAVL substores, optionally a transient store) on a faultdb-wrapped MemDB; for a generated "+
			"crash block b the write events of Commit(b) are counted on an unfaulted run (one batch per substore SaveVersion + one batch for "+
			"commit-info/latest-version = n events) and EVERY crash point k=0..n is enumerated, each 3 times because the substore commit "+
			"order follows Go map iteration (the observed set of substores saved before the crash is recorded): replay the history to b on a "+
			"fresh DB, let exactly k events through, drop the rest, reopen a new rootmulti.Store on a clone of the surviving data. Oracle = "+
			"unfaulted reference run + map model: reopened LastCommitID and contents equal block b-1 (b when k=n); re-executing block b and "+
			"every later block gives the reference CommitIDs; final contents equal the model. "+
			"non-trivial = a crash point strictly between the first substore batch and the commit-info batch (0<k<n)",
		map[string]float64{"crash-between-substore-saves": 0.9, "crash-in-first-block": 0.1, "crash-in-last-block": 0.1, "crash-block-with-delete": 0.1},
		func(rt *rapid.T, c *harness.Case) {
			nStores := rapid.IntRange(2, 4).Draw(rt, "nStores")
			nTr := rapid.IntRange(0, 1).Draw(rt, "nTransient")
			h := newHist(nStores, nTr)
			o := drawOpts(rt, "iavlCache", false)
			nBlocks := rapid.IntRange(2, 7).Draw(rt, "nBlocks")
			for i := 0; i < nBlocks; i++ {
				b := h.genBlock(rt, 6)
				c.Opf("block %d %s", h.latest(), b)
			}
			crashAt := rapid.IntRange(1, nBlocks).Draw(rt, "crashBlock") // 1-based version being committed when the crash happens
			c.Opf("stores=%d transient=%d iavlCache=%d crash during commit of block %d", nStores, nTr, o.iavlCache, crashAt)
			if crashAt == 1 {
				c.Label("crash-in-first-block")
			}
			if crashAt == nBlocks {
				c.Label("crash-in-last-block")
			}
			if h.delIn[crashAt] {
				c.Label("crash-block-with-delete")
			}
			ids := refRun(h, o)
			ck := &checker{c: c, prop: "C07"}

			// replay blocks 1..crashAt-1, apply the writes of block crashAt, return node and db positioned before Commit
			replay := func() (*faultdb.DB, *node) {
				fdb := faultdb.NewMem()
				n, err := openNode(fdb, o, h.names, h.tnames)
				if err != nil {
					rt.Fatalf("harness: open on faultdb: %v", err)
				}
				for v := 1; v < crashAt; v++ {
					if id := n.run(h.blocks[v-1]); !sameID(id, ids[v]) {
						rt.Fatalf("harness: unfaulted replay diverges from the reference at %d (%s vs %s)", v, idStr(id), idStr(ids[v]))
					}
				}
				n.apply(h.blocks[crashAt-1])
				return fdb, n
			}

			// count the events of the commit on an unfaulted run
			fdb, n0 := replay()
			e0 := fdb.Events()
			n0.commit()
			nEvents := fdb.Events() - e0
			log := fdb.Log()[e0:]
			owners := make([]string, len(log))
			for i, e := range log {
				owners[i] = eventOwner(e)
			}
			c.Opf("commit of block %d = %d write events (this run: %s)", crashAt, nEvents, strings.Join(owners, ","))
			if nEvents != nStores+1 {
				// not an oracle: records that the event structure assumed by the rule holds
				c.Label("unexpected-event-count")
			}

			seenSets := map[string]bool{}
			for k := 0; k <= nEvents; k++ {
				for r := 0; r < repeats; r++ {
					fdb, n := replay()
					e0 := fdb.Events()
					fdb.Arm(k)
					_ = try(func() { n.commit() }) // the process dies at the crash point; whatever happens later in memory is lost
					var saved []string
					for _, e := range fdb.Log()[e0:] {
						if !e.Dropped {
							saved = append(saved, eventOwner(e))
						}
					}
					sort.Strings(saved)
					setKey := fmt.Sprintf("k=%d saved=[%s]", k, strings.Join(saved, ","))
					if !seenSets[setKey] {
						seenSets[setKey] = true
						c.AddExtra("distinct_crash_states", 1)
					}
					c.AddExtra("crash_points_run", 1)
					if k > 0 && k < nEvents {
						c.NonTrivial()
						c.Label("crash-between-substore-saves")
					}
					where := fmt.Sprintf("crash in commit of block %d after %d/%d events (%s)", crashAt, k, nEvents, setKey)

					expect := int64(crashAt - 1)
					if k == nEvents {
						expect = int64(crashAt)
					}
					rn, err := openNode(fdb.CloneMem(), o, h.names, h.tnames)
					if err != nil {
						c.Violation("C07/reopen/load-fails", "%s: LoadLatestVersion: %v", where, err)
						continue
					}
					if got := rn.ms.LastCommitID(); !sameID(got, ids[expect]) {
						c.Violation("C07/reopen/last-commit-id-not-last-full-commit", "%s: LastCommitID %s, last fully committed block is %s", where, idStr(got), idStr(ids[expect]))
						continue
					}
					// A crash inside the very first commit has its own signatures (see firstBlockCrash below).
					firstBlock := crashAt == 1 && k > 0 && k < nEvents
					if !firstBlock || !firstBlockCrashContents(c, h, rn, where) {
						ck.multistore("reopen", where, h, rn.kvOf, h.snaps[expect])
					}

					// re-execute the interrupted block and everything after it
					diverged := false
					for v := expect + 1; v <= h.latest(); v++ {
						var id stypes.CommitID
						if p := try(func() { id = rn.run(h.blocks[v-1]) }); p != nil {
							c.Violation("C07/reexecute/commit-panics", "%s: re-executing block %d panicked: %v", where, v, p)
							diverged = true
							break
						}
						if !sameID(id, ids[v]) {
							sig := "C07/reexecute/commit-id-differs-from-uninterrupted-run"
							if firstBlock {
								sig = "C07/first-block-crash/reexecution-diverges-from-uninterrupted-run"
							}
							c.Violation(sig, "%s: block %d gives %s, uninterrupted run %s", where, v, idStr(id), idStr(ids[v]))
							diverged = true
							break
						}
					}
					if !diverged {
						ck.multistore("reexecute", where+" final state", h, rn.kvOf, h.snaps[h.latest()])
						// and the recovered database itself reloads to the same final state
						rn2, err := openNode(rn.db, o, h.names, h.tnames)
						if err != nil {
							c.Violation("C07/reexecute/reload-fails", "%s: reload after re-execution: %v", where, err)
						} else if got := rn2.ms.LastCommitID(); !sameID(got, ids[h.latest()]) {
							c.Violation("C07/reexecute/reload-commit-id-differs", "%s: reload after re-execution gives %s want %s", where, idStr(got), idStr(ids[h.latest()]))
						}
					}
				}
			}
			c.AddExtra("reads_compared", ck.reads)
		})
}

// firstBlockCrashContents handles the one crash window that has its own signature: the commit of block 1 is
// interrupted after some substores saved version 1 but before the first commit-info record exists. Reopening
// then loads multistore version 0, and the question is whether the already saved substores still show the
// interrupted block's writes. Returns true when that manifestation was seen and is a listed known finding (the
// regular content comparison of this crash point is then skipped; everything else still runs).
func firstBlockCrashContents(c *harness.Case, h *hist, rn *node, where string) bool {
	for st := range h.names {
		got, p := scan(rn.kvOf(st), nil, nil, false)
		if p != nil {
			return false
		}
		if len(got) != 0 && len(h.snaps[0][st]) == 0 {
			return c.Violation("C07/first-block-crash/reopened-version-0-shows-interrupted-writes",
				"%s: multistore reopened at version 0 but substore %s already holds %d pairs of the interrupted block 1", where, h.names[st], len(got))
		}
	}
	return false
}
