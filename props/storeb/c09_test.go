package storeb

import (
	"bytes"
	"fmt"
	"testing"

	stypes "github.com/pokt-network/pocket-core/store/types"
	dbm "github.com/tendermint/tm-db"
	"pgregory.net/rapid"

	"verif/harness"
	"verif/harness/kv"
)

type c09View struct {
	id     int
	h      int64
	kind   string // "lazy" (LoadLazyVersion, as PrevCtx / custom queries) or "cachemulti" (CacheMultiStoreWithVersion)
	ms     stypes.MultiStore
	opened int64 // latest version when opened
}

type c09Iter struct {
	view   *c09View
	st     int
	it     stypes.Iterator
	expect []kv.Pair
	pos    int
	desc   string
}

// C09: reads at a past height always see that height's committed state, whatever was written afterwards and
// whatever other historical reads happened in between.
func TestC09(t *testing.T) {
	harness.Check(t, "C09",
		"rapid state machine on a rootmulti.Store (2-3 IAVL substores, in-memory height cache on in a third of the cases, IAVL node cache size from {default,1,3,50}): "+
			"commit generated blocks; write without committing; open a historical view of a retained height with LoadLazyVersion(h) or "+
			"CacheMultiStoreWithVersion(h) and keep up to 4 open; read through any open view (Get/Has, Iterator/ReverseIterator with nil or "+
			"key bounds) and keep iterators open across later writes and commits, stepping them later; restart the node (views are closed "+
			"first). Oracle: per-height map snapshots taken by the harness at commit time; every read through a view of height h must equal "+
			"model(h). non-trivial = a read through a view after at least one later commit that changed a key inside the read range",
		map[string]float64{"read-after-later-commit": 0.25, "view-older-than-latest": 0.4, "cachemulti-view": 0.2, "iterator-open-across-commit": 0.1, "uncommitted-writes-pending": 0.2},
		func(rt *rapid.T, c *harness.Case) {
			nStores := rapid.IntRange(2, 3).Draw(rt, "nStores")
			h := newHist(nStores, 0)
			// the height cache (--useCache) serves recent past heights from memory: a configuration, not a different contract
			o := drawOpts(rt, "iavlCache", rapid.SampledFrom([]bool{false, false, true}).Draw(rt, "heightCache"))
			c.Opf("stores=%d iavlCache=%d heightCache=%v", nStores, o.iavlCache, o.cache)
			if o.cache {
				c.Label("height-cache-on")
			}
			db := dbm.NewMemDB()
			nd, err := openNode(db, o, h.names, nil)
			if err != nil {
				rt.Fatalf("harness: open: %v", err)
			}
			// two initial blocks so that views have something to look at
			for i := 0; i < 2; i++ {
				b := h.genBlock(rt, 6)
				c.Opf("block %d %s", h.latest(), b)
				nd.run(b)
			}
			var views []*c09View
			var iters []*c09Iter
			nextID := 0
			pending := false // uncommitted writes sit in the working tree
			var pendingBlk blk
			defer func() {
				for _, oi := range iters {
					_ = try(func() { oi.it.Close() })
				}
			}()

			kvOfView := func(v *c09View, st int) (s stypes.KVStore, p any) {
				p = try(func() { s = v.ms.GetKVStore(nd.keys[st]) })
				return
			}
			noteRead := func(v *c09View, st int, start, end []byte) {
				if v.h < h.latest() {
					c.Label("view-older-than-latest")
				}
				if h.latest() > v.opened {
					c.Label("read-after-later-commit")
				}
				if h.changedAfter(st, v.h, h.latest(), start, end) && h.latest() > v.opened {
					c.NonTrivial()
				}
				if pending {
					c.Label("uncommitted-writes-pending")
				}
			}
			stepIter := func(i, steps int) {
				oi := iters[i]
				done := false
				for s := 0; s < steps && !done; s++ {
					var valid bool
					var k, v []byte
					if p := try(func() {
						valid = oi.it.Valid()
						if valid {
							k, v = oi.it.Key(), oi.it.Value()
						}
					}); p != nil {
						c.Violation("C09/open-iterator/read-panics", "iterator %s at item %d panicked: %v", oi.desc, oi.pos, p)
						done = true
						break
					}
					switch {
					case oi.pos >= len(oi.expect) && valid:
						c.Violation("C09/open-iterator/extra-item", "iterator %s yields extra key %x after %d expected items (latest now %d)", oi.desc, k, len(oi.expect), h.latest())
						done = true
					case oi.pos >= len(oi.expect):
						done = true
					case !valid:
						c.Violation("C09/open-iterator/ends-early", "iterator %s ended after %d of %d items (latest now %d)", oi.desc, oi.pos, len(oi.expect), h.latest())
						done = true
					default:
						w := oi.expect[oi.pos]
						if !bytes.Equal(k, w.K) || !bytes.Equal(v, w.V) {
							c.Violation("C09/open-iterator/item-differs-from-model", "iterator %s item %d: got %x=%x want %s (latest now %d)", oi.desc, oi.pos, k, v, w, h.latest())
						}
						if p := try(func() { oi.it.Next() }); p != nil {
							c.Violation("C09/open-iterator/read-panics", "iterator %s Next at item %d panicked: %v", oi.desc, oi.pos, p)
							done = true
						}
						oi.pos++
					}
				}
				if done {
					_ = try(func() { oi.it.Close() })
					iters = append(iters[:i], iters[i+1:]...)
				}
			}

			rt.Repeat(map[string]func(*rapid.T){
				"commitBlock": func(rt *rapid.T) {
					if h.latest() >= 14 {
						rt.Skip("history long enough")
					}
					if pending {
						h.push(pendingBlk, nil)
						c.Opf("commit block %d (writes applied earlier)", h.latest())
						nd.commit()
					} else {
						b := h.genBlock(rt, 6)
						c.Opf("block %d %s", h.latest(), b)
						nd.run(b)
					}
					pending = false
					if len(iters) > 0 {
						c.Label("iterator-open-across-commit")
					}
				},
				"openView": func(rt *rapid.T) {
					if len(views) >= 4 {
						rt.Skip("4 views open")
					}
					hv := rapid.Int64Range(1, h.latest()).Draw(rt, "height")
					kind := rapid.SampledFrom([]string{"lazy", "lazy", "cachemulti"}).Draw(rt, "kind")
					v := &c09View{id: nextID, h: hv, kind: kind, opened: h.latest()}
					nextID++
					c.Opf("open view#%d %s h=%d (latest %d)", v.id, kind, hv, h.latest())
					if kind == "lazy" {
						lv, err := nd.lazyView(hv)
						if err != nil {
							c.Violation("C09/open-view/retained-height-not-loadable", "LoadLazyVersion(%d) with latest %d: %v", hv, h.latest(), err)
							return
						}
						v.ms = lv
					} else {
						c.Label("cachemulti-view")
						var cm stypes.CacheMultiStore
						var err error
						if p := try(func() { cm, err = nd.ms.CacheMultiStoreWithVersion(hv) }); p != nil {
							err = fmt.Errorf("panic: %v", p)
						}
						if err != nil {
							c.Violation("C09/open-view/retained-height-not-loadable", "CacheMultiStoreWithVersion(%d) with latest %d: %v", hv, h.latest(), err)
							return
						}
						v.ms = cm
					}
					views = append(views, v)
				},
				"closeView": func(rt *rapid.T) {
					if len(views) == 0 {
						rt.Skip("no view")
					}
					i := rapid.IntRange(0, len(views)-1).Draw(rt, "which")
					c.Opf("close view#%d", views[i].id)
					for j := len(iters) - 1; j >= 0; j-- {
						if iters[j].view == views[i] {
							stepIter(j, 1<<20)
						}
					}
					views = append(views[:i], views[i+1:]...)
				},
				"get": func(rt *rapid.T) {
					if len(views) == 0 {
						rt.Skip("no view")
					}
					v := views[rapid.IntRange(0, len(views)-1).Draw(rt, "which")]
					st := rapid.IntRange(0, nStores-1).Draw(rt, "st")
					k := rapid.SampledFrom(h.universe(st)).Draw(rt, "k")
					c.Opf("get view#%d(h=%d) s%d %x", v.id, v.h, st, k)
					noteRead(v, st, k, append(append([]byte{}, k...), 0))
					s, p := kvOfView(v, st)
					if p != nil {
						c.Violation("C09/get/read-panics", "view h=%d GetKVStore(%s): %v", v.h, h.names[st], p)
						return
					}
					got, has, p := get(s, k)
					if p != nil {
						c.Violation("C09/get/read-panics", "view %s h=%d store %s get %x (latest %d): %v", v.kind, v.h, h.names[st], k, h.latest(), p)
						return
					}
					want, ok := h.snaps[v.h][st][string(k)]
					if ok != (got != nil) || !bytes.Equal(got, want) {
						c.Violation("C09/get/differs-from-committed-state", "view %s h=%d opened at %d, latest %d, store %s get %x: got %x (nil=%v) want %x (present=%v)",
							v.kind, v.h, v.opened, h.latest(), h.names[st], k, got, got == nil, want, ok)
					}
					if has != ok {
						c.Violation("C09/has/differs-from-committed-state", "view %s h=%d opened at %d, latest %d, store %s has %x: got %v want %v",
							v.kind, v.h, v.opened, h.latest(), h.names[st], k, has, ok)
					}
				},
				"iterate": func(rt *rapid.T) {
					if len(views) == 0 {
						rt.Skip("no view")
					}
					v := views[rapid.IntRange(0, len(views)-1).Draw(rt, "which")]
					st := rapid.IntRange(0, nStores-1).Draw(rt, "st")
					b := kv.Bounds(keyGen()).Draw(rt, "bounds")
					rev := rapid.Bool().Draw(rt, "rev")
					c.Opf("iterate view#%d(h=%d) s%d [%x,%x) rev=%v", v.id, v.h, st, b[0], b[1], rev)
					noteRead(v, st, b[0], b[1])
					s, p := kvOfView(v, st)
					if p != nil {
						c.Violation("C09/iterate/read-panics", "view h=%d GetKVStore(%s): %v", v.h, h.names[st], p)
						return
					}
					got, p := scan(s, b[0], b[1], rev)
					if p != nil {
						c.Violation("C09/iterate/read-panics", "view %s h=%d store %s [%x,%x) rev=%v (latest %d): %v", v.kind, v.h, h.names[st], b[0], b[1], rev, h.latest(), p)
						return
					}
					want := h.snaps[v.h][st].Range(b[0], b[1], rev)
					if !kv.EqualPairs(got, want) {
						c.Violation("C09/iterate/differs-from-committed-state", "view %s h=%d opened at %d, latest %d, store %s [%x,%x) rev=%v: got %s want %s",
							v.kind, v.h, v.opened, h.latest(), h.names[st], b[0], b[1], rev, kv.Render(got), kv.Render(want))
					}
				},
				"openIter": func(rt *rapid.T) {
					if len(views) == 0 || len(iters) >= 3 {
						rt.Skip("no view / too many iterators")
					}
					v := views[rapid.IntRange(0, len(views)-1).Draw(rt, "which")]
					st := rapid.IntRange(0, nStores-1).Draw(rt, "st")
					b := kv.Bounds(keyGen()).Draw(rt, "bounds")
					rev := rapid.Bool().Draw(rt, "rev")
					c.Opf("openIter view#%d(h=%d) s%d [%x,%x) rev=%v", v.id, v.h, st, b[0], b[1], rev)
					noteRead(v, st, b[0], b[1])
					s, p := kvOfView(v, st)
					if p != nil {
						c.Violation("C09/iterate/read-panics", "view h=%d GetKVStore(%s): %v", v.h, h.names[st], p)
						return
					}
					var it stypes.Iterator
					if p := try(func() {
						if rev {
							it, _ = s.ReverseIterator(b[0], b[1])
						} else {
							it, _ = s.Iterator(b[0], b[1])
						}
					}); p != nil || it == nil {
						c.Violation("C09/iterate/read-panics", "view h=%d open iterator: %v", v.h, p)
						return
					}
					iters = append(iters, &c09Iter{view: v, st: st, it: it, expect: h.snaps[v.h][st].Range(b[0], b[1], rev),
						desc: fmt.Sprintf("view %s h=%d opened at %d store %s [%x,%x) rev=%v", v.kind, v.h, v.opened, h.names[st], b[0], b[1], rev)})
				},
				"stepIter": func(rt *rapid.T) {
					if len(iters) == 0 {
						rt.Skip("no iterator")
					}
					i := rapid.IntRange(0, len(iters)-1).Draw(rt, "which")
					n := rapid.IntRange(1, 5).Draw(rt, "steps")
					c.Opf("stepIter #%d x%d", i, n)
					oi := iters[i]
					noteRead(oi.view, oi.st, nil, nil)
					stepIter(i, n)
				},
				"writeUncommitted": func(rt *rapid.T) {
					if pending || h.latest() >= 14 {
						rt.Skip("already pending")
					}
					// the writes of the next block are applied to the working stores now; the commit comes later
					b := h.drawBlock(rt, 6)
					if len(b.ws) == 0 {
						rt.Skip("empty block")
					}
					c.Opf("apply (no commit yet) writes of block %d %s", h.latest()+1, b)
					nd.apply(b)
					pendingBlk = b
					pending = true
				},
				"restart": func(rt *rapid.T) {
					if pending {
						rt.Skip("uncommitted writes pending")
					}
					c.Opf("restart at %d (views closed)", h.latest())
					c.Label("restart")
					for len(iters) > 0 {
						stepIter(0, 1<<20)
					}
					views = nil
					n2, err := openNode(db, o, h.names, nil)
					if err != nil {
						rt.Fatalf("harness: restart failed (C04 territory): %v", err)
					}
					nd = n2
				},
				"": func(rt *rapid.T) {},
			})
		})
}
