package gov

import (
	"encoding/hex"
	"fmt"
	"reflect"
	"sort"
	"strings"
	"testing"
	"time"

	"pgregory.net/rapid"

	sdk "github.com/pokt-network/pocket-core/types"
	authTypes "github.com/pokt-network/pocket-core/x/auth/types"
	govTypes "github.com/pokt-network/pocket-core/x/gov/types"

	"verif/harness"
	"verif/harness/chain"
)

// C36: only the ACL-designated owner can change a parameter or upgrade; only the DAO owner can move DAO funds,
// and exactly the requested amount; any other signer changes nothing.
//
// Every transaction is a real signed tx delivered to the real application inside a block. The whole state
// (every key of every persistent store, all account balances, the supply) is captured before and after each
// DeliverTx; the oracle predicts the complete difference from an independent model (ACL map, DAO owner):
//   - message fails basic validation or carries a forged sender  -> nothing changes at all
//   - sender is not the owner                                    -> only the fee moves (sender -> fee collector)
//   - owner, value not decodable / amount not available          -> only the fee moves
//   - owner, valid request                                       -> fee + exactly the requested effect
//     (one params key whose stored bytes decode to the submitted value; DAO -amount and recipient +amount,
//     or DAO -amount and supply -amount)

type c36Model struct {
	w        *govWorld
	n        *chain.Node
	acl      govTypes.ACL // ordered as stored
	daoOwner sdk.Address
	types    map[string]reflect.Type
	daoAddr  sdk.Address
	feeAddr  sdk.Address
	// bookkeeping for the non-trivial rule
	crossOwnerRefused bool // a non-owner who owns another key / is the DAO owner was refused
	ownerStored       bool // an owner change was verified stored
	reassigned        bool
	dropped           []string // parameter keys that a gov/acl change removed from the list
	daoOwnerMoved     bool
}

type c36Op struct {
	kind       string // change-param | dao-transfer | dao-burn | upgrade
	desc       string
	tx         []byte
	from       sdk.Address
	class      string // signer class
	genuine    bool   // signed by the key of `from`
	basicOK    bool   // message passes ValidateBasic
	authorized bool   // `from` is the owner the model names (and the signature is genuine)
	feasible   bool   // the request itself can be carried out (value decodes / amount available)
	// expected effect when basicOK && authorized && feasible
	paramKey    string
	typ         reflect.Type
	newVal      interface{}
	moves       map[string]int64 // hex address -> upokt delta (without the fee)
	supplyDelta int64
	wantFeats   []string // upgrade: features that must be present afterwards
	apply       func()   // model update
	crossOwner  bool     // the sender owns something else (another key / the DAO) but not this
}

var cellsSeen = map[string]bool{}

func (m *c36Model) owner(key string) sdk.Address { return m.acl.GetOwner(key) }

func (m *c36Model) identOf(a sdk.Address) (ident, bool) {
	id, ok := m.w.byAddr[hex.EncodeToString(a)]
	return id, ok
}

// fundedIdents: every identity that can pay a fee.
func (m *c36Model) fundedIdents() []ident {
	return append(append([]ident{m.w.dao}, m.w.owners...), m.w.randoms...)
}

// pickSigner chooses the sender for a request whose rightful owner is `owner`.
// Classes: owner | other-owner (owns a different ACL key or the DAO, not this) | dao-owner | random | forged.
func (m *c36Model) pickSigner(rt *rapid.T, owner sdk.Address) (from ident, signer ident, class string) {
	class = rapid.SampledFrom([]string{"owner", "owner", "other-owner", "dao-owner", "random", "forged"}).Draw(rt, "signerClass")
	ownerID, ownerKnown := m.identOf(owner)
	random := m.w.randoms[rapid.IntRange(0, len(m.w.randoms)-1).Draw(rt, "randomIdx")]
	// a random account may have become an owner through a reassignment: then it is no longer "random"
	switch class {
	case "owner", "forged":
		if !ownerKnown {
			// nobody holds the key of this owner address (unknown key => nil owner): fall back to random
			return random, random, "random"
		}
		if class == "forged" {
			if random.addr.Equals(owner) {
				return random, random, "owner"
			}
			return ownerID, random, "forged"
		}
		return ownerID, ownerID, "owner"
	case "other-owner":
		// owners of other keys, different from this owner
		seen := map[string]bool{}
		var cands []ident
		for _, p := range m.acl {
			h := hex.EncodeToString(p.Addr)
			if seen[h] || p.Addr.Equals(owner) {
				continue
			}
			seen[h] = true
			if id, ok := m.identOf(p.Addr); ok {
				cands = append(cands, id)
			}
		}
		if len(cands) == 0 {
			return random, random, "random"
		}
		id := cands[rapid.IntRange(0, len(cands)-1).Draw(rt, "otherOwnerIdx")]
		return id, id, "other-owner"
	case "dao-owner":
		id, ok := m.identOf(m.daoOwner)
		if !ok {
			return random, random, "random"
		}
		return id, id, "dao-owner"
	}
	return random, random, "random"
}

func (m *c36Model) ownsSomething(a sdk.Address) bool {
	if a.Equals(m.daoOwner) {
		return true
	}
	for _, p := range m.acl {
		if p.Addr.Equals(a) {
			return true
		}
	}
	return false
}

func (m *c36Model) finishOp(op *c36Op, from, signer ident, class string, owner sdk.Address) {
	op.from = from.addr
	op.class = class
	op.genuine = from.addr.Equals(signer.addr)
	op.authorized = op.genuine && owner != nil && from.addr.Equals(owner)
	op.crossOwner = op.genuine && !op.authorized && m.ownsSomething(from.addr)
}

func (m *c36Model) sign(msg sdk.ProtoMsg, signer ident) []byte { return m.w.signAs(msg, signer) }

// ---------------------------------------------------------------------------------------------
// generators

func (m *c36Model) genChangeParam(rt *rapid.T, c *harness.Case, forceKey string) *c36Op {
	op := &c36Op{kind: "change-param", basicOK: true, feasible: true}
	key := forceKey
	unknown := false
	if key == "" {
		if rapid.IntRange(0, 11).Draw(rt, "unknownKey") == 0 {
			// keys without an ACL entry. Keys naming a subspace that does not exist ("nosuchspace/X", "/acl") are left out:
			// behind the ACL check they end in os.Exit, which would turn every ACL-bypass defect into a dead test
			// process instead of a reported violation; they take the same nil-owner path as these.
			key = rapid.SampledFrom([]string{"pos/NoSuchParam", "noslash", "gov/", "pos/maxvalidators", "application/acl", "gov/ACL"}).Draw(rt, "badKey")
			unknown = true
		} else if len(m.dropped) > 0 && rapid.Bool().Draw(rt, "droppedKey") {
			key = m.dropped[rapid.IntRange(0, len(m.dropped)-1).Draw(rt, "droppedIdx")]
			c.Label("key:dropped-from-acl")
		} else {
			key = m.acl[rapid.IntRange(0, len(m.acl)-1).Draw(rt, "keyIdx")].Key
		}
	}
	op.paramKey = key
	owner := m.owner(key)
	from, signer, class := m.pickSigner(rt, owner)
	m.finishOp(op, from, signer, class, owner)
	typ, known := m.types[key]
	if unknown || !known {
		// not in the ACL: nobody is authorised (the model has no owner), any value
		op.authorized = false
		op.feasible = false
		val := []byte(`"1"`)
		msg := &govTypes.MsgChangeParam{FromAddress: from.addr, ParamKey: key, ParamVal: val}
		op.tx = m.sign(msg, signer)
		op.desc = fmt.Sprintf("changeParam UNKNOWN-KEY %q=%s from %s [%s]", key, val, from.name, class)
		c.Label("key:unknown")
		return op
	}
	op.typ = typ
	valid := rapid.IntRange(0, 9).Draw(rt, "valid") < 6
	var raw []byte
	if valid {
		var v interface{}
		switch typ {
		case tACL:
			v = m.genReassignedACL(rt)
			newACL := v.(govTypes.ACL)
			op.apply = func() {
				// parameters the new list no longer names stay known to the model (their type), but have no owner
				for _, p := range m.acl {
					if newACL.GetOwner(p.Key) == nil {
						m.dropped = append(m.dropped, p.Key)
					}
				}
				m.acl = cloneACL(newACL)
				m.reassigned = true
			}
		case tAddress:
			ids := m.fundedIdents()
			id := ids[rapid.IntRange(0, len(ids)-1).Draw(rt, "newDaoOwner")]
			v = id.addr
			op.apply = func() {
				if !m.daoOwner.Equals(id.addr) {
					m.daoOwnerMoved = true
				}
				m.daoOwner = id.addr
			}
		case tUpgrade:
			// written straight into the params store (no merge, no activation): keep the stored height and a
			// parseable version <= the running one so that the next BeginBlock does not stop the process
			cur := m.n.App.VerifGovKeeper().GetUpgrade(m.n.Ctx())
			u := govTypes.Upgrade{Height: cur.Height, OldUpgradeHeight: cur.OldUpgradeHeight, Features: append([]string{}, cur.Features...),
				Version: rapid.SampledFrom([]string{"0.12.0", "0.11.0", "0.11.3"}).Draw(rt, "version")}
			if rapid.Bool().Draw(rt, "extraFeature") {
				u.Features = append(u.Features, fmt.Sprintf("ZZC36:%d", rapid.IntRange(1, 50).Draw(rt, "fh")))
			}
			v = u
		default:
			v = genTypedValue(rt, key, typ)
			if v == nil {
				rt.Fatalf("harness: no generator for parameter %s of type %s (add it to genTypedValue)", key, typ)
			}
		}
		op.newVal = v
		raw = mustJSON(v)
		c.Label("value:valid")
	} else {
		ivs := invalidValues(typ)
		raw = []byte(ivs[rapid.IntRange(0, len(ivs)-1).Draw(rt, "invalidIdx")])
		if _, err := decodeAs(raw, typ); err == nil {
			rt.Fatalf("harness: value %s meant to be invalid for %s decodes", raw, key)
		}
		op.feasible = false
		c.Label("value:invalid")
	}
	if rapid.IntRange(0, 24).Draw(rt, "basicInvalid") == 0 {
		// ValidateBasic rejects an empty value
		raw = nil
		op.basicOK = false
		c.Label("basic-invalid")
	}
	msg := &govTypes.MsgChangeParam{FromAddress: from.addr, ParamKey: key, ParamVal: raw}
	op.tx = m.sign(msg, signer)
	vs := string(raw)
	if len(vs) > 90 {
		vs = vs[:90] + "…"
	}
	op.desc = fmt.Sprintf("changeParam %s=%s from %s [%s, owner=%s]", key, vs, from.name, class, m.w.name(owner))
	cellsSeen[fmt.Sprintf("%s|%s|%v", key, class, valid)] = true
	return op
}

// genReassignedACL: the current ACL (same keys, same order) with 1-5 entries given to another identity.
// Keys are never added or removed: an owned key without a registered parameter makes ModifyParam panic /
// exit for its owner, which is outside this property.
func (m *c36Model) genReassignedACL(rt *rapid.T) govTypes.ACL {
	acl := cloneACL(m.acl)
	ids := m.fundedIdents()
	n := rapid.IntRange(1, 5).Draw(rt, "nReassign")
	for i := 0; i < n; i++ {
		var idx int
		if rapid.IntRange(0, 3).Draw(rt, "govKey") == 0 {
			// prefer the governance keys themselves now and then
			want := rapid.SampledFrom([]string{"gov/acl", "gov/daoOwner", "gov/upgrade"}).Draw(rt, "whichGov")
			for j, p := range acl {
				if p.Key == want {
					idx = j
				}
			}
		} else {
			idx = rapid.IntRange(0, len(acl)-1).Draw(rt, "aclIdx")
		}
		acl[idx].Addr = append(sdk.Address{}, ids[rapid.IntRange(0, len(ids)-1).Draw(rt, "newOwner")].addr...)
	}
	// a replacement list may also simply leave a parameter out (nothing validates a gov/acl change): that parameter then
	// has no owner at all, and nobody may change it
	if rapid.IntRange(0, 3).Draw(rt, "dropKey") == 0 {
		var cand []int
		for j, p := range acl {
			if p.Key != "gov/acl" && p.Key != "gov/daoOwner" && p.Key != "gov/upgrade" {
				cand = append(cand, j)
			}
		}
		if len(cand) > 0 {
			j := cand[rapid.IntRange(0, len(cand)-1).Draw(rt, "dropIdx")]
			acl = append(acl[:j:j], acl[j+1:]...)
		}
	}
	return acl
}

func (m *c36Model) genDAO(rt *rapid.T, c *harness.Case) *c36Op {
	op := &c36Op{basicOK: true, feasible: true, moves: map[string]int64{}}
	action := rapid.SampledFrom([]string{govTypes.DAOTransferString, govTypes.DAOBurnString}).Draw(rt, "action")
	op.kind = "dao-transfer"
	if action == govTypes.DAOBurnString {
		op.kind = "dao-burn"
	}
	from, signer, class := m.pickSigner(rt, m.daoOwner)
	if class == "other-owner" || class == "dao-owner" {
		// the interesting non-owner for DAO funds: whoever may change the gov/daoOwner parameter
		if o := m.owner("gov/daoOwner"); o != nil && !o.Equals(m.daoOwner) {
			if id, ok := m.identOf(o); ok {
				from, signer, class = id, id, "acl-owner-of-daoOwner-key"
			}
		}
	}
	m.finishOp(op, from, signer, class, m.daoOwner)
	bal := m.n.Balance(m.daoAddr).Int64()
	amtClass := rapid.SampledFrom([]string{"0", "1", "bal", "bal+1", "mid", "neg"}).Draw(rt, "amtClass")
	var amt int64
	switch amtClass {
	case "0":
		amt = 0
	case "1":
		amt = 1
	case "bal":
		amt = bal
	case "bal+1":
		amt = bal + 1
	case "mid":
		amt = int64(rapid.Int64Range(0, bal+2).Draw(rt, "amt"))
	case "neg":
		amt = -int64(rapid.IntRange(1, 1000).Draw(rt, "negAmt"))
	}
	c.Label("dao:amount=" + amtClass)
	msg := &govTypes.MsgDAOTransfer{FromAddress: from.addr, Amount: sdk.NewInt(amt), Action: action}
	toName := "-"
	var to sdk.Address
	if action == govTypes.DAOTransferString {
		pool := append(append(append([]ident{}, m.w.randoms...), m.w.fresh...), m.w.dao, from)
		// the DAO module account itself (and the fee collector) as recipient: a transfer onto itself moves nothing
		pool = append(pool, ident{addr: m.daoAddr, name: "dao-module-account"}, ident{addr: m.feeAddr, name: "fee-collector"})
		t := pool[rapid.IntRange(0, len(pool)-1).Draw(rt, "to")]
		to, toName = t.addr, t.name
		msg.ToAddress = to
	}
	switch rapid.IntRange(0, 29).Draw(rt, "basicInvalid") {
	case 0:
		msg.Action = "dao_steal"
		op.basicOK = false
	case 1:
		if action == govTypes.DAOTransferString {
			msg.ToAddress = nil
			op.basicOK = false
		}
	}
	if amt == 0 {
		op.basicOK = false
	}
	if !op.basicOK {
		c.Label("basic-invalid")
	}
	if amt <= 0 || amt > bal {
		op.feasible = false
	} else {
		op.moves[hex.EncodeToString(m.daoAddr)] -= amt
		if action == govTypes.DAOTransferString {
			op.moves[hex.EncodeToString(to)] += amt
		} else {
			op.supplyDelta = -amt
		}
	}
	op.tx = m.sign(msg, signer)
	op.desc = fmt.Sprintf("%s amount=%d(%s of %d) to=%s from %s [%s, daoOwner=%s]", msg.Action, amt, amtClass, bal, toName, from.name, class, m.w.name(m.daoOwner))
	c.Label("dao:" + action)
	return op
}

func (m *c36Model) genUpgrade(rt *rapid.T, c *harness.Case) *c36Op {
	op := &c36Op{kind: "upgrade", basicOK: true, feasible: true, paramKey: "gov/upgrade", typ: tUpgrade}
	owner := m.owner("gov/upgrade")
	from, signer, class := m.pickSigner(rt, owner)
	m.finishOp(op, from, signer, class, owner)
	// feature-only upgrade as the CLI builds it (Height 1, Version FEATURE) with made-up feature keys that gate nothing
	u := govTypes.Upgrade{Height: 1, Version: "FEATURE"}
	nf := rapid.IntRange(0, 2).Draw(rt, "nFeatures")
	for i := 0; i < nf; i++ {
		u.Features = append(u.Features, fmt.Sprintf("ZC36%s:%d", rapid.SampledFrom([]string{"A", "B", "C"}).Draw(rt, "fk"), rapid.IntRange(1, 60).Draw(rt, "fh")))
	}
	switch rapid.IntRange(0, 19).Draw(rt, "basicInvalid") {
	case 0:
		u.Height = 0
		op.basicOK = false
	case 1:
		u.Version = ""
		op.basicOK = false
	}
	if !op.basicOK {
		c.Label("basic-invalid")
	}
	// last writer wins inside one message
	last := map[string]string{}
	for _, f := range u.Features {
		last[strings.SplitN(f, ":", 2)[0]] = f
	}
	for _, f := range last {
		op.wantFeats = append(op.wantFeats, f)
	}
	sort.Strings(op.wantFeats)
	msg := &govTypes.MsgUpgrade{Address: from.addr, Upgrade: u}
	op.tx = m.sign(msg, signer)
	op.desc = fmt.Sprintf("upgrade{h=%d v=%q features=%v} from %s [%s, owner=%s]", u.Height, u.Version, u.Features, from.name, class, m.w.name(owner))
	return op
}

// ---------------------------------------------------------------------------------------------
// oracle

func (m *c36Model) check(c *harness.Case, op *c36Op, before, after *snapshot, res chain.TxResult) {
	feeCharged := op.genuine && op.basicOK
	effect := feeCharged && op.authorized && op.feasible
	who := "owner"
	switch {
	case !op.basicOK:
		who = "basic-invalid"
	case !op.genuine:
		who = "forged-sender"
	case !op.authorized:
		who = "non-owner"
	case !op.feasible:
		who = "owner-infeasible"
	}
	sig := func(what string) string { return "C36/" + op.kind + "/" + who + "/" + what }
	ctx := fmt.Sprintf("%s -> code=%d", op.desc, res.Code)

	// balances
	delta := map[string]int64{}
	if feeCharged {
		delta[hex.EncodeToString(op.from)] -= txFee
		delta[hex.EncodeToString(m.feeAddr)] += txFee
	}
	supplyDelta := int64(0)
	if effect {
		for a, d := range op.moves {
			delta[a] += d
		}
		supplyDelta = op.supplyDelta
	}
	if bm := balanceMismatch(m.w, before, after, delta); bm != "" {
		if !c.Violation(sig("balances"), "%s: balances differ from the prediction: %s", ctx, bm) {
			return
		}
	}
	if after.supplU != before.supplU+supplyDelta || (supplyDelta == 0 && after.supply != before.supply) {
		if !c.Violation(sig("supply"), "%s: supply %s -> %s, expected upokt delta %d", ctx, before.supply, after.supply, supplyDelta) {
			return
		}
	}
	// every other store
	diff := nonAuthDiff(before, after)
	allowed := ""
	if effect && op.paramKey != "" {
		allowed = "params:" + op.paramKey
	}
	var unexpected []string
	for _, d := range diff {
		if d != allowed {
			unexpected = append(unexpected, d)
		}
	}
	if len(unexpected) > 0 {
		if !c.Violation(sig("store"), "%s: state keys changed that the request may not touch: %v (old %q new %q)", ctx, unexpected,
			trunc(before.param(strings.TrimPrefix(unexpected[0], "params:"))), trunc(after.param(strings.TrimPrefix(unexpected[0], "params:")))) {
			return
		}
	}
	if !effect {
		if res.Code == 0 && feeCharged && !op.authorized {
			c.Label("non-owner-code0")
		}
		if op.crossOwner && feeCharged {
			m.crossOwnerRefused = true
		}
		return
	}
	// authorised, feasible
	switch op.kind {
	case "change-param":
		raw := after.param(op.paramKey)
		got, err := decodeAs(raw, op.typ)
		if err != nil || canonical(got) != canonical(op.newVal) {
			if !c.Violation(sig("value-not-stored"), "%s: stored %q (decode err %v) is not the submitted value %s (before: %q)", ctx, trunc(raw), err, trunc([]byte(canonical(op.newVal))), trunc(before.param(op.paramKey))) {
				return
			}
		}
		m.ownerStored = true
	case "upgrade":
		raw := after.param(op.paramKey)
		got, err := decodeAs(raw, tUpgrade)
		if err != nil {
			if !c.Violation(sig("value-not-stored"), "%s: stored upgrade %q does not decode: %v", ctx, trunc(raw), err) {
				return
			}
			break
		}
		have := map[string]bool{}
		for _, f := range got.(govTypes.Upgrade).Features {
			have[f] = true
		}
		for _, f := range op.wantFeats {
			if !have[f] {
				if !c.Violation(sig("value-not-stored"), "%s: stored upgrade %q lacks the submitted feature %s", ctx, trunc(raw), f) {
					return
				}
			}
		}
		m.ownerStored = true
	}
	if res.Code != 0 {
		c.Label("owner-code!=0")
	}
	if op.apply != nil {
		op.apply()
	}
}

func trunc(b []byte) string {
	if len(b) > 160 {
		return string(b[:160]) + "…"
	}
	return string(b)
}

// between blocks: the stored ACL and DAO owner equal the model (nothing but authorised txs changes them)
func (m *c36Model) checkStanding(c *harness.Case, where string) {
	ctx := m.n.Ctx()
	got := m.n.App.VerifGovKeeper().GetACL(ctx)
	if aclString(got) != aclString(m.acl) {
		c.Violation("C36/acl/stored-acl-differs-from-model", "%s: stored ACL %s, model %s", where, aclString(got), aclString(m.acl))
	}
	if d := m.n.App.VerifGovKeeper().GetDAOOwner(ctx); !d.Equals(m.daoOwner) {
		c.Violation("C36/dao-owner/stored-differs-from-model", "%s: stored DAO owner %s, model %s", where, d, m.daoOwner)
	}
}

func TestC36(t *testing.T) {
	harness.Check(t, "C36",
		"chain simulator (real app, real signed txs): genesis with the ACL keys spread over 3 owners (DAO owner, ownerA, ownerB), 3 funded strangers; "+
			"2-5 blocks x 1-5 txs drawn from: MsgChangeParam for a key enumerated from the ACL stored in state (incl. the keys activated at height 3) or an unknown key, "+
			"value valid (safe domain, encoded as the CLI does) or undecodable for the key's type; gov/acl reassignments and gov/daoOwner changes; MsgDAOTransfer transfer/burn with "+
			"amount in {0,1,balance,balance+1,mid,negative}; feature-only MsgUpgrade; sender in {owner, owner of another key, DAO owner, stranger, forged (owner address, stranger's signature)}; "+
			"oracle = full state diff (every store key, every balance, supply) around each DeliverTx against the model's prediction. "+
			"non-trivial = the case contains a refused request from a sender that owns a different key or the DAO, and an owner change verified stored",
		map[string]float64{"signer:owner": 0.5, "signer:other-owner": 0.4, "signer:dao-owner": 0.3, "signer:random": 0.4, "signer:forged": 0.3,
			"value:valid": 0.5, "value:invalid": 0.5, "acl-reassigned": 0.08, "dao:dao_transfer": 0.3, "dao:dao_burn": 0.3, "dao:amount=bal+1": 0.1, "dao:amount=bal": 0.1,
			"upgrade": 0.3, "authorized-after-reassign": 0.05},
		func(rt *rapid.T, c *harness.Case) {
			w := genGovWorld(rt, true)
			n := chain.NewNode(&w.spec)
			m := &c36Model{w: w, n: n, types: paramTypes()}
			ctx := n.Ctx()
			m.acl = cloneACL(n.App.VerifGovKeeper().GetACL(ctx))
			m.daoOwner = n.App.VerifGovKeeper().GetDAOOwner(ctx)
			m.daoAddr = n.App.VerifAccountKeeper().GetModuleAddress(govTypes.DAOAccountName)
			m.feeAddr = n.App.VerifAccountKeeper().GetModuleAddress(authTypes.FeeCollectorName)
			w.labels = map[string]string{hex.EncodeToString(m.daoAddr): "DAO-account", hex.EncodeToString(m.feeAddr): "fee-collector"}
			// harness self-check: the generated genesis owners are what the state holds
			for _, k := range chain.ACLKeys {
				want := w.dao.addr
				if o, ok := w.spec.ACLOwners[k]; ok {
					want = chain.Addr(o)
				}
				if !m.owner(k).Equals(want) {
					rt.Fatalf("harness: genesis ACL owner of %s is %s, expected %s", k, m.owner(k), want)
				}
			}
			for _, p := range m.acl {
				if _, ok := m.types[p.Key]; !ok {
					rt.Fatalf("harness: ACL key %s has no registered parameter type", p.Key)
				}
			}
			nOwners := map[string]bool{}
			for _, p := range m.acl {
				nOwners[hex.EncodeToString(p.Addr)] = true
			}
			c.Opf("world nodes=%d apps=%d daoTokens=%d aclKeys=%d distinctOwners=%d", len(w.spec.Nodes), len(w.spec.Apps), w.spec.DAOTokens, len(m.acl), len(nOwners))
			nBlocks := rapid.IntRange(2, 5).Draw(rt, "nBlocks")
			for b := 0; b < nBlocks; b++ {
				n.BeginBlock(chain.Block{DT: time.Duration(rapid.IntRange(1, 30).Draw(rt, "dt")) * time.Second})
				ntx := rapid.IntRange(1, 5).Draw(rt, "nTxs")
				snap := takeSnapshot(n)
				for i := 0; i < ntx; i++ {
					var op *c36Op
					switch rapid.SampledFrom([]string{"param", "param", "param", "param", "param", "param", "dao", "dao", "dao", "upgrade", "acl", "daoOwner"}).Draw(rt, "op") {
					case "param":
						op = m.genChangeParam(rt, c, "")
					case "dao":
						op = m.genDAO(rt, c)
					case "upgrade":
						op = m.genUpgrade(rt, c)
						c.Label("upgrade")
					case "acl":
						op = m.genChangeParam(rt, c, "gov/acl")
					case "daoOwner":
						op = m.genChangeParam(rt, c, "gov/daoOwner")
					}
					c.Opf("h%d %s", n.Height+1, op.desc)
					c.Label("signer:" + op.class)
					if op.authorized && m.reassigned {
						c.Label("authorized-after-reassign")
					}
					r := n.DeliverTx(op.tx)
					after := takeSnapshot(n)
					m.check(c, op, snap, after, chain.TxResult{Code: r.Code, Codespace: r.Codespace, Log: r.Log})
					snap = after
					c.AddExtra("txs_checked", 1)
					if m.reassigned {
						c.Label("acl-reassigned")
					}
					if m.daoOwnerMoved {
						c.Label("dao-owner-moved")
					}
				}
				n.Commit(n.EndBlock())
				m.checkStanding(c, fmt.Sprintf("after block %d", n.Height))
			}
			// one more block: the chain keeps running with the accepted values
			n.RunBlock(chain.Block{DT: time.Second})
			m.checkStanding(c, "after the final block")
			if m.crossOwnerRefused && m.ownerStored {
				c.NonTrivial()
			}
			c.Extra("matrix_cells_seen(key|signer|valid)", len(cellsSeen))
		})
}
