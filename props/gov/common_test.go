package gov

import (
	"encoding/hex"
	"fmt"
	"reflect"
	"sort"
	"strings"
	"time"

	"pgregory.net/rapid"

	"github.com/pokt-network/pocket-core/app"
	"github.com/pokt-network/pocket-core/crypto"
	sdk "github.com/pokt-network/pocket-core/types"
	appsTypes "github.com/pokt-network/pocket-core/x/apps/types"
	authTypes "github.com/pokt-network/pocket-core/x/auth/types"
	govTypes "github.com/pokt-network/pocket-core/x/gov/types"
	nodesTypes "github.com/pokt-network/pocket-core/x/nodes/types"
	pocketTypes "github.com/pokt-network/pocket-core/x/pocketcore/types"

	"verif/harness/chain"
)

// ---------------------------------------------------------------------------------------------
// identities and world

type ident struct {
	name string
	key  crypto.PrivateKey
	addr sdk.Address
}

func mkIdent(name string) ident {
	k := chain.Key("gov-" + name)
	return ident{name: name, key: k, addr: chain.Addr(k)}
}

func (i ident) hex() string { return hex.EncodeToString(i.addr) }

// govWorld is a small genesis for the governance properties: a DAO owner, two more parameter owners,
// three funded accounts without any role, two unfunded addresses, 1-2 validators, 0-1 application.
type govWorld struct {
	spec    chain.Spec
	dao     ident
	owners  []ident // further ACL owner identities (ownerA, ownerB)
	randoms []ident // funded, no role at genesis
	fresh   []ident // no account at genesis
	byAddr  map[string]ident
	labels  map[string]string // hex address -> display name of module accounts
	entropy int64
}

const richBalance = int64(1_000_000_000)

// txFee is paid by every generated transaction: the required fee is 10000 x the configured multiplier and the
// ante handler charges the whole offered fee, so 100000 covers every generated multiplier (<= 5).
const txFee = int64(100_000)

func genGovWorld(rt *rapid.T, splitOwners bool) *govWorld {
	w := &govWorld{spec: chain.DefaultSpec(), byAddr: map[string]ident{}}
	s := &w.spec
	w.dao = ident{name: "dao", key: s.DAOOwner, addr: chain.Addr(s.DAOOwner)}
	w.owners = []ident{mkIdent("ownerA"), mkIdent("ownerB")}
	w.randoms = []ident{mkIdent("acc0"), mkIdent("acc1"), mkIdent("acc2")}
	w.fresh = []ident{mkIdent("fresh0"), mkIdent("fresh1")}
	all := append(append([]ident{w.dao}, w.owners...), w.randoms...)
	for _, id := range all {
		s.Accounts = append(s.Accounts, chain.AccountSpec{Key: id.key, Balance: richBalance})
		w.byAddr[id.hex()] = id
	}
	for _, id := range w.fresh {
		w.byAddr[id.hex()] = id
	}
	nn := rapid.IntRange(1, 2).Draw(rt, "nNodes")
	for i := 0; i < nn; i++ {
		k := chain.Key(fmt.Sprintf("gov-node%d", i))
		s.Accounts = append(s.Accounts, chain.AccountSpec{Key: k, Balance: richBalance})
		s.Nodes = append(s.Nodes, chain.NodeSpec{Key: k, Stake: chain.StakeUnit * int64(i+1), Chains: []string{"0001"}})
	}
	if rapid.Bool().Draw(rt, "hasApp") {
		k := chain.Key("gov-app0")
		s.Accounts = append(s.Accounts, chain.AccountSpec{Key: k, Balance: richBalance})
		s.Apps = append(s.Apps, chain.AppSpec{Key: k, Stake: 10_000_000, Chains: []string{"0001"}})
	}
	s.DAOTokens = rapid.SampledFrom([]int64{1, 2, 1000, 5_000_000}).Draw(rt, "daoTokens")
	if splitOwners {
		s.ACLOwners = map[string]crypto.PrivateKey{}
		for _, k := range chain.ACLKeys {
			switch rapid.IntRange(0, 2).Draw(rt, "owner:"+k) {
			case 1:
				s.ACLOwners[k] = w.owners[0].key
			case 2:
				s.ACLOwners[k] = w.owners[1].key
			}
		}
	}
	return w
}

func (w *govWorld) name(a sdk.Address) string {
	if id, ok := w.byAddr[hex.EncodeToString(a)]; ok {
		return id.name
	}
	if l, ok := w.labels[hex.EncodeToString(a)]; ok {
		return l
	}
	h := hex.EncodeToString(a)
	if len(h) > 8 {
		h = h[:8]
	}
	return h
}

func (w *govWorld) nextEntropy() int64 { w.entropy++; return w.entropy }

// signAs builds a standard tx for msg, signed by signer with its own public key, offering txFee.
func (w *govWorld) signAs(msg sdk.ProtoMsg, signer ident) []byte {
	return chain.SignTx(w.spec.ChainID, msg, txFee, "", w.nextEntropy(), signer.key)
}

// ---------------------------------------------------------------------------------------------
// parameter type registry (derived from the modules' ParamSets, so new parameters are picked up)

func paramTypes() map[string]reflect.Type {
	m := map[string]reflect.Type{}
	add := func(sub string, ps sdk.ParamSet) {
		for _, p := range ps.ParamSetPairs() {
			t := reflect.TypeOf(p.Value)
			if t.Kind() == reflect.Ptr {
				t = t.Elem()
			}
			m[sub+"/"+string(p.Key)] = t
		}
	}
	add(nodesTypes.DefaultParamspace, &nodesTypes.Params{})
	add(appsTypes.DefaultParamspace, &appsTypes.Params{})
	add(pocketTypes.DefaultParamspace, &pocketTypes.Params{})
	add(string(authTypes.DefaultCodespace), &authTypes.Params{})
	add(govTypes.DefaultParamspace, &govTypes.Params{})
	return m
}

var (
	tInt64    = reflect.TypeOf(int64(0))
	tUint64   = reflect.TypeOf(uint64(0))
	tDuration = reflect.TypeOf(time.Duration(0))
	tDec      = reflect.TypeOf(sdk.BigDec{})
	tBool     = reflect.TypeOf(false)
	tString   = reflect.TypeOf("")
	tStrings  = reflect.TypeOf([]string{})
	tMapInt   = reflect.TypeOf(map[string]int64{})
	tFeeMult  = reflect.TypeOf(authTypes.FeeMultipliers{})
	tACL      = reflect.TypeOf(govTypes.ACL{})
	tAddress  = reflect.TypeOf(sdk.Address{})
	tUpgrade  = reflect.TypeOf(govTypes.Upgrade{})
)

// safe domains for integer parameters: the values a governance body would send and the chain survives
// (no zero divisors: BlocksPerSession >= 2, SignedBlocksWindow >= 10, allocations 1..40, stake bins > 0).
var intDomain = map[string][2]int64{
	"pos/MaxValidators":                     {1, 8},
	"pos/StakeMinimum":                      {0, 30_000_000_000},
	"pos/SignedBlocksWindow":                {10, 40},
	"pos/BlocksPerSession":                  {2, 8},
	"pos/DAOAllocation":                     {1, 40},
	"pos/ProposerPercentage":                {1, 40},
	"pos/RelaysToTokensMultiplier":          {0, 10000},
	"pos/MaximumChains":                     {1, 20},
	"pos/MaxJailedBlocks":                   {1, 100},
	"pos/ServicerStakeFloorMultiplier":      {1_000_000, 30_000_000_000},
	"pos/ServicerStakeWeightCeiling":        {1_000_000, 60_000_000_000},
	"application/MaxApplications":           {1, 20},
	"application/ApplicationStakeMinimum":   {0, 100_000_000},
	"application/BaseRelaysPerPOKT":         {1, 1000},
	"application/StabilityAdjustment":       {-50, 50},
	"application/MaximumChains":             {1, 20},
	"pocketcore/ClaimExpiration":            {1, 20},
	"pocketcore/ReplayAttackBurnMultiplier": {0, 10},
	"pocketcore/ClaimSubmissionWindow":      {1, 6},
	"pocketcore/MinimumNumberOfProofs":      {1, 20},
	"pocketcore/SessionNodeCount":           {1, 5},
	"pocketcore/BlockByteSize":              {1_000_000, 8_000_000},
	"auth/MaxMemoCharacters":                {0, 512},
	"auth/TxSigLimit":                       {1, 10},
}

var msgTypeNames = []string{"send", "change_param", "dao_tranfer", "upgrade", "stake_validator", "app_stake"}

// genTypedValue draws a valid value (of exactly the registered Go type) for a parameter, inside the safe domain.
// ACL, Address and Upgrade values are produced by the callers (they depend on the model).
func genTypedValue(rt *rapid.T, key string, t reflect.Type) interface{} {
	switch t {
	case tInt64, tUint64:
		d, ok := intDomain[key]
		if !ok {
			d = [2]int64{1, 1000}
		}
		v := rapid.Int64Range(d[0], d[1]).Draw(rt, "int")
		if t == tUint64 {
			return uint64(v)
		}
		return v
	case tDuration:
		return time.Duration(rapid.IntRange(0, 3600).Draw(rt, "secs")) * time.Second
	case tDec:
		switch key {
		case "pos/ServicerStakeWeightMultiplier":
			return sdk.NewDecWithPrec(int64(rapid.IntRange(10, 1000).Draw(rt, "dec")), 2)
		case "pos/ServicerStakeFloorMultiplierExponent":
			return sdk.NewDecWithPrec(int64(rapid.IntRange(10, 100).Draw(rt, "dec")), 2)
		default:
			return sdk.NewDecWithPrec(int64(rapid.IntRange(0, 100).Draw(rt, "dec")), 2)
		}
	case tBool:
		return rapid.Bool().Draw(rt, "bool")
	case tString:
		// pos/StakeDenom: the only denomination the chain works with
		return sdk.DefaultStakeDenom
	case tStrings:
		all := []string{"0001", "0021", "0040", "03DF"}
		n := rapid.IntRange(1, len(all)).Draw(rt, "nChains")
		off := rapid.IntRange(0, len(all)-1).Draw(rt, "off")
		out := make([]string, 0, n)
		for i := 0; i < n; i++ {
			out = append(out, all[(off+i)%len(all)])
		}
		return out
	case tMapInt:
		m := map[string]int64{}
		n := rapid.IntRange(0, 3).Draw(rt, "nEntries")
		for i := 0; i < n; i++ {
			m[rapid.SampledFrom([]string{"0001", "0021", "0040", "03DF"}).Draw(rt, "chain")] = int64(rapid.IntRange(0, 5000).Draw(rt, "mult"))
		}
		return m
	case tFeeMult:
		fm := authTypes.FeeMultipliers{Default: int64(rapid.IntRange(1, 5).Draw(rt, "default"))}
		n := rapid.IntRange(0, 2).Draw(rt, "nMultis")
		for i := 0; i < n; i++ {
			fm.FeeMultis = append(fm.FeeMultis, authTypes.FeeMultiplier{Key: rapid.SampledFrom(msgTypeNames).Draw(rt, "msgType"),
				Multiplier: int64(rapid.IntRange(1, 5).Draw(rt, "mult"))})
		}
		return fm
	}
	return nil
}

// invalidValues lists JSON texts that do not decode as the parameter's Go type (checked by TestInvalidValuesAreInvalid).
func invalidValues(t reflect.Type) []string {
	switch t {
	case tInt64, tDuration:
		return []string{`"abc"`, `{"x":"1"}`, `["1"]`, `true`, `"1.5"`, `"99999999999999999999999"`}
	case tUint64:
		return []string{`"abc"`, `{"x":"1"}`, `["1"]`, `true`, `"-5"`}
	case tDec:
		return []string{`"abc"`, `{"x":"1"}`, `["1"]`, `true`, `"1.5.5"`}
	case tBool:
		return []string{`"yes"`, `{"x":"1"}`, `["1"]`, `"1"`}
	case tString:
		return []string{`5`, `{"x":"1"}`, `["upokt"]`, `true`}
	case tStrings:
		return []string{`"0001"`, `{"a":"b"}`, `[1,2]`, `true`}
	case tMapInt:
		return []string{`"x"`, `["a"]`, `{"0001":"abc"}`, `true`}
	case tFeeMult:
		return []string{`"x"`, `["a"]`, `{"default":"abc","fee_multiplier":null}`, `true`}
	case tACL:
		return []string{`"x"`, `{"type":"gov/non_map_acl","value":"zzz"}`, `{"type":"gov/nope","value":[]}`, `[{"acl_key":5}]`, `true`}
	case tAddress:
		return []string{`"zz"`, `5`, `{"a":"b"}`, `["00"]`}
	case tUpgrade:
		return []string{`"x"`, `{"type":"gov/upgrade","value":{"Height":"abc"}}`, `{"type":"gov/nope","value":{}}`, `["a"]`, `true`}
	}
	return []string{`{"unknown":`, `}{`}
}

func mustJSON(v interface{}) []byte {
	bz, err := app.Codec().MarshalJSON(v)
	if err != nil {
		panic(err)
	}
	return bz
}

// canonical renders a typed value the way equality is judged: sorted amino JSON.
func canonical(v interface{}) string {
	if v == nil {
		return "<nil>"
	}
	return string(sdk.MustSortJSON(mustJSON(v)))
}

// decodeAs decodes raw parameter bytes into a fresh value of type t (returned as the element value).
func decodeAs(raw []byte, t reflect.Type) (interface{}, error) {
	p := reflect.New(t)
	if err := app.Codec().UnmarshalJSON(raw, p.Interface()); err != nil {
		return nil, err
	}
	return p.Elem().Interface(), nil
}

// ---------------------------------------------------------------------------------------------
// state snapshots

type snapshot struct {
	dump   map[string][]chain.KV
	upokt  map[string]int64  // hex address -> upokt balance
	other  map[string]string // hex address -> coins other than upokt (rendered)
	supply string            // total supply rendered
	supplU int64             // upokt supply
}

func takeSnapshot(n *chain.Node) *snapshot {
	s := &snapshot{dump: n.Dump(), upokt: map[string]int64{}, other: map[string]string{}}
	for a, coins := range n.Accounts() {
		s.upokt[a] = coins.AmountOf(sdk.DefaultStakeDenom).Int64()
		var rest []string
		for _, c := range coins {
			if c.Denom != sdk.DefaultStakeDenom {
				rest = append(rest, c.String())
			}
		}
		s.other[a] = strings.Join(rest, ",")
	}
	sup := n.Supply()
	s.supply = sup.String()
	s.supplU = sup.AmountOf(sdk.DefaultStakeDenom).Int64()
	return s
}

func (s *snapshot) param(key string) []byte {
	for _, kv := range s.dump["params"] {
		if string(kv.K) == key {
			return kv.V
		}
	}
	return nil
}

// nonAuthDiff lists "<store>:<key>" for every key outside the auth store whose value differs between a and b.
func nonAuthDiff(a, b *snapshot) []string {
	var out []string
	names := map[string]bool{}
	for k := range a.dump {
		names[k] = true
	}
	for k := range b.dump {
		names[k] = true
	}
	for name := range names {
		if name == "auth" {
			continue
		}
		am, bm := map[string]string{}, map[string]string{}
		for _, kv := range a.dump[name] {
			am[string(kv.K)] = string(kv.V)
		}
		for _, kv := range b.dump[name] {
			bm[string(kv.K)] = string(kv.V)
		}
		for k, v := range am {
			if w, ok := bm[k]; !ok || w != v {
				out = append(out, name+":"+k)
			}
		}
		for k := range bm {
			if _, ok := am[k]; !ok {
				out = append(out, name+":"+k)
			}
		}
	}
	sort.Strings(out)
	return out
}

// balanceMismatch compares every account of the two snapshots against before+delta; returns a rendering of the
// first mismatches ("" when all agree). Accounts other than upokt holdings must be unchanged.
func balanceMismatch(w *govWorld, before, after *snapshot, delta map[string]int64) string {
	addrs := map[string]bool{}
	for a := range before.upokt {
		addrs[a] = true
	}
	for a := range after.upokt {
		addrs[a] = true
	}
	for a := range delta {
		addrs[a] = true
	}
	as := make([]string, 0, len(addrs))
	for a := range addrs {
		as = append(as, a)
	}
	sort.Strings(as)
	var out []string
	for _, a := range as {
		want := before.upokt[a] + delta[a]
		if after.upokt[a] != want || before.other[a] != after.other[a] {
			bz, _ := hex.DecodeString(a)
			out = append(out, fmt.Sprintf("%s(%s): before=%d expectedDelta=%d after=%d other:%q->%q", w.name(bz), a[:8], before.upokt[a], delta[a], after.upokt[a], before.other[a], after.other[a]))
		}
	}
	return strings.Join(out, "; ")
}

func aclString(a govTypes.ACL) string {
	var sb strings.Builder
	for _, p := range a {
		sb.WriteString(p.Key)
		sb.WriteString("=")
		sb.WriteString(hex.EncodeToString(p.Addr))
		sb.WriteString(";")
	}
	return sb.String()
}

func cloneACL(a govTypes.ACL) govTypes.ACL {
	out := make(govTypes.ACL, len(a))
	for i, p := range a {
		out[i] = govTypes.ACLPair{Key: p.Key, Addr: append(sdk.Address{}, p.Addr...)}
	}
	return out
}
