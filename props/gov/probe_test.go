package gov

import (
	"testing"
	"time"

	"github.com/pokt-network/pocket-core/codec"
	govTypes "github.com/pokt-network/pocket-core/x/gov/types"
	"pgregory.net/rapid"

	"verif/harness/chain"
)

func TestProbeNotes(t *testing.T) {
	rapid.Check(t, func(rt *rapid.T) {
		w := genGovWorld(rt, false)
		n := chain.NewNode(&w.spec)
		gk := n.App.VerifGovKeeper()
		send := func(u govTypes.Upgrade) {
			n.BeginBlock(chain.Block{DT: time.Second})
			r := n.DeliverTx(w.signAs(&govTypes.MsgUpgrade{Address: w.dao.addr, Upgrade: u}, w.dao))
			n.Commit(n.EndBlock())
			lg := r.Log
			if len(lg) > 150 {
				lg = lg[:150]
			}
			t.Logf("upgrade %v -> code %d log %q", u, r.Code, lg)
			t.Logf("   stored %v", gk.GetUpgrade(n.Ctx()).Features)
			t.Logf("   globals %v", codec.UpgradeFeatureMap)
		}
		send(govTypes.Upgrade{Height: 1, Version: "FEATURE", Features: []string{"NOCOLON"}})
		send(govTypes.Upgrade{Height: 1, Version: "FEATURE", Features: []string{"BAD:abc"}})
		send(govTypes.Upgrade{Height: 1, Version: "FEATURE", Features: []string{"ZERO:0"}})
		send(govTypes.Upgrade{Height: 1, Version: "FEATURE", Features: []string{"TRI:5:6"}})
		// gov/upgrade through MsgChangeParam
		cur := gk.GetUpgrade(n.Ctx())
		cur.Features = append(cur.Features, "VIAPARAM:9")
		n.BeginBlock(chain.Block{DT: time.Second})
		r := n.DeliverTx(w.signAs(&govTypes.MsgChangeParam{FromAddress: w.dao.addr, ParamKey: "gov/upgrade", ParamVal: mustJSON(cur)}, w.dao))
		n.Commit(n.EndBlock())
		t.Logf("changeParam gov/upgrade code %d; stored %v", r.Code, gk.GetUpgrade(n.Ctx()).Features)
		t.Logf("   running globals %v", codec.UpgradeFeatureMap)
		_, m, h, o := restartFromDefaults(n)
		t.Logf("   restarted globals %v %d %d", m, h, o)
	})
}
