package gov

import (
	"sort"
	"testing"
)

func TestProbeInvalid(t *testing.T) {
	pt := paramTypes()
	keys := make([]string, 0)
	for k := range pt {
		keys = append(keys, k)
	}
	sort.Strings(keys)
	for _, k := range keys {
		ty := pt[k]
		for _, iv := range invalidValues(ty) {
			v, err := decodeAs([]byte(iv), ty)
			if err == nil {
				t.Errorf("%s (%s): invalid candidate %s decodes to %v", k, ty, iv, v)
			}
		}
	}
	t.Log(len(keys), "keys")
}
