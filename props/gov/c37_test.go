package gov

import (
	"fmt"
	"math"
	"sort"
	"strconv"
	"strings"
	"testing"
	"time"

	abci "github.com/tendermint/tendermint/abci/types"
	"github.com/tendermint/tendermint/libs/log"
	"github.com/tendermint/tendermint/rpc/client"
	ctypes "github.com/tendermint/tendermint/rpc/core/types"
	"pgregory.net/rapid"

	"github.com/pokt-network/pocket-core/app"
	bam "github.com/pokt-network/pocket-core/baseapp"
	"github.com/pokt-network/pocket-core/codec"
	"github.com/pokt-network/pocket-core/crypto"
	"github.com/pokt-network/pocket-core/crypto/keys"
	"github.com/pokt-network/pocket-core/store"
	sdk "github.com/pokt-network/pocket-core/types"
	govTypes "github.com/pokt-network/pocket-core/x/gov/types"
	pocketTypes "github.com/pokt-network/pocket-core/x/pocketcore/types"

	"verif/harness"
	"verif/harness/chain"
)

// C37: after an upgrade message every named feature is active exactly from its activation height, earlier features
// stay scheduled, the stored list has no duplicates and a canonical (sorted) order, and a restarted node derives
// the same schedule from state.
//
// Safe domain on the simulator (documented restriction; heights there are far below main-net's 30024):
//   - the gov BeginBlock exits the process when the stored version does not parse or is newer than the running
//     "0.12.0" at/after the upgrade height  => versions are dot-separated integers <= 0.12.0;
//   - codec.GetCodecUpgradeHeight() (small heights) is OldUpgradeHeight or UpgradeHeight, and the validator split
//     is "height >= UpgradeHeight > codec height": a version upgrade to height h keeps the running chain on the
//     proto codec and after the split only when  stored height < h <= current block height;
//     future / main-net-like version-upgrade heights are exercised at keeper level (no blocks are run afterwards).

// feature keys: the real ones and a few that gate nothing
var c37FakeKeys = []string{"ZZTOP", "AAA", "Foo", "aaa"}

// features whose activation block extends the ACL (gov BeginBlock): observable on-chain activation at exactly that height
var c37ACLExtension = map[string][]string{
	codec.BlockSizeModifyKey: {"pocketcore/BlockByteSize"},
	codec.RSCALKey: {"pos/ServicerStakeFloorMultiplier", "pos/ServicerStakeWeightMultiplier", "pos/ServicerStakeWeightCeiling",
		"pos/ServicerStakeFloorMultiplierExponent"},
	codec.PerChainRTTM: {"pos/RelaysToTokensMultiplierMap"},
}

// features that may be absent from the generated genesis schedule (nothing the empty-block history needs)
var c37Optional = []string{codec.BlockSizeModifyKey, codec.RSCALKey, codec.PerChainRTTM, codec.AppTransferKey, codec.RewardDelegatorsKey,
	codec.ClearUnjailedValSessionKey, codec.MaxRelayProtKey, codec.ReplayBurnKey}

type c37State struct {
	c       *harness.Case
	w       *govWorld
	n       *chain.Node
	model   map[string]int64 // feature -> activation height, last writer wins
	height  int64            // stored upgrade height per model
	old     int64
	version string
	owner   ident // owner of gov/upgrade
	// bookkeeping
	accepted     int
	rescheduled  bool
	retainedSeen bool // an accepted message left an earlier key (not named in it) in place
}

func renderModel(m map[string]int64) []string {
	out := make([]string, 0, len(m))
	for k, h := range m {
		out = append(out, fmt.Sprintf("%s:%d", k, h))
	}
	sort.Strings(out)
	return out
}

func copyMap(m map[string]int64) map[string]int64 {
	out := make(map[string]int64, len(m))
	for k, v := range m {
		out[k] = v
	}
	return out
}

func mapsEqual(a, b map[string]int64) bool {
	if len(a) != len(b) {
		return false
	}
	for k, v := range a {
		if w, ok := b[k]; !ok || w != v {
			return false
		}
	}
	return true
}

func renderMap(m map[string]int64) string { return strings.Join(renderModel(m), ",") }

type c37Msg struct {
	u        govTypes.Upgrade
	kind     string // feature-only | feature-only-variant | version
	from     ident
	isOwner  bool
	basicOK  bool
	desc     string
	named    map[string]int64 // key -> height named by the message (last writer wins)
	hasDup   bool
	resched  bool
	accepted bool
}

// genFeatures draws 0-4 well-formed "key:height" entries; heights >= 1 around `now`.
func (s *c37State) genFeatures(rt *rapid.T, now int64, pool []string, soon []string) (feats []string, named map[string]int64, dup, resched bool) {
	named = map[string]int64{}
	if len(soon) > 0 && rapid.IntRange(0, 2).Draw(rt, "activateSoon") == 0 {
		// schedule a not yet activated ACL-extending feature for one of the next blocks (on-chain activation is observable)
		k := soon[rapid.IntRange(0, len(soon)-1).Draw(rt, "soonIdx")]
		h := now + int64(rapid.IntRange(1, 2).Draw(rt, "soonDh"))
		if old, ok := s.model[k]; ok && old != h {
			resched = true
		}
		feats = append(feats, fmt.Sprintf("%s:%d", k, h))
		named[k] = h
	}
	n := rapid.SampledFrom([]int{0, 1, 1, 2, 2, 3, 4}).Draw(rt, "nFeatures")
	existing := make([]string, 0, len(s.model))
	for k := range s.model {
		existing = append(existing, k)
	}
	sort.Strings(existing)
	drawHeight := func() int64 {
		h := now + int64(rapid.SampledFrom([]int{-1000000, -3, -2, -1, 0, 0, 1, 1, 2, 3, 5, 9, 1000}).Draw(rt, "dh"))
		if h < 1 {
			h = 1
		}
		return h
	}
	for i := 0; i < n; i++ {
		var k string
		switch {
		case len(feats) > 0 && rapid.IntRange(0, 3).Draw(rt, "dup") == 0:
			k = strings.SplitN(feats[rapid.IntRange(0, len(feats)-1).Draw(rt, "dupIdx")], ":", 2)[0]
			dup = true
		case len(existing) > 0 && rapid.Bool().Draw(rt, "existing"):
			k = existing[rapid.IntRange(0, len(existing)-1).Draw(rt, "exIdx")]
		default:
			k = pool[rapid.IntRange(0, len(pool)-1).Draw(rt, "poolIdx")]
		}
		h := drawHeight()
		if old, ok := s.model[k]; ok && old != h {
			resched = true
		}
		feats = append(feats, fmt.Sprintf("%s:%d", k, h))
		named[k] = h
	}
	return
}

func (s *c37State) genMsg(rt *rapid.T, now int64, pool []string, soon []string, allowVersion func() (int64, bool)) *c37Msg {
	m := &c37Msg{basicOK: true}
	feats, named, dup, resched := s.genFeatures(rt, now, pool, soon)
	m.named, m.hasDup, m.resched = named, dup, resched
	m.u.Features = feats
	kind := rapid.SampledFrom([]string{"feature-only", "feature-only", "feature-only", "version", "version", "feature-only-variant"}).Draw(rt, "kind")
	if kind == "version" {
		h, ok := allowVersion()
		if !ok {
			kind = "feature-only"
		} else {
			m.u.Height = h
			m.u.Version = rapid.SampledFrom([]string{"0.12.0", "0.11.5", "0.12", "0.9.0", "0.0.1"}).Draw(rt, "version")
		}
	}
	switch kind {
	case "feature-only":
		m.u.Height, m.u.Version = 1, "FEATURE" // exactly what `pocket gov enable` sends
	case "feature-only-variant":
		if rapid.Bool().Draw(rt, "variant") {
			m.u.Height, m.u.Version = 1, "0.11.0"
		} else {
			m.u.Height, m.u.Version = now+int64(rapid.IntRange(0, 5).Draw(rt, "vh")), "FEATURE"
			if m.u.Height == 1 {
				kind = "feature-only"
			}
		}
	}
	m.kind = kind
	// sender
	if rapid.IntRange(0, 9).Draw(rt, "nonOwner") < 3 {
		cands := []ident{s.w.randoms[0], s.w.randoms[1], s.w.owners[1]}
		if !s.w.dao.addr.Equals(s.owner.addr) {
			cands = append(cands, s.w.dao)
		}
		m.from = cands[rapid.IntRange(0, len(cands)-1).Draw(rt, "nonOwnerIdx")]
	} else {
		m.from = s.owner
	}
	m.isOwner = m.from.addr.Equals(s.owner.addr)
	m.accepted = m.isOwner
	m.desc = fmt.Sprintf("upgrade[%s]{h=%d v=%q features=%v} from %s(owner=%v)", m.kind, m.u.Height, m.u.Version, m.u.Features, m.from.name, m.isOwner)
	return m
}

// applyToModel is the reference semantics: last writer wins per key, everything else stays.
func (s *c37State) applyToModel(m *c37Msg) {
	for k := range s.model {
		if _, named := m.named[k]; !named {
			s.retainedSeen = true
		}
	}
	// in message order (later entries overwrite earlier ones)
	for _, f := range m.u.Features {
		kv := strings.SplitN(f, ":", 2)
		h, _ := strconv.ParseInt(kv[1], 10, 64)
		s.model[kv[0]] = h
	}
	if m.kind == "version" {
		s.old = s.height
		s.height = m.u.Height
		s.version = m.u.Version
	}
	s.accepted++
	if m.resched {
		s.rescheduled = true
	}
}

// checkStored compares the upgrade decoded from state, the activation globals and the predicates with the model.
func (s *c37State) checkStored(stored govTypes.Upgrade, where string, heights []int64, pool []string, judgeHeader bool) {
	c := s.c
	// 1. stored list: well-formed, no duplicate keys, strictly ascending, equal to the model
	seen := map[string]int64{}
	for i, f := range stored.Features {
		kv := strings.Split(f, ":")
		if len(kv) != 2 {
			c.Violation("C37/stored-features/malformed-entry", "%s: stored feature %q is not key:height (list %v)", where, f, stored.Features)
			continue
		}
		h, err := strconv.ParseInt(kv[1], 10, 64)
		if err != nil {
			c.Violation("C37/stored-features/malformed-entry", "%s: stored feature %q has no integer height", where, f)
			continue
		}
		if _, dup := seen[kv[0]]; dup {
			if c.Violation("C37/stored-features/duplicate-key", "%s: key %s appears twice in the stored list %v", where, kv[0], stored.Features) {
				continue
			}
		}
		seen[kv[0]] = h
		if i > 0 && !(stored.Features[i-1] < f) {
			c.Violation("C37/stored-features/not-sorted", "%s: stored list is not in ascending order at %q,%q: %v", where, stored.Features[i-1], f, stored.Features)
		}
	}
	for _, k := range sortedKeys(s.model) {
		h, ok := seen[k]
		if !ok {
			c.Violation("C37/stored-features/scheduled-feature-lost", "%s: feature %s (scheduled at %d) is missing from the stored list %v", where, k, s.model[k], stored.Features)
			continue
		}
		if h != s.model[k] {
			c.Violation("C37/stored-features/wrong-height", "%s: feature %s stored at %d, last scheduled at %d (list %v)", where, k, h, s.model[k], stored.Features)
		}
	}
	for _, k := range sortedKeys(seen) {
		if _, ok := s.model[k]; !ok {
			c.Violation("C37/stored-features/unexpected-feature", "%s: stored feature %s:%d was never scheduled", where, k, seen[k])
		}
	}
	if judgeHeader && (stored.Height != s.height || stored.Version != s.version || stored.OldUpgradeHeight != s.old) {
		c.Violation("C37/stored-upgrade/height-version-differs", "%s: stored upgrade height=%d old=%d version=%q, expected height=%d old=%d version=%q", where,
			stored.Height, stored.OldUpgradeHeight, stored.Version, s.height, s.old, s.version)
	}
	// 2. the activation globals the predicates read
	if codec.UpgradeHeight != stored.Height || codec.OldUpgradeHeight != stored.OldUpgradeHeight {
		c.Violation("C37/globals/upgrade-heights-differ-from-stored", "%s: globals UpgradeHeight=%d OldUpgradeHeight=%d, stored %d / %d", where, codec.UpgradeHeight, codec.OldUpgradeHeight, stored.Height, stored.OldUpgradeHeight)
	}
	if !mapsEqual(codec.UpgradeFeatureMap, s.model) {
		c.Violation("C37/globals/feature-map-differs-from-model", "%s: codec.UpgradeFeatureMap {%s}, model {%s}", where, renderMap(codec.UpgradeFeatureMap), renderMap(s.model))
	}
	// 3. predicates at generated heights
	cdc := app.Codec()
	keys := append(append([]string{}, pool...), sortedKeys(s.model)...)
	for _, k := range keys {
		hs := append([]int64{}, heights...)
		if mh, ok := s.model[k]; ok {
			hs = append(hs, mh-1, mh, mh+1)
		}
		for _, h := range hs {
			if h < 1 {
				continue
			}
			mh, sched := s.model[k]
			wantAfter := sched && h >= mh
			wantOn := sched && h == mh
			if got := cdc.IsAfterNamedFeatureActivationHeight(h, k); got != wantAfter {
				c.Violation("C37/predicate/is-after-differs", "%s: IsAfterNamedFeatureActivationHeight(%d,%s)=%v, model: scheduled=%v at %d", where, h, k, got, sched, mh)
			}
			if got := cdc.IsOnNamedFeatureActivationHeight(h, k); got != wantOn {
				c.Violation("C37/predicate/is-on-differs", "%s: IsOnNamedFeatureActivationHeight(%d,%s)=%v, model: scheduled=%v at %d", where, h, k, got, sched, mh)
			}
			if f, ok := dedicatedPredicates(cdc)[k]; ok {
				if got := f(h); got != wantAfter {
					c.Violation("C37/predicate/dedicated-differs", "%s: dedicated predicate of %s at height %d = %v, model: scheduled=%v at %d", where, k, h, got, sched, mh)
				}
			}
			c.AddExtra("predicate_evaluations", 1)
		}
	}
}

func dedicatedPredicates(cdc *codec.Codec) map[string]func(int64) bool {
	return map[string]func(int64) bool{
		codec.NonCustodialUpdateKey:     cdc.IsAfterNonCustodialUpgrade,
		codec.OutputAddressEditKey:      cdc.IsAfterOutputAddressEditorUpgrade,
		codec.PerChainRTTM:              cdc.IsAfterPerChainRTTMUpgrade,
		codec.AppTransferKey:            cdc.IsAfterAppTransferUpgrade,
		codec.RewardDelegatorsKey:       cdc.IsAfterRewardDelegatorUpgrade,
		codec.EnforceMaxChainsUpdateKey: cdc.IsAfterEnforceMaxChainsUpgrade,
	}
}

func sortedKeys(m map[string]int64) []string {
	out := make([]string, 0, len(m))
	for k := range m {
		out = append(out, k)
	}
	sort.Strings(out)
	return out
}

// ---------------------------------------------------------------------------------------------
// restart: what a new process derives from state

type c37StubClient struct{ client.Client }

func (c37StubClient) ConsensusReactorStatus() (*ctypes.ResultConsensusReactorStatus, error) {
	return nil, fmt.Errorf("verif: no tendermint node")
}

// restartFromDefaults constructs the application again over the node's database exactly as chain.NewNodeOnDB does,
// but with the three activation globals at their process defaults (empty map, MaxInt64, 0) — what a freshly started
// pocket-core process has — so that whatever they hold afterwards is what NewPocketCoreApp restored from state.
func restartFromDefaults(n *chain.Node) (*app.PocketCoreApp, map[string]int64, int64, int64) {
	chain.ResetGlobals(n.Spec) // caches etc.
	codec.UpgradeFeatureMap = make(map[string]int64)
	codec.UpgradeHeight = math.MaxInt64
	codec.OldUpgradeHeight = 0
	gs := chain.BuildGenesis(n.Spec)
	app.GenState = gs
	a := app.NewPocketCoreApp(gs, keys.NewInMemory(), c37StubClient{}, &pocketTypes.HostedBlockchains{M: map[string]pocketTypes.HostedBlockchain{}},
		log.NewNopLogger(), n.DB, n.Spec.Cache, 5000000, bam.SetPruning(store.PruneNothing))
	return a, copyMap(codec.UpgradeFeatureMap), codec.UpgradeHeight, codec.OldUpgradeHeight
}

// ---------------------------------------------------------------------------------------------

func c37World(rt *rapid.T) (*govWorld, map[string]int64) {
	w := genGovWorld(rt, false)
	s := &w.spec
	// initial schedule: the default (everything at 3) minus a random subset of the optional features
	feats := map[string]int64{}
	for k, v := range s.Features {
		feats[k] = v
	}
	for _, k := range c37Optional {
		if rapid.IntRange(0, 2).Draw(rt, "drop:"+k) == 0 {
			delete(feats, k)
		}
	}
	s.Features = feats
	s.GovUpgrade.Features = renderModel(feats)
	if rapid.Bool().Draw(rt, "separateUpgradeOwner") {
		s.ACLOwners = map[string]crypto.PrivateKey{"gov/upgrade": w.owners[0].key}
	}
	return w, copyMap(feats)
}

func TestC37(t *testing.T) {
	harness.Check(t, "C37",
		"model = map feature->height, last writer wins. app mode: genesis schedule = default minus a random subset; 3-8 blocks with 0-2 real MsgUpgrade txs each "+
			"(feature-only as the CLI sends it, its Height=1 / Version=FEATURE variants, version upgrades with stored height < h <= current height and version <= 0.12.0; "+
			"0-4 well-formed key:height entries over real and made-up keys, duplicates inside a message, re-scheduling, empty lists; owner / non-owner), stored list + globals + "+
			"predicates compared after every tx, ACL-extending features (BLOCK, RSCAL, PerChainRTTM) observed to extend the ACL exactly in their activation block, then the real "+
			"application is constructed again over the same DB from process-default globals and the restored schedule compared. keeper mode: the same messages through "+
			"Keeper.HandleUpgrade at heights around 100000 incl. future version-upgrade heights (no blocks, no restart). "+
			"non-trivial = at least 2 accepted messages, one of which re-schedules an existing key or leaves earlier keys in place while adding others, and (app mode) the restart comparison ran",
		map[string]float64{"mode:app": 0.5, "mode:keeper": 0.2, "kind:feature-only": 0.6, "kind:version": 0.4, "dup-in-message": 0.3, "reschedule": 0.5,
			"empty-list": 0.3, "non-owner": 0.5, "restart": 0.5, "restart-after-upgrade": 0.4, "onchain-activation": 0.08},
		func(rt *rapid.T, c *harness.Case) {
			w, model := c37World(rt)
			n := chain.NewNode(&w.spec)
			s := &c37State{c: c, w: w, n: n, model: model, height: w.spec.GovUpgrade.Height, old: w.spec.GovUpgrade.OldUpgradeHeight, version: w.spec.GovUpgrade.Version}
			s.owner = w.dao
			if _, ok := w.spec.ACLOwners["gov/upgrade"]; ok {
				s.owner = w.owners[0]
			}
			pool := append(append([]string{}, chain.AllNamedFeatures...), c37FakeKeys...)
			gk := n.App.VerifGovKeeper()
			c.Opf("genesis schedule {%s} upgradeOwner=%s", renderMap(model), s.owner.name)
			s.checkStored(gk.GetUpgrade(n.Ctx()), "after warm-up", []int64{1, 3, 4}, pool, true)

			if rapid.IntRange(0, 3).Draw(rt, "mode") == 0 {
				c.Label("mode:keeper")
				c37KeeperMode(rt, s, pool)
			} else {
				c.Label("mode:app")
				c37AppMode(rt, s, pool)
			}
			if s.accepted >= 2 && (s.rescheduled || s.retainedSeen) {
				c.NonTrivial()
			}
		})
}

func (s *c37State) labelMsg(m *c37Msg) {
	c := s.c
	c.Label("kind:" + m.kind)
	if m.hasDup {
		c.Label("dup-in-message")
	}
	if m.resched && m.accepted {
		c.Label("reschedule")
	}
	if len(m.u.Features) == 0 {
		c.Label("empty-list")
	}
	if !m.isOwner {
		c.Label("non-owner")
	}
}

func c37AppMode(rt *rapid.T, s *c37State, pool []string) {
	c, n, w := s.c, s.n, s.w
	gk := n.App.VerifGovKeeper()
	// which ACL extensions exist already (activated in block 3 of the warm-up when scheduled at 3)
	present := map[string]bool{}
	for f := range c37ACLExtension {
		present[f] = s.model[f] == 3
	}
	checkACL := func(where string) {
		acl := gk.GetACL(n.Ctx())
		for _, f := range []string{codec.BlockSizeModifyKey, codec.RSCALKey, codec.PerChainRTTM} {
			for _, key := range c37ACLExtension[f] {
				has := acl.GetOwner(key) != nil
				if has != present[f] {
					c.Violation("C37/activation/acl-extension-not-at-activation-height", "%s: ACL has %s = %v, but per the model feature %s (scheduled at %d) activated = %v",
						where, key, has, f, s.model[f], present[f])
				}
			}
		}
	}
	checkACL("after warm-up")
	nBlocks := rapid.IntRange(3, 8).Draw(rt, "nBlocks")
	for b := 0; b < nBlocks; b++ {
		h := n.Height + 1
		// the features scheduled for exactly this block activate in its BeginBlock
		for f := range c37ACLExtension {
			if s.model[f] == h {
				if !present[f] {
					c.Label("onchain-activation")
				}
				present[f] = true
			}
		}
		pocketBefore := n.App.VerifPocketKeeper().GetParams(n.Ctx())
		n.BeginBlock(chain.Block{DT: time.Second})
		checkACL(fmt.Sprintf("inside block %d", h))
		// a feature that activates in this block may add what it is documented to add (BLOCK: the block size parameter) -
		// every other pocketcore parameter the chain was configured with stays what it was
		pocketAfter := n.App.VerifPocketKeeper().GetParams(n.Ctx())
		pocketBefore.BlockByteSize, pocketAfter.BlockByteSize = 0, 0
		if fmt.Sprintf("%+v", pocketBefore) != fmt.Sprintf("%+v", pocketAfter) {
			c.Violation("C37/activation/parameters-changed-by-activation", "BeginBlock of block %d (features scheduled for it: %v) changed pocketcore parameters: %+v -> %+v", h, activatingAt(s.model, h), pocketBefore, pocketAfter)
		}
		ntx := rapid.IntRange(0, 2).Draw(rt, "nTxs")
		for i := 0; i < ntx; i++ {
			var soon []string
			for _, f := range []string{codec.BlockSizeModifyKey, codec.RSCALKey, codec.PerChainRTTM} {
				if !present[f] {
					soon = append(soon, f)
				}
			}
			m := s.genMsg(rt, h, pool, soon, func() (int64, bool) {
				// a new version is announced for a height after the stored one: at or before the current block, or (what a
				// real upgrade announcement looks like) a few blocks ahead - the restart at the end then happens BEFORE it
				// (only one announcement may be pending: a second one would make the height of the first - still in the
				// future - the chain's codec-upgrade height and throw the running chain back onto its pre-upgrade code paths)
				if s.height > h {
					return 0, false
				}
				lo := s.height + 1
				vh := lo + rapid.Int64Range(0, h+6-lo).Draw(rt, "vh")
				if vh > h {
					c.Label("version-upgrade-announced-for-a-future-height")
				}
				return vh, true
			})
			c.Opf("h%d %s", h, m.desc)
			s.labelMsg(m)
			preStored := gk.GetUpgrade(n.Ctx())
			preMap, preH, preO := copyMap(codec.UpgradeFeatureMap), codec.UpgradeHeight, codec.OldUpgradeHeight
			r := n.DeliverTx(w.signAs(&govTypes.MsgUpgrade{Address: m.from.addr, Upgrade: m.u}, m.from))
			stored := gk.GetUpgrade(n.Ctx())
			where := fmt.Sprintf("block %d after %s (code %d)", h, m.desc, r.Code)
			if m.accepted {
				if r.Code != 0 {
					c.Violation("C37/upgrade/owner-message-rejected", "%s: log %s", where, r.Log)
				}
				s.applyToModel(m)
			} else {
				if fmt.Sprint(preStored) != fmt.Sprint(stored) || !mapsEqual(preMap, codec.UpgradeFeatureMap) || preH != codec.UpgradeHeight || preO != codec.OldUpgradeHeight {
					c.Violation("C37/upgrade/non-owner-message-changed-schedule", "%s: stored %v -> %v, globals {%s}/%d/%d -> {%s}/%d/%d", where, preStored, stored,
						renderMap(preMap), preH, preO, renderMap(codec.UpgradeFeatureMap), codec.UpgradeHeight, codec.OldUpgradeHeight)
				}
			}
			s.checkStored(stored, where, []int64{1, h - 1, h, h + 1, h + 2, 1 << 40}, pool, m.kind != "feature-only-variant" || !m.accepted)
			if m.kind == "feature-only-variant" && m.accepted {
				// the header of such a message is not judged; follow the state for the later comparisons
				s.height, s.old, s.version = stored.Height, stored.OldUpgradeHeight, stored.Version
			}
			c.AddExtra("upgrade_txs", 1)
		}
		n.Commit(n.EndBlock())
	}
	checkACL("after the last block")
	// restart
	preMap, preH, preO := copyMap(codec.UpgradeFeatureMap), codec.UpgradeHeight, codec.OldUpgradeHeight
	a, gotMap, gotH, gotO := restartFromDefaults(n)
	c.Label("restart")
	if s.accepted > 0 {
		c.Label("restart-after-upgrade")
	}
	c.Opf("restart at height %d", n.Height)
	if a.LastBlockHeight() != n.Height {
		rt.Fatalf("harness: restarted application is at height %d, node at %d", a.LastBlockHeight(), n.Height)
	}
	if !mapsEqual(gotMap, preMap) {
		c.Violation("C37/restart/feature-map-differs", "restart at height %d: running node had {%s}, restarted node derives {%s} (model {%s})", n.Height, renderMap(preMap), renderMap(gotMap), renderMap(s.model))
	}
	if gotH != preH || gotO != preO {
		c.Violation("C37/restart/upgrade-heights-differ", "restart at height %d: running node had UpgradeHeight=%d OldUpgradeHeight=%d, restarted node derives %d / %d", n.Height, preH, preO, gotH, gotO)
	}
	// the restarted process answers the predicates like the model
	s.checkStored(gk.GetUpgrade(n.Ctx()), "after restart", []int64{1, n.Height, n.Height + 1, n.Height + 3, 1 << 40}, pool, true)
}

func c37KeeperMode(rt *rapid.T, s *c37State, pool []string) {
	c, n := s.c, s.n
	gk := n.App.VerifGovKeeper()
	now := int64(100000 + rapid.IntRange(0, 50000).Draw(rt, "now"))
	ctx := sdk.NewContext(n.App.Store(), abci.Header{ChainID: n.Spec.ChainID, Height: now, Time: n.Time}, false, log.NewNopLogger()).
		WithBlockStore(n.BlockStore).WithAppVersion(app.AppVersion)
	c.Opf("keeper mode at height %d", now)
	nMsgs := rapid.IntRange(2, 8).Draw(rt, "nMsgs")
	for i := 0; i < nMsgs; i++ {
		m := s.genMsg(rt, now, pool, nil, func() (int64, bool) {
			// any height except 1: past, main-net-like, future
			return rapid.SampledFrom([]int64{2, 7, 30024, 45353, now - 10, now, now + 1, now + 500, 5_000_000}).Draw(rt, "vh"), true
		})
		c.Opf("%s", m.desc)
		s.labelMsg(m)
		preStored := gk.GetUpgrade(ctx)
		preMap, preH, preO := copyMap(codec.UpgradeFeatureMap), codec.UpgradeHeight, codec.OldUpgradeHeight
		res := gk.HandleUpgrade(ctx, govTypes.NewACLKey(govTypes.ModuleName, string(govTypes.UpgradeKey)), m.u, m.from.addr)
		stored := gk.GetUpgrade(ctx)
		where := fmt.Sprintf("keeper height %d after %s (code %d)", now, m.desc, res.Code)
		if m.accepted {
			if res.Code != 0 {
				c.Violation("C37/upgrade/owner-message-rejected", "%s: log %s", where, res.Log)
			}
			s.applyToModel(m)
		} else if fmt.Sprint(preStored) != fmt.Sprint(stored) || !mapsEqual(preMap, codec.UpgradeFeatureMap) || preH != codec.UpgradeHeight || preO != codec.OldUpgradeHeight {
			c.Violation("C37/upgrade/non-owner-message-changed-schedule", "%s: stored %v -> %v, globals {%s}/%d/%d -> {%s}/%d/%d", where, preStored, stored,
				renderMap(preMap), preH, preO, renderMap(codec.UpgradeFeatureMap), codec.UpgradeHeight, codec.OldUpgradeHeight)
		}
		s.checkStored(stored, where, []int64{1, 30024, now - 1, now, now + 1, 1 << 40}, pool, m.kind != "feature-only-variant" || !m.accepted)
		if m.kind == "feature-only-variant" && m.accepted {
			s.height, s.old, s.version = stored.Height, stored.OldUpgradeHeight, stored.Version
		}
		c.AddExtra("keeper_msgs", 1)
	}
}

func activatingAt(model map[string]int64, h int64) []string {
	var out []string
	for _, k := range sortedKeys(model) {
		if model[k] == h {
			out = append(out, k)
		}
	}
	return out
}
