package gov

import (
	"fmt"
	"testing"

	"pgregory.net/rapid"

	sdk "github.com/pokt-network/pocket-core/types"
	govTypes "github.com/pokt-network/pocket-core/x/gov/types"

	"verif/harness"
)

// C36 rests on one abstraction: "the address the access-control list names for that parameter". The stored list is a
// slice of (key, address) pairs; neither genesis validation nor a gov/acl parameter change rejects a list that names a
// key twice. Whatever such a list means, it has to mean ONE thing to everybody who consults it: the owner check
// (GetOwner), the code that assigns owners (SetOwner, used when an upgrade activates new parameters) and repeated reads.
// Model: owner(K) = the address of the last SetOwner(K, .) if there was one; otherwise some address the list pairs with
// K (nil iff none), the same one on every read.
func TestC36ACL(t *testing.T) {
	harness.Check(t, "C36",
		"[ACL abstraction] generated access-control lists (0-10 pairs over 5 keys and 4 addresses, so keys repeat with equal or different addresses) and 4-16 operations GetOwner / SetOwner / GetAll; "+
			"oracle: GetOwner(K) is nil iff K is not listed, otherwise one of the addresses listed for K and stable across reads; after SetOwner(K, A) GetOwner(K) == A until the next SetOwner(K, .), "+
			"the owners of all other keys unchanged, no other key appears or disappears. non-trivial = a SetOwner or GetOwner on a key that the list names more than once with different addresses",
		map[string]float64{"duplicate-key-different-addresses": 0.35, "set-owner-on-duplicated-key": 0.12},
		func(rt *rapid.T, c *harness.Case) {
			keys := []string{"pos/MaxValidators", "gov/acl", "gov/upgrade", "auth/FeeMultipliers", "pocketcore/SessionNodeCount"}
			addrs := []sdk.Address{sdk.Address(make([]byte, 20)), nil, nil, nil}
			for i := range addrs {
				a := make([]byte, 20)
				for j := range a {
					a[j] = byte(0x11 * (i + 1))
				}
				addrs[i] = a
			}
			n := rapid.IntRange(0, 10).Draw(rt, "pairs")
			var acl govTypes.ACL
			listed := map[string][]string{}
			for i := 0; i < n; i++ {
				k := keys[rapid.IntRange(0, len(keys)-1).Draw(rt, "key")]
				a := addrs[rapid.IntRange(0, len(addrs)-1).Draw(rt, "addr")]
				acl = append(acl, govTypes.ACLPair{Key: k, Addr: a})
				listed[k] = append(listed[k], a.String())
			}
			dup := map[string]bool{}
			for k, as := range listed {
				for _, a := range as[1:] {
					if a != as[0] {
						dup[k] = true
					}
				}
			}
			if len(dup) > 0 {
				c.Label("duplicate-key-different-addresses")
			}
			c.Opf("acl %v", listed)
			set := map[string]string{}  // owner fixed by SetOwner
			seen := map[string]string{} // owner observed by an earlier read (must stay the same until a SetOwner on that key)
			contains := func(as []string, a string) bool {
				for _, x := range as {
					if x == a {
						return true
					}
				}
				return false
			}
			read := func(k, when string) {
				got := acl.GetOwner(k)
				gs := "<nil>"
				if got != nil {
					gs = got.String()
				}
				switch {
				case set[k] != "":
					if gs != set[k] {
						c.Violation("C36/acl/owner-differs-from-the-one-set", "%s: GetOwner(%s) = %s after SetOwner(%s, %s); list %v", when, k, gs, k, set[k], acl)
					}
				case len(listed[k]) == 0:
					if got != nil {
						c.Violation("C36/acl/owner-for-unlisted-key", "%s: GetOwner(%s) = %s but the list does not name the key", when, k, gs)
					}
				default:
					if got == nil || !contains(listed[k], gs) {
						c.Violation("C36/acl/owner-not-among-listed-addresses", "%s: GetOwner(%s) = %s, listed for the key: %v", when, k, gs, listed[k])
					}
					if prev, ok := seen[k]; ok && prev != gs {
						c.Violation("C36/acl/owner-changes-between-reads", "%s: GetOwner(%s) = %s, earlier %s, no SetOwner in between", when, k, gs, prev)
					}
				}
				seen[k] = gs
			}
			nops := rapid.IntRange(4, 16).Draw(rt, "ops")
			for i := 0; i < nops; i++ {
				k := keys[rapid.IntRange(0, len(keys)-1).Draw(rt, "opKey")]
				switch rapid.SampledFrom([]string{"get", "get", "set", "all"}).Draw(rt, "op") {
				case "get":
					c.Opf("GetOwner(%s)", k)
					if dup[k] {
						c.NonTrivial()
					}
					read(k, fmt.Sprintf("op %d", i))
				case "set":
					a := addrs[rapid.IntRange(0, len(addrs)-1).Draw(rt, "newOwner")]
					c.Opf("SetOwner(%s, %s)", k, a.String()[:8])
					if dup[k] {
						c.Label("set-owner-on-duplicated-key")
						c.NonTrivial()
					}
					// owners of every key before
					for _, k2 := range keys {
						read(k2, fmt.Sprintf("before op %d", i))
					}
					acl.SetOwner(k, a)
					set[k] = a.String()
					if len(listed[k]) == 0 {
						listed[k] = []string{a.String()}
					}
					for _, k2 := range keys {
						read(k2, fmt.Sprintf("after op %d SetOwner(%s)", i, k))
					}
				default:
					c.Opf("GetAll()")
					all := acl.GetAll()
					for _, k2 := range keys {
						_, in := all[k2]
						if in != (len(listed[k2]) > 0) {
							c.Violation("C36/acl/get-all-key-set-differs", "op %d: GetAll() lists %s = %v, the list names it: %v", i, k2, in, len(listed[k2]) > 0)
						}
					}
				}
			}
		})
}
