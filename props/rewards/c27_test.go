package rewards

import (
	"fmt"
	"math/big"
	"sort"
	"testing"

	"github.com/pokt-network/pocket-core/codec"
	sdk "github.com/pokt-network/pocket-core/types"
	"pgregory.net/rapid"

	"verif/harness"
	"verif/harness/poskeeper"
)

// C27: the stake-weighted relay reward (Keeper.CalculateRelayReward -> calculateRewardRewardPip22 -> BigDec.FracPow
// -> ApproxRoot) and the challenge burn (Keeper.BurnForChallenge, observed as the supply delta) terminate, are
// never negative, never decrease when the stake or the relay/challenge count grows, and are flat once the stake
// has reached ServicerStakeWeightCeiling.

var c27Timer = &evalTimer{}

const c27MinValidatorStake = 1_000_000 // nodesTypes.DefaultMinStake: Params.Validate rejects a lower StakeMinimum

// c27CollapseBin only NAMES a violation (known finding: ApproxRoot(100) overflows for bases >= 499 and FracPow then
// returns 1): a decrease is given the "weight-collapses" signature only when the too-small value sits in a bin
// >= 499 AND equals what the implementation yields in bin 1. Any other decrease keeps the generic signature.
const c27CollapseBin = 499

type c27Cfg struct {
	rscal     bool
	floor     int64 // ServicerStakeFloorMultiplier (bin width)
	ceiling   int64 // ServicerStakeWeightCeiling
	bins      int64 // ceiling / floor
	expN      int64 // exponent = expN/100
	wmN       int64 // weight multiplier = wmN/100
	mult      int64 // RelaysToTokensMultiplier
	perChain  bool
	chainMult int64
	chain     string
	dao, prop int64
}

func (p c27Cfg) String() string {
	return fmt.Sprintf("rscal=%v floor=%d ceiling=%d(bins=%d,rem=%d) exponent=%d/100 weightMultiplier=%d/100 rttm=%d perChain=%v chain=%s chainMult=%d dao%%=%d proposer%%=%d",
		p.rscal, p.floor, p.ceiling, p.bins, p.ceiling%p.floor, p.expN, p.wmN, p.mult, p.perChain, p.chain, p.chainMult, p.dao, p.prop)
}

func c27DrawCfg(rt *rapid.T) c27Cfg {
	var p c27Cfg
	p.rscal = pick(rt, "rscal", 9, 1) == 0
	switch pick(rt, "floorClass", 25, 45, 10, 20) {
	case 0:
		p.floor = 15_000_000_000
	case 1:
		p.floor = rapid.Int64Range(1_000_000, 20_000_000_000).Draw(rt, "floor")
	case 2:
		p.floor = rapid.Int64Range(1_000_000, 1_000_010).Draw(rt, "floor")
	default:
		p.floor = rapid.Int64Range(1, 1000).Draw(rt, "floor")
	}
	switch pick(rt, "binsClass", 50, 25, 13, 12) {
	case 0:
		p.bins = rapid.Int64Range(1, 8).Draw(rt, "bins")
	case 1:
		p.bins = rapid.Int64Range(9, 60).Draw(rt, "bins")
	case 2:
		p.bins = rapid.Int64Range(61, 498).Draw(rt, "bins")
	default:
		p.bins = rapid.Int64Range(499, 1500).Draw(rt, "bins")
	}
	rem := int64(0)
	if p.floor > 1 && pick(rt, "ceilRem", 55, 45) == 1 {
		rem = rapid.Int64Range(1, p.floor-1).Draw(rt, "rem")
	}
	p.ceiling = p.bins*p.floor + rem
	if pick(rt, "expClass", 60, 40) == 0 {
		p.expN = int64(uniformN(rt, "exp", 101))
	} else {
		p.expN = rapid.SampledFrom([]int64{0, 1, 50, 99, 100}).Draw(rt, "exp")
	}
	if pick(rt, "wmClass", 40, 60) == 0 {
		p.wmN = 100
	} else {
		p.wmN = rapid.Int64Range(1, 1000).Draw(rt, "wm")
	}
	switch pick(rt, "multClass", 30, 45, 25) {
	case 0:
		p.mult = 1000
	case 1:
		p.mult = rapid.Int64Range(1, 100000).Draw(rt, "mult")
	default:
		// tiny multipliers: consecutive relay counts give consecutive (or nearly consecutive) total rewards
		p.mult = rapid.SampledFrom([]int64{1, 1, 2, 3, 7}).Draw(rt, "multSmall")
	}
	// DAO / proposer allocation (percent of every reward that goes to the fee collector): default 10/1 or generated, sum <= 100
	p.dao, p.prop = 10, 1
	if pick(rt, "allocClass", 60, 40) == 1 {
		p.dao = int64(uniformN(rt, "dao", 61))
		p.prop = int64(uniformN(rt, "prop", 41))
	}
	p.chain = "0001"
	if pick(rt, "perChain", 70, 30) == 1 {
		p.perChain = true
		p.chainMult = rapid.Int64Range(1, 100000).Draw(rt, "chainMult")
		if rapid.Bool().Draw(rt, "otherChain") {
			p.chain = "0021" // not in the map: falls back to the default multiplier
		}
	}
	return p
}

func c27DrawStakes(rt *rapid.T, p c27Cfg) []int64 {
	set := map[int64]bool{p.ceiling: true}
	n := rapid.IntRange(3, 7).Draw(rt, "nStakes")
	delta := func() int64 {
		switch pick(rt, "delta", 25, 30, 25, 20) {
		case 0:
			return -1
		case 1:
			return 0
		case 2:
			return 1
		default:
			return rapid.Int64Range(0, p.floor-1).Draw(rt, "within")
		}
	}
	for i := 0; i < n; i++ {
		var s int64
		switch pick(rt, "stakeKind", 60, 25, 15) {
		case 0:
			var k int64
			if p.bins >= 499 && pick(rt, "near499", 70, 30) == 1 {
				k = rapid.Int64Range(496, 501).Draw(rt, "k")
			} else {
				k = rapid.Int64Range(0, 2*p.bins+1).Draw(rt, "k")
			}
			s = k*p.floor + delta()
		case 1:
			s = p.ceiling + delta()
		default:
			s = rapid.Int64Range(0, 2*p.ceiling+p.floor).Draw(rt, "s")
		}
		if s < 0 {
			s = 0
		}
		set[s] = true
	}
	out := make([]int64, 0, len(set))
	for s := range set {
		out = append(out, s)
	}
	sort.Slice(out, func(i, j int) bool { return out[i] < out[j] })
	return out
}

func c27DrawCount(rt *rapid.T, label string, max int64) int64 {
	if max < 1 {
		max = 1
	}
	hi := max
	switch pick(rt, label+"Class", 35, 35, 30) {
	case 0:
		if hi > 100 {
			hi = 100
		}
	case 1:
		if hi > 1_000_000 {
			hi = 1_000_000
		}
	}
	return rapid.Int64Range(1, hi).Draw(rt, label)
}

// effBin is the bin the property text implies: stake capped at the ceiling, in units of the floor.
func (p c27Cfg) effBin(s int64) int64 {
	if s > p.ceiling {
		s = p.ceiling
	}
	return s / p.floor
}

type c27Parts struct {
	relays, stake    int64
	total, node, fee *big.Int
}

type c27Eval struct {
	fn     string // "reward" | "burn"
	c      *harness.Case
	p      c27Cfg
	counts [2]int64
	// value(stake, count index) -> result
	val map[int64][2]*big.Int
	// collapsed(count index) = value the implementation yields at weight(bin 1); only used to NAME a violation
	collapsed func(ci int) *big.Int
}

func (e *c27Eval) relations(stakes []int64) {
	c, p := e.c, e.p
	unit := map[string]string{"reward": "relays", "burn": "challenges"}[e.fn]
	for _, s := range stakes {
		v, ok := e.val[s]
		if !ok {
			continue
		}
		for ci := 0; ci < 2; ci++ {
			if v[ci].Sign() < 0 {
				c.Violation("C27/"+e.fn+"/negative", "%s(stake=%d, %s=%d) = %s < 0 under %s", e.fn, s, unit, e.counts[ci], v[ci], p)
			}
		}
		// monotone in the relay / challenge count
		if e.counts[0] <= e.counts[1] && v[0].Cmp(v[1]) > 0 {
			c.Violation("C27/"+e.fn+"/decreases-with-"+unit, "%s(stake=%d): %s=%d gives %s but %s=%d gives %s under %s",
				e.fn, s, unit, e.counts[0], v[0], unit, e.counts[1], v[1], p)
		}
	}
	atCeil, haveCeil := e.val[p.ceiling]
	var prev int64 = -1
	for _, s := range stakes {
		v, ok := e.val[s]
		if !ok {
			continue
		}
		if s > p.ceiling {
			// flat beyond the ceiling
			if haveCeil {
				for ci := 0; ci < 2; ci++ {
					switch cmp := v[ci].Cmp(atCeil[ci]); {
					case cmp < 0:
						// narrow name for the one known shape: the stake is past the ceiling and its remainder modulo the
						// floor exceeds the ceiling's remainder (the ceiling term is then floored one bin too low)
						sig := "C27/" + e.fn + "/above-ceiling-less-than-at-ceiling"
						if !(s%p.floor > p.ceiling%p.floor) {
							sig = "C27/" + e.fn + "/above-ceiling-less-than-at-ceiling-without-excess-remainder"
						}
						c.Violation(sig,
							"%s(stake=%d, %s=%d) = %s but at the ceiling stake %d it is %s (stake mod floor = %d, ceiling mod floor = %d) under %s",
							e.fn, s, unit, e.counts[ci], v[ci], p.ceiling, atCeil[ci], s%p.floor, p.ceiling%p.floor, p)
					case cmp > 0:
						sig := "C27/" + e.fn + "/above-ceiling-more-than-at-ceiling"
						if p.effBin(p.ceiling) >= c27CollapseBin && e.collapsed != nil {
							// the value AT the ceiling is the one that is too small (it equals the bin-1 value)
							if col := e.collapsed(ci); col != nil && col.Cmp(atCeil[ci]) == 0 {
								sig = "C27/" + e.fn + "/weight-collapses-to-bin-1-value-at-high-bin"
							}
						}
						c.Violation(sig,
							"%s(stake=%d, %s=%d) = %s but at the ceiling stake %d it is %s under %s",
							e.fn, s, unit, e.counts[ci], v[ci], p.ceiling, atCeil[ci], p)
					}
				}
			}
			continue
		}
		// s <= ceiling: monotone in the stake
		if prev >= 0 {
			pv := e.val[prev]
			for ci := 0; ci < 2; ci++ {
				if pv[ci].Cmp(v[ci]) > 0 {
					sig := "C27/" + e.fn + "/decreases-with-stake"
					if p.effBin(s) >= c27CollapseBin && e.collapsed != nil {
						if col := e.collapsed(ci); col != nil && col.Cmp(v[ci]) == 0 {
							sig = "C27/" + e.fn + "/weight-collapses-to-bin-1-value-at-high-bin"
						}
					}
					c.Violation(sig, "%s(stake=%d [bin %d], %s=%d) = %s but the larger stake %d [bin %d] gives %s under %s",
						e.fn, prev, p.effBin(prev), unit, e.counts[ci], pv[ci], s, p.effBin(s), v[ci], p)
				}
			}
		}
		prev = s
	}
}

func TestC27(t *testing.T) {
	harness.Check(t, "C27",
		"generated parameter sets (floor 1..2e10, ceiling = 1..1500 bins (+ optional remainder), exponent n/100, weight multiplier n/100 in (0,10], "+
			"multiplier 1..1e5, optional per-chain multiplier, RSCAL on 90%) x 4-8 stakes on the bin grid (k*floor and ceiling, each -1/0/+1/+random) "+
			"always including the ceiling itself x two relay counts (1..1e9); the same stakes (when >= min stake and the burn cannot be capped by the stake) "+
			"are staked as real validators and burned with two challenge counts, burn = supply delta. Each evaluation runs in a goroutine with a deadline "+
			"of max(10 s, 1000 x median evaluation time of this run). Oracle: value >= 0; non-decreasing in stake (up to the ceiling) and in count; "+
			"value(stake > ceiling) == value(ceiling). non-trivial = RSCAL on and exponent > 0 (the stake matters) and two adjacent compared stakes fall in "+
			"different bins, or a stake strictly above the ceiling is compared with the ceiling",
		map[string]float64{"straddles-ceiling": 0.5, "straddles-bin-edge": 0.4, "burn-evaluated": 0.5, "burn-above-ceiling": 0.3,
			"exponent-fractional": 0.3, "bins>=499": 0.05, "ceiling-not-multiple-of-floor": 0.2, "rscal-off": 0.04, "consecutive-relay-counts": 0.3, "totals-differ-by-at-most-2": 0.04},
		func(rt *rapid.T, c *harness.Case) {
			p := c27DrawCfg(rt)
			stakes := c27DrawStakes(rt, p)
			r1 := c27DrawCount(rt, "relaysA", 1_000_000_000)
			r2 := c27DrawCount(rt, "relaysB", 1_000_000_000)
			switch pick(rt, "countPair", 50, 25, 25) {
			case 1:
				r2 = r1 + 1 // consecutive counts
				c.Label("consecutive-relay-counts")
			case 2:
				// consecutive counts around a round number (where several percentage truncations step together)
				r1 = rapid.SampledFrom([]int64{10, 20, 50, 100, 100, 1000}).Draw(rt, "roundUnit")*rapid.Int64Range(1, 50).Draw(rt, "roundK") - 1
				r2 = r1 + 1
				c.Label("consecutive-relay-counts")
			}
			if r1 > r2 {
				r1, r2 = r2, r1
			}
			c.Opf("params %s", p)
			c.Opf("stakes %v", stakes)
			c.Opf("relays %d,%d", r1, r2)

			// class labels
			if !p.rscal {
				c.Label("rscal-off")
			}
			if p.bins >= 499 {
				c.Label("bins>=499")
			}
			if p.ceiling%p.floor != 0 {
				c.Label("ceiling-not-multiple-of-floor")
			}
			switch p.expN {
			case 0:
				c.Label("exponent-0")
			case 100:
				c.Label("exponent-1")
			default:
				c.Label("exponent-fractional")
			}
			if p.floor < 1_000_000 {
				c.Label("small-floor")
			}
			if p.perChain && p.chain == "0001" {
				c.Label("per-chain-multiplier")
			}
			for i := 1; i < len(stakes); i++ {
				a, b := stakes[i-1], stakes[i]
				weighted := p.rscal && p.expN > 0 // otherwise the stake cannot influence the result at all
				if a < p.ceiling && b >= p.ceiling || a <= p.ceiling && b > p.ceiling {
					c.Label("straddles-ceiling")
					if weighted && b > p.ceiling {
						c.NonTrivial()
					}
				}
				if p.effBin(a) != p.effBin(b) {
					c.Label("straddles-bin-edge")
					if weighted {
						c.NonTrivial()
					}
				}
			}

			// real keepers
			feats := map[string]int64{codec.NonCustodialUpdateKey: 1, codec.RewardDelegatorsKey: 1}
			if p.rscal {
				feats[codec.RSCALKey] = 1
			}
			if p.perChain {
				feats[codec.PerChainRTTM] = 1
			}
			np := poskeeper.DefaultNodesParams()
			np.RelaysToTokensMultiplier = p.mult
			np.DAOAllocation, np.ProposerAllocation = p.dao, p.prop
			np.ServicerStakeFloorMultiplier = p.floor
			np.ServicerStakeWeightCeiling = p.ceiling
			np.ServicerStakeFloorMultiplierExponent = sdk.NewDecWithPrec(p.expN, 2)
			np.ServicerStakeWeightMultiplier = sdk.NewDecWithPrec(p.wmN, 2)
			if p.perChain {
				np.RelaysToTokensMultiplierMap = map[string]int64{"0001": p.chainMult}
			}
			if err := np.Validate(); err != nil {
				panic("generated invalid params: " + err.Error())
			}
			h := poskeeper.New(poskeeper.Options{Features: feats, NodesParams: &np})

			timed := func(fn string, desc string, f func()) bool {
				ok, took := c27Timer.run(f)
				c.AddExtra("timed_evaluations", 1)
				if !ok {
					c.Extra("deadline_at_timeout", took.String())
					// known-finding or not, the evaluation has no result: the caller skips it
					c.Violation("C27/"+fn+"/does-not-terminate", "%s did not finish within %s (max(10 s, 1000 x median %s)): %s under %s",
						fn, took, c27Timer.median(), desc, p)
					return false
				}
				return true
			}

			// ---- reward
			rew := &c27Eval{fn: "reward", c: c, p: p, counts: [2]int64{r1, r2}, val: map[int64][2]*big.Int{}}
			var parts []c27Parts
			rewardTotal := func(chain string, relays, stake int64) (*big.Int, bool) {
				var node, fee sdk.BigInt
				if !timed("reward", fmt.Sprintf("CalculateRelayReward(chain=%q, relays=%d, stake=%d)", chain, relays, stake), func() {
					node, fee = h.Nodes.CalculateRelayReward(h.Ctx, chain, sdk.NewInt(relays), sdk.NewInt(stake))
				}) {
					return nil, false
				}
				if node.IsNegative() || fee.IsNegative() {
					c.Violation("C27/reward/negative-part", "CalculateRelayReward(relays=%d, stake=%d) = node %s, fees %s under %s", relays, stake, node, fee, p)
				}
				tot := new(big.Int).Add(bi(node), bi(fee))
				if chain == p.chain {
					parts = append(parts, c27Parts{relays: relays, stake: stake, total: tot, node: bi(node), fee: bi(fee)})
				}
				return tot, true
			}
			for _, s := range stakes {
				a, ok1 := rewardTotal(p.chain, r1, s)
				b, ok2 := rewardTotal(p.chain, r2, s)
				if ok1 && ok2 {
					rew.val[s] = [2]*big.Int{a, b}
				}
			}
			rew.collapsed = func(ci int) *big.Int {
				v, _ := rewardTotal(p.chain, rew.counts[ci], p.floor)
				return v
			}
			rew.relations(stakes)
			c.AddExtra("reward_values_compared", 2*len(rew.val))
			// the two parts of a reward (servicer side, fee-collector side) are each a non-decreasing function of the computed
			// total under one parameter set: a larger total (more relays, more stake) never gives either side less, and equal
			// totals give equal parts. (Stated over totals so that it is independent of how the total depends on the stake.)
			sort.SliceStable(parts, func(i, j int) bool { return parts[i].total.Cmp(parts[j].total) < 0 })
			for i := 1; i < len(parts); i++ {
				a, b := parts[i-1], parts[i]
				if b.total.Cmp(a.total) == 0 && (a.node.Cmp(b.node) != 0 || a.fee.Cmp(b.fee) != 0) {
					c.Violation("C27/reward/equal-totals-split-differently", "total %s is split node %s + fees %s for (relays=%d, stake=%d) but node %s + fees %s for (relays=%d, stake=%d) under %s",
						a.total, a.node, a.fee, a.relays, a.stake, b.node, b.fee, b.relays, b.stake, p)
				}
				if b.total.Cmp(a.total) > 0 {
					if new(big.Int).Sub(b.total, a.total).Cmp(big.NewInt(2)) <= 0 {
						c.Label("totals-differ-by-at-most-2")
					}
					if b.node.Cmp(a.node) < 0 {
						c.Violation("C27/reward/servicer-part-decreases-when-total-increases", "(relays=%d, stake=%d): total %s -> servicer part %s; (relays=%d, stake=%d): larger total %s -> smaller servicer part %s under %s",
							a.relays, a.stake, a.total, a.node, b.relays, b.stake, b.total, b.node, p)
					}
					if b.fee.Cmp(a.fee) < 0 {
						c.Violation("C27/reward/fee-part-decreases-when-total-increases", "(relays=%d, stake=%d): total %s -> fee part %s; (relays=%d, stake=%d): larger total %s -> smaller fee part %s under %s",
							a.relays, a.stake, a.total, a.fee, b.relays, b.stake, b.total, b.fee, p)
					}
				}
			}

			// ---- burn (default multiplier only; weight <= max(1, bins) bounds the coins so that the stake never caps the burn)
			w := p.bins
			wmN := p.wmN
			if !p.rscal {
				w, wmN = 1, 100
			}
			ref := p.floor / 2
			if ref < c27MinValidatorStake {
				ref = c27MinValidatorStake
			}
			// coins <= mult*count*w*100/wmN  =>  count <= ref*wmN/(mult*w*100) keeps coins <= ref
			cmaxB := new(big.Int).Mul(b64(ref), b64(wmN))
			cmaxB.Quo(cmaxB, new(big.Int).Mul(b64(p.mult), b64(w*100)))
			cmax := int64(1_000_000_000)
			if cmaxB.IsInt64() && cmaxB.Int64() < cmax {
				cmax = cmaxB.Int64()
			}
			c1 := c27DrawCount(rt, "challengesA", cmax)
			c2 := c27DrawCount(rt, "challengesB", cmax)
			if c1 > c2 {
				c1, c2 = c2, c1
			}
			upper := new(big.Int).Mul(b64(p.mult), b64(c2))
			upper.Mul(upper, b64(w*100))
			upper.Quo(upper, b64(wmN))
			upper.Add(upper, b64(2))
			c.Opf("challenges %d,%d (burn bound %s)", c1, c2, upper)
			brn := &c27Eval{fn: "burn", c: c, p: p, counts: [2]int64{c1, c2}, val: map[int64][2]*big.Int{}}
			keyN := uint64(100)
			burnOnce := func(stake, challenges int64) (*big.Int, bool) {
				keyN++
				_, pub, addr := poskeeper.Key(keyN)
				h.AddValidator(poskeeper.ValidatorSpec{PubKey: pub, Stake: sdk.NewInt(stake)})
				before := bi(h.Supply())
				if !timed("burn", fmt.Sprintf("BurnForChallenge(challenges=%d, validator stake=%d)", challenges, stake), func() {
					h.Nodes.BurnForChallenge(h.Ctx, sdk.NewInt(challenges), addr)
				}) {
					return nil, false
				}
				return before.Sub(before, bi(h.Supply())), true
			}
			evaluated := 0
			for _, s := range stakes {
				if s < c27MinValidatorStake || b64(s).Cmp(upper) < 0 {
					continue // not a realistic validator, or the burn could be capped by the stake itself
				}
				a, ok1 := burnOnce(s, c1)
				b, ok2 := burnOnce(s, c2)
				if ok1 && ok2 {
					brn.val[s] = [2]*big.Int{a, b}
					evaluated++
					if s > p.ceiling {
						c.Label("burn-above-ceiling")
					}
				}
			}
			if evaluated >= 2 {
				c.Label("burn-evaluated")
			}
			brn.collapsed = func(ci int) *big.Int {
				// value of the same formula at weight(bin 1) with the default multiplier (chain "" is never in the map)
				v, _ := rewardTotal("", brn.counts[ci], p.floor)
				return v
			}
			brn.relations(stakes)
			c.AddExtra("burn_values_compared", 2*len(brn.val))
			c.Extra("deadline_rule", "max(10s, 1000 x median evaluation time)")
			c.Extra("median_evaluation_last_case", c27Timer.median().String())
		})
}
