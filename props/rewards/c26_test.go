package rewards

import (
	"fmt"
	"math"
	"math/big"
	"sort"
	"strings"
	"testing"

	"github.com/pokt-network/pocket-core/codec"
	sdk "github.com/pokt-network/pocket-core/types"
	"github.com/pokt-network/pocket-core/x/auth"
	authTypes "github.com/pokt-network/pocket-core/x/auth/types"
	govTypes "github.com/pokt-network/pocket-core/x/gov/types"
	nodesTypes "github.com/pokt-network/pocket-core/x/nodes/types"
	pocketTypes "github.com/pokt-network/pocket-core/x/pocketcore/types"
	"pgregory.net/rapid"

	"verif/harness"
	"verif/harness/poskeeper"
)

// C26: rewards and fees are split without creating or losing coins.
//   - RewardForRelaysPerChain mints exactly the computed relay reward (CalculateRelayReward node+fees part),
//     fee part to the fee collector, reward cost (after the delegator upgrade) to the operator, each reward
//     delegator floor(share%) of the remaining node part, the remainder to the output address.
//   - blockReward (through the real nodes BeginBlocker) splits the fee collector's balance into a DAO part and
//     a proposer part that add up to the fees; the proposer part is split among delegators/output the same way.

type c26Deleg struct {
	key   string // map key as stored (hex, possibly upper case)
	addr  string // canonical lower-case hex
	share uint32
}

type c26Cfg struct {
	height             int64
	ncust, rscal, rd   bool
	perChain           bool
	dao, prop          int64
	mult, chainMult    int64
	chain              string
	floor, bins, expN  int64
	wmN                int64
	feeDefault         int64 // auth FeeMultipliers.Default
	claimMul, proofMul int64 // 0 = no specific multiplier
	stake              int64
	outputKind         int // 0 nil, 1 other account, 2 = operator itself
	delegs             []c26Deleg
	proposerKind       int // 0 = the servicer, 1 = second validator (custodial, no delegators), 2 = not a validator
	extraFees          int64
	relays             []int64
}

func (p c26Cfg) features() map[string]int64 {
	f := map[string]int64{}
	if p.ncust {
		f[codec.NonCustodialUpdateKey] = 1
	}
	if p.rscal {
		f[codec.RSCALKey] = 1
	}
	if p.rd {
		f[codec.RewardDelegatorsKey] = 1
	}
	if p.perChain {
		f[codec.PerChainRTTM] = 1
	}
	return f
}

func c26DrawCfg(rt *rapid.T) c26Cfg {
	var p c26Cfg
	p.height = 80000
	if pick(rt, "heightClass", 85, 15) == 1 {
		p.height = 70000 // after the non-custodial rollback height, before the allowance height: rewards stay with the operator
	}
	p.ncust = pick(rt, "ncust", 15, 85) == 1
	p.rscal = rapid.Bool().Draw(rt, "rscal")
	p.rd = pick(rt, "rewardDelegators", 30, 70) == 1
	p.perChain = pick(rt, "perChain", 60, 40) == 1
	switch pick(rt, "allocClass", 30, 4, 6, 6, 54) {
	case 0:
		p.dao, p.prop = 10, 1
	case 1:
		p.dao, p.prop = 0, 0
	case 2:
		p.dao, p.prop = 100, 0
	case 3:
		p.dao, p.prop = 0, 100
	default:
		p.dao = rapid.Int64Range(0, 100).Draw(rt, "dao")
		p.prop = rapid.Int64Range(0, 100-p.dao).Draw(rt, "proposer")
	}
	if pick(rt, "multClass", 40, 60) == 0 {
		p.mult = 1000
	} else {
		p.mult = rapid.Int64Range(1, 100000).Draw(rt, "mult")
	}
	p.chain = "0001"
	if p.perChain {
		p.chainMult = rapid.Int64Range(1, 100000).Draw(rt, "chainMult")
		if pick(rt, "otherChain", 70, 30) == 1 {
			p.chain = "0021"
		}
	}
	p.floor = rapid.SampledFrom([]int64{15_000_000_000, 1_000_000, 7_500_000_001}).Draw(rt, "floor")
	p.bins = rapid.Int64Range(1, 8).Draw(rt, "bins")
	p.expN = rapid.SampledFrom([]int64{100, 100, 50, 0, 37}).Draw(rt, "exp")
	p.wmN = rapid.SampledFrom([]int64{100, 100, 25, 200, 50, 333}).Draw(rt, "wm")
	p.stake = rapid.Int64Range(0, p.bins+1).Draw(rt, "stakeBins")*p.floor + rapid.Int64Range(0, p.floor-1).Draw(rt, "stakeRem")
	if p.stake < 1_000_000 {
		p.stake += 1_000_000
	}
	p.feeDefault = rapid.SampledFrom([]int64{1, 1, 1, 2, 10}).Draw(rt, "feeDefault")
	if pick(rt, "feeMultis", 70, 30) == 1 {
		p.claimMul = rapid.Int64Range(0, 5).Draw(rt, "claimMul")
		p.proofMul = rapid.Int64Range(0, 5).Draw(rt, "proofMul")
	}
	p.outputKind = pick(rt, "outputKind", 30, 55, 15)
	// reward delegators
	n := 0
	switch pick(rt, "nDelegClass", 20, 35, 25, 20) {
	case 1:
		n = rapid.IntRange(1, 3).Draw(rt, "nDeleg")
	case 2:
		n = rapid.IntRange(4, 10).Draw(rt, "nDeleg")
	case 3:
		n = rapid.IntRange(11, 30).Draw(rt, "nDeleg")
	}
	if n > 0 {
		total := 100
		if pick(rt, "fullShare", 70, 30) == 0 {
			total = rapid.IntRange(n, 100).Draw(rt, "totalShare")
		}
		remaining := total - n
		used := map[string]bool{}
		for i := 0; i < n; i++ {
			extra := remaining
			if i < n-1 {
				extra = rapid.IntRange(0, remaining).Draw(rt, "shareExtra")
			} else if total != 100 {
				extra = rapid.IntRange(0, remaining).Draw(rt, "shareExtra")
			}
			remaining -= extra
			var d c26Deleg
			d.share = uint32(1 + extra)
			kind := pick(rt, "delegKind", 66, 7, 7, 20)
			switch {
			case kind == 1 && p.outputKind == 1:
				d.addr = c26Addr(c26KeyOutput)
			case kind == 2:
				d.addr = c26Addr(c26KeyOperator)
			case kind == 3 && i > 0:
				d.addr = p.delegs[rapid.IntRange(0, i-1).Draw(rt, "variantOf")].addr
			default:
				d.addr = c26Addr(c26KeyDelegBase + uint64(i))
			}
			// the map key: lower case, upper case, or the first form not used yet for this address
			forms := []string{d.addr, strings.ToUpper(d.addr), c26MixedCase(d.addr)}
			start := pick(rt, "keyCase", 70, 20, 10)
			d.key = ""
			for j := 0; j < len(forms); j++ {
				if f := forms[(start+j)%len(forms)]; !used[f] {
					d.key = f
					break
				}
			}
			if d.key == "" {
				d.addr = c26Addr(c26KeyDelegBase + 100 + uint64(i))
				d.key = d.addr
			}
			used[d.key] = true
			p.delegs = append(p.delegs, d)
		}
	}
	p.proposerKind = pick(rt, "proposerKind", 60, 25, 15)
	if pick(rt, "extraFees", 40, 60) == 1 {
		p.extraFees = c26DrawAmount(rt, "extraFeeAmount")
	}
	nr := rapid.IntRange(1, 3).Draw(rt, "nRewards")
	for i := 0; i < nr; i++ {
		p.relays = append(p.relays, c26DrawAmount(rt, "relays"))
	}
	return p
}

func c26DrawAmount(rt *rapid.T, label string) int64 {
	switch pick(rt, label+"Class", 12, 23, 45, 20) {
	case 0:
		return rapid.Int64Range(1, 100).Draw(rt, label)
	case 1:
		return rapid.Int64Range(1, 100_000).Draw(rt, label)
	case 2:
		return rapid.Int64Range(1000, 1_000_000_000).Draw(rt, label)
	default:
		// values around multiples of 100 and 10^k where percent products are integral / almost integral
		base := rapid.SampledFrom([]int64{100, 1000, 10_000, 1_000_000, 100_000_000}).Draw(rt, label+"Base")
		return base*rapid.Int64Range(1, 9).Draw(rt, label+"Mul") + rapid.Int64Range(-1, 1).Draw(rt, label+"Off")
	}
}

const (
	c26KeyOperator  uint64 = 1
	c26KeyOutput    uint64 = 2
	c26KeyProposer2 uint64 = 3
	c26KeyStranger  uint64 = 4
	c26KeyDelegBase uint64 = 1000
)

func c26Addr(k uint64) string {
	_, _, a := poskeeper.Key(k)
	return strings.ToLower(a.String())
}

func c26MixedCase(s string) string {
	b := []byte(strings.ToLower(s))
	flipped := false
	for i, ch := range b {
		if ch >= 'a' && ch <= 'f' && !flipped {
			b[i] = ch - 'a' + 'A'
			flipped = true
		}
	}
	return string(b)
}

// c26State is a snapshot recomputed from raw account state.
type c26State struct {
	bal    map[string]*big.Int // lower-case hex address -> balance
	supply *big.Int
}

func c26Snapshot(h *poskeeper.Harness) c26State {
	s := c26State{bal: map[string]*big.Int{}, supply: bi(h.Supply())}
	for a, b := range h.Balances() {
		s.bal[strings.ToLower(a)] = bi(b)
	}
	return s
}

func (s c26State) get(a string) *big.Int {
	if v, ok := s.bal[a]; ok {
		return v
	}
	return new(big.Int)
}

type c26Run struct {
	c     *harness.Case
	p     c26Cfg
	h     *poskeeper.Harness
	roles map[string][]string // address -> roles (for messages and signatures)

	operator, output, feeCollector, dao, stakedPool string
}

func (r *c26Run) role(a string) string {
	if rs := r.roles[a]; len(rs) > 0 {
		return strings.Join(rs, "+")
	}
	return "unrelated"
}

// storedDelegators = what the keeper keeps of the stake message's map under the active features.
func (r *c26Run) storedDelegators() []c26Deleg {
	if r.p.ncust && r.p.rd {
		return r.p.delegs
	}
	return nil
}

// splitNode models the documented split: each delegator entry floor(amount*share/100), remainder to primary.
func (r *c26Run) splitNode(exp map[string]*big.Int, amount *big.Int, primary string, delegs []c26Deleg) {
	if amount.Sign() <= 0 {
		return
	}
	rem := new(big.Int).Set(amount)
	for _, d := range delegs {
		a := floorMulDiv(amount, int64(d.share), 100)
		add(exp, d.addr, a)
		rem.Sub(rem, a)
	}
	add(exp, primary, rem)
}

func add(m map[string]*big.Int, k string, v *big.Int) {
	if v.Sign() == 0 {
		return
	}
	if m[k] == nil {
		m[k] = new(big.Int)
	}
	m[k].Add(m[k], v)
}

// compareDeltas checks every account of before/after against the expected credit map.
func (r *c26Run) compareDeltas(site string, before, after c26State, exp map[string]*big.Int, what string) {
	seen := map[string]bool{}
	var addrs []string
	for a := range before.bal {
		if !seen[a] {
			seen[a] = true
			addrs = append(addrs, a)
		}
	}
	for a := range after.bal {
		if !seen[a] {
			seen[a] = true
			addrs = append(addrs, a)
		}
	}
	for a := range exp {
		if !seen[a] {
			seen[a] = true
			addrs = append(addrs, a)
		}
	}
	sort.Strings(addrs)
	for _, a := range addrs {
		got := new(big.Int).Sub(after.get(a), before.get(a))
		want := exp[a]
		if want == nil {
			want = new(big.Int)
		}
		if got.Cmp(want) != 0 {
			r.c.Violation(fmt.Sprintf("C26/%s/credit-differs/%s", site, r.role(a)),
				"%s: account %s (%s) changed by %s, expected %s; expected credits %v", what, a, r.role(a), got, want, renderExp(exp, r))
		}
	}
	sum := new(big.Int)
	for _, b := range after.bal {
		sum.Add(sum, b)
	}
	if sum.Cmp(after.supply) != 0 {
		r.c.Violation("C26/"+site+"/supply-differs-from-sum-of-balances", "%s: recorded supply %s but the accounts hold %s", what, after.supply, sum)
	}
}

func renderExp(exp map[string]*big.Int, r *c26Run) string {
	var ks []string
	for k := range exp {
		ks = append(ks, k)
	}
	sort.Strings(ks)
	var sb strings.Builder
	for _, k := range ks {
		fmt.Fprintf(&sb, "%s[%s]=%s ", k[:8], r.role(k), exp[k])
	}
	return sb.String()
}

func TestC26(t *testing.T) {
	harness.Check(t, "C26",
		"real auth+nodes+gov keepers on an IAVL/MemDB store; one servicer (custodial / output account / output = operator) with 0-30 reward "+
			"delegators (shares >= 1, total <= 100, 30% exactly 100, delegator = output / = operator, upper/mixed-case hex duplicates of one address), "+
			"DAO/proposer allocations 0..100 (sum <= 100, incl. 0/0, 100/0, 0/100), multiplier 1..1e5 (+ per-chain), claim/proof fee multipliers, "+
			"features NCUST/RSCAL/RewardDelegators/PerChainRTTM independently on/off, height before/after the non-custodial allowance height; "+
			"1-3 RewardForRelaysPerChain calls (relays 1..1e9) then optional direct fees and the real nodes BeginBlocker (proposer = servicer / other "+
			"validator / no validator). Oracle (math/big): supply delta == node+fees of CalculateRelayReward, fees == floor(total*(dao+prop)/100), "+
			"total == multiplier*relays when no stake weight applies, every account delta == modelled credit (cost to operator, floor(share%) per "+
			"delegator entry, remainder to output, fees to collector); block reward: DAO + proposer side == fees, collector emptied, supply unchanged, "+
			"supply == sum of balances. non-trivial = a split with >= 2 stored delegator entries where some share product is not integral, or an "+
			"allocation split (fees of a reward, DAO cut of a block reward) that truncates",
		map[string]float64{"delegators>=2": 0.25, "share-total=100": 0.08, "case-variant-duplicate": 0.04, "delegator=output": 0.02,
			"delegator=operator": 0.03, "node-part-below-reward-cost": 0.03, "block-reward-paid": 0.4, "block-reward-with-delegators": 0.1,
			"alloc-0/0": 0.02, "block-reward-0/0-with-fees": 0.01, "rscal-on": 0.3, "rscal-off": 0.3, "reward-delegators-off": 0.15, "ncust-off": 0.08, "per-chain-multiplier-used": 0.1,
			"fees-truncated": 0.3, "delegator-share-truncated": 0.15},
		func(rt *rapid.T, c *harness.Case) {
			p := c26DrawCfg(rt)
			c26Case(rt, c, p)
		})
}

func c26Case(rt *rapid.T, c *harness.Case, p c26Cfg) {
	np := poskeeper.DefaultNodesParams()
	np.DAOAllocation, np.ProposerAllocation = p.dao, p.prop
	np.RelaysToTokensMultiplier = p.mult
	if p.perChain {
		np.RelaysToTokensMultiplierMap = map[string]int64{"0001": p.chainMult}
	}
	np.ServicerStakeFloorMultiplier = p.floor
	np.ServicerStakeWeightCeiling = p.floor * p.bins
	np.ServicerStakeFloorMultiplierExponent = sdk.NewDecWithPrec(p.expN, 2)
	np.ServicerStakeWeightMultiplier = sdk.NewDecWithPrec(p.wmN, 2)
	if err := np.Validate(); err != nil {
		panic("generated invalid params: " + err.Error())
	}
	ap := authTypes.DefaultParams()
	ap.FeeMultiplier.Default = p.feeDefault
	if p.claimMul > 0 {
		ap.FeeMultiplier.FeeMultis = append(ap.FeeMultiplier.FeeMultis, authTypes.FeeMultiplier{Key: pocketTypes.MsgClaimName, Multiplier: p.claimMul})
	}
	if p.proofMul > 0 {
		ap.FeeMultiplier.FeeMultis = append(ap.FeeMultiplier.FeeMultis, authTypes.FeeMultiplier{Key: pocketTypes.MsgProofName, Multiplier: p.proofMul})
	}
	h := poskeeper.New(poskeeper.Options{Height: p.height, Features: p.features(), NodesParams: &np, AuthParams: &ap})

	r := &c26Run{c: c, p: p, h: h, roles: map[string][]string{}}
	_, opPub, opAddr := poskeeper.Key(c26KeyOperator)
	r.operator = c26Addr(c26KeyOperator)
	var outAddr sdk.Address
	switch p.outputKind {
	case 1:
		_, _, outAddr = poskeeper.Key(c26KeyOutput)
	case 2:
		outAddr = opAddr
	}
	r.output = r.operator
	if outAddr != nil {
		r.output = strings.ToLower(outAddr.String())
	}
	r.feeCollector = strings.ToLower(h.ModuleAddress(auth.FeeCollectorName).String())
	r.dao = strings.ToLower(h.ModuleAddress(govTypes.DAOAccountName).String())
	r.stakedPool = strings.ToLower(h.ModuleAddress(nodesTypes.StakedPoolName).String())
	addRole := func(a, role string) {
		for _, x := range r.roles[a] {
			if x == role {
				return
			}
		}
		r.roles[a] = append(r.roles[a], role)
	}
	addRole(r.operator, "operator")
	if p.outputKind == 1 {
		addRole(r.output, "output")
	}
	addRole(r.feeCollector, "fee-collector")
	addRole(r.dao, "dao")
	addRole(r.stakedPool, "staked-pool")
	var dmap map[string]uint32
	if len(p.delegs) > 0 {
		dmap = map[string]uint32{}
		for _, d := range p.delegs {
			dmap[d.key] = d.share
			addRole(d.addr, "delegator")
		}
		if _, err := nodesTypes.NormalizeRewardDelegators(dmap); err != nil {
			panic("generated an invalid delegator map: " + err.Error())
		}
	}
	h.AddValidator(poskeeper.ValidatorSpec{PubKey: opPub, Stake: sdk.NewInt(p.stake), Output: outAddr, RewardDelegators: dmap})

	c.Opf("height=%d NCUST=%v RSCAL=%v RewardDelegators=%v PerChainRTTM=%v", p.height, p.ncust, p.rscal, p.rd, p.perChain)
	c.Opf("dao=%d%% proposer=%d%% rttm=%d chain=%s chainMult=%d floor=%d bins=%d exp=%d/100 wm=%d/100 feeDefault=%d claimMul=%d proofMul=%d",
		p.dao, p.prop, p.mult, p.chain, p.chainMult, p.floor, p.bins, p.expN, p.wmN, p.feeDefault, p.claimMul, p.proofMul)
	{
		var ds []string
		for _, d := range p.delegs {
			ds = append(ds, fmt.Sprintf("%s:%d", d.key[:6], d.share))
		}
		c.Opf("servicer stake=%d output=%s delegators=%v", p.stake, []string{"nil", "other", "operator"}[p.outputKind], ds)
	}

	// ---- labels
	totalShare := 0
	addrCount := map[string]int{}
	for _, d := range p.delegs {
		totalShare += int(d.share)
		addrCount[d.addr]++
		if d.addr == r.output && p.outputKind == 1 {
			c.Label("delegator=output")
		}
		if d.addr == r.operator {
			c.Label("delegator=operator")
		}
	}
	stored := r.storedDelegators()
	if len(stored) >= 2 {
		c.Label("delegators>=2")
	}
	if len(stored) >= 11 {
		c.Label("delegators>=11")
	}
	if len(stored) > 0 && totalShare == 100 {
		c.Label("share-total=100")
	}
	for _, n := range addrCount {
		if n > 1 && len(stored) > 0 {
			c.Label("case-variant-duplicate")
		}
	}
	if p.dao == 0 && p.prop == 0 {
		c.Label("alloc-0/0")
	}
	if p.rscal {
		c.Label("rscal-on")
	} else {
		c.Label("rscal-off")
	}
	if !p.rd {
		c.Label("reward-delegators-off")
	}
	if !p.ncust {
		c.Label("ncust-off")
	}
	if p.height < codec.NonCustodial2AllowanceHeight {
		c.Label("before-allowance-height")
	}

	// reward cost: claim fee + proof fee under the fee multipliers (x/pocketcore/types/fee.go: 10000 each)
	feeOf := func(base, specific int64) *big.Int {
		m := p.feeDefault
		if specific > 0 {
			m = specific
		}
		return new(big.Int).Mul(b64(base), b64(m))
	}
	rewardCost := new(big.Int).Add(feeOf(pocketTypes.ClaimFee, p.claimMul), feeOf(pocketTypes.ProofFee, p.proofMul))

	multUsed := p.mult
	if p.perChain && p.chain == "0001" {
		multUsed = p.chainMult
		c.Label("per-chain-multiplier-used")
	}
	ceiling := p.floor * p.bins
	eff := p.stake
	if eff > ceiling {
		eff = ceiling
	}
	bin := eff / p.floor

	// ---- relay rewards
	for i, relays := range p.relays {
		c.Opf("reward #%d relays=%d", i+1, relays)
		what := fmt.Sprintf("RewardForRelaysPerChain(chain=%s, relays=%d)", p.chain, relays)
		nodeS, feeS := h.Nodes.CalculateRelayReward(h.Ctx, p.chain, sdk.NewInt(relays), sdk.NewInt(p.stake))
		node, fee := bi(nodeS), bi(feeS)
		total := new(big.Int).Add(node, fee)
		plain := new(big.Int).Mul(b64(multUsed), b64(relays))
		switch {
		case !p.rscal:
			if total.Cmp(plain) != 0 {
				c.Violation("C26/reward/total-differs-from-multiplier-times-relays", "%s: computed reward %s+%s but multiplier %d x relays %d = %s (no stake weight active)",
					what, node, fee, multUsed, relays, plain)
			}
		default:
			// exact where the weight is exact: weight = 1/wm at bin 1 or exponent 0, weight 0 at bin 0 (exponent > 0)
			var exact *big.Int
			if bin == 0 && p.expN > 0 {
				exact = new(big.Int)
			} else if (bin == 1 || p.expN == 0) && (p.wmN == 100 || p.wmN == 25 || p.wmN == 200 || p.wmN == 50) {
				exact = floorMulDiv(plain, 100, p.wmN)
			}
			if exact != nil {
				c.Label("weighted-total-checked-exactly")
				if total.Cmp(exact) != 0 {
					c.Violation("C26/reward/total-differs-from-weighted-formula", "%s: computed reward %s+%s, expected floor(%d x %d x weight) = %s (bin %d, exponent %d/100, weight multiplier %d/100)",
						what, node, fee, multUsed, relays, exact, bin, p.expN, p.wmN)
				}
			} else {
				approx := float64(multUsed) * float64(relays) * math.Pow(float64(bin), float64(p.expN)/100) * 100 / float64(p.wmN)
				tf, _ := new(big.Float).SetInt(total).Float64()
				if math.Abs(tf-approx) > 1e-6*approx+2 {
					c.Violation("C26/reward/total-far-from-weighted-formula", "%s: computed reward %s, but %d x %d x %d^(%d/100) / (%d/100) ~ %.3f",
						what, total, multUsed, relays, bin, p.expN, p.wmN, approx)
				}
			}
		}
		wantFee := floorMulDiv(total, p.dao+p.prop, 100)
		if fee.Cmp(wantFee) != 0 || node.Sign() < 0 {
			c.Violation("C26/reward/fee-part-differs-from-allocation", "%s: reward %s split into node %s + fees %s, expected fees floor(%s x %d/100) = %s",
				what, total, node, fee, total, p.dao+p.prop, wantFee)
		}
		if new(big.Int).Mod(new(big.Int).Mul(total, b64(p.dao+p.prop)), b64(100)).Sign() != 0 {
			c.Label("fees-truncated")
			c.NonTrivial()
		}

		// expected credits
		exp := map[string]*big.Int{}
		cost := new(big.Int)
		if p.rd {
			cost = minBig(node, rewardCost)
			if node.Cmp(rewardCost) < 0 {
				c.Label("node-part-below-reward-cost")
			}
			add(exp, r.operator, cost)
		}
		n2 := new(big.Int).Sub(node, cost)
		primary := r.operator
		if p.ncust && p.height >= codec.NonCustodial2AllowanceHeight {
			primary = r.output
		}
		r.splitNode(exp, n2, primary, stored)
		add(exp, r.feeCollector, fee)
		if n2.Sign() > 0 && len(stored) >= 1 {
			trunc := false
			for _, d := range stored {
				if new(big.Int).Mod(new(big.Int).Mul(n2, b64(int64(d.share))), b64(100)).Sign() != 0 {
					trunc = true
				}
			}
			if trunc {
				c.Label("delegator-share-truncated")
				if len(stored) >= 2 {
					c.NonTrivial()
				}
			}
		}

		before := c26Snapshot(h)
		_, _, opA := poskeeper.Key(c26KeyOperator)
		ret := h.Nodes.RewardForRelaysPerChain(h.Ctx, p.chain, sdk.NewInt(relays), opA)
		after := c26Snapshot(h)

		minted := new(big.Int).Sub(after.supply, before.supply)
		if minted.Cmp(total) != 0 {
			c.Violation("C26/reward/minted-differs-from-computed-reward", "%s: supply grew by %s but the computed reward is %s (node %s + fees %s); expected credits %s",
				what, minted, total, node, fee, renderExp(exp, r))
		}
		r.compareDeltas("reward", before, after, exp, what)
		if bi(ret).Cmp(n2) != 0 {
			c.Violation("C26/reward/returned-amount-differs-from-servicer-portion", "%s returned %s, the servicer portion after the reward cost is %s", what, ret, n2)
		}
		c.AddExtra("reward_calls_checked", 1)
	}

	// ---- block reward
	if p.extraFees > 0 {
		h.FundModule(auth.FeeCollectorName, sdk.NewInt(p.extraFees)) // transaction fees deducted by the ante handler end up here
		c.Opf("tx fees %d into the fee collector", p.extraFees)
	}
	var proposer sdk.Address
	proposerIsValidator := true
	var propPrimary string
	var propDelegs []c26Deleg
	switch p.proposerKind {
	case 0:
		_, _, proposer = poskeeper.Key(c26KeyOperator)
		propPrimary = r.output // GetOutputAddressFromValidator regardless of height
		propDelegs = stored
		if !p.ncust {
			propPrimary = r.operator
		}
	case 1:
		_, pub2, a2 := poskeeper.Key(c26KeyProposer2)
		h.AddValidator(poskeeper.ValidatorSpec{PubKey: pub2, Stake: sdk.NewInt(20_000_000_000)})
		proposer = a2
		propPrimary = c26Addr(c26KeyProposer2)
		addRole(propPrimary, "proposer")
	default:
		_, _, proposer = poskeeper.Key(c26KeyStranger)
		proposerIsValidator = false
		propPrimary = c26Addr(c26KeyStranger)
		addRole(propPrimary, "proposer-not-validator")
	}
	c.Opf("BeginBlocker previousProposer=%s", []string{"servicer", "second validator", "not a validator"}[p.proposerKind])
	h.Nodes.SetPreviousProposer(h.Ctx, proposer)
	before := c26Snapshot(h)
	fees := new(big.Int).Set(before.get(r.feeCollector))
	what := fmt.Sprintf("blockReward(fees=%s, dao=%d%%, proposer=%d%%)", fees, p.dao, p.prop)

	panicked := func() (pv any) {
		defer func() { pv = recover() }()
		h.BeginBlockNodes(h.Ctx, proposer)
		return nil
	}()
	if panicked != nil {
		if fees.Sign() > 0 && p.dao == 0 && p.prop == 0 {
			// valid parameters (Params.Validate accepts 0/0) and collected fees, yet the split cannot be computed at all
			// (was a genuine defect: division by zero in splitFeesCollected, fixed in /repo 9e2ef31)
			c.Label("block-reward-panics-on-0/0")
			c.Violation("C26/blockReward/panics-when-both-allocations-are-zero", "%s: BeginBlocker panicked: %v", what, panicked)
			return
		}
		panic(panicked)
	}
	after := c26Snapshot(h)
	if after.supply.Cmp(before.supply) != 0 {
		c.Violation("C26/blockReward/supply-changed", "%s: supply went from %s to %s", what, before.supply, after.supply)
	}
	exp := map[string]*big.Int{}
	if fees.Sign() > 0 {
		daoCut := new(big.Int).Sub(after.get(r.dao), before.get(r.dao))
		if p.dao+p.prop > 0 { // (0/0 with fees: the DAO gets nothing, the proposer side everything; checked below)
			ideal := floorMulDiv(fees, p.dao, p.dao+p.prop)
			lo := new(big.Int).Sub(ideal, b64(1))
			// the implementation rounds dao/(dao+proposer) to 18 decimals first: the cut may be one below the exact floor
			if daoCut.Cmp(ideal) > 0 || daoCut.Cmp(lo) < 0 || daoCut.Sign() < 0 {
				c.Violation("C26/blockReward/dao-cut-not-proportional", "%s: DAO received %s, expected floor(fees x %d/%d) = %s (or one less)", what, daoCut, p.dao, p.dao+p.prop, ideal)
			}
			if new(big.Int).Mod(new(big.Int).Mul(fees, b64(p.dao)), b64(p.dao+p.prop)).Sign() != 0 {
				c.Label("dao-cut-truncated")
				c.NonTrivial()
			}
		}
		if p.dao+p.prop == 0 {
			c.Label("block-reward-0/0-with-fees")
		}
		if p.dao+p.prop == 0 && daoCut.Sign() != 0 {
			c.Violation("C26/blockReward/dao-cut-nonzero-with-zero-allocations", "%s: DAO received %s although its allocation is 0", what, daoCut)
		}
		if daoCut.Sign() < 0 || daoCut.Cmp(fees) > 0 {
			c.Violation("C26/blockReward/dao-cut-out-of-range", "%s: DAO balance changed by %s", what, daoCut)
		}
		propCut := new(big.Int).Sub(fees, daoCut)
		add(exp, r.dao, daoCut)
		add(exp, r.feeCollector, new(big.Int).Neg(fees))
		switch {
		case !p.ncust:
			add(exp, propPrimary, propCut)
			c.Label("block-reward-paid")
		case !proposerIsValidator:
			// the proposer part stays in the fee collector for the next block (nothing lost)
			add(exp, r.feeCollector, propCut)
			c.Label("block-reward-proposer-missing")
		default:
			r.splitNode(exp, propCut, propPrimary, propDelegs)
			c.Label("block-reward-paid")
			if len(propDelegs) > 0 && propCut.Sign() > 0 {
				c.Label("block-reward-with-delegators")
				if len(propDelegs) >= 2 {
					for _, d := range propDelegs {
						if new(big.Int).Mod(new(big.Int).Mul(propCut, b64(int64(d.share))), b64(100)).Sign() != 0 {
							c.NonTrivial()
						}
					}
				}
			}
		}
	}
	r.compareDeltas("blockReward", before, after, exp, what)
	c.AddExtra("block_rewards_checked", 1)
}
