package rewards

import (
	"fmt"
	"math/big"
	"sort"
	"sync"
	"time"

	sdk "github.com/pokt-network/pocket-core/types"
	"pgregory.net/rapid"
)

// ---- math/big helpers (the oracles never use sdk.BigInt/BigDec arithmetic) ----

func bi(x sdk.BigInt) *big.Int {
	b, ok := new(big.Int).SetString(x.String(), 10)
	if !ok {
		panic("not an integer: " + x.String())
	}
	return b
}

func b64(x int64) *big.Int { return big.NewInt(x) }

// floorMulDiv = floor(a*num/den) for a >= 0, num >= 0, den > 0.
func floorMulDiv(a *big.Int, num, den int64) *big.Int {
	r := new(big.Int).Mul(a, b64(num))
	return r.Quo(r, b64(den))
}

func minBig(a, b *big.Int) *big.Int {
	if a.Cmp(b) <= 0 {
		return new(big.Int).Set(a)
	}
	return new(big.Int).Set(b)
}

// ---- weighted draw helper ----

// uniformN draws a (nearly exactly) uniform integer in [0,n), n <= 4096. rapid's integer and index generators
// are deliberately biased towards small values; only the 2-valued Bool is uniform, so 12 fair bits are combined.
// Shrinks towards 0.
func uniformN(rt *rapid.T, label string, n int) int {
	x := 0
	for i := 0; i < 12; i++ {
		x <<= 1
		if rapid.Bool().Draw(rt, label) {
			x |= 1
		}
	}
	return x * n / 4096
}

// pick draws an index according to integer weights (honoured, see uniformN).
func pick(rt *rapid.T, label string, weights ...int) int {
	total := 0
	for _, w := range weights {
		total += w
	}
	x := uniformN(rt, label, total)
	for i, w := range weights {
		if x < w {
			return i
		}
		x -= w
	}
	return len(weights) - 1
}

// ---- non-termination detection (C27 only; the only place where wall clock is an oracle) ----

type evalTimer struct {
	mu        sync.Mutex
	durations []time.Duration // first maxKept evaluation times of this process
}

const (
	timerMaxKept      = 2000
	timerMinDeadline  = 10 * time.Second
	timerMedianFactor = 1000
)

func (e *evalTimer) record(d time.Duration) {
	e.mu.Lock()
	if len(e.durations) < timerMaxKept {
		e.durations = append(e.durations, d)
	}
	e.mu.Unlock()
}

func (e *evalTimer) median() time.Duration {
	e.mu.Lock()
	defer e.mu.Unlock()
	if len(e.durations) == 0 {
		return 0
	}
	c := append([]time.Duration(nil), e.durations...)
	sort.Slice(c, func(i, j int) bool { return c[i] < c[j] })
	return c[len(c)/2]
}

// deadline = max(10 s, 1000 x median evaluation time measured so far in this run).
func (e *evalTimer) deadline() time.Duration {
	d := e.median() * timerMedianFactor
	if d < timerMinDeadline {
		d = timerMinDeadline
	}
	return d
}

// run evaluates f in a goroutine. finished=false means the deadline passed (the goroutine is abandoned).
// A panic inside f is re-raised on the caller's goroutine (harness/inconclusive, not a verdict).
func (e *evalTimer) run(f func()) (finished bool, took time.Duration) {
	done := make(chan any, 1)
	t0 := time.Now()
	go func() {
		defer func() { done <- recover() }()
		f()
	}()
	dl := e.deadline()
	tm := time.NewTimer(dl)
	defer tm.Stop()
	select {
	case p := <-done:
		took = time.Since(t0)
		if p != nil {
			panic(fmt.Sprintf("panic inside timed evaluation: %v", p))
		}
		e.record(took)
		return true, took
	case <-tm.C:
		return false, dl
	}
}
