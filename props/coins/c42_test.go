package coins

import (
	"bytes"
	"context"
	"encoding/binary"
	"encoding/hex"
	"fmt"
	"sort"
	"strings"
	"testing"

	sdk "github.com/pokt-network/pocket-core/types"
	abci "github.com/tendermint/tendermint/abci/types"
	tmquery "github.com/tendermint/tendermint/libs/pubsub/query"
	"github.com/tendermint/tendermint/state/txindex"
	tmtypes "github.com/tendermint/tendermint/types"
	dbm "github.com/tendermint/tm-db"
	"pgregory.net/rapid"

	"verif/harness"
)

// C42: transaction index — lookup by hash, search by height / signer / recipient, both directions,
// pagination without gaps or repeats, totals.
//
// The index is driven exactly as Tendermint drives it: one txindex.Batch per block (IndexerService) or
// Index per tx, and queries are built like rpc/core.TxSearch builds them:
//   q := tmquery.New(str); q.AddPage(perPage, (page-1)*perPage, order); indexer.Search(ctx, q)
// with str as app/query.go formats it ("tx.height=%d", "tx.signer='%s'", "tx.recipient='%s'") and order
// the user's "asc"/"desc" string passed through unchanged (app.checkSort).

type c42Tx struct {
	height    int64
	index     uint32
	tx        []byte
	hash      []byte
	signer    []byte
	recipient []byte
	code      uint32
	codespace string
	log       string
	indexed   bool // false for ante-handler level failures
}

func (x *c42Tx) String() string {
	return fmt.Sprintf("h%d/i%d", x.height, x.index)
}

func (x *c42Tx) result() *tmtypes.TxResult {
	return &tmtypes.TxResult{
		Height: x.height,
		Index:  x.index,
		Tx:     tmtypes.Tx(x.tx),
		Result: abci.ResponseDeliverTx{
			Code:      x.code,
			Codespace: x.codespace,
			Log:       x.log,
			Signer:    x.signer,
			Recipient: x.recipient,
		},
	}
}

func c42Same(got *tmtypes.TxResult, want *c42Tx) bool {
	if got == nil {
		return false
	}
	return got.Height == want.height && got.Index == want.index && bytes.Equal(got.Tx, want.tx) &&
		got.Result.Code == want.code && got.Result.Codespace == want.codespace && got.Result.Log == want.log &&
		bytes.Equal(got.Result.Signer, want.signer) && bytes.Equal(got.Result.Recipient, want.recipient)
}

func c42Render(rs []*tmtypes.TxResult) string {
	var sb strings.Builder
	sb.WriteString("[")
	for i, r := range rs {
		if i > 0 {
			sb.WriteString(" ")
		}
		if r == nil {
			sb.WriteString("<nil>")
		} else {
			fmt.Fprintf(&sb, "h%d/i%d", r.Height, r.Index)
		}
	}
	sb.WriteString("]")
	return sb.String()
}

func c42RenderModel(rs []*c42Tx) string {
	var sb strings.Builder
	sb.WriteString("[")
	for i, r := range rs {
		if i > 0 {
			sb.WriteString(" ")
		}
		sb.WriteString(r.String())
	}
	sb.WriteString("]")
	return sb.String()
}

func c42PageEq(got []*tmtypes.TxResult, want []*c42Tx) bool {
	if len(got) != len(want) {
		return false
	}
	for i := range got {
		if !c42Same(got[i], want[i]) {
			return false
		}
	}
	return true
}

func c42Slice(all []*c42Tx, skip, size int) []*c42Tx {
	if skip >= len(all) {
		return nil
	}
	end := skip + size
	if end > len(all) {
		end = len(all)
	}
	return all[skip:end]
}

func c42Reversed(all []*c42Tx) []*c42Tx {
	out := make([]*c42Tx, len(all))
	for i, x := range all {
		out[len(all)-1-i] = x
	}
	return out
}

// decimal length of n (heights / indices of different decimal length exercise the ELEN key ordering)
func c42DecLen(n int64) int { return len(fmt.Sprintf("%d", n)) }

var c42HeightGen = rapid.OneOf(
	rapid.Int64Range(1, 12),
	rapid.Int64Range(8, 11),
	rapid.Int64Range(95, 105),
	rapid.Int64Range(995, 1005),
	rapid.SampledFrom([]int64{9999, 10000, 123456, 99999, 100000, 2000000}),
)

var c42NTxGen = rapid.OneOf(
	rapid.IntRange(0, 4),
	rapid.IntRange(1, 6),
	rapid.IntRange(9, 13),
	rapid.IntRange(0, 40),
)

type c42Env struct {
	c     *harness.Case
	ix    *sdk.TransactionIndexer
	all   []*c42Tx // every generated tx (indexed or not), generation order
	addrs [][]byte
}

func (e *c42Env) matches(kind string, addr []byte, height int64) []*c42Tx {
	var out []*c42Tx
	for _, x := range e.all {
		if !x.indexed {
			continue
		}
		switch kind {
		case "height":
			if x.height == height {
				out = append(out, x)
			}
		case "signer":
			if x.signer != nil && bytes.Equal(x.signer, addr) {
				out = append(out, x)
			}
		case "recipient":
			if x.recipient != nil && bytes.Equal(x.recipient, addr) {
				out = append(out, x)
			}
		}
	}
	sort.SliceStable(out, func(i, j int) bool {
		if out[i].height != out[j].height {
			return out[i].height < out[j].height
		}
		return out[i].index < out[j].index
	})
	return out
}

// search issues one page exactly as rpc/core.TxSearch does.
func (e *c42Env) search(qs string, page, perPage int, order string) ([]*tmtypes.TxResult, int, error) {
	q, err := tmquery.New(qs)
	if err != nil {
		return nil, 0, fmt.Errorf("query parse: %v", err)
	}
	skip := (page - 1) * perPage
	if skip < 0 {
		skip = 0
	}
	q.AddPage(perPage, skip, order)
	return e.ix.Search(context.Background(), q)
}

func TestC42(t *testing.T) {
	harness.Check(t, "C42",
		"generated block results (2-9 blocks, heights 1..2e6 of mixed decimal length with gaps, 0-40 txs per block, signer/recipient from a pool of 6 "+
			"20-byte addresses or nil, results incl. ante-level failures (codespace auth, code<10: not indexed) and handler failures (indexed)), fed block by block "+
			"through AddBatch or per-tx Index on sdk.NewTransactionIndexer(MemDB), some blocks re-indexed; then Get(hash) for every tx, tx.hash search, and 12-30 "+
			"searches built like rpc/core.TxSearch (tx.height=h | tx.signer='a' | tx.recipient='a'; asc|desc; per_page 1-50; every page plus one past the end) "+
			"compared with a sorted list model. non-trivial = case with a signer/recipient search whose address matches txs at >=3 heights of >=2 different "+
			"decimal lengths and whose page size is smaller than the match count",
		map[string]float64{"asc": 0.5, "desc": 0.5, "ante-failure-skipped": 0.3, "multi-page": 0.5, "height-query-index>=10": 0.1,
			"addr-heights-mixed-declen": 0.3, "handler-failure-indexed": 0.3},
		func(rt *rapid.T, c *harness.Case) {
			db := dbm.NewMemDB()
			e := &c42Env{c: c, ix: sdk.NewTransactionIndexer(db)}

			// address pool: 6 distinct 20-byte addresses; some share a long common prefix
			base := rapid.SliceOfN(rapid.Byte(), 20, 20).Draw(rt, "addrBase")
			for i := 0; i < 6; i++ {
				a := append([]byte{}, base...)
				if i%2 == 0 {
					a[19] = byte(i) // differs only in the last byte from base-derived siblings
				} else {
					a = rapid.SliceOfN(rapid.Byte(), 20, 20).Draw(rt, "addr")
					a[0] = byte(0x10 + i) // guarantee distinctness
				}
				e.addrs = append(e.addrs, a)
			}
			base[19] = 0xff

			nBlocks := rapid.IntRange(2, 9).Draw(rt, "nBlocks")
			hs := map[int64]bool{}
			var heights []int64
			for len(heights) < nBlocks {
				h := c42HeightGen.Draw(rt, "height")
				if hs[h] {
					h = h + int64(len(heights)) + 13
					if hs[h] {
						continue
					}
				}
				hs[h] = true
				heights = append(heights, h)
			}
			sort.Slice(heights, func(i, j int) bool { return heights[i] < heights[j] })

			counter := uint32(0)
			blocks := map[int64][]*c42Tx{}
			drawAddr := func(label string) []byte {
				k := rapid.IntRange(0, 9).Draw(rt, label)
				switch {
				case k == 0:
					return nil
				case k <= 4:
					return e.addrs[0] // a hot address: many heights
				default:
					return e.addrs[k-4]
				}
			}
			feed := func(h int64, txs []*c42Tx, how string) {
				switch how {
				case "batch":
					b := txindex.NewBatch(int64(len(txs)))
					for _, x := range txs {
						_ = b.Add(x.result())
					}
					if err := e.ix.AddBatch(b); err != nil {
						rt.Fatalf("AddBatch error: %v", err)
					}
				default:
					for _, x := range txs {
						if err := e.ix.Index(x.result()); err != nil {
							rt.Fatalf("Index error: %v", err)
						}
					}
				}
			}
			// about one case in sixty is a busy chain: the first three blocks hold 450-520 transactions each (mostly of the hot
			// address), so that searches have more than a thousand matches and page sizes above a thousand mean something
			bulk := rapid.Bool().Draw(rt, "bulkA") && rapid.Bool().Draw(rt, "bulkB") && rapid.Bool().Draw(rt, "bulkC") && rapid.Bool().Draw(rt, "bulkD") && rapid.Bool().Draw(rt, "bulkE") && rapid.Bool().Draw(rt, "bulkF")
			if bulk {
				c.Label("busy-chain-over-1000-matches")
			}
			for hi, h := range heights {
				n := c42NTxGen.Draw(rt, "ntx")
				if bulk && hi < 3 {
					n = rapid.IntRange(450, 520).Draw(rt, "bulkNtx")
				}
				var txs []*c42Tx
				for i := 0; i < n; i++ {
					counter++
					body := rapid.SliceOfN(rapid.Byte(), 0, 5).Draw(rt, "txbody")
					var cnt [4]byte
					binary.BigEndian.PutUint32(cnt[:], counter)
					x := &c42Tx{height: h, index: uint32(i), tx: append(body, cnt[:]...)}
					x.hash = tmtypes.Tx(x.tx).Hash()
					x.signer = drawAddr("signer")
					x.recipient = drawAddr("recipient")
					if bulk && hi < 3 && rapid.IntRange(0, 9).Draw(rt, "bulkHot") != 5 {
						x.signer = e.addrs[0] // the busy account
					}
					switch rapid.IntRange(0, 9).Draw(rt, "outcome") {
					case 0, 1: // ante handler level failure: must not be indexed
						x.codespace, x.code = sdk.AuthCodespace, rapid.SampledFrom([]uint32{1, 2, 4, 9}).Draw(rt, "antecode")
						x.log = "ante"
					case 2: // auth codespace but not ante level
						x.codespace, x.code = sdk.AuthCodespace, rapid.SampledFrom([]uint32{10, 11, 110}).Draw(rt, "authcode")
						x.log = "auth-high"
					case 3: // handler failure in another module
						x.codespace, x.code = rapid.SampledFrom([]string{"pos", "sdk", "pocketcore"}).Draw(rt, "cs"), rapid.SampledFrom([]uint32{1, 4, 9, 10, 101}).Draw(rt, "code")
						x.log = "handler"
					default:
						x.log = "ok"
					}
					if bulk && hi < 3 && i%25 != 7 {
						x.codespace, x.code, x.log = "", 0, "ok" // a busy chain of mostly successful transactions
					}
					x.indexed = !(x.codespace == "auth" && x.code < 10)
					if !x.indexed {
						c.Label("ante-failure-skipped")
					} else if x.code != 0 {
						c.Label("handler-failure-indexed")
					}
					txs = append(txs, x)
					e.all = append(e.all, x)
					if !bulk || i < 3 {
						c.Opf("tx h=%d i=%d signer=%x recipient=%x cs=%q code=%d", h, i, x.signer, x.recipient, x.codespace, x.code)
					}
				}
				blocks[h] = txs
				how := rapid.SampledFrom([]string{"batch", "batch", "index"}).Draw(rt, "how")
				c.Opf("feed h=%d n=%d via %s", h, n, how)
				c.Label("feed-" + how)
				feed(h, txs, how)
			}
			// crash-recovery style replays: the same block results are indexed again
			if rapid.IntRange(0, 3).Draw(rt, "reindex") == 0 {
				h := rapid.SampledFrom(heights).Draw(rt, "reindexHeight")
				how := rapid.SampledFrom([]string{"batch", "index"}).Draw(rt, "reindexHow")
				c.Opf("re-feed h=%d via %s", h, how)
				c.Label("reindexed")
				feed(h, blocks[h], how)
			}

			// ---- lookup by hash ----
			for _, x := range e.all {
				got, err := e.ix.Get(x.hash)
				if err != nil {
					c.Violation("C42/get/error", "Get(%x) of %s: error %v", x.hash, x, err)
					continue
				}
				if x.indexed {
					if !c42Same(got, x) {
						c.Violation("C42/get/indexed-result-differs", "Get(hash of %s) = %+v, want the stored result (signer=%x recipient=%x code=%d cs=%q)", x, got, x.signer, x.recipient, x.code, x.codespace)
					}
				} else if got != nil {
					c.Violation("C42/get/ante-failure-returned", "Get(hash of %s) returned a result although the tx failed at ante level (cs=%q code=%d) and must not be indexed", x, x.codespace, x.code)
				}
			}
			c.AddExtra("get_lookups", len(e.all))
			if len(e.all) > 0 {
				nh := rapid.IntRange(1, 3).Draw(rt, "nHashSearch")
				for i := 0; i < nh; i++ {
					x := e.all[rapid.IntRange(0, len(e.all)-1).Draw(rt, "hashSearchTx")]
					hx := hex.EncodeToString(x.hash)
					if rapid.Bool().Draw(rt, "upperHex") {
						hx = strings.ToUpper(hx)
					}
					order := rapid.SampledFrom([]string{"asc", "desc"}).Draw(rt, "order")
					c.Opf("search tx.hash of %s (indexed=%v)", x, x.indexed)
					res, total, err := e.search(fmt.Sprintf("tx.hash='%s'", hx), 1, 30, order)
					if !x.indexed {
						// not part of the property statement (only indexed transactions are); measured only
						if err == nil && len(res) == 1 && res[0] == nil {
							c.AddExtra("hash_search_of_unindexed_returns_nil_entry", 1)
						}
						continue
					}
					if err != nil || total != 1 || len(res) != 1 || !c42Same(res[0], x) {
						c.Violation("C42/search-hash/result-differs", "tx.hash search for %s: got %s total=%d err=%v, want exactly the stored result", x, c42Render(res), total, err)
					}
				}
			}

			// ---- searches ----
			nq := rapid.IntRange(12, 30).Draw(rt, "nQueries")
			for qi := 0; qi < nq; qi++ {
				kind := rapid.SampledFrom([]string{"height", "signer", "signer", "recipient", "recipient"}).Draw(rt, "kind")
				order := rapid.SampledFrom([]string{"asc", "desc"}).Draw(rt, "order")
				var qs string
				var want []*c42Tx
				switch kind {
				case "height":
					var h int64
					if rapid.IntRange(0, 5).Draw(rt, "absentHeight") == 0 {
						h = c42HeightGen.Draw(rt, "qheight")
					} else {
						h = rapid.SampledFrom(heights).Draw(rt, "qheight")
					}
					qs = fmt.Sprintf("tx.height=%d", h)
					want = e.matches("height", nil, h)
					if len(want) > 0 && want[len(want)-1].index >= 10 {
						c.Label("height-query-index>=10")
					}
				default:
					var a []byte
					if rapid.IntRange(0, 9).Draw(rt, "absentAddr") == 0 {
						a = base // never used as signer/recipient
					} else {
						k := rapid.IntRange(0, 7).Draw(rt, "qaddr")
						if k > 5 {
							k = 0
						}
						a = e.addrs[k]
					}
					hx := hex.EncodeToString(a)
					if rapid.IntRange(0, 4).Draw(rt, "upperHex") == 0 {
						hx = strings.ToUpper(hx)
					}
					qs = fmt.Sprintf("tx.%s='%s'", kind, hx)
					want = e.matches(kind, a, 0)
				}
				// the model list is ascending by (height, index); "desc" is its reverse
				if order == "desc" {
					want = c42Reversed(want)
				}
				perPage := rapid.OneOf(rapid.IntRange(1, 4), rapid.IntRange(1, 12), rapid.IntRange(1, 50)).Draw(rt, "perPage")
				if len(want) > 1000 {
					// (page sizes up to 10000 are what the RPC layer lets through)
					perPage = rapid.SampledFrom([]int{400, 1000, 1001, 1100, 1500, 5000, 10000}).Draw(rt, "bigPerPage")
					c.Label("page-size-over-1000")
				}
				c.Opf("search %s order=%s per_page=%d (model matches %d)", qs, order, perPage, len(want))
				c.Label(order)
				c.Label("kind-" + kind)
				if len(want) == 0 {
					c.Label("no-match")
				}
				if perPage < len(want) {
					c.Label("multi-page")
				}
				if kind != "height" {
					hset := map[int64]bool{}
					dl := map[int]bool{}
					for _, x := range want {
						hset[x.height] = true
						dl[c42DecLen(x.height)] = true
					}
					if len(hset) >= 3 && len(dl) >= 2 {
						c.Label("addr-heights-mixed-declen")
						if perPage < len(want) {
							c.NonTrivial()
						}
					}
				}
				inverted := c42Reversed(want)
				pages := (len(want)+perPage-1)/perPage + 1 // every page and one past the end
				for page := 1; page <= pages; page++ {
					res, total, err := e.search(qs, page, perPage, order)
					c.AddExtra("pages_compared", 1)
					if err != nil {
						c.Violation("C42/search/error", "%s order=%s page=%d per_page=%d: error %v", qs, order, page, perPage, err)
						break
					}
					skip := (page - 1) * perPage
					wp := c42Slice(want, skip, perPage)
					if total != len(want) {
						c.Violation("C42/search/total-differs", "%s order=%s page=%d per_page=%d: total=%d, want %d matches %s", qs, order, page, perPage, total, len(want), c42RenderModel(want))
					}
					if c42PageEq(res, wp) {
						continue
					}
					if ip := c42Slice(inverted, skip, perPage); c42PageEq(res, ip) {
						// the page is exactly the page of the list in the opposite direction
						if c.Violation("C42/search/order-inverted",
							"%s order=%s page=%d per_page=%d returns %s, i.e. the %s listing; want %s (all matches in requested order: %s)",
							qs, order, page, perPage, c42Render(res), map[string]string{"asc": "descending", "desc": "ascending"}[order], c42RenderModel(wp), c42RenderModel(want)) {
							continue
						}
					}
					// classify: same set but other order / wrong entries
					sig := "C42/search/page-differs"
					if len(res) != len(wp) {
						sig = "C42/search/page-length-differs"
					}
					c.Violation(sig, "%s order=%s page=%d per_page=%d (skip %d): got %s want %s (all matches in requested order: %s)",
						qs, order, page, perPage, skip, c42Render(res), c42RenderModel(wp), c42RenderModel(want))
				}
			}
		})
}
