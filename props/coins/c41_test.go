package coins

import (
	"fmt"
	"math"
	"math/big"
	"sort"
	"strings"
	"testing"

	sdk "github.com/pokt-network/pocket-core/types"
	"pgregory.net/rapid"

	"verif/harness"
)

// C41: coin-set arithmetic matches multiset arithmetic; BigInt / BigDec operations are exact (or rounded as
// documented) or fail on overflow.
//
// Oracles: map[denom]*big.Int for coin sets, math/big (big.Int, big.Rat) for BigInt and BigDec. Panics that
// the doc comments promise (overflow, negative result of Sub, division by zero, duplicate denoms in NewCoins)
// are expected outcomes: the model says exactly when they must happen.

const (
	c41IntBits = 255      // types/int.go maxBitLen
	c41DecBits = 255 + 60 // types/decimal.go: 255 + DecimalPrecisionBits
)

var (
	c41Denoms = []string{"aaa", "aab", "bcd", "zzz"}
	c41E18    = new(big.Int).Exp(big.NewInt(10), big.NewInt(18), nil)
	c41E36    = new(big.Int).Exp(big.NewInt(10), big.NewInt(36), nil)
	c41Half   = new(big.Int).Quo(c41E18, big.NewInt(2))
)

func c41Pow2(n int) *big.Int { return new(big.Int).Lsh(big.NewInt(1), uint(n)) }
func c41Max(bits int) *big.Int {
	return new(big.Int).Sub(c41Pow2(bits), big.NewInt(1))
}
func c41Copy(x *big.Int) *big.Int { return new(big.Int).Set(x) }

// c41Try runs f and reports whether it panicked.
func c41Try(f func()) (panicked bool, msg string) {
	defer func() {
		if r := recover(); r != nil {
			panicked, msg = true, fmt.Sprint(r)
		}
	}()
	f()
	return false, ""
}

// ---------- generators ----------

// c41Mag draws a non-negative integer with at most maxBits bits, biased to the boundaries.
func c41Mag(rt *rapid.T, label string, maxBits int) *big.Int {
	max := c41Max(maxBits)
	var v *big.Int
	switch rapid.IntRange(0, 9).Draw(rt, label+"Mode") {
	case 0, 1:
		v = big.NewInt(int64(rapid.IntRange(0, 20).Draw(rt, label+"Small")))
	case 2, 3:
		k := rapid.SampledFrom([]int{1, 31, 62, 63, 64, 127, 128, 254, 255, 256, 300, 314, 315}).Draw(rt, label+"Pow")
		if k > maxBits {
			k = maxBits
		}
		v = c41Pow2(k)
		v.Add(v, big.NewInt(int64(rapid.IntRange(-2, 1).Draw(rt, label+"PowDelta"))))
	case 4:
		v = new(big.Int).Sub(max, big.NewInt(int64(rapid.IntRange(0, 3).Draw(rt, label+"MaxDelta"))))
	case 5:
		v = new(big.Int).Rsh(max, 1)
		v.Add(v, big.NewInt(int64(rapid.IntRange(-2, 2).Draw(rt, label+"HalfDelta"))))
	default:
		v = c41RandBits(rt, label, rapid.IntRange(0, maxBits).Draw(rt, label+"Bits"))
	}
	if v.Sign() < 0 {
		v.SetInt64(0)
	}
	if v.Cmp(max) > 0 {
		v.Set(max)
	}
	return v
}

// c41RandBits draws an integer with exactly n bits (n == 0: zero).
func c41RandBits(rt *rapid.T, label string, n int) *big.Int {
	if n == 0 {
		return new(big.Int)
	}
	nb := (n + 7) / 8
	bz := rapid.SliceOfN(rapid.Byte(), nb, nb).Draw(rt, label+"Bytes")
	v := new(big.Int).SetBytes(bz)
	v.And(v, c41Max(n))
	v.SetBit(v, n-1, 1)
	return v
}

func c41Signed(rt *rapid.T, label string, maxBits int) *big.Int {
	v := c41Mag(rt, label, maxBits)
	if rapid.IntRange(0, 2).Draw(rt, label+"Neg") == 0 {
		v.Neg(v)
	}
	return v
}

// ---------- coin sets ----------

type c41Entry struct {
	denom string
	amt   *big.Int
}

type c41Spec []c41Entry // sorted by denom, unique denoms

func (s c41Spec) String() string {
	if len(s) == 0 {
		return "{}"
	}
	parts := make([]string, len(s))
	for i, e := range s {
		parts[i] = e.amt.String() + e.denom
	}
	return "{" + strings.Join(parts, ",") + "}"
}

// build constructs a fresh sdk.Coins (fresh backing array, fresh big.Ints) as a caller would hold it.
func (s c41Spec) build() sdk.Coins {
	out := make(sdk.Coins, 0, len(s))
	for _, e := range s {
		out = append(out, sdk.Coin{Denom: e.denom, Amount: sdk.NewIntFromBigInt(c41Copy(e.amt))})
	}
	return out
}

func (s c41Spec) model() map[string]*big.Int {
	m := map[string]*big.Int{}
	for _, e := range s {
		m[e.denom] = c41Copy(e.amt)
	}
	return m
}

func (s c41Spec) hasZero() bool {
	for _, e := range s {
		if e.amt.Sign() == 0 {
			return true
		}
	}
	return false
}

// c41Normalize lists the model's non-zero entries sorted by denomination.
func c41Normalize(m map[string]*big.Int) c41Spec {
	var out c41Spec
	for d, a := range m {
		if a.Sign() != 0 {
			out = append(out, c41Entry{d, a})
		}
	}
	sort.Slice(out, func(i, j int) bool { return out[i].denom < out[j].denom })
	return out
}

func c41Amt(m map[string]*big.Int, d string) *big.Int {
	if a, ok := m[d]; ok {
		return a
	}
	return new(big.Int)
}

func c41RenderCoins(cs sdk.Coins) string {
	parts := make([]string, len(cs))
	for i, co := range cs {
		parts[i] = co.Amount.String() + co.Denom
	}
	return "{" + strings.Join(parts, ",") + "}"
}

// c41CheckCoins compares a result with the normalized model: strictly sorted (hence duplicate free), no zero
// entry, and per-denomination amounts equal.
func c41CheckCoins(c *harness.Case, site string, in string, got sdk.Coins, want c41Spec) {
	for i, co := range got {
		if co.Amount.BigInt().Sign() == 0 {
			c.Violation("C41/"+site+"/zero-entry", "%s = %s contains a zero entry (model %s)", in, c41RenderCoins(got), want)
		}
		if i > 0 && !(got[i-1].Denom < co.Denom) {
			c.Violation("C41/"+site+"/not-strictly-sorted", "%s = %s is not strictly sorted by denomination / has duplicates (model %s)", in, c41RenderCoins(got), want)
		}
	}
	ok := len(got) == len(want)
	if ok {
		for i := range got {
			if got[i].Denom != want[i].denom || got[i].Amount.BigInt().Cmp(want[i].amt) != 0 {
				ok = false
			}
		}
	}
	if !ok {
		c.Violation("C41/"+site+"/amounts-differ", "%s = %s, model %s", in, c41RenderCoins(got), want)
	}
}

func c41DrawCoinAmt(rt *rapid.T, label string, allowZero bool, bits int) *big.Int {
	v := c41Mag(rt, label, bits)
	if v.Sign() == 0 && !allowZero {
		return big.NewInt(1)
	}
	return v
}

// c41DrawSpecs draws two coin sets. nearMax: amounts up to 255 bits and sums placed exactly at / one past the
// bound (otherwise amounts stay below 2^200 so that no sum overflows). subset: B is a sub-multiset of A (Sub succeeds).
func c41DrawSpecs(rt *rapid.T, allowZero, nearMax, subset bool) (a, b c41Spec) {
	max := c41Max(c41IntBits)
	bits := 200
	if nearMax {
		bits = c41IntBits
	}
	for _, d := range c41Denoms {
		inA := rapid.IntRange(0, 9).Draw(rt, "inA") < 6
		inB := rapid.IntRange(0, 9).Draw(rt, "inB") < 6
		if subset && !inA {
			inB = false
		}
		var va, vb *big.Int
		if inA {
			va = c41DrawCoinAmt(rt, "a", allowZero && rapid.IntRange(0, 3).Draw(rt, "aZero") == 0, bits)
			if allowZero && rapid.IntRange(0, 5).Draw(rt, "aForceZero") == 0 {
				va = new(big.Int)
			}
			a = append(a, c41Entry{d, va})
		}
		if inB {
			rel := 0
			if inA {
				rel = rapid.IntRange(0, 7).Draw(rt, "rel")
			}
			if !nearMax && (rel == 4 || rel == 5) {
				rel = 0
			}
			if subset && (rel == 0 || rel == 2 || rel >= 4) {
				rel = 6
			}
			switch rel {
			case 1: // equal: difference is zero
				vb = c41Copy(va)
			case 2: // one more than A: negative difference
				vb = new(big.Int).Add(va, big.NewInt(1))
			case 3: // one less
				vb = new(big.Int).Sub(va, big.NewInt(1))
			case 4: // sum exactly at the maximum
				vb = new(big.Int).Sub(max, va)
			case 5: // sum one past the maximum
				vb = new(big.Int).Sub(max, va)
				vb.Add(vb, big.NewInt(1))
			case 6: // anything not above A's amount
				vb = c41DrawCoinAmt(rt, "b", true, bits)
				if va.Sign() > 0 {
					vb.Mod(vb, new(big.Int).Add(va, big.NewInt(1)))
				} else {
					vb.SetInt64(0)
				}
			default:
				vb = c41DrawCoinAmt(rt, "b", allowZero && rapid.IntRange(0, 3).Draw(rt, "bZero") == 0, bits)
			}
			if allowZero && rapid.IntRange(0, 7).Draw(rt, "bForceZero") == 0 {
				vb = new(big.Int)
			}
			if vb.Sign() < 0 || vb.Cmp(max) > 0 {
				vb = big.NewInt(1)
			}
			if vb.Sign() == 0 && !allowZero {
				if subset && va.Sign() > 0 {
					vb = c41Copy(va)
				} else if subset {
					continue
				} else {
					vb = big.NewInt(1)
				}
			}
			b = append(b, c41Entry{d, vb})
		}
	}
	return a, b
}

func c41Coins(rt *rapid.T, c *harness.Case) {
	c.Label("coins")
	allowZero := rapid.IntRange(0, 9).Draw(rt, "allowZero") < 3
	nearMax := rapid.IntRange(0, 9).Draw(rt, "nearMax") < 3
	subset := rapid.IntRange(0, 9).Draw(rt, "subset") < 4
	A, B := c41DrawSpecs(rt, allowZero, nearMax, subset)
	c.Opf("coins A=%s B=%s", A, B)
	mA, mB := A.model(), B.model()
	if A.hasZero() || B.hasZero() {
		c.Label("coins-zero-entry-input")
	}
	common, onlyA, onlyB := 0, 0, 0
	for _, d := range c41Denoms {
		_, ia := mA[d]
		_, ib := mB[d]
		switch {
		case ia && ib:
			common++
		case ia:
			onlyA++
		case ib:
			onlyB++
		}
	}
	if common > 0 && onlyA+onlyB > 0 {
		c.Label("coins-interleaved")
		c.NonTrivial()
	}

	// model sums and differences
	sum, diff := map[string]*big.Int{}, map[string]*big.Int{}
	overflow, negative, zeroRemoved := false, false, false
	for _, d := range c41Denoms {
		_, ia := mA[d]
		_, ib := mB[d]
		if !ia && !ib {
			continue
		}
		s := new(big.Int).Add(c41Amt(mA, d), c41Amt(mB, d))
		df := new(big.Int).Sub(c41Amt(mA, d), c41Amt(mB, d))
		sum[d], diff[d] = s, df
		if ia && ib && s.BitLen() > c41IntBits {
			overflow = true
		}
		if df.Sign() < 0 {
			negative = true
		}
		if df.Sign() == 0 || s.Sign() == 0 {
			zeroRemoved = true
		}
	}
	if zeroRemoved {
		c.Label("coins-zero-removed")
	}

	// --- Add ---
	{
		a, b := A.build(), B.build()
		var res sdk.Coins
		p, msg := c41Try(func() { res = a.Add(b) })
		in := fmt.Sprintf("%s.Add(%s)", A, B)
		if overflow {
			c.Label("coins-overflow")
			if !p {
				c.Violation("C41/coins-add/missing-overflow-panic", "%s returned %s although a per-denomination sum exceeds %d bits", in, c41RenderCoins(res), c41IntBits)
			}
		} else {
			if p {
				c.Violation("C41/coins-add/unexpected-panic", "%s panicked (%s); model sum %s fits", in, msg, c41Normalize(sum))
			} else {
				c41CheckCoins(c, "coins-add", in, res, c41Normalize(sum))
				if !res.IsValid() {
					c.Violation("C41/coins-add/result-not-valid", "%s = %s is not IsValid (contract of Add)", in, c41RenderCoins(res))
				}
				// commutativity follows from the model; run the mirrored merge too (other pointer-advance branch)
				a2, b2 := A.build(), B.build()
				var res2 sdk.Coins
				p2, msg2 := c41Try(func() { res2 = b2.Add(a2) })
				if p2 {
					c.Violation("C41/coins-add/unexpected-panic", "%s.Add(%s) panicked (%s)", B, A, msg2)
				} else {
					c41CheckCoins(c, "coins-add", fmt.Sprintf("%s.Add(%s)", B, A), res2, c41Normalize(sum))
				}
				// (A+B)-B = A with zero entries dropped
				var back sdk.Coins
				p3, msg3 := c41Try(func() { back = res.Sub(B.build()) })
				if p3 {
					c.Violation("C41/coins-sub/unexpected-panic", "(%s).Sub(%s) panicked (%s) although the minuend is A+B", c41RenderCoins(res), B, msg3)
				} else {
					c41CheckCoins(c, "coins-sub", fmt.Sprintf("(%s+%s).Sub(%s)", A, B, B), back, c41Normalize(mA))
				}
			}
		}
		c41NoteMutation(c, "add", a, A)
		c41NoteMutation(c, "add", b, B)
	}

	// --- SafeSub ---
	{
		a, b := A.build(), B.build()
		var res sdk.Coins
		var flag bool
		p, msg := c41Try(func() { res, flag = a.SafeSub(b) })
		in := fmt.Sprintf("%s.SafeSub(%s)", A, B)
		if p {
			c.Violation("C41/coins-safesub/unexpected-panic", "%s panicked (%s)", in, msg)
		} else {
			c41CheckCoins(c, "coins-safesub", in, res, c41Normalize(diff))
			if flag != negative {
				c.Violation("C41/coins-safesub/negative-flag-wrong", "%s = %s reports hasNeg=%v, model difference %s has a negative entry: %v", in, c41RenderCoins(res), flag, c41Normalize(diff), negative)
			}
		}
		c41NoteMutation(c, "safesub", a, A)
		c41NoteMutation(c, "safesub", b, B)
	}

	// --- Sub ---
	{
		a, b := A.build(), B.build()
		var res sdk.Coins
		p, msg := c41Try(func() { res = a.Sub(b) })
		in := fmt.Sprintf("%s.Sub(%s)", A, B)
		if negative {
			c.Label("coins-sub-negative")
			if !p {
				c.Violation("C41/coins-sub/negative-result-not-reported", "%s returned %s, model difference %s has a negative entry", in, c41RenderCoins(res), c41Normalize(diff))
			}
		} else {
			c.Label("coins-sub-non-negative")
			if p {
				c.Violation("C41/coins-sub/unexpected-panic", "%s panicked (%s), model difference %s is non-negative", in, msg, c41Normalize(diff))
			} else {
				c41CheckCoins(c, "coins-sub", in, res, c41Normalize(diff))
				if !res.IsValid() {
					c.Violation("C41/coins-sub/result-not-valid", "%s = %s is not IsValid (contract of Sub)", in, c41RenderCoins(res))
				}
			}
		}
	}

	// --- AmountOf (sorted sets, zero entries tolerated) ---
	for _, d := range c41Denoms {
		if got := A.build().AmountOf(d).BigInt(); got.Cmp(c41Amt(mA, d)) != 0 {
			c.Violation("C41/coins-amountof/differs", "%s.AmountOf(%s) = %s, model %s", A, d, got, c41Amt(mA, d))
		}
		if got := B.build().AmountOf(d).BigInt(); got.Cmp(c41Amt(mB, d)) != 0 {
			c.Violation("C41/coins-amountof/differs", "%s.AmountOf(%s) = %s, model %s", B, d, got, c41Amt(mB, d))
		}
	}

	// --- validity and comparisons (valid sets only: no zero entries) ---
	if got := A.build().IsValid(); got != !A.hasZero() {
		c.Violation("C41/coins-isvalid/differs", "%s.IsValid() = %v, model %v", A, got, !A.hasZero())
	}
	if !A.hasZero() && !B.hasZero() {
		allGTE, allGT, allLTE, allLT := true, true, true, true
		for _, e := range B {
			cmp := c41Amt(mA, e.denom).Cmp(e.amt)
			if cmp < 0 {
				allGTE = false
			}
			if cmp <= 0 {
				allGT = false
			}
		}
		for _, e := range A {
			cmp := c41Amt(mB, e.denom).Cmp(e.amt)
			if cmp < 0 {
				allLTE = false
			}
			if cmp <= 0 {
				allLT = false
			}
		}
		if got := A.build().IsAllGTE(B.build()); got != allGTE {
			c.Violation("C41/coins-isallgte/differs", "%s.IsAllGTE(%s) = %v, model %v", A, B, got, allGTE)
		}
		if got := A.build().IsAllLTE(B.build()); got != allLTE {
			c.Violation("C41/coins-isalllte/differs", "%s.IsAllLTE(%s) = %v, model %v", A, B, got, allLTE)
		}
		// IsAllGT / IsAllLT: the doc comment ("for every denom in coinsB ...") and the code disagree when the
		// would-be greater set is empty; that corner is not judged.
		if len(A) > 0 {
			if got := A.build().IsAllGT(B.build()); got != allGT {
				c.Violation("C41/coins-isallgt/differs", "%s.IsAllGT(%s) = %v, model %v", A, B, got, allGT)
			}
		}
		if len(B) > 0 {
			if got := A.build().IsAllLT(B.build()); got != allLT {
				c.Violation("C41/coins-isalllt/differs", "%s.IsAllLT(%s) = %v, model %v", A, B, got, allLT)
			}
		}
	}

	// --- NewCoins: any order, zero entries dropped, duplicates rejected ---
	{
		entries := append(c41Spec{}, A...)
		dup := false
		if len(entries) > 0 && rapid.IntRange(0, 4).Draw(rt, "dup") == 0 {
			e := entries[rapid.IntRange(0, len(entries)-1).Draw(rt, "dupOf")]
			entries = append(entries, c41Entry{e.denom, c41DrawCoinAmt(rt, "dupAmt", allowZero, c41IntBits)})
		}
		perm := rapid.Permutation(entries).Draw(rt, "perm")
		seen := map[string]bool{}
		for _, e := range perm {
			if e.amt.Sign() == 0 {
				continue
			}
			if seen[e.denom] {
				dup = true
			}
			seen[e.denom] = true
		}
		c.Opf("NewCoins(%s)", c41Spec(perm))
		args := make([]sdk.Coin, 0, len(perm))
		for _, e := range perm {
			args = append(args, sdk.NewCoin(e.denom, sdk.NewIntFromBigInt(c41Copy(e.amt))))
		}
		var res sdk.Coins
		p, msg := c41Try(func() { res = sdk.NewCoins(args...) })
		if dup {
			c.Label("coins-newcoins-duplicate")
			if !p {
				c.Violation("C41/newcoins/duplicate-accepted", "NewCoins(%s) returned %s although a denomination occurs twice", c41Spec(perm), c41RenderCoins(res))
			}
		} else if p {
			c.Violation("C41/newcoins/unexpected-panic", "NewCoins(%s) panicked (%s)", c41Spec(perm), msg)
		} else {
			want := map[string]*big.Int{}
			for _, e := range perm {
				if e.amt.Sign() != 0 {
					want[e.denom] = e.amt
				}
			}
			c41CheckCoins(c, "newcoins", fmt.Sprintf("NewCoins(%s)", c41Spec(perm)), res, c41Normalize(want))
		}
	}
}

// c41NoteMutation only measures (not part of the property): safeAdd's removeZeroCoins works in place on the
// caller's slice when a zero entry precedes a non-zero one in the unmerged tail.
func c41NoteMutation(c *harness.Case, op string, got sdk.Coins, spec c41Spec) {
	if len(got) != len(spec) {
		c.AddExtra("coins_input_mutated_by_"+op, 1)
		return
	}
	for i := range got {
		if got[i].Denom != spec[i].denom || got[i].Amount.BigInt().Cmp(spec[i].amt) != 0 {
			c.AddExtra("coins_input_mutated_by_"+op, 1)
			return
		}
	}
}

// ---------- BigInt ----------

func c41Int(rt *rapid.T, c *harness.Case) {
	c.Label("int")
	x := c41Signed(rt, "x", c41IntBits)
	var y *big.Int
	max := c41Max(c41IntBits)
	switch rapid.IntRange(0, 9).Draw(rt, "yRel") {
	case 0:
		y = c41Copy(x)
	case 1:
		y = new(big.Int).Neg(x)
	case 2: // x+y exactly at / one past the bound
		y = new(big.Int).Sub(max, new(big.Int).Abs(x))
		y.Add(y, big.NewInt(int64(rapid.IntRange(-1, 1).Draw(rt, "yDelta"))))
		if x.Sign() < 0 {
			y.Neg(y)
		}
	case 3, 4: // product bit length around the bound
		n := c41IntBits + 1 - x.BitLen() + rapid.IntRange(-1, 1).Draw(rt, "mulDelta")
		if n < 0 {
			n = 0
		}
		if n > c41IntBits {
			n = c41IntBits
		}
		y = c41RandBits(rt, "ymul", n)
		if rapid.Bool().Draw(rt, "ymulNeg") {
			y.Neg(y)
		}
	default:
		y = c41Signed(rt, "y", c41IntBits)
	}
	if y.BitLen() > c41IntBits {
		y = c41Copy(max)
	}
	c.Opf("int x=%s y=%s", x, y)
	X, Y := sdk.NewIntFromBigInt(c41Copy(x)), sdk.NewIntFromBigInt(c41Copy(y))
	boundary := false

	bin := func(name string, exact *big.Int, f func() sdk.BigInt) {
		if exact.BitLen() >= c41IntBits-1 && exact.BitLen() <= c41IntBits+2 {
			boundary = true
		}
		var r sdk.BigInt
		p, msg := c41Try(func() { r = f() })
		if exact.BitLen() > c41IntBits {
			c.Label("int-overflow")
			if !p {
				c.Violation("C41/int-"+name+"/missing-overflow-panic", "%s(%s, %s) returned %s; exact result %s needs %d bits (> %d)", name, x, y, r, exact, exact.BitLen(), c41IntBits)
			}
			return
		}
		if p {
			c.Violation("C41/int-"+name+"/unexpected-panic", "%s(%s, %s) panicked (%s); exact result %s has %d bits (<= %d)", name, x, y, msg, exact, exact.BitLen(), c41IntBits)
			return
		}
		if exact.BitLen() >= c41IntBits-1 {
			c.Label("int-boundary-no-overflow")
		}
		if r.BigInt().Cmp(exact) != 0 {
			c.Violation("C41/int-"+name+"/value-differs", "%s(%s, %s) = %s, exact %s", name, x, y, r, exact)
		}
	}
	bin("add", new(big.Int).Add(x, y), func() sdk.BigInt { return X.Add(Y) })
	bin("sub", new(big.Int).Sub(x, y), func() sdk.BigInt { return X.Sub(Y) })
	bin("mul", new(big.Int).Mul(x, y), func() sdk.BigInt { return X.Mul(Y) })
	bin("neg", new(big.Int).Neg(x), func() sdk.BigInt { return X.Neg() })
	raw := rapid.OneOf(rapid.Int64Range(-3, 3), rapid.Int64(), rapid.SampledFrom([]int64{math.MaxInt64, math.MinInt64, 1 << 32})).Draw(rt, "raw")
	c.Opf("raw=%d", raw)
	braw := big.NewInt(raw)
	bin("addraw", new(big.Int).Add(x, braw), func() sdk.BigInt { return X.AddRaw(raw) })
	bin("subraw", new(big.Int).Sub(x, braw), func() sdk.BigInt { return X.SubRaw(raw) })
	bin("mulraw", new(big.Int).Mul(x, braw), func() sdk.BigInt { return X.MulRaw(raw) })

	// division: truncated quotient, characterised by x = q*y + r, |r| < |y|, r zero or of x's sign
	div := func(name string, d *big.Int, f func() sdk.BigInt) {
		var q sdk.BigInt
		p, msg := c41Try(func() { q = f() })
		if d.Sign() == 0 {
			c.Label("int-div-by-zero")
			if !p {
				c.Violation("C41/int-"+name+"/division-by-zero-not-rejected", "%s(%s, 0) returned %s", name, x, q)
			}
			return
		}
		if p {
			c.Violation("C41/int-"+name+"/unexpected-panic", "%s(%s, %s) panicked (%s)", name, x, d, msg)
			return
		}
		r := new(big.Int).Sub(x, new(big.Int).Mul(q.BigInt(), d))
		if r.CmpAbs(d) >= 0 || (r.Sign() != 0 && r.Sign() != x.Sign()) {
			c.Violation("C41/int-"+name+"/value-differs", "%s(%s, %s) = %s leaves remainder %s (not the truncated quotient)", name, x, d, q, r)
		}
		if r.Sign() != 0 {
			c.Label("int-div-inexact")
		}
	}
	div("quo", y, func() sdk.BigInt { return X.Quo(Y) })
	div("quoraw", braw, func() sdk.BigInt { return X.QuoRaw(raw) })

	// modulus: congruent to x, magnitude below |y|; for non-negative x and positive y it is the plain remainder
	mod := func(name string, d *big.Int, f func() sdk.BigInt) {
		var m sdk.BigInt
		p, msg := c41Try(func() { m = f() })
		if d.Sign() == 0 {
			if !p {
				c.Violation("C41/int-"+name+"/division-by-zero-not-rejected", "%s(%s, 0) returned %s", name, x, m)
			}
			return
		}
		if p {
			c.Violation("C41/int-"+name+"/unexpected-panic", "%s(%s, %s) panicked (%s)", name, x, d, msg)
			return
		}
		mb := m.BigInt()
		diff := new(big.Int).Sub(x, mb)
		_, rem := new(big.Int).QuoRem(diff, d, new(big.Int))
		bad := rem.Sign() != 0 || mb.CmpAbs(d) >= 0
		if x.Sign() >= 0 && d.Sign() > 0 && mb.Sign() < 0 {
			bad = true
		}
		if bad {
			c.Violation("C41/int-"+name+"/value-differs", "%s(%s, %s) = %s is not the remainder", name, x, d, m)
		}
	}
	mod("mod", y, func() sdk.BigInt { return X.Mod(Y) })
	mod("modraw", braw, func() sdk.BigInt { return X.ModRaw(raw) })

	// comparisons
	cmp := x.Cmp(y)
	type pred struct {
		name string
		got  bool
		want bool
	}
	for _, pr := range []pred{
		{"equal", X.Equal(Y), cmp == 0}, {"gt", X.GT(Y), cmp > 0}, {"gte", X.GTE(Y), cmp >= 0}, {"lt", X.LT(Y), cmp < 0}, {"lte", X.LTE(Y), cmp <= 0},
		{"iszero", X.IsZero(), x.Sign() == 0}, {"isnegative", X.IsNegative(), x.Sign() < 0}, {"ispositive", X.IsPositive(), x.Sign() > 0},
		{"isint64", X.IsInt64(), x.IsInt64()}, {"isuint64", X.IsUint64(), x.IsUint64()},
	} {
		if pr.got != pr.want {
			c.Violation("C41/int-"+pr.name+"/differs", "%s on x=%s y=%s: got %v want %v", pr.name, x, y, pr.got, pr.want)
		}
	}
	wantMin, wantMax := x, y
	if cmp > 0 {
		wantMin, wantMax = y, x
	}
	if g := sdk.MinInt(X, Y).BigInt(); g.Cmp(wantMin) != 0 {
		c.Violation("C41/int-min/differs", "MinInt(%s,%s) = %s", x, y, g)
	}
	if g := sdk.MaxInt(X, Y).BigInt(); g.Cmp(wantMax) != 0 {
		c.Violation("C41/int-max/differs", "MaxInt(%s,%s) = %s", x, y, g)
	}

	// narrowing conversions: value or panic
	{
		var v int64
		p, _ := c41Try(func() { v = X.Int64() })
		if p == x.IsInt64() || (!p && big.NewInt(v).Cmp(x) != 0) {
			c.Violation("C41/int-int64/differs", "Int64() of %s: panicked=%v value=%d", x, p, v)
		}
		var u uint64
		p, _ = c41Try(func() { u = X.Uint64() })
		if p == x.IsUint64() || (!p && new(big.Int).SetUint64(u).Cmp(x) != 0) {
			c.Violation("C41/int-uint64/differs", "Uint64() of %s: panicked=%v value=%d", x, p, u)
		}
	}

	// constructors at the range bound
	{
		big1 := c41Signed(rt, "ctor", c41IntBits+2)
		c.Opf("ctor=%s", big1)
		var r sdk.BigInt
		p, _ := c41Try(func() { r = sdk.NewIntFromBigInt(c41Copy(big1)) })
		if p != (big1.BitLen() > c41IntBits) || (!p && r.BigInt().Cmp(big1) != 0) {
			c.Violation("C41/int-newintfrombigint/range-check-wrong", "NewIntFromBigInt(%s) (%d bits): panicked=%v", big1, big1.BitLen(), p)
		}
		rs, ok := sdk.NewIntFromString(big1.String())
		if ok != (big1.BitLen() <= c41IntBits) || (ok && rs.BigInt().Cmp(big1) != 0) {
			c.Violation("C41/int-newintfromstring/range-check-wrong", "NewIntFromString(%s) (%d bits): ok=%v", big1, big1.BitLen(), ok)
		}
		if big1.BitLen() > c41IntBits {
			c.Label("int-overflow")
		}
		n := rapid.OneOf(rapid.Int64Range(-9, 9), rapid.Int64()).Draw(rt, "wdN")
		dec := rapid.IntRange(0, 80).Draw(rt, "wdDec")
		c.Opf("NewIntWithDecimal(%d,%d)", n, dec)
		exact := new(big.Int).Mul(big.NewInt(n), new(big.Int).Exp(big.NewInt(10), big.NewInt(int64(dec)), nil))
		bin("newintwithdecimal", exact, func() sdk.BigInt { return sdk.NewIntWithDecimal(n, dec) })
	}
	if s := X.String(); s != x.String() {
		c.Violation("C41/int-string/differs", "String() of %s = %q", x, s)
	}
	if d := X.ToDec().BigInt(); d.Cmp(new(big.Int).Mul(x, c41E18)) != 0 {
		c.Violation("C41/int-todec/differs", "ToDec() of %s has raw value %s", x, d)
	}
	// the operands are values: no operation above may have changed them
	if X.BigInt().Cmp(x) != 0 || Y.BigInt().Cmp(y) != 0 {
		c.Violation("C41/int/operand-mutated", "operands changed: x %s -> %s, y %s -> %s", x, X, y, Y)
	}
	if boundary {
		c.NonTrivial()
	}
}

// ---------- BigDec ----------

func c41Floor(r *big.Rat) *big.Int {
	q, m := new(big.Int).DivMod(r.Num(), r.Denom(), new(big.Int)) // Euclidean: denominator > 0 so q = floor
	_ = m
	return q
}

func c41Ceil(r *big.Rat) *big.Int {
	f := c41Floor(r)
	if new(big.Rat).SetInt(f).Cmp(r) != 0 {
		f.Add(f, big.NewInt(1))
	}
	return f
}

func c41Trunc(r *big.Rat) *big.Int {
	if r.Sign() < 0 {
		return c41Ceil(r)
	}
	return c41Floor(r)
}

// c41HalfEven rounds to the nearest integer, ties to the even neighbour. tie reports an exact half.
func c41HalfEven(r *big.Rat) (v *big.Int, tie bool) {
	f := c41Floor(r)
	frac := new(big.Rat).Sub(r, new(big.Rat).SetInt(f))
	switch frac.Cmp(big.NewRat(1, 2)) {
	case -1:
		return f, false
	case 1:
		return f.Add(f, big.NewInt(1)), false
	default:
		if f.Bit(0) == 1 {
			f.Add(f, big.NewInt(1))
		}
		return f, true
	}
}

func c41Ulp(n *big.Int) *big.Rat { return new(big.Rat).SetFrac(n, c41E18) } // raw / 10^18

func c41DecStr(raw *big.Int) string { return c41Ulp(raw).FloatString(18) }

func c41DrawDecRaw(rt *rapid.T, label string) *big.Int {
	var v *big.Int
	switch rapid.IntRange(0, 9).Draw(rt, label+"Kind") {
	case 0, 1: // whole numbers
		v = new(big.Int).Mul(big.NewInt(int64(rapid.IntRange(0, 12).Draw(rt, label+"Whole"))), c41E18)
	case 2: // odd multiples of one half (ties for integer rounding and for products)
		k := int64(rapid.IntRange(0, 9).Draw(rt, label+"HalfK"))
		v = new(big.Int).Mul(big.NewInt(2*k+1), c41Half)
	case 3: // tiny raw values (products and quotients far below / at the last digit)
		v = big.NewInt(int64(rapid.IntRange(0, 25).Draw(rt, label+"Tiny")))
	case 4: // a few digits on both sides of the point
		v = big.NewInt(rapid.Int64Range(0, 999999).Draw(rt, label+"Few"))
		v.Mul(v, new(big.Int).Exp(big.NewInt(10), big.NewInt(int64(rapid.IntRange(0, 18).Draw(rt, label+"Shift"))), nil))
	default:
		v = c41Mag(rt, label, c41DecBits)
	}
	if rapid.IntRange(0, 2).Draw(rt, label+"Neg") == 0 {
		v.Neg(v)
	}
	return v
}

func c41Dec(rt *rapid.T, c *harness.Case) {
	c.Label("dec")
	x := c41DrawDecRaw(rt, "x")
	var y *big.Int
	switch rapid.IntRange(0, 9).Draw(rt, "yRel") {
	case 0: // product around the overflow bound
		n := c41DecBits + 60 - x.BitLen() + rapid.IntRange(-2, 2).Draw(rt, "mulDelta")
		if n < 0 {
			n = 0
		}
		if n > c41DecBits {
			n = c41DecBits
		}
		y = c41RandBits(rt, "ymul", n)
	case 1: // divisor 2 or 4 or 8: quotient ties
		y = new(big.Int).Mul(big.NewInt(rapid.SampledFrom([]int64{2, -2, 4, 8}).Draw(rt, "ydiv")), c41E18)
	case 2: // small fraction divisor: quotient around the overflow bound
		y = big.NewInt(int64(rapid.IntRange(0, 9).Draw(rt, "ysmall")))
	case 3:
		y = c41Copy(x)
	default:
		y = c41DrawDecRaw(rt, "y")
	}
	c.Opf("dec x=%s y=%s (raw %s, %s)", c41DecStr(x), c41DecStr(y), x, y)
	if x.Sign() < 0 || y.Sign() < 0 {
		c.Label("dec-negative")
	}
	X := sdk.NewDecFromBigIntWithPrec(c41Copy(x), sdk.Precision)
	Y := sdk.NewDecFromBigIntWithPrec(c41Copy(y), sdk.Precision)
	nontrivial := false

	// op compares one operation: want == nil means the call must panic for the stated reason
	op := func(name string, want *big.Int, bits int, reason string, f func() *big.Int) {
		var r *big.Int
		p, msg := c41Try(func() { r = f() })
		if want != nil && want.BitLen() >= bits-1 && want.BitLen() <= bits+2 {
			nontrivial = true
		}
		if want == nil || want.BitLen() > bits {
			if want != nil {
				reason = fmt.Sprintf("result %s needs %d bits (> %d)", want, want.BitLen(), bits)
				c.Label("dec-overflow")
			}
			if !p {
				c.Violation("C41/dec-"+name+"/missing-panic", "%s(%s, %s) returned raw %s; must fail: %s", name, c41DecStr(x), c41DecStr(y), r, reason)
			}
			return
		}
		if p {
			c.Violation("C41/dec-"+name+"/unexpected-panic", "%s(%s, %s) panicked (%s); expected %s", name, c41DecStr(x), c41DecStr(y), msg, c41DecStr(want))
			return
		}
		if r.Cmp(want) != 0 {
			c.Violation("C41/dec-"+name+"/value-differs", "%s(%s, %s) = %s, expected %s", name, c41DecStr(x), c41DecStr(y), c41DecStr(r), c41DecStr(want))
		}
	}
	// rounding away from zero (or a tie) is what distinguishes the documented rounding from plain truncation
	noteRounding := func(exact *big.Rat, rounded *big.Int, tie bool) {
		if tie {
			c.Label("dec-tie")
			nontrivial = true
		}
		switch new(big.Rat).Abs(new(big.Rat).SetInt(rounded)).Cmp(new(big.Rat).Abs(exact)) {
		case 1:
			c.Label("dec-rounded-away-from-zero")
			nontrivial = true
		case -1:
			c.Label("dec-rounded-toward-zero")
		}
	}

	op("add", new(big.Int).Add(x, y), c41DecBits, "", func() *big.Int { return X.Add(Y).BigInt() })
	op("sub", new(big.Int).Sub(x, y), c41DecBits, "", func() *big.Int { return X.Sub(Y).BigInt() })

	// Mul: exact product, the 18 removed digits rounded half-to-even; MulTruncate: removed
	prod := new(big.Rat).SetFrac(new(big.Int).Mul(x, y), c41E18)
	mr, tie := c41HalfEven(prod)
	noteRounding(prod, mr, tie)
	op("mul", mr, c41DecBits, "", func() *big.Int { return X.Mul(Y).BigInt() })
	op("multruncate", c41Trunc(prod), c41DecBits, "", func() *big.Int { return X.MulTruncate(Y).BigInt() })

	// Quo family, as the comments in decimal.go document it: the quotient is computed with 2*Precision digits
	// (integer division, i.e. truncated at 36 digits), then Precision digits are removed with the stated rounding.
	if y.Sign() == 0 {
		c.Label("dec-div-by-zero")
		op("quo", nil, c41DecBits, "division by zero", func() *big.Int { return X.Quo(Y).BigInt() })
		op("quotruncate", nil, c41DecBits, "division by zero", func() *big.Int { return X.QuoTruncate(Y).BigInt() })
		op("quoroundup", nil, c41DecBits, "division by zero", func() *big.Int { return X.QuoRoundUp(Y).BigInt() })
	} else {
		exact := new(big.Rat).SetFrac(new(big.Int).Mul(x, c41E18), y) // in units of 10^-18
		t36 := c41Trunc(new(big.Rat).Mul(exact, new(big.Rat).SetInt(c41E18)))
		q36 := new(big.Rat).SetFrac(t36, c41E18)
		qr, tie := c41HalfEven(q36)
		noteRounding(exact, qr, tie)
		if ex, _ := c41HalfEven(exact); ex.Cmp(qr) != 0 {
			c.Label("dec-quo-double-rounding-observable")
		}
		op("quo", qr, c41DecBits, "", func() *big.Int { return X.Quo(Y).BigInt() })
		op("quotruncate", c41Trunc(exact), c41DecBits, "", func() *big.Int { return X.QuoTruncate(Y).BigInt() })
		op("quoroundup", c41Ceil(q36), c41DecBits, "", func() *big.Int { return X.QuoRoundUp(Y).BigInt() })
	}

	// integer multipliers / divisors
	i64 := rapid.OneOf(rapid.Int64Range(-4, 4), rapid.Int64(), rapid.SampledFrom([]int64{math.MaxInt64, math.MinInt64})).Draw(rt, "i64")
	bi := c41Signed(rt, "bi", c41IntBits)
	c.Opf("i64=%d bigint=%s", i64, bi)
	BI := sdk.NewIntFromBigInt(c41Copy(bi))
	op("mulint64", new(big.Int).Mul(x, big.NewInt(i64)), c41DecBits, "", func() *big.Int { return X.MulInt64(i64).BigInt() })
	op("mulint", new(big.Int).Mul(x, bi), c41DecBits, "", func() *big.Int { return X.MulInt(BI).BigInt() })
	if i64 == 0 {
		op("quoint64", nil, c41DecBits, "division by zero", func() *big.Int { return X.QuoInt64(i64).BigInt() })
	} else {
		op("quoint64", c41Trunc(new(big.Rat).SetFrac(x, big.NewInt(i64))), c41DecBits, "", func() *big.Int { return X.QuoInt64(i64).BigInt() })
	}
	if bi.Sign() == 0 {
		op("quoint", nil, c41DecBits, "division by zero", func() *big.Int { return X.QuoInt(BI).BigInt() })
	} else {
		op("quoint", c41Trunc(new(big.Rat).SetFrac(x, bi)), c41DecBits, "", func() *big.Int { return X.QuoInt(BI).BigInt() })
	}

	// conversions to integers
	ux := c41Ulp(x)
	ri, tie := c41HalfEven(ux)
	noteRounding(ux, ri, tie)
	ti := c41Trunc(ux)
	op("roundint", ri, c41IntBits, "", func() *big.Int { return X.RoundInt().BigInt() })
	op("truncateint", ti, c41IntBits, "", func() *big.Int { return X.TruncateInt().BigInt() })
	{
		var v int64
		p, _ := c41Try(func() { v = X.RoundInt64() })
		if p == ri.IsInt64() || (!p && big.NewInt(v).Cmp(ri) != 0) {
			c.Violation("C41/dec-roundint64/differs", "RoundInt64(%s): panicked=%v value=%d, expected %s", c41DecStr(x), p, v, ri)
		}
		p, _ = c41Try(func() { v = X.TruncateInt64() })
		if p == ti.IsInt64() || (!p && big.NewInt(v).Cmp(ti) != 0) {
			c.Violation("C41/dec-truncateint64/differs", "TruncateInt64(%s): panicked=%v value=%d, expected %s", c41DecStr(x), p, v, ti)
		}
	}
	if g := X.TruncateDec().BigInt(); g.Cmp(new(big.Int).Mul(ti, c41E18)) != 0 {
		c.Violation("C41/dec-truncatedec/differs", "TruncateDec(%s) = %s", c41DecStr(x), c41DecStr(g))
	}
	if g := X.Ceil().BigInt(); g.Cmp(new(big.Int).Mul(c41Ceil(ux), c41E18)) != 0 {
		c.Violation("C41/dec-ceil/differs", "Ceil(%s) = %s", c41DecStr(x), c41DecStr(g))
	}
	if g := X.IsInteger(); g != ux.IsInt() {
		c.Violation("C41/dec-isinteger/differs", "IsInteger(%s) = %v", c41DecStr(x), g)
	}
	if g := X.Neg().BigInt(); g.Cmp(new(big.Int).Neg(x)) != 0 {
		c.Violation("C41/dec-neg/differs", "Neg(%s) = %s", c41DecStr(x), c41DecStr(g))
	}
	if g := X.Abs().BigInt(); g.Cmp(new(big.Int).Abs(x)) != 0 {
		c.Violation("C41/dec-abs/differs", "Abs(%s) = %s", c41DecStr(x), c41DecStr(g))
	}
	cmp := x.Cmp(y)
	if X.Equal(Y) != (cmp == 0) || X.GT(Y) != (cmp > 0) || X.GTE(Y) != (cmp >= 0) || X.LT(Y) != (cmp < 0) || X.LTE(Y) != (cmp <= 0) ||
		X.IsZero() != (x.Sign() == 0) || X.IsNegative() != (x.Sign() < 0) || X.IsPositive() != (x.Sign() > 0) {
		c.Violation("C41/dec-compare/differs", "comparison predicates disagree with the model for x=%s y=%s", c41DecStr(x), c41DecStr(y))
	}
	// decimal text: exactly 18 fractional digits, and it parses back to the same value
	if s := X.String(); s != c41DecStr(x) {
		c.Violation("C41/dec-string/differs", "String() of raw %s = %q, expected %q", x, s, c41DecStr(x))
	} else if back, err := sdk.NewDecFromStr(s); err != nil || back.BigInt().Cmp(x) != 0 {
		c.Violation("C41/dec-fromstr/round-trip-differs", "NewDecFromStr(%q) = %v (err %v), expected raw %s", s, back, err, x)
	}
	// constructors with a precision
	{
		n := rapid.OneOf(rapid.Int64Range(-99, 99), rapid.Int64()).Draw(rt, "wpN")
		prec := rapid.Int64Range(0, sdk.Precision).Draw(rt, "wpPrec")
		want := new(big.Int).Mul(big.NewInt(n), new(big.Int).Exp(big.NewInt(10), big.NewInt(sdk.Precision-prec), nil))
		if g := sdk.NewDecWithPrec(n, prec).BigInt(); g.Cmp(want) != 0 {
			c.Violation("C41/dec-newdecwithprec/differs", "NewDecWithPrec(%d,%d) has raw %s, expected %s", n, prec, g, want)
		}
		if g := sdk.NewDecFromInt(BI).BigInt(); g.Cmp(new(big.Int).Mul(bi, c41E18)) != 0 {
			c.Violation("C41/dec-newdecfromint/differs", "NewDecFromInt(%s) has raw %s", bi, g)
		}
	}
	if X.BigInt().Cmp(x) != 0 || Y.BigInt().Cmp(y) != 0 {
		c.Violation("C41/dec/operand-mutated", "operands changed: x %s -> %s, y %s -> %s", x, X.BigInt(), y, Y.BigInt())
	}
	if nontrivial {
		c.NonTrivial()
	}
}

func TestC41(t *testing.T) {
	harness.Check(t, "C41",
		"each case is one of: (coins, 50%) two sorted coin sets over denominations {aaa,aab,bcd,zzz} with amounts from {small, 2^k-2..2^k+1, 2^255-1-d, random bit lengths up to 255}, "+
			"B's amount on a shared denomination related to A's (equal, +-1, sum exactly at / one past 2^255-1), 30% of cases with the documented tolerated zero entries: "+
			"Add, mirrored Add, Sub, SafeSub, (A+B)-B, AmountOf, IsValid, IsAllGTE/GT/LTE/LT, NewCoins of a permutation with an optional duplicate, against map[denom]*big.Int "+
			"(panic iff the model overflows / goes negative / has a duplicate); (int, 25%) BigInt pair incl. negatives and bound-hugging sums and products: Add/Sub/Mul/Neg/*Raw/Quo/Mod/"+
			"comparisons/Min/Max/Int64/Uint64/constructors against math/big (panic iff result needs >255 bits or divisor is zero); (dec, 25%) BigDec pair (raw up to 315 bits, whole numbers, "+
			"odd halves, tiny values): Add/Sub/Mul/MulTruncate/Quo/QuoTruncate/QuoRoundUp/MulInt/MulInt64/QuoInt/QuoInt64/RoundInt/TruncateInt/*Int64/Ceil/String/NewDecFromStr against big.Rat "+
			"with half-to-even / truncation at the 18th digit (panic iff result needs >315 resp. >255 bits or divisor is zero); (uint, 1 in 13) Uint pair up to 2^256-1 incl. products and sums exactly at / one past the bound: Add/Sub/Mul/Quo/Mod/Incr/Decr/*Uint64 against math/big. "+
			"non-trivial = coins: the sets share a denomination and at least one denomination is on one side only; int: an exact result within 1-2 bits of the 255-bit bound; "+
			"dec: a Mul/Quo/RoundInt whose documented rounding differs from plain truncation (rounded away from zero, or an exact tie), or a result within 1-2 bits of its bound",
		map[string]float64{"coins": 0.35, "int": 0.1, "dec": 0.1, "uint": 0.02, "coins-interleaved": 0.15, "coins-sub-negative": 0.08, "coins-sub-non-negative": 0.08, "coins-zero-removed": 0.08,
			"coins-overflow": 0.03, "coins-zero-entry-input": 0.05, "int-overflow": 0.05, "int-boundary-no-overflow": 0.03, "dec-tie": 0.012, "dec-overflow": 0.015,
			"dec-rounded-away-from-zero": 0.02, "dec-rounded-toward-zero": 0.03},
		func(rt *rapid.T, c *harness.Case) {
			switch k := rapid.SampledFrom([]int{0, 0, 0, 1, 1, 1, 2, 2, 2, 3, 3, 3, 4}).Draw(rt, "kind"); k {
			case 0, 1:
				c41Coins(rt, c)
			case 2:
				c41Int(rt, c)
			case 3:
				c41Dec(rt, c)
			default:
				c41Uint(rt, c)
			}
		})
}

// c41Uint: the unsigned integer type (range 0 .. 2^256-1) - Add/Sub/Mul/Quo/Mod/Incr/Decr and the *Uint64 forms against
// math/big: the exact value when it lies in the range, a panic when it does not (or the divisor is zero).
func c41Uint(rt *rapid.T, c *harness.Case) {
	c.Label("uint")
	a, b := c41Mag(rt, "ua", 256), c41Mag(rt, "ub", 256)
	switch rapid.IntRange(0, 3).Draw(rt, "urelate") {
	case 0: // product exactly at / one past the bound
		if a.Sign() > 0 {
			b = new(big.Int).Quo(c41Max(256), a)
			b.Add(b, big.NewInt(int64(rapid.IntRange(0, 1).Draw(rt, "uOver"))))
		}
	case 1: // sum exactly at / one past the bound
		b = new(big.Int).Sub(c41Max(256), a)
		b.Add(b, big.NewInt(int64(rapid.IntRange(0, 1).Draw(rt, "uOver"))))
	}
	if b.Cmp(c41Max(256)) > 0 {
		b = c41Max(256)
	}
	c.Opf("uint a=%s b=%s (bits %d,%d)", a, b, a.BitLen(), b.BitLen())
	ua, ub := sdk.NewUintFromBigInt(c41Copy(a)), sdk.NewUintFromBigInt(c41Copy(b))
	inRange := func(x *big.Int) bool { return x.Sign() >= 0 && x.BitLen() <= 256 }
	check := func(op string, want *big.Int, f func() sdk.Uint) {
		var got sdk.Uint
		p, msg := c41Try(func() { got = f() })
		if want == nil || !inRange(want) {
			c.Label("uint-out-of-range")
			if !p {
				c.Violation("C41/uint/"+op+"/out-of-range-result-returned", "%s(%s, %s) must fail (model %v) but returned %s", op, a, b, want, got)
			}
			return
		}
		if want.BitLen() >= 255 {
			c.Label("uint-boundary-in-range")
			c.NonTrivial()
		}
		if p {
			c.Violation("C41/uint/"+op+"/representable-result-refused", "%s(%s, %s) = %s lies in 0..2^256-1 but the call failed: %s", op, a, b, want, msg)
			return
		}
		if got.BigInt().Cmp(want) != 0 {
			c.Violation("C41/uint/"+op+"/value-differs", "%s(%s, %s) = %s, math/big gives %s", op, a, b, got, want)
		}
	}
	check("Add", new(big.Int).Add(a, b), func() sdk.Uint { return ua.Add(ub) })
	check("Sub", new(big.Int).Sub(a, b), func() sdk.Uint { return ua.Sub(ub) })
	check("Mul", new(big.Int).Mul(a, b), func() sdk.Uint { return ua.Mul(ub) })
	var q, r *big.Int
	if b.Sign() != 0 {
		q, r = new(big.Int).Quo(a, b), new(big.Int).Mod(a, b)
	}
	check("Quo", q, func() sdk.Uint { return ua.Quo(ub) })
	check("Mod", r, func() sdk.Uint { return ua.Mod(ub) })
	check("Incr", new(big.Int).Add(a, big.NewInt(1)), func() sdk.Uint { return ua.Incr() })
	check("Decr", new(big.Int).Sub(a, big.NewInt(1)), func() sdk.Uint { return ua.Decr() })
	if b.IsUint64() {
		u64 := b.Uint64()
		check("AddUint64", new(big.Int).Add(a, b), func() sdk.Uint { return ua.AddUint64(u64) })
		check("SubUint64", new(big.Int).Sub(a, b), func() sdk.Uint { return ua.SubUint64(u64) })
		check("MulUint64", new(big.Int).Mul(a, b), func() sdk.Uint { return ua.MulUint64(u64) })
		check("QuoUint64", q, func() sdk.Uint { return ua.QuoUint64(u64) })
	}
	// the originals were not modified
	if ua.BigInt().Cmp(a) != 0 || ub.BigInt().Cmp(b) != 0 {
		c.Violation("C41/uint/operand-mutated", "operands changed to %s, %s (were %s, %s)", ua, ub, a, b)
	}
}
