package storea

import (
	"bytes"
	"encoding/hex"
	"fmt"
	"sort"
	"strconv"
	"strings"
	"testing"

	"github.com/pokt-network/pocket-core/store/iavl"
	dbm "github.com/tendermint/tm-db"
	"pgregory.net/rapid"

	"verif/harness"
	"verif/harness/kv"
)

// C03: the versioned IAVL tree is a correct ordered map at every retained version, and stays AVL-balanced.

// harnessBug is a panic payload for problems of the check itself (never converted into a violation).
type harnessBug string

// guard runs f and converts a panic raised by the code under test (string / error payload) into a message.
// Anything else (rapid's own control-flow panics, harnessBug) is re-raised untouched.
func guard(f func()) (msg string, panicked bool) {
	defer func() {
		if r := recover(); r != nil {
			switch v := r.(type) {
			case string:
				msg, panicked = v, true
			case error:
				msg, panicked = v.Error(), true
			default:
				panic(r)
			}
		}
	}()
	f()
	return
}

var c03TinyKeys = [][]byte{[]byte("a"), []byte("aa"), []byte("ab"), []byte("b"), {'b', 0x00}, []byte("c"), {0x00}, {0xff}}

func c03LargeKey() *rapid.Generator[[]byte] {
	return rapid.Custom(func(t *rapid.T) []byte {
		n := rapid.SampledFrom([]int{1, 2, 2, 3, 3, 3}).Draw(t, "klen")
		b := make([]byte, n)
		for i := range b {
			b[i] = rapid.SampledFrom([]byte{'a', 'b', 'c', 'd', 'e', 0x00, 0xff}).Draw(t, "kb")
		}
		return b
	})
}

type c03ShapeLine struct {
	depth int
	leaf  bool
	id    []byte
}

func c03Shape(t *iavl.ImmutableTree) ([]c03ShapeLine, error) {
	lines := t.RenderShape("", func(id []byte, depth int, isLeaf bool) string {
		return fmt.Sprintf("%d:%t:%x", depth, isLeaf, id)
	})
	out := make([]c03ShapeLine, 0, len(lines))
	for _, l := range lines {
		if l == "<nil>" {
			continue // empty tree
		}
		parts := strings.SplitN(l, ":", 3)
		if len(parts) != 3 {
			return nil, fmt.Errorf("unparsable shape line %q", l)
		}
		d, err := strconv.Atoi(parts[0])
		if err != nil {
			return nil, fmt.Errorf("unparsable shape line %q", l)
		}
		id, err := hex.DecodeString(parts[2])
		if err != nil {
			return nil, fmt.Errorf("unparsable shape line %q", l)
		}
		out = append(out, c03ShapeLine{depth: d, leaf: parts[1] == "true", id: id})
	}
	return out, nil
}

// c03Rebuild reconstructs the tree from the in-order (left, node, right) listing with depths and returns its
// height; problem != "" when the listing is not a full binary tree or an inner node is unbalanced.
func c03Rebuild(lines []c03ShapeLine, depth int) (height int, problem string) {
	if len(lines) == 0 {
		return 0, "inner node with a missing child"
	}
	at := -1
	for i, l := range lines {
		if l.depth == depth {
			if at >= 0 {
				return 0, fmt.Sprintf("two nodes at depth %d inside one subtree", depth)
			}
			at = i
		}
	}
	if at < 0 {
		return 0, fmt.Sprintf("no node at depth %d", depth)
	}
	if lines[at].leaf {
		if len(lines) != 1 {
			return 0, "leaf with descendants"
		}
		return 0, ""
	}
	hl, p := c03Rebuild(lines[:at], depth+1)
	if p != "" {
		return 0, p
	}
	hr, p := c03Rebuild(lines[at+1:], depth+1)
	if p != "" {
		return 0, p
	}
	if hl-hr > 1 || hr-hl > 1 {
		return 0, fmt.Sprintf("UNBALANCED inner node at depth %d: left height %d, right height %d", depth, hl, hr)
	}
	if hl > hr {
		return hl + 1, ""
	}
	return hr + 1, ""
}

type c03Machine struct {
	c          *harness.Case
	db         dbm.DB
	cacheSize  int
	tree       *iavl.MutableTree
	work       kv.Model
	saved      map[int64]kv.Model // retained versions
	latest     int64
	maxEver    int64
	removed    map[string]bool // keys removed at some point (probed for staleness)
	keygen     *rapid.Generator[[]byte]
	dirty      bool // working tree changed since the last save / load
	saves      int
	rolledBack bool
}

func (m *c03Machine) retained() []int64 {
	vs := make([]int64, 0, len(m.saved))
	for v := range m.saved {
		vs = append(vs, v)
	}
	sort.Slice(vs, func(i, j int) bool { return vs[i] < vs[j] })
	return vs
}

func (m *c03Machine) probes(model kv.Model) [][]byte {
	var ps [][]byte
	for k := range m.removed {
		ps = append(ps, []byte(k))
	}
	for _, k := range c03TinyKeys {
		ps = append(ps, k)
	}
	for k := range model {
		ps = append(ps, append([]byte(k), 0x00))
		if len(k) > 1 {
			ps = append(ps, []byte(k[:len(k)-1]))
		}
	}
	sort.Slice(ps, func(i, j int) bool { return bytes.Compare(ps[i], ps[j]) < 0 })
	return ps
}

// checkTree compares one tree (working or a saved version) completely with its model.
func (m *c03Machine) checkTree(t *iavl.ImmutableTree, model kv.Model, where string) {
	c := m.c
	msg, panicked := guard(func() { m.checkTreeInner(t, model, where) })
	if panicked {
		c.Violation("C03/read/panic", "%s: reading a tree the model says is readable panicked: %s", where, msg)
	}
}

func (m *c03Machine) checkTreeInner(t *iavl.ImmutableTree, model kv.Model, where string) {
	c := m.c
	keys := model.SortedKeys()
	c.AddExtra("tree_comparisons", 1)
	if got := t.Size(); got != int64(len(keys)) {
		c.Violation("C03/size/differs-from-model", "%s: Size()=%d, model has %d keys", where, got, len(keys))
	}
	for i, k := range keys {
		idx, val := t.Get([]byte(k))
		if val == nil || !bytes.Equal(val, model[k]) {
			c.Violation("C03/get/value-differs-from-model", "%s: Get(%x) value %x (nil=%v), model %x", where, k, val, val == nil, model[k])
		}
		if idx != int64(i) {
			c.Violation("C03/get/index-differs-from-rank", "%s: Get(%x) index %d, rank in model %d", where, k, idx, i)
		}
		if !t.Has([]byte(k)) {
			c.Violation("C03/has/false-for-present-key", "%s: Has(%x)=false for a key of the model", where, k)
		}
		gk, gv := t.GetByIndex(int64(i))
		if !bytes.Equal(gk, []byte(k)) || gv == nil || !bytes.Equal(gv, model[k]) {
			c.Violation("C03/get-by-index/pair-differs-from-model", "%s: GetByIndex(%d) = %x=%x, model %x=%x", where, i, gk, gv, k, model[k])
		}
	}
	if gk, gv := t.GetByIndex(int64(len(keys))); gk != nil || gv != nil {
		c.Violation("C03/get-by-index/pair-beyond-size", "%s: GetByIndex(%d) on a tree of %d keys = %x=%x", where, len(keys), len(keys), gk, gv)
	}
	for _, p := range m.probes(model) {
		if _, ok := model[string(p)]; ok {
			continue
		}
		idx, val := t.Get(p)
		if val != nil {
			c.Violation("C03/get/value-for-absent-key", "%s: Get(%x) = %x but the key is absent in the model", where, p, val)
		}
		rank := sort.SearchStrings(keys, string(p))
		if idx != int64(rank) {
			c.Violation("C03/get/absent-index-differs-from-insertion-rank", "%s: Get(%x) (absent) index %d, insertion rank %d", where, p, idx, rank)
		}
		if t.Has(p) {
			c.Violation("C03/has/true-for-absent-key", "%s: Has(%x)=true but the key is absent in the model", where, p)
		}
	}
	for _, asc := range []bool{true, false} {
		m.checkRange(t, model, nil, nil, asc, where)
	}
	// shape: AVL balance, height, leaf order
	lines, err := c03Shape(t)
	if err != nil {
		panic(harnessBug(err.Error()))
	}
	if len(keys) == 0 {
		if len(lines) != 0 || t.Height() != 0 {
			c.Violation("C03/shape/empty-tree-has-nodes", "%s: empty model but %d rendered nodes, Height()=%d", where, len(lines), t.Height())
		}
		return
	}
	h, problem := c03Rebuild(lines, 0)
	if problem != "" {
		sig := "C03/shape/not-a-full-binary-tree"
		if strings.HasPrefix(problem, "UNBALANCED") {
			sig = "C03/shape/unbalanced"
		}
		c.Violation(sig, "%s: %s (%d keys)", where, problem, len(keys))
	}
	if int(t.Height()) != h {
		c.Violation("C03/shape/height-differs", "%s: Height()=%d, reconstructed height %d", where, t.Height(), h)
	}
	var leaves []string
	for _, l := range lines {
		if l.leaf {
			leaves = append(leaves, string(l.id))
		}
	}
	if len(leaves) != len(keys) {
		c.Violation("C03/shape/leaf-order-differs", "%s: %d leaves rendered, %d keys in the model", where, len(leaves), len(keys))
	}
	for i := range leaves {
		if leaves[i] != keys[i] {
			c.Violation("C03/shape/leaf-order-differs", "%s: leaf #%d is %x, model's sorted key #%d is %x", where, i, leaves[i], i, keys[i])
		}
	}
}

func (m *c03Machine) checkRange(t *iavl.ImmutableTree, model kv.Model, start, end []byte, asc bool, where string) {
	var got []kv.Pair
	t.IterateRange(start, end, asc, func(k, v []byte) bool {
		got = append(got, kv.Pair{K: append([]byte{}, k...), V: append([]byte{}, v...)})
		return len(got) > 100000
	})
	want := model.Range(start, end, !asc)
	m.c.AddExtra("ranges_compared", 1)
	if !kv.EqualPairs(got, want) {
		m.c.Violation("C03/iterate-range/listing-differs-from-model", "%s: IterateRange(%x,%x,asc=%v): got %s want %s", where, start, end, asc, kv.Render(got), kv.Render(want))
	}
	// the same range again with a callback that asks to stop early (after 1 item, and after half of them): exactly that
	// many items are delivered, the first ones in order, and the iteration reports that it was stopped
	for _, stopAfter := range []int{1, 1 + len(want)/2} {
		if stopAfter >= len(want) {
			continue
		}
		var part []kv.Pair
		stopped := t.IterateRange(start, end, asc, func(k, v []byte) bool {
			part = append(part, kv.Pair{K: append([]byte{}, k...), V: append([]byte{}, v...)})
			return len(part) >= stopAfter
		})
		m.c.Label("range-stopped-early")
		if !kv.EqualPairs(part, want[:stopAfter]) || !stopped {
			m.c.Violation("C03/iterate-range/early-stop-delivers-other-items", "%s: IterateRange(%x,%x,asc=%v) with a callback that stops after %d item(s): delivered %s (stopped=%v), want %s",
				where, start, end, asc, stopAfter, kv.Render(part), stopped, kv.Render(want[:stopAfter]))
		}
	}
}

// rootKey returns the split key of the root inner node (= first leaf of its right subtree), nil for leaf/empty roots.
func c03RootKey(t *iavl.ImmutableTree) []byte {
	lines, err := c03Shape(t)
	if err != nil {
		return nil
	}
	for i, l := range lines {
		if l.depth == 0 {
			if l.leaf {
				return nil
			}
			for _, r := range lines[i+1:] {
				if r.leaf {
					return r.id
				}
			}
		}
	}
	return nil
}

func (m *c03Machine) drawKey(rt *rapid.T, preferExisting bool) []byte {
	keys := m.work.SortedKeys()
	if preferExisting && len(keys) > 0 && rapid.IntRange(0, 4).Draw(rt, "existing") > 0 {
		return []byte(rapid.SampledFrom(keys).Draw(rt, "ek"))
	}
	return m.keygen.Draw(rt, "k")
}

func (m *c03Machine) set(k, v []byte) {
	c := m.c
	_, existed := m.work[string(k)]
	var updated bool
	if msg, p := guard(func() { updated = m.tree.Set(k, v) }); p {
		c.Violation("C03/set/panic", "Set(%x,%x) panicked: %s", k, v, msg)
	}
	if updated != existed {
		c.Violation("C03/set/updated-flag-differs-from-model", "Set(%x,%x) returned updated=%v, key existed in model=%v", k, v, updated, existed)
	}
	if m.removed[string(k)] && !existed {
		c.Label("reinsertion")
	}
	m.work[string(k)] = v
	m.dirty = true
}

func (m *c03Machine) openFresh() *iavl.MutableTree {
	t, err := iavl.NewMutableTree(m.db, m.cacheSize)
	if err != nil {
		panic(harnessBug(err.Error()))
	}
	return t
}

func TestC03(t *testing.T) {
	harness.Check(t, "C03",
		"rapid state machine over iavl.MutableTree on MemDB (node cache size 0/8/10000): Set/Remove/SaveVersion, reload of the latest version into a fresh tree, "+
			"rollback the way rootmulti does it (fresh tree, LoadVersion, LoadVersionForOverwriting); two key regimes: 8 fixed keys (remove-everything, "+
			"re-insertion, empty saves) and 1-3 byte keys over 7 symbols with a bulk preload of 10-150 sets (all rotation cases). After EVERY step the "+
			"working tree is compared completely with a map model: Size, Get value+index, Has, GetByIndex for every key, Get/Has of absent probes "+
			"(all removed keys, neighbours), full ascending/descending IterateRange, and the shape rebuilt from RenderShape (AVL balance at every inner node, "+
			"Height, leaf order). Saved versions are compared the same way through GetImmutable, LazyLoadVersion and GetVersioned against per-version "+
			"snapshots, at generated points and all of them at the end; bounded IterateRange with generated [start,end) on working and saved trees. "+
			"non-trivial = history removes an existing key after >=2 saved versions, or saves an empty tree",
		map[string]float64{"remove-existing": 0.6, "remove-all": 0.08, "reinsertion": 0.25, "empty-save": 0.08, "old-version-read-after-mutation": 0.4,
			"large-tree": 0.2, "remove-root-key": 0.2, "rollback": 0.1, "bounded-range": 0.4, "descending": 0.3},
		func(rt *rapid.T, c *harness.Case) {
			m := &c03Machine{c: c, db: dbm.NewMemDB(), work: kv.Model{}, saved: map[int64]kv.Model{}, removed: map[string]bool{}}
			m.cacheSize = rapid.SampledFrom([]int{0, 8, 10000}).Draw(rt, "node-cache")
			c.Opf("node-cache %d", m.cacheSize)
			m.tree = m.openFresh()
			large := rapid.Bool().Draw(rt, "large")
			if large {
				m.keygen = c03LargeKey()
				n := rapid.IntRange(10, 150).Draw(rt, "bulk")
				c.Opf("regime large bulk=%d", n)
				bulk := ""
				for i := 0; i < n; i++ {
					k := m.keygen.Draw(rt, "bk")
					v := []byte{byte(i)}
					bulk += fmt.Sprintf("%x ", k)
					m.set(k, v)
				}
				c.Opf("bulk-set %s", bulk)
			} else {
				m.keygen = rapid.SampledFrom(c03TinyKeys)
				c.Opf("regime tiny")
			}
			removesAfter2Saves := false

			save := func(rt *rapid.T) {
				c.Opf("save (working has %d keys)", len(m.work))
				var hash []byte
				var ver int64
				var err error
				if msg, p := guard(func() { hash, ver, err = m.tree.SaveVersion() }); p {
					c.Violation("C03/save/panic", "SaveVersion after version %d panicked: %s", m.latest, msg)
				}
				_ = hash
				if err != nil {
					c.Violation("C03/save/error", "SaveVersion after version %d: %v", m.latest, err)
				}
				if ver != m.latest+1 {
					c.Violation("C03/save/version-not-consecutive", "SaveVersion returned version %d after %d", ver, m.latest)
				}
				m.latest = ver
				if ver > m.maxEver {
					m.maxEver = ver
				}
				m.saved[ver] = m.work.Clone()
				m.dirty = false
				m.saves++
				if len(m.work) == 0 {
					c.Label("empty-save")
					c.NonTrivial()
				}
			}
			remove := func(rt *rapid.T) {
				k := m.drawKey(rt, true)
				c.Opf("remove %x", k)
				want, existed := m.work[string(k)]
				if existed {
					c.Label("remove-existing")
					if rk := c03RootKey(m.tree.ImmutableTree); rk != nil && bytes.Equal(rk, k) {
						c.Label("remove-root-key")
					}
					if len(m.work) == 1 {
						c.Label("remove-all")
					}
					if m.saves >= 2 {
						removesAfter2Saves = true
						c.NonTrivial()
					}
				}
				var val []byte
				var removed bool
				if msg, p := guard(func() { val, removed = m.tree.Remove(k) }); p {
					c.Violation("C03/remove/panic", "Remove(%x) panicked: %s", k, msg)
				}
				if removed != existed || (existed && !bytes.Equal(val, want)) || (!existed && val != nil) {
					c.Violation("C03/remove/result-differs-from-model", "Remove(%x) = (%x, %v); model: existed=%v value %x", k, val, removed, existed, want)
				}
				if existed {
					delete(m.work, string(k))
					m.removed[string(k)] = true
					m.dirty = true
				}
			}
			setAct := func(rt *rapid.T) {
				k, v := m.drawKey(rt, false), kv.Value().Draw(rt, "v")
				c.Opf("set %x=%x", k, v)
				m.set(k, v)
			}
			checkVersion := func(v int64, how int) {
				model := m.saved[v]
				if v < m.latest || m.dirty {
					c.Label("old-version-read-after-mutation")
				}
				switch how {
				case 0:
					var it *iavl.ImmutableTree
					var err error
					if msg, p := guard(func() { it, err = m.tree.GetImmutable(v) }); p {
						c.Violation("C03/read/panic", "GetImmutable(%d) panicked: %s", v, msg)
						return
					}
					if err != nil {
						c.Violation("C03/get-immutable/error-for-retained-version", "GetImmutable(%d): %v (retained %v)", v, err, m.retained())
						return
					}
					m.checkTree(it, model, fmt.Sprintf("GetImmutable(%d) [latest %d]", v, m.latest))
				case 1:
					var lt *iavl.MutableTree
					var err error
					if msg, p := guard(func() { lt, err = m.tree.LazyLoadVersion(v) }); p {
						c.Violation("C03/read/panic", "LazyLoadVersion(%d) panicked: %s", v, msg)
						return
					}
					if err != nil || lt == nil {
						c.Violation("C03/lazy-load/error-for-retained-version", "LazyLoadVersion(%d): tree=%v err=%v (retained %v)", v, lt != nil, err, m.retained())
						return
					}
					m.checkTree(lt.ImmutableTree, model, fmt.Sprintf("LazyLoadVersion(%d) [latest %d]", v, m.latest))
				}
				// GetVersioned for every key of that version and for the absent probes
				keys := model.SortedKeys()
				msg, p := guard(func() {
					for i, k := range keys {
						idx, val := m.tree.GetVersioned([]byte(k), v)
						if idx != int64(i) || val == nil || !bytes.Equal(val, model[k]) {
							c.Violation("C03/get-versioned/differs-from-model", "GetVersioned(%x,%d) = (%d,%x), model (%d,%x)", k, v, idx, val, i, model[k])
						}
					}
					for _, pk := range m.probes(model) {
						if _, ok := model[string(pk)]; ok {
							continue
						}
						if _, val := m.tree.GetVersioned(pk, v); val != nil {
							c.Violation("C03/get-versioned/value-for-absent-key", "GetVersioned(%x,%d) = %x, absent in model of that version", pk, v, val)
						}
					}
				})
				if p {
					c.Violation("C03/read/panic", "GetVersioned(.., %d) panicked: %s", v, msg)
				}
			}
			checkExists := func() {
				for v := int64(1); v <= m.maxEver+1; v++ {
					_, want := m.saved[v]
					if got := m.tree.VersionExists(v); got != want {
						c.Violation("C03/version-exists/differs-from-model", "VersionExists(%d)=%v, model retained=%v (retained %v)", v, got, want, m.retained())
					}
				}
			}

			rt.Repeat(map[string]func(*rapid.T){
				"set":     setAct,
				"set2":    setAct,
				"remove":  remove,
				"remove2": remove,
				"remove3": remove,
				"save":    save,
				"save2":   save,
				"readOld": func(rt *rapid.T) {
					vs := m.retained()
					if len(vs) == 0 {
						rt.Skip("nothing saved")
					}
					v := rapid.SampledFrom(vs).Draw(rt, "ver")
					how := rapid.IntRange(0, 1).Draw(rt, "how")
					c.Opf("readOld v%d how=%d", v, how)
					checkVersion(v, how)
				},
				"range": func(rt *rapid.T) {
					b := kv.Bounds(m.keygen).Draw(rt, "bounds")
					asc := rapid.Bool().Draw(rt, "asc")
					vs := m.retained()
					var v int64
					if len(vs) > 0 && rapid.Bool().Draw(rt, "onSaved") {
						v = rapid.SampledFrom(vs).Draw(rt, "ver")
					}
					c.Opf("range v%d [%x,%x) asc=%v", v, b[0], b[1], asc)
					if b[0] != nil || b[1] != nil {
						c.Label("bounded-range")
					}
					if !asc {
						c.Label("descending")
					}
					if v == 0 {
						if msg, p := guard(func() { m.checkRange(m.tree.ImmutableTree, m.work, b[0], b[1], asc, "working tree") }); p {
							c.Violation("C03/read/panic", "IterateRange on the working tree panicked: %s", msg)
						}
						return
					}
					if v < m.latest || m.dirty {
						c.Label("old-version-read-after-mutation")
					}
					msg, p := guard(func() {
						it, err := m.tree.GetImmutable(v)
						if err != nil {
							c.Violation("C03/get-immutable/error-for-retained-version", "GetImmutable(%d): %v", v, err)
							return
						}
						m.checkRange(it, m.saved[v], b[0], b[1], asc, fmt.Sprintf("GetImmutable(%d)", v))
					})
					if p {
						c.Violation("C03/read/panic", "IterateRange on version %d panicked: %s", v, msg)
					}
				},
				"reload": func(rt *rapid.T) {
					if m.latest == 0 {
						rt.Skip("nothing saved")
					}
					c.Opf("reload latest (v%d) into a fresh tree", m.latest)
					c.Label("reload")
					nt := m.openFresh()
					var got int64
					var err error
					if msg, p := guard(func() { got, err = nt.LoadVersion(m.latest) }); p {
						c.Violation("C03/load/panic", "LoadVersion(%d) panicked: %s", m.latest, msg)
					}
					if err != nil || got != m.latest {
						c.Violation("C03/load/latest-version-not-loaded", "LoadVersion(%d) = (%d, %v)", m.latest, got, err)
					}
					m.tree = nt
					m.work = m.saved[m.latest].Clone()
					m.dirty = false
				},
				"rollback": func(rt *rapid.T) {
					vs := m.retained()
					if len(vs) < 2 {
						rt.Skip("need two versions")
					}
					target := rapid.SampledFrom(vs[:len(vs)-1]).Draw(rt, "target")
					c.Opf("rollback to v%d (latest v%d)", target, m.latest)
					c.Label("rollback")
					nt := m.openFresh()
					var err error
					msg, p := guard(func() {
						if _, err = nt.LoadVersion(m.latest); err != nil {
							return
						}
						_, err = nt.LoadVersionForOverwriting(target)
					})
					if p {
						c.Violation("C03/rollback/panic", "LoadVersionForOverwriting(%d) from %d panicked: %s", target, m.latest, msg)
					}
					if err != nil {
						c.Violation("C03/rollback/error", "LoadVersionForOverwriting(%d) from %d: %v", target, m.latest, err)
					}
					for v := range m.saved {
						if v > target {
							delete(m.saved, v)
						}
					}
					m.tree = nt
					m.latest = target
					m.work = m.saved[target].Clone()
					m.dirty = false
					m.rolledBack = true
					if nt.Version() != target {
						c.Violation("C03/rollback/version-differs", "after rollback Version()=%d want %d", nt.Version(), target)
					}
				},
				"deleteVersion": func(rt *rapid.T) {
					// pruning of one retained version that is not the latest (MutableTree.DeleteVersion, the tree's public
					// pruning API): every other retained version and the working tree must stay exactly what they were
					vs := m.retained()
					if len(vs) < 2 {
						rt.Skip("need two versions")
					}
					v := rapid.SampledFrom(vs[:len(vs)-1]).Draw(rt, "ver")
					c.Opf("deleteVersion v%d (retained %v)", v, vs)
					c.Label("delete-version")
					if m.rolledBack {
						c.Label("delete-version-after-rollback")
					}
					var err error
					if msg, p := guard(func() { err = m.tree.DeleteVersion(v) }); p {
						c.Violation("C03/delete-version/panic", "DeleteVersion(%d) panicked: %s", v, msg)
					}
					if err != nil {
						c.Violation("C03/delete-version/error-for-retained-version", "DeleteVersion(%d) with retained %v, latest %d: %v", v, vs, m.latest, err)
					}
					delete(m.saved, v)
					// read a neighbour right away (the nodes the deleted version shared with it must survive)
					if rest := m.retained(); len(rest) > 0 {
						checkVersion(rest[rapid.IntRange(0, len(rest)-1).Draw(rt, "neighbour")], 0)
					}
				},
				"": func(rt *rapid.T) {
					if len(m.work) >= 32 {
						c.Label("large-tree")
					}
					m.checkTree(m.tree.ImmutableTree, m.work, fmt.Sprintf("working tree [latest %d]", m.latest))
					checkExists()
				},
			})
			// end of history: every retained version is still exactly its snapshot
			c.Opf("final: read all retained versions %v", m.retained())
			for _, v := range m.retained() {
				checkVersion(v, int(v%2))
			}
			_ = removesAfter2Saves
		})
}
