package storea

import (
	"bytes"
	"fmt"
	"sort"
	"testing"

	"github.com/pokt-network/pocket-core/store/iavl"
	"github.com/pokt-network/pocket-core/store/rootmulti"
	stypes "github.com/pokt-network/pocket-core/store/types"
	abci "github.com/tendermint/tendermint/abci/types"
	"github.com/tendermint/tendermint/crypto/merkle"
	"github.com/tendermint/tendermint/crypto/tmhash"
	dbm "github.com/tendermint/tm-db"
	"pgregory.net/rapid"

	"verif/harness"
	"verif/harness/kv"
)

// C05: existence / absence proofs returned by rootmulti.Store.Query(Prove=true) are complete (they verify
// against the commit hash the harness recorded) and sound (any single semantic alteration is rejected).

type c05Sub struct {
	name   string
	key    *stypes.KVStoreKey
	work   kv.Model
	models map[int64]kv.Model
}

type c05World struct {
	c      *harness.Case
	rs     *rootmulti.Store
	subs   []*c05Sub
	roots  map[int64][]byte
	latest int64
	prt    *merkle.ProofRuntime
	fuzz   func(nops int) (which, pos, bit int) // thorough tier: draws a byte-flip position
}

func c05KeyPath(store string, key []byte) string {
	return merkle.KeyPath{}.AppendKey([]byte(store), merkle.KeyEncodingURL).AppendKey(key, merkle.KeyEncodingHex).String()
}

// verify runs the real proof runtime; a panic of the verifier counts as "rejected" (it did not accept).
func (w *c05World) verify(ops []merkle.ProofOp, root []byte, keypath string, value []byte, absence bool) (err error) {
	msg, panicked := guard(func() {
		p := &merkle.Proof{Ops: ops}
		if absence {
			err = w.prt.VerifyAbsence(p, root, keypath)
		} else {
			err = w.prt.VerifyValue(p, root, keypath, value)
		}
	})
	if panicked {
		w.c.AddExtra("verifier_panics_counted_as_rejection", 1)
		w.c.Extra("verifier_panic_sample", msg)
		return fmt.Errorf("verifier panicked: %s", msg)
	}
	return err
}

func c05Flip(b []byte) []byte {
	out := append([]byte{}, b...)
	if len(out) == 0 {
		return []byte{0x01}
	}
	out[len(out)/2] ^= 0x40
	return out
}

// decodeIAVL decodes the first proof op into (fresh) exported IAVL proof structures.
func c05DecodeIAVL(pop merkle.ProofOp) (proof *iavl.RangeProof, isValue bool) {
	switch pop.Type {
	case iavl.ProofOpIAVLValue:
		op, err := iavl.ValueOpDecoder(pop)
		if err != nil {
			panic(harnessBug("decoding an honest value op: " + err.Error()))
		}
		return op.(iavl.ValueOp).Proof, true
	case iavl.ProofOpIAVLAbsence:
		op, err := iavl.AbsenceOpDecoder(pop)
		if err != nil {
			panic(harnessBug("decoding an honest absence op: " + err.Error()))
		}
		return op.(iavl.AbsenceOp).Proof, false
	}
	panic(harnessBug("unexpected first proof op type " + pop.Type))
}

func c05EncodeIAVL(key []byte, proof *iavl.RangeProof, asValue bool) merkle.ProofOp {
	if asValue {
		return iavl.NewValueOp(key, proof).ProofOp()
	}
	return iavl.NewAbsenceOp(key, proof).ProofOp()
}

func c05DecodeMulti(pop merkle.ProofOp) *rootmulti.MultiStoreProofOp {
	op, err := rootmulti.MultiStoreProofOpDecoder(pop)
	if err != nil {
		panic(harnessBug("decoding an honest multistore op: " + err.Error()))
	}
	return op.(*rootmulti.MultiStoreProofOp)
}

// path addressing inside a RangeProof: which == -1 is LeftPath, otherwise InnerNodes[which]
func c05Path(p *iavl.RangeProof, which int) *iavl.PathToLeaf {
	if which < 0 {
		return &p.LeftPath
	}
	return &p.InnerNodes[which]
}

type c05Mutation struct {
	kind  string // goes into the signature
	desc  string
	apply func(p *iavl.RangeProof)
}

// c05IAVLMutations enumerates every single-field alteration of the decoded IAVL range proof. Every one of them
// changes the semantic content of exactly one field / one structural element.
func c05IAVLMutations(p *iavl.RangeProof) []c05Mutation {
	var ms []c05Mutation
	if p == nil {
		return nil
	}
	for i := range p.Leaves {
		i := i
		ms = append(ms,
			c05Mutation{"leaf-key", fmt.Sprintf("leaf[%d].Key last byte changed", i), func(q *iavl.RangeProof) {
				k := append([]byte{}, q.Leaves[i].Key...)
				k[len(k)-1] ^= 0x01
				q.Leaves[i].Key = k
			}},
			c05Mutation{"leaf-key", fmt.Sprintf("leaf[%d].Key extended by 00", i), func(q *iavl.RangeProof) {
				q.Leaves[i].Key = append(append([]byte{}, q.Leaves[i].Key...), 0x00)
			}},
			c05Mutation{"leaf-value-hash", fmt.Sprintf("leaf[%d].ValueHash bit flipped", i), func(q *iavl.RangeProof) {
				q.Leaves[i].ValueHash = c05Flip(q.Leaves[i].ValueHash)
			}},
			c05Mutation{"leaf-version", fmt.Sprintf("leaf[%d].Version+1", i), func(q *iavl.RangeProof) { q.Leaves[i].Version++ }},
		)
	}
	if len(p.Leaves) == 2 {
		ms = append(ms,
			c05Mutation{"leaves-swapped", "the two leaves swapped", func(q *iavl.RangeProof) { q.Leaves[0], q.Leaves[1] = q.Leaves[1], q.Leaves[0] }},
			c05Mutation{"leaf-dropped", "second leaf dropped (inner path kept)", func(q *iavl.RangeProof) { q.Leaves = q.Leaves[:1] }},
			// NOT generated: dropping the second leaf TOGETHER with its inner path yields another honest (shorter) range
			// proof, which legitimately still proves absence of keys below the first leaf.
			c05Mutation{"leaf-dropped", "first leaf dropped", func(q *iavl.RangeProof) { q.Leaves = q.Leaves[1:] }},
		)
	}
	for which := -1; which < len(p.InnerNodes); which++ {
		which := which
		path := *c05Path(p, which)
		pname := "LeftPath"
		if which >= 0 {
			pname = fmt.Sprintf("InnerNodes[%d]", which)
		}
		for j := range path {
			j := j
			at := fmt.Sprintf("%s[%d]", pname, j)
			ms = append(ms,
				c05Mutation{"inner-height", at + ".Height+1", func(q *iavl.RangeProof) { (*c05Path(q, which))[j].Height++ }},
				c05Mutation{"inner-size", at + ".Size+1", func(q *iavl.RangeProof) { (*c05Path(q, which))[j].Size++ }},
				c05Mutation{"inner-version", at + ".Version+1", func(q *iavl.RangeProof) { (*c05Path(q, which))[j].Version++ }},
				c05Mutation{"path-node-dropped", at + " dropped", func(q *iavl.RangeProof) {
					pp := c05Path(q, which)
					*pp = append(append(iavl.PathToLeaf{}, (*pp)[:j]...), (*pp)[j+1:]...)
				}},
				c05Mutation{"path-node-duplicated", at + " duplicated", func(q *iavl.RangeProof) {
					pp := c05Path(q, which)
					n := append(iavl.PathToLeaf{}, (*pp)[:j+1]...)
					*pp = append(n, (*pp)[j:]...)
				}},
			)
			if len(path[j].Left) > 0 {
				ms = append(ms, c05Mutation{"inner-left-hash", at + ".Left bit flipped", func(q *iavl.RangeProof) {
					n := &(*c05Path(q, which))[j]
					n.Left = c05Flip(n.Left)
				}})
				if len(path[j].Right) == 0 {
					ms = append(ms, c05Mutation{"inner-second-child-hash-added", at + ".Right set (node already has Left)", func(q *iavl.RangeProof) {
						(*c05Path(q, which))[j].Right = tmhash.Sum([]byte("C05 foreign subtree"))
					}})
				}
			}
			if len(path[j].Right) > 0 {
				ms = append(ms, c05Mutation{"inner-right-hash", at + ".Right bit flipped", func(q *iavl.RangeProof) {
					n := &(*c05Path(q, which))[j]
					n.Right = c05Flip(n.Right)
				}})
				if len(path[j].Left) == 0 {
					ms = append(ms, c05Mutation{"inner-second-child-hash-added", at + ".Left set (node already has Right)", func(q *iavl.RangeProof) {
						(*c05Path(q, which))[j].Left = tmhash.Sum([]byte("C05 foreign subtree"))
					}})
				}
			}
		}
	}
	return ms
}

type c05Query struct {
	sub    *c05Sub
	ver    int64
	key    []byte
	value  []byte // nil when absent
	class  string
	leaves int
}

// classify an absent key by its position among the sorted keys of the model
func c05AbsentClass(model kv.Model, key []byte) string {
	keys := model.SortedKeys()
	if len(keys) == 0 {
		return "absent-empty-store"
	}
	r := sort.SearchStrings(keys, string(key))
	switch {
	case r == 0:
		return "absent-before-first"
	case r == len(keys):
		return "absent-after-last"
	}
	return "absent-between"
}

// c05QueryKeys: every present key plus absent keys before the first, after the last, between neighbours,
// proper prefixes and extensions of present keys.
func c05QueryKeys(model kv.Model, extra [][]byte) [][]byte {
	seen := map[string]bool{}
	var out [][]byte
	add := func(k []byte) {
		if len(k) == 0 || seen[string(k)] {
			return
		}
		seen[string(k)] = true
		out = append(out, append([]byte{}, k...))
	}
	for _, ks := range model.SortedKeys() {
		k := []byte(ks)
		add(k)
		add(append(append([]byte{}, k...), 0x00)) // immediate successor: extension
		add(append(append([]byte{}, k...), 'b'))
		add(k[:len(k)-1]) // proper prefix (sorts before k)
		if k[len(k)-1] > 0 {
			d := append([]byte{}, k...)
			d[len(d)-1]--
			add(append(d, 0xfe)) // just below k
		}
	}
	for _, k := range extra {
		add(k)
	}
	sort.Slice(out, func(i, j int) bool { return bytes.Compare(out[i], out[j]) < 0 })
	return out
}

// c05NumIncr: the key read as a fixed-length big-endian number, plus one (what the range-proof code uses as
// "next key"). Used ONLY to give recognised root causes a narrow signature, never as an oracle.
func c05NumIncr(k []byte) []byte {
	out := append([]byte{}, k...)
	for i := len(out) - 1; i >= 0; i-- {
		if out[i] < 0xff {
			out[i]++
			return out
		}
		out[i] = 0
	}
	return append(out, 0)
}

func c05AllFF(k []byte) bool {
	for _, b := range k {
		if b != 0xff {
			return false
		}
	}
	return len(k) > 0
}

// query runs the real multistore query with proof and checks completeness. It returns the proof ops (nil
// when nothing further can be checked on this query).
func (w *c05World) query(q *c05Query, height int64) (ops []merkle.ProofOp, root []byte, ok bool) {
	c := w.c
	model := q.sub.models[q.ver]
	want, present := model[string(q.key)]
	var res abci.ResponseQuery
	msg, panicked := guard(func() {
		res = w.rs.Query(abci.RequestQuery{Path: "/" + q.sub.name + "/key", Data: q.key, Prove: true, Height: height})
	})
	c.AddExtra("proof_queries", 1)
	if panicked {
		sig := "C05/query/panic"
		if c05AllFF(q.key) {
			sig = "C05/query/panic-on-all-ff-key"
		}
		c.Violation(sig, "Query(/%s/key, key=%x, height=%d, prove) panicked instead of returning a proof: %s", q.sub.name, q.key, height, msg)
		return nil, nil, false
	}
	if res.Code != 0 {
		c.Violation("C05/query/error-response", "Query(/%s/key, key=%x, height=%d, prove): code %d log %q", q.sub.name, q.key, height, res.Code, res.Log)
		return nil, nil, false
	}
	if res.Height != q.ver {
		c.Violation("C05/query/height-differs", "Query(/%s/key, key=%x, height=%d): response height %d, expected %d", q.sub.name, q.key, height, res.Height, q.ver)
		return nil, nil, false
	}
	if present != (res.Value != nil) || !bytes.Equal(res.Value, want) {
		if c.Violation("C05/query/value-differs-from-model", "Query(/%s/key, key=%x, height=%d): value %x (nil=%v), model %x (present=%v)",
			q.sub.name, q.key, height, res.Value, res.Value == nil, want, present) {
			return nil, nil, false
		}
	}
	if res.Proof == nil || len(res.Proof.Ops) != 2 {
		c.Violation("C05/query/proof-missing", "Query(/%s/key, key=%x, height=%d): proof %v", q.sub.name, q.key, height, res.Proof)
		return nil, nil, false
	}
	root = w.roots[q.ver]
	kp := c05KeyPath(q.sub.name, q.key)
	if err := w.verify(res.Proof.Ops, root, kp, want, !present); err != nil {
		sig := "C05/complete/existence-proof-rejected"
		if !present {
			sig = "C05/complete/absence-proof-rejected"
			// narrow signatures for the two recognised causes (see report): the leaf the range proof starts from
			// (predecessor of the key, or the first leaf) is all-0xFF / is a proper prefix of the queried key
			keys := model.SortedKeys()
			if len(keys) > 0 {
				r := sort.SearchStrings(keys, string(q.key))
				left := []byte(keys[0])
				if r > 0 {
					left = []byte(keys[r-1])
				}
				next := -1 // index of the leaf after `left`
				if r > 0 {
					next = r
				} else {
					next = 1
				}
				switch {
				case c05AllFF(left):
					sig = "C05/complete/absence-proof-rejected-left-leaf-all-ff"
				case r > 0 && r < len(keys) && bytes.Compare(c05NumIncr(left), c05NumIncr(q.key)) >= 0:
					sig = "C05/complete/absence-proof-rejected-key-below-numeric-increment-of-predecessor-leaf"
				case next < len(keys) && bytes.Compare([]byte(keys[next]), c05NumIncr(left)) < 0:
					sig = "C05/complete/absence-proof-rejected-next-leaf-below-numeric-increment-of-left-leaf"
				}
			}
		}
		c.Violation(sig, "store %s v%d (%d keys) key %x (%s): honest proof does not verify against the recorded commit hash %x: %v",
			q.sub.name, q.ver, len(model), q.key, q.class, root, err)
		return nil, nil, false
	}
	c.AddExtra("honest_proofs_verified", 1)
	return res.Proof.Ops, root, true
}

// mustReject applies one alteration; sig gets the finding signature when the altered input still verifies.
func (w *c05World) mustReject(q *c05Query, sig, desc string, ops []merkle.ProofOp, root []byte, keypath string, value []byte, absence bool) {
	w.c.AddExtra("alterations_checked", 1)
	if err := w.verify(ops, root, keypath, value, absence); err == nil {
		w.c.Violation(sig, "store %s v%d key %x (%s, %d leaves in proof): verification still SUCCEEDS after alteration: %s",
			q.sub.name, q.ver, q.key, q.class, q.leaves, desc)
	}
}

// soundness runs the whole alteration battery on one honest proof.
func (w *c05World) soundness(q *c05Query, ops []merkle.ProofOp, root []byte) {
	c := w.c
	model := q.sub.models[q.ver]
	present := q.value != nil
	kp := c05KeyPath(q.sub.name, q.key)
	honest, isValue := c05DecodeIAVL(ops[0])
	if isValue != present {
		c.Violation("C05/query/proof-type-differs", "key %x present=%v but proof op type %s", q.key, present, ops[0].Type)
		return
	}
	if honest != nil {
		q.leaves = len(honest.Leaves)
	}
	// guard of the harness itself: decode + re-encode without a change must still verify
	{
		p, _ := c05DecodeIAVL(ops[0])
		ms := c05DecodeMulti(ops[1])
		re := []merkle.ProofOp{c05EncodeIAVL(q.key, p, present), ms.ProofOp()}
		if err := w.verify(re, root, kp, q.value, !present); err != nil {
			panic(harnessBug(fmt.Sprintf("identity re-encoding of an honest proof does not verify: %v", err)))
		}
	}

	// 1. single-field alterations of the IAVL range proof
	for _, mu := range c05IAVLMutations(honest) {
		p, _ := c05DecodeIAVL(ops[0])
		mu.apply(p)
		alt := []merkle.ProofOp{c05EncodeIAVL(q.key, p, present), ops[1]}
		w.mustReject(q, "C05/mutate/"+mu.kind+"-accepted", mu.desc, alt, root, kp, q.value, !present)
		c.Label("mutated:" + mu.kind)
	}

	// 2. multistore op alterations
	{
		base := c05DecodeMulti(ops[1])
		for i := range base.Proof.StoreInfos {
			name := base.Proof.StoreInfos[i].Name
			ms := c05DecodeMulti(ops[1])
			ms.Proof.StoreInfos[i].Core.CommitID.Hash = c05Flip(ms.Proof.StoreInfos[i].Core.CommitID.Hash)
			w.mustReject(q, "C05/mutate/store-info-hash-accepted", "commit hash of store info "+name+" altered",
				[]merkle.ProofOp{ops[0], ms.ProofOp()}, root, kp, q.value, !present)
			ms = c05DecodeMulti(ops[1])
			ms.Proof.StoreInfos[i].Name = name + "x"
			w.mustReject(q, "C05/mutate/store-info-name-accepted", "store info "+name+" renamed",
				[]merkle.ProofOp{ops[0], ms.ProofOp()}, root, kp, q.value, !present)
			ms = c05DecodeMulti(ops[1])
			ms.Proof.StoreInfos = append(append([]rootmulti.StoreInfo{}, ms.Proof.StoreInfos[:i]...), ms.Proof.StoreInfos[i+1:]...)
			w.mustReject(q, "C05/mutate/store-info-dropped-accepted", "store info "+name+" dropped",
				[]merkle.ProofOp{ops[0], ms.ProofOp()}, root, kp, q.value, !present)
		}
		// the same proof offered for ANOTHER store (op key and key path changed together); only meaningful when
		// that store's committed content differs
		for _, other := range w.subs {
			if other == q.sub || kv.EqualPairs(other.models[q.ver].Range(nil, nil, false), model.Range(nil, nil, false)) {
				continue
			}
			ms := c05DecodeMulti(ops[1])
			ms.Key = []byte(other.name)
			w.mustReject(q, "C05/mutate/store-name-not-bound", "proof replayed for store "+other.name,
				[]merkle.ProofOp{ops[0], ms.ProofOp()}, root, c05KeyPath(other.name, q.key), q.value, !present)
			c.Label("mutated:store-name")
		}
		w.mustReject(q, "C05/mutate/multistore-op-dropped-accepted", "multistore op removed", []merkle.ProofOp{ops[0]}, root, kp, q.value, !present)
		w.mustReject(q, "C05/mutate/ops-swapped-accepted", "ops swapped", []merkle.ProofOp{ops[1], ops[0]}, root, kp, q.value, !present)
	}

	// 3. unchanged proof, altered statement: root, key, value, kind of proof
	w.mustReject(q, "C05/alter/root-accepted", "root hash bit flipped", ops, c05Flip(root), kp, q.value, !present)
	for v := int64(1); v <= w.latest; v++ {
		r := w.roots[v]
		if v != q.ver && !bytes.Equal(r, root) {
			w.mustReject(q, "C05/alter/root-of-other-version-accepted", fmt.Sprintf("verified against the commit hash of v%d", v), ops, r, kp, q.value, !present)
		}
	}
	if present {
		w.mustReject(q, "C05/alter/value-accepted", "value extended by 00", ops, root, kp, append(append([]byte{}, q.value...), 0x00), false)
		if len(q.value) > 0 {
			w.mustReject(q, "C05/alter/value-accepted", "value bit flipped", ops, root, kp, c05Flip(q.value), false)
			w.mustReject(q, "C05/alter/value-accepted", "value replaced by the empty value", ops, root, kp, []byte{}, false)
		}
		// existence proof offered as an absence proof for the same key
		p, _ := c05DecodeIAVL(ops[0])
		w.mustReject(q, "C05/alter/existence-proof-accepted-as-absence", "value proof re-wrapped as absence op",
			[]merkle.ProofOp{c05EncodeIAVL(q.key, p, false), ops[1]}, root, kp, nil, true)
		w.mustReject(q, "C05/alter/existence-proof-accepted-as-absence", "VerifyAbsence called on the value proof", ops, root, kp, nil, true)
	} else {
		p, _ := c05DecodeIAVL(ops[0])
		for _, v := range [][]byte{{}, {0x01}} {
			w.mustReject(q, "C05/alter/absence-proof-accepted-as-existence", fmt.Sprintf("absence proof re-wrapped as value op for value %x", v),
				[]merkle.ProofOp{c05EncodeIAVL(q.key, p, true), ops[1]}, root, kp, v, false)
			p, _ = c05DecodeIAVL(ops[0])
		}
		w.mustReject(q, "C05/alter/absence-proof-accepted-as-existence", "VerifyValue called on the absence proof", ops, root, kp, []byte{}, false)
	}
	// the proof offered for a different key (op key and key path changed together)
	for _, ks := range model.SortedKeys() {
		other := []byte(ks)
		if bytes.Equal(other, q.key) {
			continue
		}
		p, _ := c05DecodeIAVL(ops[0])
		if present {
			// existence of q.key=value replayed as existence of other=value(q) and other=value(other)
			for _, v := range [][]byte{q.value, model[ks]} {
				w.mustReject(q, "C05/alter/existence-proof-accepted-for-other-key", fmt.Sprintf("replayed for present key %x value %x", other, v),
					[]merkle.ProofOp{c05EncodeIAVL(other, p, true), ops[1]}, root, c05KeyPath(q.sub.name, other), v, false)
				p, _ = c05DecodeIAVL(ops[0])
			}
		} else {
			// absence proof of q.key replayed to "prove" that a PRESENT key is absent
			w.mustReject(q, "C05/alter/absence-proof-accepted-for-present-key", fmt.Sprintf("replayed for present key %x", other),
				[]merkle.ProofOp{c05EncodeIAVL(other, p, false), ops[1]}, root, c05KeyPath(q.sub.name, other), nil, true)
		}
	}
	// key path altered, op untouched
	w.mustReject(q, "C05/alter/key-path-accepted", "key path names key+00", ops, root, c05KeyPath(q.sub.name, append(append([]byte{}, q.key...), 0x00)), q.value, !present)

	// 3b. thorough tier only: raw byte flips of the encoded ops. A flipped byte may be non-semantic, so the oracle
	// is: if the flipped proof still verifies, its decoded-and-re-encoded content must equal the honest one.
	if harness.Thorough() && w.fuzz != nil {
		for n := 0; n < 24; n++ {
			which, pos, bit := w.fuzz(len(ops))
			alt := []merkle.ProofOp{ops[0], ops[1]}
			data := append([]byte{}, alt[which].Data...)
			if len(data) == 0 {
				continue
			}
			data[pos%len(data)] ^= 1 << (bit % 8)
			alt[which].Data = data
			c.AddExtra("byte_flips_checked", 1)
			if w.verify(alt, root, kp, q.value, !present) != nil {
				continue
			}
			same := false
			_, _ = guard(func() {
				if which == 0 {
					p, isV := c05DecodeIAVL(alt[0])
					hp, _ := c05DecodeIAVL(ops[0])
					same = isV == present && bytes.Equal(c05EncodeIAVL(q.key, p, present).Data, c05EncodeIAVL(q.key, hp, present).Data)
				} else {
					// the substore CommitID.Version is not hashed by design: compare names and hashes only
					a, b := c05DecodeMulti(alt[1]), c05DecodeMulti(ops[1])
					same = len(a.Proof.StoreInfos) == len(b.Proof.StoreInfos)
					for i := 0; same && i < len(a.Proof.StoreInfos); i++ {
						same = a.Proof.StoreInfos[i].Name == b.Proof.StoreInfos[i].Name &&
							bytes.Equal(a.Proof.StoreInfos[i].Core.CommitID.Hash, b.Proof.StoreInfos[i].Core.CommitID.Hash)
					}
				}
			})
			if !same {
				c.Violation("C05/fuzz/byte-flip-accepted-with-different-content",
					"store %s v%d key %x: op #%d data byte %d bit %d flipped, proof still verifies but decodes to different content", q.sub.name, q.ver, q.key, which, pos%len(data), bit%8)
			}
		}
	}

	// 4. adversarial constructions built on the "second child hash" alteration (several fields at once): a forged
	// leaf hung under an inner node of the honest left path that already has its Left hash set
	if honest != nil && len(honest.Leaves) == 1 && present {
		w.forge(q, ops, root)
	}
}

// forge: from the honest existence proof of q.key, try to "prove" (a) a pair that is not stored and (b) absence
// of a stored key, by adding a Right hash to a right-descending inner node and a forged leaf below it.
func (w *c05World) forge(q *c05Query, ops []merkle.ProofOp, root []byte) {
	model := q.sub.models[q.ver]
	honest, _ := c05DecodeIAVL(ops[0])
	// the deepest node of the left path must be right-descending (Left set, Right empty)
	n := len(honest.LeftPath)
	if n == 0 || len(honest.LeftPath[n-1].Left) == 0 || len(honest.LeftPath[n-1].Right) != 0 {
		return
	}
	w.c.Label("forge-attempted")
	// (a) existence of an unstored pair: key greater than q.key, not in the model
	forgedKey := append(append([]byte{}, q.key...), 0x7f, 0x7f)
	forgedValue := []byte("forged")
	if _, exists := model[string(forgedKey)]; !exists {
		p, _ := c05DecodeIAVL(ops[0])
		leaf := iavl.ProofLeafNode{Key: forgedKey, ValueHash: tmhash.Sum(forgedValue), Version: 1}
		p.LeftPath[n-1].Right = leaf.Hash()
		p.Leaves = append(p.Leaves, leaf)
		p.InnerNodes = []iavl.PathToLeaf{{}}
		alt := []merkle.ProofOp{c05EncodeIAVL(forgedKey, p, true), ops[1]}
		w.mustReject(q, "C05/forge/existence-of-unstored-pair-accepted",
			fmt.Sprintf("forged leaf %x=%q hung under LeftPath[%d] (Right hash added to a node that already has Left); verified as existence of that pair", forgedKey, forgedValue, n-1),
			alt, root, c05KeyPath(q.sub.name, forgedKey), forgedValue, false)
	}
	// (b) absence of a stored key: the successor of q.key in the model
	keys := model.SortedKeys()
	i := sort.SearchStrings(keys, string(q.key))
	if i+1 < len(keys) {
		victim := []byte(keys[i+1])
		beyond := append(append([]byte{}, victim...), 0x7f)
		p, _ := c05DecodeIAVL(ops[0])
		leaf := iavl.ProofLeafNode{Key: beyond, ValueHash: tmhash.Sum([]byte("x")), Version: 1}
		p.LeftPath[n-1].Right = leaf.Hash()
		p.Leaves = append(p.Leaves, leaf)
		p.InnerNodes = []iavl.PathToLeaf{{}}
		alt := []merkle.ProofOp{c05EncodeIAVL(victim, p, false), ops[1]}
		w.mustReject(q, "C05/forge/absence-of-stored-key-accepted",
			fmt.Sprintf("forged leaf %x hung under LeftPath[%d]; verified as absence of the stored key %x", beyond, n-1, victim),
			alt, root, c05KeyPath(q.sub.name, victim), nil, true)
	}
}

func TestC05(t *testing.T) {
	harness.Check(t, "C05",
		"rootmulti.Store on MemDB with 1-3 IAVL substores; 2-5 committed blocks (first block bulk of 0..40 keys per store, later blocks sets / "+
			"overwrites / deletes; keys 1-3 bytes over {a,b,c,00,fe} - in ~15% of the cases also ff); the harness records CommitID.Hash per version and a map "+
			"snapshot per store and version. Completeness: for one drawn (version >= 2, store) EVERY present key and every derived absent key (before first, "+
			"after last, between neighbours, proper prefixes, extensions) and a sample for all other (version, store) pairs is queried through "+
			"rootmulti.Store.Query(/<store>/key, Prove, Height): value must equal the snapshot and DefaultProofRuntime VerifyValue / VerifyAbsence must "+
			"succeed against the recorded commit hash. Soundness: for 2 present and 2 absent drawn queries the proof ops are decoded with the exported IAVL / rootmulti "+
			"types and EVERY single-field alteration (each leaf key / value hash / version; each inner node height / size / version / left / right hash / "+
			"added second child hash; dropped / duplicated path node; dropped / swapped leaf; each store info hash / name / dropped; store name; dropped / "+
			"swapped op) is re-encoded and must be rejected, as must the unchanged proof with altered root / other version's root / value / key / key path, "+
			"existence offered as absence and vice versa, an absence proof replayed for every present key, and two forged proofs built from the "+
			"second-child alteration. non-trivial = examined tree has >=3 leaves and a verified absent key strictly between two leaves or outside both ends",
		map[string]float64{"absent-between": 0.5, "absent-before-first": 0.5, "absent-after-last": 0.5, "present": 0.7, "absent-empty-store": 0.05,
			"single-key-store": 0.1, "two-leaf-absence-proof": 0.4, "ff-keys": 0.05, "forge-attempted": 0.25},
		func(rt *rapid.T, c *harness.Case) {
			w := &c05World{c: c, roots: map[int64][]byte{}, prt: rootmulti.DefaultProofRuntime()}
			db := dbm.NewMemDB()
			w.rs = rootmulti.NewStore(db, false, 1000)
			nStores := rapid.IntRange(1, 3).Draw(rt, "stores")
			names := []string{"acc", "pos", "application"}
			for i := 0; i < nStores; i++ {
				s := &c05Sub{name: names[i], key: stypes.NewKVStoreKey(names[i]), work: kv.Model{}, models: map[int64]kv.Model{}}
				w.subs = append(w.subs, s)
				w.rs.MountStoreWithDB(s.key, stypes.StoreTypeIAVL, nil)
			}
			if err := w.rs.LoadLatestVersion(); err != nil {
				panic(harnessBug("LoadLatestVersion: " + err.Error()))
			}
			alphabet := []byte{'a', 'b', 'c', 0x00, 0xfe}
			if rapid.IntRange(0, 6).Draw(rt, "ff-mode") == 0 {
				alphabet = append(alphabet, 0xff)
				c.Label("ff-keys")
				c.Opf("alphabet includes ff")
			}
			keygen := rapid.Custom(func(t *rapid.T) []byte {
				n := rapid.IntRange(1, 3).Draw(t, "klen")
				b := make([]byte, n)
				for i := range b {
					b[i] = rapid.SampledFrom(alphabet).Draw(t, "kb")
				}
				return b
			})
			blocks := rapid.IntRange(2, 5).Draw(rt, "blocks")
			for b := 1; b <= blocks; b++ {
				for _, s := range w.subs {
					st := w.rs.GetKVStore(s.key)
					var nops int
					if b == 1 {
						nops = rapid.SampledFrom([]int{0, 1, 2, 3, 4, 6, 9, 14, 25, 40}).Draw(rt, "bulk")
					} else {
						nops = rapid.IntRange(0, 4).Draw(rt, "nops")
					}
					line := fmt.Sprintf("block %d store %s:", b, s.name)
					for i := 0; i < nops; i++ {
						keys := s.work.SortedKeys()
						if b > 1 && len(keys) > 0 && rapid.IntRange(0, 2).Draw(rt, "del") == 0 {
							k := []byte(rapid.SampledFrom(keys).Draw(rt, "dk"))
							line += fmt.Sprintf(" del %x", k)
							_ = st.Delete(k)
							delete(s.work, string(k))
							continue
						}
						var k []byte
						if b > 1 && len(keys) > 0 && rapid.Bool().Draw(rt, "overwrite") {
							k = []byte(rapid.SampledFrom(keys).Draw(rt, "ok"))
						} else {
							k = keygen.Draw(rt, "k")
						}
						v := kv.Value().Draw(rt, "v")
						line += fmt.Sprintf(" set %x=%x", k, v)
						_ = st.Set(k, v)
						s.work[string(k)] = v
					}
					c.Opf("%s", line)
				}
				cid := w.rs.Commit()
				if cid.Version != int64(b) {
					panic(harnessBug(fmt.Sprintf("commit version %d at block %d", cid.Version, b)))
				}
				w.latest = cid.Version
				w.roots[cid.Version] = append([]byte{}, cid.Hash...)
				for _, s := range w.subs {
					s.models[cid.Version] = s.work.Clone()
				}
				c.Opf("commit v%d hash %x", cid.Version, cid.Hash)
			}

			// focus pair: every key
			fs := w.subs[rapid.IntRange(0, len(w.subs)-1).Draw(rt, "focus-store")]
			fv := int64(rapid.IntRange(2, int(w.latest)).Draw(rt, "focus-version"))
			model := fs.models[fv]
			c.Opf("focus store %s v%d (%d keys)", fs.name, fv, len(model))
			if len(model) == 1 {
				c.Label("single-key-store")
			}
			extra := [][]byte{keygen.Draw(rt, "xk1"), keygen.Draw(rt, "xk2"), {0x00}, {0xfe, 0xfe, 0xfe, 0xfe}}
			type verified struct {
				q    *c05Query
				ops  []merkle.ProofOp
				root []byte
			}
			var pool []verified
			outside, between := false, false
			for _, k := range c05QueryKeys(model, extra) {
				q := &c05Query{sub: fs, ver: fv, key: k}
				if v, ok := model[string(k)]; ok {
					q.value, q.class = v, "present"
				} else {
					q.class = c05AbsentClass(model, k)
				}
				ops, root, ok := w.query(q, fv)
				if !ok {
					continue
				}
				c.Label(q.class)
				switch q.class {
				case "absent-between":
					between = true
				case "absent-before-first", "absent-after-last":
					outside = true
				}
				if p, _ := c05DecodeIAVL(ops[0]); p != nil && len(p.Leaves) == 2 {
					c.Label("two-leaf-absence-proof")
				}
				pool = append(pool, verified{q, ops, root})
			}
			if len(model) >= 3 && (between || outside) {
				c.NonTrivial()
			}
			// sample of the other (version, store) pairs (versions >= 2: baseapp refuses proofs at height <= 1)
			for _, s := range w.subs {
				for v := int64(2); v <= w.latest; v++ {
					if s == fs && v == fv {
						continue
					}
					ks := c05QueryKeys(s.models[v], nil)
					if len(ks) == 0 {
						ks = [][]byte{{'a'}}
					}
					for i := 0; i < 2; i++ {
						k := rapid.SampledFrom(ks).Draw(rt, "sample-key")
						q := &c05Query{sub: s, ver: v, key: k, class: "sample"}
						if val, ok := s.models[v][string(k)]; ok {
							q.value = val
						}
						w.query(q, v)
					}
				}
			}
			w.fuzz = func(nops int) (int, int, int) {
				return rapid.IntRange(0, nops-1).Draw(rt, "flip-op"), rapid.IntRange(0, 4095).Draw(rt, "flip-pos"), rapid.IntRange(0, 7).Draw(rt, "flip-bit")
			}
			// soundness battery on 4 drawn verified queries: 2 present and 2 absent keys when available
			var presentPool, absentPool []verified
			for _, pv := range pool {
				if pv.q.value != nil {
					presentPool = append(presentPool, pv)
				} else {
					absentPool = append(absentPool, pv)
				}
			}
			for _, pl := range [][]verified{presentPool, absentPool} {
				if len(pl) == 0 {
					continue
				}
				for i := 0; i < 2; i++ {
					pv := pl[rapid.IntRange(0, len(pl)-1).Draw(rt, "sound-pick")]
					c.Opf("alter proof of %x (%s)", pv.q.key, pv.q.class)
					w.soundness(pv.q, pv.ops, pv.root)
				}
			}
		})
}
